-------------------------------- MODULE Ledger --------------------------------
(***************************************************************************)
(* C01 (conservation), C03 (transaction atomicity, transaction level),     *)
(* C04 (authorisation / replay protection), C02 (producer/validator        *)
(* agreement) — block execution: chain/chainhandle.go (executeTx,          *)
(* blockExecutor, sendRewardCoinbase), consensus/chain/tx.go (GatherTXs),  *)
(* contract/contract.go (Execute), chain/governance.go,                    *)
(* contract/system/staking.go, contract/name.                              *)
(*                                                                         *)
(* Amounts are abstract coins.  The fee of a transaction is NOT predicted   *)
(* (the property does not fix the fee schedule): it is chosen from FeeSet.  *)
(* The specification predicts the CLASS of every transaction               *)
(* (success / runtime error / rejected) and the SHAPE of its effects.      *)
(***************************************************************************)
EXTENDS Integers, Sequences, FiniteSets, TLC, Util

CONSTANTS Users,       \* user accounts
          Contract,    \* one contract account (deployed by a transaction)
          Sys, Name, Vault,   \* system accounts: staking, naming, reward vault
          Coinbase,    \* the block producer's coinbase account or None
          FeeSet,      \* possible fees of one transaction
          InitBal,     \* initial balance of every user
          MinStake,    \* minimum stake
          NamePrice,   \* price of a name
          Reward,      \* voting reward per block (paid from the vault, capped by its balance)
          MaxTxPerBlock, MaxBlocks, TxPool,  \* bounds / the transaction templates offered (records, see MC module)
          NonceModes   \* subset of {"next", "dup", "gap"}

None == "none"
Accts == Users \cup {Contract, Sys, Name, Vault} \cup (IF Coinbase = None THEN {} ELSE {Coinbase})

VARIABLES bal,        \* [Accts -> Nat]
          nonce,      \* [Users -> Nat]
          staked,     \* [Users -> Nat]
          total,      \* recorded total stake
          owner,      \* [n1 |-> owner of the one name "n1", dest |-> the address "n1" stands for, admin |-> owner of the name contract itself (v1setOwner)], Users \cup {None}
          name0,      \* [owner, dest]: the mapping of "n1" COMMITTED by the last finished block = the state at the start of the running block
          deployed,   \* is the contract deployed
          store,      \* contract storage: value of the single key "k" (0 = absent)
          executed,   \* set of transactions executed on this chain (success or error)
          bpReward,   \* fees collected in the current block
          burnt,      \* coins destroyed (only fees, only without coinbase)
          blockNo, inBlock, txCount,
          rcpts,      \* receipts of the current block: sequence of [id, status, fee]
          lastAct

vars == <<bal, nonce, staked, total, owner, name0, deployed, store, executed, bpReward, burnt, blockNo, inBlock, txCount, rcpts, lastAct>>
view == <<bal, nonce, staked, total, owner, name0, deployed, store, executed, bpReward, burnt, blockNo, inBlock, txCount>>

Supply == Cardinality(Users) * InitBal

\* ---------------------------------------------------------------- transactions
\* TxPool holds templates [tid, kind, from, signer, chain, to, amt, ops]; a transaction is a template plus a
\* nonce (next / dup / gap relative to the sender's current nonce) and the id <<tid, nonce>>:
\*   [tid, id, kind, from, signer, chain, nonce, to, amt, ops]
\*   kind: transfer | stake | unstake | vote | name | nameupd | setowner | deploy | call | fdcall | vault
\*   from: a user, or NameId: the transaction names the NAME "n1" as its sender account
\*   signer: the key that signed (= from when honest); chain: "this" | "other"
\*   ops (call): "ok" | "fail" (runtime failure after a storage write and a send) | "sys" (system failure of the VM after the same) | "send" (contract sends amt to `to`)
\*               | "drain" (the called code pays out the contract's WHOLE balance, the amount just received included, to the caller)
\*   ops (from = NameId): "" | a user: the account whose nonce counter the transaction's nonce is taken from (an
\*        adversary who signs for a name picks the nonce freely, e.g. the next nonce of the name's NEW holder)
NameId == "n1"

\* THE RULE FOR NAME SENDERS (chain/signVerifier.go verifyTx, chain/chainhandle.go executeTx, contract/name Resolve /
\* GetOwner, both with useInitial): a block's signatures are verified against, and its sender names are resolved in,
\* the name mapping COMMITTED AT THE START OF THE BLOCK (name0), never the mapping a transaction of the running block
\* wrote.  So a transaction with account "n1"
\*   - is authorised iff it is signed by the key of name0.owner (the registered owner at block start), and
\*   - is executed for (nonce checked and advanced, amount and fee debited) name0.dest, the address the name stood
\*     for in that same state.
\* Owner and executing account are taken from ONE state; that is what makes "signed by the registered owner of the
\* sender name" (C04) mean something: the signer is the owner of the very mapping that selects the debited account.
Sender(t) == IF t.from = NameId THEN name0.dest ELSE t.from       \* the executing account; None: the name stood for nothing
Authorised(t) == /\ t.chain = "this"
                 /\ IF t.from = NameId THEN name0.owner # None /\ t.signer = name0.owner ELSE t.signer = t.from
\* who pays the fee: the called contract for a fee-delegated call, the sender otherwise
Payer(t) == IF t.kind = "fdcall" THEN Contract ELSE Sender(t)

\* What the properties FIX about the class of t: an unauthorised transaction, a wrong nonce or a replay must be
\* rejected (C04).  Whether an authorised transaction succeeds, fails at run time or is rejected (balance, fee
\* schedule, lock periods, contract behaviour ...) is the implementation's business; the specification only
\* demands that the effects have the shape of the class (C03) and conserve coin (C01).
MustReject(t) == ~Authorised(t) \/ Sender(t) = None \/ t.nonce # nonce[Sender(t)] + 1 \/ t \in executed

\* an authorised transaction may take effect only if the abstract state can carry the effect
CanApply(t, fee) ==
  LET S == Sender(t) IN
  /\ bal[S] >= t.amt + (IF Payer(t) = S THEN fee ELSE 0) + (IF t.kind \in {"name", "nameupd"} THEN NamePrice ELSE 0)
  /\ bal[Payer(t)] >= fee
  /\ CASE t.kind = "stake"   -> staked[S] = 0 /\ t.amt >= MinStake
       [] t.kind = "unstake" -> FALSE                      \* inside the staking lock period (heights are small)
       [] t.kind = "vote"    -> staked[S] > 0                 \* (re-votes inside the voting lock period are rejected by the code)
       [] t.kind = "name"    -> owner.n1 = None
       \* v1updateName (contract/name ValidateNameTx, UpdateName): the transaction's account field is the name itself or its
       \* CURRENT owner (in-block state), and the name must be a committed one ("not created yet" otherwise)
       [] t.kind = "nameupd" -> (t.from = NameId \/ owner.n1 = t.from) /\ name0.dest # None
       [] t.kind = "setowner" -> owner.admin = None            \* one shot: anybody may appoint the owner of the name contract
       [] t.kind = "deploy"  -> ~deployed
       [] t.kind = "call"    -> deployed
       [] t.kind = "fdcall"  -> deployed
       [] OTHER              -> TRUE

Classes(t, fee) ==
  IF MustReject(t) THEN {"reject"}
  ELSE {"reject"} \cup (IF ~CanApply(t, fee) THEN {}
                        ELSE IF t.kind \in {"call", "fdcall"} /\ t.ops = "sys" THEN {}   \* the VM itself fails: dropped, no trace
                        ELSE IF t.kind \in {"call", "fdcall"} /\ t.ops = "fail" THEN {"error"}
                        \* contract/contract.go Execute, "check for sufficient balance for fee" AFTER the call: the payer's balance
                        \* as the call left it must cover the fee.  A fee-delegated call that pays the contract's balance out
                        \* leaves nothing to pay a fee with: it fails at run time (the contract, restored, pays the fee).
                        ELSE IF t.kind = "fdcall" /\ t.ops = "drain" /\ fee > 0 THEN {"error"}
                        ELSE {"success"})

\* effects of a successful transaction on balances (fee excluded)
Move(b, from, to, a) == [b EXCEPT ![from] = @ - a, ![to] = @ + a]

NameRcpt == IF owner.admin = None THEN Name ELSE owner.admin
\* the balances after the called code ran: "drain" pays everything the contract holds to the caller
Drained(t, b) == IF t.ops = "drain" THEN Move(b, Contract, Sender(t), b[Contract]) ELSE b

ApplySuccess(t, fee) ==
  LET S == Sender(t) IN
  /\ nonce' = [nonce EXCEPT ![S] = t.nonce]
  /\ executed' = executed \cup {t}
  /\ bpReward' = bpReward + fee
  /\ CASE t.kind = "transfer" ->
            /\ bal' = [Move(bal, S, t.to, t.amt) EXCEPT ![S] = @ - fee]
            /\ UNCHANGED <<staked, total, owner, deployed, store>>
       [] t.kind = "vault" ->
            /\ bal' = [Move(bal, S, Vault, t.amt) EXCEPT ![S] = @ - fee]
            /\ UNCHANGED <<staked, total, owner, deployed, store>>
       [] t.kind = "stake" ->
            /\ bal' = [Move(bal, S, Sys, t.amt) EXCEPT ![S] = @ - fee]
            /\ staked' = [staked EXCEPT ![S] = @ + t.amt] /\ total' = total + t.amt
            /\ UNCHANGED <<owner, deployed, store>>
       [] t.kind = "vote" ->                                 \* tallies only (Governance.tla); no coin moves
            /\ bal' = [bal EXCEPT ![S] = @ - fee]
            /\ UNCHANGED <<staked, total, owner, deployed, store>>
       [] t.kind = "name" ->                                 \* the price goes to the owner of the name contract once there is one
            /\ bal' = [Move(bal, S, NameRcpt, NamePrice) EXCEPT ![S] = @ - fee]
            /\ owner' = [owner EXCEPT !.n1 = S, !.dest = S]                     \* v1createName: owner = destination = the creator
            /\ UNCHANGED <<staked, total, deployed, store>>
       [] t.kind = "nameupd" ->                              \* v1updateName(n1, to), `to` a plain account: owner AND destination become `to`; the price is paid again
            /\ bal' = [Move(bal, S, NameRcpt, NamePrice) EXCEPT ![S] = @ - fee]
            /\ owner' = [owner EXCEPT !.n1 = t.to, !.dest = t.to]
            /\ UNCHANGED <<staked, total, deployed, store>>
       [] t.kind = "setowner" ->                             \* everything the name contract collected so far moves to the new owner
            /\ bal' = [Move(bal, Name, t.to, bal[Name]) EXCEPT ![S] = @ - fee]
            /\ owner' = [owner EXCEPT !.admin = t.to]
            /\ UNCHANGED <<staked, total, deployed, store>>
       [] t.kind = "deploy" ->
            /\ bal' = [bal EXCEPT ![S] = @ - fee]
            /\ deployed' = TRUE
            /\ UNCHANGED <<staked, total, owner, store>>
       [] t.kind = "call" ->
            /\ bal' = [Drained(t, Move(bal, S, Contract, t.amt)) EXCEPT ![S] = @ - fee]
            /\ store' = t.nonce                    \* the call writes the storage key
            /\ UNCHANGED <<staked, total, owner, deployed>>
       [] t.kind = "fdcall" ->                    \* fee-delegated call: the contract pays the fee (out of what the call left it)
            /\ bal' = [Drained(t, Move(bal, S, Contract, t.amt)) EXCEPT ![Contract] = @ - fee]
            /\ store' = t.nonce
            /\ UNCHANGED <<staked, total, owner, deployed>>

\* a transaction that fails at run time: ONLY the fee (charged to the payer) and the SENDER's nonce
ApplyError(t, fee) ==
  LET S == Sender(t) IN
  /\ nonce' = [nonce EXCEPT ![S] = t.nonce]
  /\ executed' = executed \cup {t}
  /\ bal' = [bal EXCEPT ![Payer(t)] = @ - fee]
  /\ bpReward' = bpReward + fee
  /\ UNCHANGED <<staked, total, owner, deployed, store>>

\* ---------------------------------------------------------------- actions
Init ==
  /\ bal = [a \in Accts |-> IF a \in Users THEN InitBal ELSE 0]
  /\ nonce = [u \in Users |-> 0] /\ staked = [u \in Users |-> 0] /\ total = 0
  /\ owner = [n1 |-> None, dest |-> None, admin |-> None] /\ name0 = [owner |-> None, dest |-> None] /\ deployed = FALSE /\ store = 0 /\ executed = {}
  /\ bpReward = 0 /\ burnt = 0 /\ blockNo = 0 /\ inBlock = FALSE /\ txCount = 0 /\ rcpts = <<>>
  /\ lastAct = [name |-> "Init"]

BeginBlock ==
  /\ ~inBlock /\ blockNo < MaxBlocks
  /\ inBlock' = TRUE /\ blockNo' = blockNo + 1 /\ txCount' = 0 /\ rcpts' = <<>>
  /\ UNCHANGED <<bal, nonce, staked, total, owner, name0, deployed, store, executed, bpReward, burnt>>
  /\ lastAct' = [name |-> "BeginBlock"]

\* the account whose nonce counter the nonce of the new transaction is taken from
NonceBase(tpl) == IF tpl.from # NameId THEN tpl.from ELSE IF tpl.ops \in Users THEN tpl.ops ELSE name0.dest
Mk(tpl, nm) ==
  LET n == (IF NonceBase(tpl) = None THEN 0 ELSE nonce[NonceBase(tpl)]) + (CASE nm = "next" -> 1 [] nm = "dup" -> 0 [] nm = "gap" -> 2)
  IN [tid |-> tpl.tid, id |-> <<tpl.tid, n>>, kind |-> tpl.kind, from |-> tpl.from, signer |-> tpl.signer, chain |-> tpl.chain,
      nonce |-> n, to |-> tpl.to, amt |-> tpl.amt, ops |-> tpl.ops]

\* one transaction offered to the block (producer: a rejected one is skipped; validator: it invalidates the block)
Offer(t, fee, how) ==
  /\ inBlock /\ txCount < MaxTxPerBlock
  /\ txCount' = txCount + 1
  /\ \E c \in Classes(t, fee) :
       /\ CASE c = "success" -> ApplySuccess(t, fee) /\ rcpts' = Append(rcpts, [id |-> t.id, status |-> "SUCCESS", fee |-> fee])
            [] c = "error"   -> ApplyError(t, fee)   /\ rcpts' = Append(rcpts, [id |-> t.id, status |-> "ERROR", fee |-> fee])
            [] c = "reject"  -> UNCHANGED <<bal, nonce, staked, total, owner, deployed, store, executed, bpReward, rcpts>>
       /\ lastAct' = [name |-> "Tx", tx |-> t, fee |-> fee, class |-> c, how |-> how]
  /\ UNCHANGED <<burnt, blockNo, inBlock, name0>>

Tx(tpl, nm, fee) == Offer(Mk(tpl, nm), fee, nm)
\* an already executed transaction offered again (replay; also what a reorganisation does when it returns txs)
Replay(t, fee) == t \in executed /\ Offer(t, fee, "replay")

\* end of block: voting reward (vault -> a staker), then the collected fees go to the coinbase or are burnt
EndBlock(winner) ==
  /\ inBlock
  /\ LET r  == IF total > 0 /\ winner \in Users /\ staked[winner] > 0 THEN (IF bal[Vault] < Reward THEN bal[Vault] ELSE Reward) ELSE 0
         b1 == IF r > 0 THEN Move(bal, Vault, winner, r) ELSE bal
     IN IF Coinbase # None /\ bpReward > 0
          THEN bal' = [b1 EXCEPT ![Coinbase] = @ + bpReward] /\ burnt' = burnt
          ELSE bal' = b1 /\ burnt' = burnt + bpReward
  /\ bpReward' = 0 /\ inBlock' = FALSE
  /\ name0' = [owner |-> owner.n1, dest |-> owner.dest]          \* the block is committed: its name mapping is what the next block starts from
  /\ UNCHANGED <<nonce, staked, total, owner, deployed, store, executed, blockNo, txCount, rcpts>>
  /\ lastAct' = [name |-> "EndBlock", winner |-> winner]

Next == BeginBlock
        \/ (\E tpl \in TxPool, nm \in NonceModes, f \in FeeSet : Tx(tpl, nm, f))
        \/ (\E t \in executed, f \in FeeSet : Replay(t, f))
        \/ (\E w \in Users \cup {None} : EndBlock(w))

Spec == Init /\ [][Next]_vars

\* ---------------------------------------------------------------- properties
TypeOK == \A a \in Accts : bal[a] >= 0

\* C01: every unit debited is credited exactly once; the only sink is fee burning without a coinbase
Conservation == SumFun(bal) + bpReward + burnt = Supply
BurnOnlyWithoutCoinbase == (Coinbase # None) => burnt = 0
BurnIsFees == [][burnt' # burnt => /\ Coinbase = None
                                   /\ burnt' - burnt = bpReward]_vars

\* C03: exactly one of three outcomes
Trichotomy ==
  [][lastAct'.name = "Tx" =>
       LET t == lastAct'.tx  f == lastAct'.fee  c == lastAct'.class IN
         /\ c \in {"success", "error", "reject"}
         /\ c = "reject" => /\ bal' = bal /\ nonce' = nonce /\ staked' = staked /\ total' = total /\ owner' = owner
                            /\ deployed' = deployed /\ store' = store /\ bpReward' = bpReward /\ rcpts' = rcpts
         /\ c = "error"  => /\ bal' = [bal EXCEPT ![Payer(t)] = @ - f] /\ nonce' = [nonce EXCEPT ![Sender(t)] = t.nonce]
                            /\ staked' = staked /\ total' = total /\ owner' = owner /\ deployed' = deployed /\ store' = store
                            /\ bpReward' = bpReward + f]_vars

\* C04: only authorised transactions with the exact next nonce change state; no tx id is executed twice
OnlyAuthorised ==
  [][(lastAct'.name = "Tx" /\ lastAct'.class # "reject") =>
        /\ Authorised(lastAct'.tx) /\ Sender(lastAct'.tx) # None
        /\ lastAct'.tx.nonce = nonce[Sender(lastAct'.tx)] + 1 /\ lastAct'.tx \notin executed]_vars
NonceSequential == [][\A u \in Users : nonce'[u] \in {nonce[u], nonce[u] + 1}]_vars
\* C04, name senders: a transaction whose sender account is the name takes effect only when it is signed by the key of
\* the owner REGISTERED IN THE STATE THE BLOCK STARTS FROM, and then the only user whose nonce moves or whose balance
\* goes down is the address the name stood for in that same state -- never the party a transaction of the running
\* block handed the name to (who signed nothing), never a third party
NameSenderNeedsOwnerKey ==
  [][(lastAct'.name = "Tx" /\ lastAct'.class # "reject" /\ lastAct'.tx.from = NameId) =>
        /\ name0.owner # None /\ lastAct'.tx.signer = name0.owner /\ name0.dest # None
        /\ \A u \in Users : (nonce'[u] # nonce[u] \/ bal'[u] < bal[u]) => u = name0.dest]_vars
\* the committed mapping changes only when a block ends
CommittedNameStable == [][name0' # name0 => lastAct'.name = "EndBlock"]_vars

\* C15 (part): the recorded total is the sum of the stakes and the balance of the staking account
StakeAccounting == total = SumFun(staked) /\ bal[Sys] = total
=============================================================================
