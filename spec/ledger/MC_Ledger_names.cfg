SPECIFICATION Spec
CONSTANTS
  Users = {"u1", "u2"}
  Contract = "c1"
  Sys = "sys"
  Name = "name"
  Vault = "vault"
  Coinbase = "cb"
  FeeSet = {0, 1}
  InitBal = 6
  MinStake = 2
  NamePrice = 1
  Reward = 1
  MaxTxPerBlock = 2
  MaxBlocks = 3
  TxPool <- PoolNames
  NonceModes <- AllModes
VIEW view
INVARIANTS TypeOK Conservation BurnOnlyWithoutCoinbase StakeAccounting
PROPERTIES BurnIsFees Trichotomy OnlyAuthorised NonceSequential NameSenderNeedsOwnerKey CommittedNameStable
CHECK_DEADLOCK FALSE
