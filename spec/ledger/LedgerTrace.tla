----------------------------- MODULE LedgerTrace -----------------------------
(***************************************************************************)
(* Trace validation for C01/C03/C04: per-transaction effect SHAPES observed *)
(* on the real executor (harness/internal/verifnode/verif_ledger_test.go). *)
(* The harness expresses every balance change of every account of the      *)
(* complete trie as a*amount + f*fee with a, f in {-1,0,1}; the trace spec *)
(* demands the shapes the ledger specification allows:                     *)
(*   reject  : no change at all                                            *)
(*   error   : only the payer: -fee (nothing when the fee is zero)          *)
(*   success : the coefficients of the amount cancel, the fee leaves       *)
(*             exactly one account once (it is collected for the producer) *)
(* and C04: an unauthorised transaction is rejected.                       *)
(* ("from" is the sender ACCOUNT of the transaction, which may be the name  *)
(* n1; "sender" and "payer" are the accounts it is executed for / charged:  *)
(* a name sender stands for the address the name had at block start)        *)
(* {"ev":"Tx","kind":..,"from":..,"sender":..,"payer":..,"auth":b,         *)
(*  "class":..,                                                            *)
(*  "shape":[{who,a,f}],                                                   *)
(*  "feepos":b,"amtpos":b,"included":b}                                    *)
(***************************************************************************)
EXTENDS Integers, Sequences, FiniteSets, TLC, Json

TraceLog == ndJsonDeserialize("trace.ndjson")

VARIABLES l, inBlock, txs   \* position, inside a block, number of executed txs in the block

tvars == <<l, inBlock, txs>>
ToSet(s) == {s[i] : i \in DOMAIN s}

RECURSIVE SumA(_), SumF(_)
SumA(S) == IF S = {} THEN 0 ELSE LET x == CHOOSE y \in S : TRUE IN x.a + SumA(S \ {x})
SumF(S) == IF S = {} THEN 0 ELSE LET x == CHOOSE y \in S : TRUE IN x.f + SumF(S \ {x})

ShapeOK(e) ==
  LET S == ToSet(e.shape) IN
  CASE e.class = "reject"  -> S = {}
    [] e.class = "error"   -> IF e.feepos THEN S = {[who |-> e.payer, a |-> 0, f |-> -1]} ELSE S = {}
    [] e.class = "success" -> /\ SumA(S) = 0
                              /\ SumF(S) = (IF e.feepos THEN -1 ELSE 0)
                              /\ \A x \in S : x.f <= 0            \* nobody is credited a fee inside a transaction
    [] OTHER -> FALSE

Init == l = 1 /\ inBlock = FALSE /\ txs = 0

Step ==
  /\ l <= Len(TraceLog)
  /\ LET e == TraceLog[l] IN
       CASE e.ev = "Reset"      -> inBlock' = FALSE /\ txs' = 0
         [] e.ev = "BeginBlock" -> ~inBlock /\ inBlock' = TRUE /\ txs' = 0
         [] e.ev = "EndBlock"   -> inBlock /\ inBlock' = FALSE /\ txs' = txs
         [] e.ev = "Tx"         -> /\ (~e.auth => e.class = "reject")        \* C04
                                   /\ ShapeOK(e)                             \* C03 / C01
                                   /\ (e.included => inBlock /\ e.class # "reject")
                                   /\ inBlock' = inBlock /\ txs' = IF e.class = "reject" THEN txs ELSE txs + 1
         [] OTHER -> FALSE
  /\ l' = l + 1

TraceSpec == Init /\ [][Step]_tvars
TraceAccepted == TLCGet("stats").diameter - 1 = Len(TraceLog)
=============================================================================
