------------------------------ MODULE MC_Ledger ------------------------------
EXTENDS Ledger

T(tid, kind, from, signer, chain, to, amt, ops) ==
  [tid |-> tid, kind |-> kind, from |-> from, signer |-> signer, chain |-> chain, to |-> to, amt |-> amt, ops |-> ops]

\* small pool for the exhaustive design check
PoolSmall == {
  T("xfer",     "transfer", "u1", "u1", "this",  "u2", 2, ""),
  T("over",     "transfer", "u2", "u2", "this",  "u1", 50, ""),
  T("forged",   "transfer", "u2", "u1", "this",  "u1", 1, ""),
  T("foreign",  "transfer", "u1", "u1", "other", "u2", 1, ""),
  T("stake",    "stake",    "u1", "u1", "this",  "sys", 3, ""),
  T("stakelow", "stake",    "u2", "u2", "this",  "sys", 1, ""),
  T("name",     "name",     "u2", "u2", "this",  "name", 0, ""),
  T("vault",    "vault",    "u2", "u2", "this",  "vault", 2, ""),
  T("deploy",   "deploy",   "u1", "u1", "this",  "c1", 0, ""),
  T("callok",   "call",     "u2", "u2", "this",  "c1", 1, "ok"),
  T("callfail", "call",     "u1", "u1", "this",  "c1", 1, "fail"),
  T("fdok",     "fdcall",   "u2", "u2", "this",  "c1", 0, "ok"),
  T("fdfail",   "fdcall",   "u1", "u1", "this",  "c1", 0, "fail"),
  \* the name as SENDER account.  "name" above registers n1 for u2; nameupd hands it over to u1.
  T("nameupd",  "nameupd",  "u2", "u2", "this",  "u1", 0, ""),
  T("nxfer2",   "transfer", "n1", "u2", "this",  "u1", 1, ""),     \* signed by u2: the owner, after nameupd the PREVIOUS owner
  T("nxfer1",   "transfer", "n1", "u1", "this",  "u2", 1, ""),     \* signed by u1: a stranger, after nameupd the NEW owner
  T("nxfer2as1","transfer", "n1", "u2", "this",  "u2", 1, "u1")    \* signed by u2 with the next nonce of u1 (the party the name is handed to)
}

\* larger pool for generation by simulation (3 users)
PoolGen == PoolSmall \cup {
  T("xfer3",    "transfer", "u3", "u3", "this",  "u1", 3, ""),
  T("xferself", "transfer", "u3", "u3", "this",  "u3", 1, ""),
  T("unstake",  "unstake",  "u1", "u1", "this",  "sys", 1, ""),
  T("stake3",   "stake",    "u3", "u3", "this",  "sys", 4, ""),
  T("name3",    "name",     "u3", "u3", "this",  "name", 0, ""),
  T("forged3",  "stake",    "u3", "u2", "this",  "sys", 3, ""),
  T("callfail3","call",     "u3", "u3", "this",  "c1", 2, "fail"),
  T("xfercb",   "transfer", "u1", "u1", "this",  "cb", 1, ""),
  T("vote1",    "vote",     "u1", "u1", "this",  "sys", 0, ""),
  T("vote3",    "vote",     "u3", "u3", "this",  "sys", 0, ""),
  T("fdfail3",  "fdcall",   "u3", "u3", "this",  "c1", 0, "fail"),
  T("callsys",  "call",     "u2", "u2", "this",  "c1", 1, "sys"),
  T("fdsys",    "fdcall",   "u3", "u3", "this",  "c1", 0, "sys"),
  T("setownself","setowner","u2", "u2", "this",  "u2", 0, ""),
  T("setownoth", "setowner","u3", "u3", "this",  "u1", 0, ""),
  T("nameupd3", "nameupd",  "u3", "u3", "this",  "u2", 0, ""),     \* (after name3) u3 hands n1 over to u2
  T("nameupdbk","nameupd",  "u1", "u1", "this",  "u2", 0, ""),     \* u1 hands it (back) to u2
  T("nameupdn", "nameupd",  "n1", "u2", "this",  "u3", 0, ""),     \* v1updateName sent FROM the name, signed by u2: n1 goes to u3
  T("nxfer3",   "transfer", "n1", "u3", "this",  "u1", 2, ""),     \* signed by u3: a stranger unless name3 / nameupdn made u3 the owner
  T("nxfer1as2","transfer", "n1", "u1", "this",  "u3", 1, "u2"),   \* signed by u1 with the next nonce of u2
  T("nxfer3as2","transfer", "n1", "u3", "this",  "u3", 1, "u2"),   \* signed by u3 with the next nonce of u2
  T("nxferfor", "transfer", "n1", "u2", "other", "u1", 1, ""),     \* signed by the owner but bound to another chain
  T("ncall2",   "call",     "n1", "u2", "this",  "c1", 1, "fail"), \* a failing call from the name: fee and nonce of the resolved account only
  \* calls whose code pays the contract's whole balance out to the caller: the payer of a fee-delegated one is left with nothing
  T("fddrain",  "fdcall",   "u2", "u2", "this",  "c1", 0, "drain"),
  T("fddrain3", "fdcall",   "u3", "u3", "this",  "c1", 0, "drain"),
  T("calldrain","call",     "u1", "u1", "this",  "c1", 0, "drain"),
  T("calldrain2","call",    "u2", "u2", "this",  "c1", 1, "drain")
}
\* small pools for the exhaustive design checks of name senders (3 blocks: register, hand over, use) and of draining calls
PoolNames == {t \in PoolGen : t.tid \in {"name", "nameupd", "nxfer2", "nxfer1", "nxfer2as1", "nameupdbk", "xfer"}}
PoolDrain == {t \in PoolGen : t.tid \in {"deploy", "callok", "fddrain", "calldrain2"}}
NextOnly == {"next"}
AllModes == {"next", "dup", "gap"}
GenView == [bal |-> bal, nonce |-> nonce, staked |-> staked, total |-> total, owner |-> owner, name0 |-> name0, deployed |-> deployed,
            store |-> store, bpReward |-> bpReward, burnt |-> burnt, blockNo |-> blockNo, inBlock |-> inBlock]
=============================================================================
