--------------------------- MODULE MC_Governance ---------------------------
EXTENDS Governance, Json

\* ---- constants of the configurations (sets of sets / functions cannot be written in a .cfg)
A1 == {"a1"}
A2 == {"a1", "a2"}
A3 == {"a1", "a2", "a3"}
\* candidates: c2 and c3 are "twins": ids that differ only in the bytes the code's tie-break ignores
C3 == {"c1", "c2", "c3"}
C3Key == [c \in C3 |-> CASE c = "c1" -> 1 [] c = "c2" -> 2 [] c = "c3" -> 2]
C3Id  == [c \in C3 |-> CASE c = "c1" -> 1 [] c = "c2" -> 2 [] c = "c3" -> 3]
VS4 == {{}, {"c1"}, {"c1", "c2"}, {"c2", "c3"}}
VS6 == {{}, {"c1"}, {"c2"}, {"c3"}, {"c1", "c2"}, {"c2", "c3"}}
\* candidates without twins (design-level checks)
C2 == {"c1", "c2"}
C2Key == [c \in C2 |-> IF c = "c1" THEN 1 ELSE 2]
VS3 == {{}, {"c1"}, {"c1", "c2"}}

D1 == {"STAKINGMIN"}
D1Vals == [i \in D1 |-> {0, 10000, 20000}]      \* 0: never acceptable (ValidVal)
D2 == {"STAKINGMIN", "NAMEPRICE"}
D2Vals == [i \in D2 |-> IF i = "STAKINGMIN" THEN {0, 10000, 20000} ELSE {0, 2}]
D0 == {}
D0Vals == [i \in D0 |-> {}]

N0 == {}
N1 == {"n1"}
N2 == {"n1", "n2"}
Defaults == [p \in ParamIds |-> CASE p = "BPCOUNT" -> 3 [] p = "STAKINGMIN" -> 10000 [] p = "GASPRICE" -> 50 [] p = "NAMEPRICE" -> 1]

viewAbs == view

\* generation: every transition printed once ("TR|" + JSON [src, action, dst]), the alphabet printed once ("OPS|...").
\* The printed state carries the ranking the specification demands, so that the harness need not recompute it.
genState == [h |-> height, nops |-> nops, sys |-> sysBal, nb |-> nameBal, total |-> total,
             acct |-> [a \in Accts |-> [bal |-> bal[a], amt |-> stake[a].amt, when |-> stake[a].when, ever |-> stake[a].ever,
                                        vpr |-> vpr[a], vote |-> vote[a]]],
             tally |-> tally, vtotal |-> voteTotal, param |-> param, pnext |-> paramNext, names |-> names,
             rank |-> [i \in Issues |-> Ranking(i)],
             \* identifies the node as long as a DiscardBlock (which leads back to it) is still possible
             bs |-> IF ndisc < MaxDiscards THEN blockStart ELSE <<>>]
GenLog == PrintT("TR|" \o ToJson(<<genState, lastAct', genState'>>))
ASSUME PrintT("OPS|" \o ToJson(Ops))
=============================================================================
