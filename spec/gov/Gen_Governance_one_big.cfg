\* generation (thorough tier), deep single-account histories: as Gen_Governance_one.cfg with 6 transactions
SPECIFICATION Spec
CONSTANTS
  Accts <- A1
  Cands <- C3
  CandKey <- C3Key
  CandId <- C3Id
  BpVoteSets <- VS4
  DaoIssues <- D1
  DaoVals <- D1Vals
  Names <- N0
  StakeAmts = {10000, 20000}
  PayAmts = {}
  XferAmts = {}
  InitBal = 30001
  DefaultParam <- Defaults
  StakingDelay = 2
  VotingDelay = 2
  MaxHeight = 7
  MaxDiscards = 0
  MaxOps = 6
VIEW viewAbs
ACTION_CONSTRAINT GenLog
CHECK_DEADLOCK FALSE
