-------------------------- MODULE GovernanceTrace ---------------------------
(***************************************************************************)
(* Trace validation for C15: histories executed by the random driver of    *)
(* harness/contract/name on the real system / name contracts are checked   *)
(* against Governance.tla.  Heights are real block numbers here            *)
(* (StakingDelay = VotingDelay = 86400), amounts are AERGO.                *)
(* One ndjson line per event:                                              *)
(*  {"ev":"Reset","h":n,"obs":S}          a new history on a fresh state   *)
(*  {"ev":"Tx","op":O,"ok":b,"obs":S}     a transaction; ok=false: refused *)
(*  {"ev":"Block","h":n,"restart":b,"obs":S}  block boundary, next block n *)
(* S is the state READ BACK from the real node after the event (stakes,    *)
(* votes, tallies, stored ranking, totals, balances, parameters in force    *)
(* and pending, names, in-memory voting powers).                           *)
(* A transaction the node accepted must be enabled in the specification    *)
(* and lead to exactly the observed state; one it refused must be disabled *)
(* in the specification and leave the observed state unchanged.            *)
(*  {"ev":"Discard","obs":S}   the block under construction failed: its      *)
(*                             state is dropped, CommitParams(false)         *)
(***************************************************************************)
EXTENDS Governance, Json

TraceLog == ndJsonDeserialize("trace.ndjson")

VARIABLES l        \* next line of the trace
tvars == <<vars, l>>

\* ---- constants of the random driver (must agree with checks/c15.py RCFG)
TA == {"a1", "a2", "a3", "a4", "a5", "a6"}
TC == {"c1", "c2", "c3", "c4", "c5"}
TCKey == [c \in TC |-> CASE c = "c1" -> 1 [] c = "c2" -> 2 [] c = "c3" -> 2 [] c = "c4" -> 3 [] c = "c5" -> 3]
TCId  == [c \in TC |-> CASE c = "c1" -> 1 [] c = "c2" -> 2 [] c = "c3" -> 3 [] c = "c4" -> 4 [] c = "c5" -> 5]
TBp == SUBSET TC
TD == {"BPCOUNT", "STAKINGMIN", "GASPRICE", "NAMEPRICE"}
\* 0 and BPCOUNT 101 are values validateById refuses
TDVals == [i \in TD |-> CASE i = "BPCOUNT" -> {0, 2, 5, 101} [] i = "STAKINGMIN" -> {0, 5000, 10000, 20000}
                          [] i = "GASPRICE" -> {0, 50, 100} [] i = "NAMEPRICE" -> {0, 2, 3}]
TN == {"n1", "n2", "n3"}
TDefaults == [p \in ParamIds |-> CASE p = "BPCOUNT" -> 3 [] p = "STAKINGMIN" -> 10000 [] p = "GASPRICE" -> 50 [] p = "NAMEPRICE" -> 1]

ToSet(s) == {s[k] : k \in DOMAIN s}

\* the model-level operation of a logged transaction
OpOf(o) ==
  CASE o.name = "Stake"      -> [name |-> "Stake", a |-> o.a, x |-> o.x]
    [] o.name = "Unstake"    -> [name |-> "Unstake", a |-> o.a, x |-> o.x]
    [] o.name = "VoteBP"     -> [name |-> "VoteBP", a |-> o.a, cs |-> ToSet(o.cs)]
    [] o.name = "VoteDAO"    -> [name |-> "VoteDAO", a |-> o.a, i |-> o.i, v |-> o.v]
    [] o.name = "NameCreate" -> [name |-> "NameCreate", a |-> o.a, n |-> o.n, p |-> o.p]
    [] o.name = "NameUpdate" -> [name |-> "NameUpdate", a |-> o.a, n |-> o.n, to |-> o.to, p |-> o.p]
    [] o.name = "Transfer"   -> [name |-> "Transfer", a |-> o.a, to |-> o.to, x |-> o.x]

WellFormed(op) ==
  /\ op.a \in Accts
  /\ op.name = "VoteBP" => op.cs \subseteq Cands
  /\ op.name = "VoteDAO" => op.i \in DaoIssues /\ op.v \in DaoVals[op.i]
  /\ op.name \in {"NameCreate", "NameUpdate"} => op.n \in Names
  /\ op.name \in {"NameUpdate", "Transfer"} => op.to \in Accts

\* the observed state equals the (already determined) next state of the specification
ObsMatch(o) ==
  /\ height' = o.h /\ sysBal' = o.sys /\ nameBal' = o.nb /\ total' = o.total
  /\ \A a \in Accts :
       LET x == o.acct[a] IN
         /\ bal'[a] = x.bal /\ stake'[a].amt = x.amt /\ stake'[a].ever = x.ever
         /\ (x.ever => stake'[a].when = x.when)
         /\ vpr'[a] = x.vpr
         /\ \A i \in Issues : /\ vote'[a][i].set = x.vote[i].set
                              /\ vote'[a][i].amt = x.vote[i].amt
                              /\ vote'[a][i].cands = ToSet(x.vote[i].cands)
  /\ \A i \in Issues :
       /\ {p.c : p \in ToSet(o.tally[i])} = CandsOf(i)
       /\ \A p \in ToSet(o.tally[i]) : tally'[i][p.c] = p.t
       /\ RankingOf(tally'[i], i) = o.rank[i]      \* the stored ranking, exactly in the order the specification demands
  /\ \A i \in DaoIssues : voteTotal'[i] = o.vtotal[i]
  /\ \A p \in ParamIds : param'[p] = o.param[p] /\ paramNext'[p] = o.pnext[p]
  /\ \A n \in Names : /\ names'[n].owner = o.names[n].owner
                      /\ names'[n].dest = o.names[n].dest
                      /\ o.names[n].comm = (names'[n].owner # None /\ names'[n].born < height')

TraceInit == Init /\ l = 1

TraceReset ==
  /\ l <= Len(TraceLog) /\ TraceLog[l].ev = "Reset"
  /\ height' = TraceLog[l].h /\ nops' = 0
  /\ bal' = [a \in Accts |-> InitBal]
  /\ sysBal' = 0 /\ nameBal' = 0 /\ total' = 0
  /\ stake' = [a \in Accts |-> [amt |-> 0, when |-> 0, ever |-> FALSE]]
  /\ vote' = [a \in Accts |-> [i \in Issues |-> NoVote]]
  /\ tally' = [i \in Issues |-> [c \in CandsOf(i) |-> Absent]]
  /\ voteTotal' = [i \in DaoIssues |-> 0]
  /\ param' = DefaultParam
  /\ paramNext' = [p \in ParamIds |-> Absent]
  /\ names' = [n \in Names |-> [owner |-> None, dest |-> None, born |-> 0]]
  /\ vpr' = [a \in Accts |-> 0]
  /\ ndisc' = 0
  /\ blockStart' = absv'
  /\ lastAct' = [name |-> "Reset"]
  /\ ObsMatch(TraceLog[l].obs)
  /\ l' = l + 1

TraceTx ==
  /\ l <= Len(TraceLog) /\ TraceLog[l].ev = "Tx"
  /\ LET e  == TraceLog[l]
         op == OpOf(e.op)
     IN /\ WellFormed(op)
        /\ IF e.ok THEN Do(op) /\ nops' = nops /\ height' = height /\ UNCHANGED <<blockStart, ndisc>> /\ lastAct' = op
                   ELSE Refuse(op)
        /\ ObsMatch(e.obs)
  /\ l' = l + 1

TraceBlock ==
  /\ l <= Len(TraceLog) /\ TraceLog[l].ev = "Block"
  /\ Advance(TraceLog[l].h, TraceLog[l].restart)
  /\ ObsMatch(TraceLog[l].obs)
  /\ l' = l + 1

\* a block without transactions may fail as well: nothing to restore then
TraceDiscard ==
  /\ l <= Len(TraceLog) /\ TraceLog[l].ev = "Discard"
  /\ IF absv # blockStart THEN DiscardBlock
                           ELSE UNCHANGED vars
  /\ ObsMatch(TraceLog[l].obs)
  /\ l' = l + 1

TraceNext == TraceReset \/ TraceTx \/ TraceBlock \/ TraceDiscard
TraceSpec == TraceInit /\ [][TraceNext]_tvars

TraceAccepted == TLCGet("stats").diameter - 1 = Len(TraceLog)
=============================================================================
