----------------------------- MODULE Governance -----------------------------
(***************************************************************************)
(* C15 - governance accounting of the Aergo system and name contracts      *)
(* (contract/system/{staking,vote,voteresult,validation,param,vprt}.go,    *)
(* contract/name/{name,execute}.go, types/vote.go).                        *)
(*                                                                         *)
(* All amounts are in AERGO (1 AERGO = 10^18 aer; the harness multiplies). *)
(* Heights are model heights; the harness maps height h to block number    *)
(* h * (86400 / StakingDelay), so that "when + delay > blockNo" of the     *)
(* code is exactly "when + StakingDelay > height" here.                    *)
(*                                                                         *)
(* One action per governance transaction as executed by                    *)
(* chain.executeGovernanceTx (ExecuteSystemTx / ExecuteNameTx): a          *)
(* transaction is either executed completely or refused without any        *)
(* effect (the block factory rolls the block state back).  NextBlock is    *)
(* the block boundary (state commit + system.CommitParams(true)).          *)
(*                                                                         *)
(* Deliberate oddities of the code that are modelled as they are:          *)
(*  - one timestamp `when` per account, shared by stake, unstake and ALL   *)
(*    votes (every one of them resets it and is delayed by it);            *)
(*  - staking more does not enlarge existing votes, unstaking shrinks      *)
(*    only the votes that exceed the remaining stake (refreshAllVote);     *)
(*  - a candidate once voted for stays in the ranking with tally 0;        *)
(*  - a BP vote record with no candidates and amount 0 serialises to the   *)
(*    empty string and is therefore "no vote" again;                       *)
(*  - parameter votes: the winner becomes the parameter of the NEXT block  *)
(*    when its tally reaches total*100/tally <= 150 (about 2/3), and the   *)
(*    staking total used by an unstake's refresh is the one BEFORE the     *)
(*    unstake is subtracted;                                               *)
(*  - a name cannot be updated in the block that created it                *)
(*    (UpdateName reads the state as of the last block boundary).          *)
(***************************************************************************)
EXTENDS Integers, Sequences, FiniteSets, TLC, Util

CONSTANTS
  Accts,         \* user accounts
  Cands,         \* block-producer candidates
  CandKey,       \* [Cands -> Int]: the part of a candidate id the code's tie-break looks at (id bytes [7:])
  CandId,        \* [Cands -> Int]: injective; order of the complete id bytes (the total tie-break the property demands)
  BpVoteSets,    \* candidate sets a voteBP transaction may carry (subset of SUBSET Cands)
  DaoIssues,     \* parameter-vote issues in use, subset of ParamIds
  DaoVals,       \* [DaoIssues -> SUBSET Int]: values proposed for each issue
  Names,         \* names of the name registry
  StakeAmts,     \* amounts of stake / unstake transactions
  PayAmts,       \* amounts sent along with name transactions
  XferAmts,      \* amounts of plain transfers
  InitBal,       \* initial balance of every account
  DefaultParam,  \* [ParamIds -> Int]
  StakingDelay, VotingDelay,
  MaxHeight,     \* exploration bound: last block height
  MaxOps,        \* exploration bound: number of transactions
  MaxDiscards    \* exploration bound: number of failed (discarded) blocks

ParamIds == {"BPCOUNT", "STAKINGMIN", "GASPRICE", "NAMEPRICE"}   \* GASPRICE in gaer, BPCOUNT a number, the others AERGO
Issues   == {"BP"} \cup DaoIssues
None     == "none"
Absent   == 0 - 1      \* tally of a candidate that was never voted for / no pending parameter

VARIABLES
  height,     \* current block height
  nops,       \* transactions so far (exploration bound only)
  ndisc,      \* failed blocks so far (exploration bound only)
  bal,        \* [Accts -> Int]
  sysBal,     \* balance of aergo.system
  nameBal,    \* balance of aergo.name
  stake,      \* [Accts -> [amt, when, ever]]   ever: a staking record exists
  total,      \* recorded staking total
  vote,       \* [Accts -> [Issues -> [set, cands, amt]]]
  tally,      \* [Issues -> [candidates -> Int \cup {Absent}]]
  voteTotal,  \* [DaoIssues -> Int]  recorded sum of the vote amounts of a parameter vote
  param,      \* [ParamIds -> Int]   parameters in force in this block
  paramNext,  \* [ParamIds -> Int \cup {Absent}]  parameters decided in this block, in force from the next
  names,      \* [Names -> [owner, dest, born]]
  vpr,        \* [Accts -> Int]  voting power (in memory == persisted buckets)
  blockStart, \* the abstract state (absv) as of the last block boundary = the state of the last connected block
  lastAct

vars == <<height, nops, ndisc, bal, sysBal, nameBal, stake, total, vote, tally, voteTotal, param, paramNext, names, vpr, blockStart, lastAct>>
absv == [height |-> height, bal |-> bal, sysBal |-> sysBal, nameBal |-> nameBal, stake |-> stake, total |-> total,
         vote |-> vote, tally |-> tally, voteTotal |-> voteTotal, param |-> param, paramNext |-> paramNext,
         names |-> names, vpr |-> vpr]
\* blockStart matters for the future only while a DiscardBlock is still possible
view == <<absv, IF ndisc < MaxDiscards THEN blockStart ELSE <<>>, nops, ndisc>>

CandsOf(i) == IF i = "BP" THEN Cands ELSE DaoVals[i]
NoVote == [set |-> FALSE, cands |-> {}, amt |-> 0]

\* ------------------------------------------------------------------ ranking
KeyOf(i, c) == IF i = "BP" THEN CandKey[c] ELSE c
IdOf(i, c)  == IF i = "BP" THEN CandId[c] ELSE c
\* c ranks before d: larger tally first, then the smaller key, then the smaller complete id
Before(t, i, c, d) == \/ t[c] > t[d]
                      \/ t[c] = t[d] /\ KeyOf(i, c) < KeyOf(i, d)
                      \/ t[c] = t[d] /\ KeyOf(i, c) = KeyOf(i, d) /\ IdOf(i, c) < IdOf(i, d)
RECURSIVE RankSeq(_, _, _)
RankSeq(t, i, S) == IF S = {} THEN <<>>
                    ELSE LET top == CHOOSE c \in S : \A d \in S \ {c} : Before(t, i, c, d)
                         IN <<top>> \o RankSeq(t, i, S \ {top})
Listed(t, i)  == {c \in CandsOf(i) : t[c] # Absent}
RankingOf(t, i) == RankSeq(t, i, Listed(t, i))
Ranking(i)    == RankingOf(tally[i], i)

\* ------------------------------------------------------------------ helpers
VoteAmtSum(v, a) == SumSet([i \in Issues |-> v[a][i].amt], Issues)

\* tally after replacing the vote (oc, oa) by (nc, na)
Retally(t, oc, oa, nc, na) ==
  [c \in DOMAIN t |->
     LET base == IF t[c] = Absent THEN (IF c \in nc THEN 0 ELSE Absent) ELSE t[c]
     IN IF base = Absent THEN Absent
        ELSE base - (IF c \in oc THEN oa ELSE 0) + (IF c \in nc THEN na ELSE 0)]

\* a BP vote record without candidates and with amount 0 is the empty string: no record
Exists(i, cs, amt) == i # "BP" \/ cs # {} \/ amt > 0

\* voteresult.go threshold(): total / (power / 100) <= 150 on aer amounts == (T * 100) \div P <= 150 on AERGO amounts
Reached(T, P) == P > 0 /\ (T * 100) \div P <= 150
\* the parameter decided by the tally t of issue i with staking total T (Absent: none)
Decide(t, i, T) == LET r == RankingOf(t, i)
                   IN IF r # <<>> /\ Reached(T, t[r[1]]) THEN r[1] ELSE Absent

\* ------------------------------------------------------------------ guards (validation.go, name/execute.go)
Locked(a)  == stake[a].ever /\ stake[a].when + StakingDelay > height
VLocked(a, i) == vote[a][i].set /\ stake[a].when + VotingDelay > height

CanStake(a, x)   == /\ bal[a] >= x
                    /\ ~Locked(a)
                    /\ stake[a].amt + x >= param["STAKINGMIN"]
CanUnstake(a, x) == /\ stake[a].amt > 0
                    /\ stake[a].amt >= x
                    /\ ~Locked(a)
                    /\ (stake[a].amt - x = 0 \/ stake[a].amt - x >= param["STAKINGMIN"])
CanVote(a, i)    == stake[a].amt > 0 /\ ~VLocked(a, i)
\* validation.go validateById: a proposed parameter value is positive (0 is never accepted: a gas price or a BP count of
\* 0 would make the node divide by zero), BPCOUNT at most 100 (the other upper bound, MaxAER, is not modelled)
ValidVal(i, v)   == v > 0 /\ (i = "BPCOUNT" => v <= 100)
CanVoteDao(a, i, v) == ValidVal(i, v) /\ CanVote(a, i)
CanCreate(a, n, p)     == bal[a] >= p /\ p >= param["NAMEPRICE"] /\ names[n].owner = None
CanUpdate(a, n, to, p) == bal[a] >= p /\ p >= param["NAMEPRICE"] /\ names[n].owner = a /\ names[n].born < height
CanTransfer(a, b, x)   == a # b /\ bal[a] >= x

\* ------------------------------------------------------------------ the transaction alphabet
Ops == {[name |-> "Stake", a |-> a, x |-> x] : a \in Accts, x \in StakeAmts}
  \cup {[name |-> "Unstake", a |-> a, x |-> x] : a \in Accts, x \in StakeAmts}
  \cup {[name |-> "VoteBP", a |-> a, cs |-> cs] : a \in Accts, cs \in BpVoteSets}
  \cup UNION {{[name |-> "VoteDAO", a |-> a, i |-> i, v |-> v] : a \in Accts, v \in DaoVals[i]} : i \in DaoIssues}
  \cup {[name |-> "NameCreate", a |-> a, n |-> n, p |-> p] : a \in Accts, n \in Names, p \in PayAmts}
  \cup {[name |-> "NameUpdate", a |-> a, n |-> n, to |-> to, p |-> p] : a \in Accts, n \in Names, to \in Accts, p \in PayAmts}
  \cup {op \in {[name |-> "Transfer", a |-> a, to |-> to, x |-> x] : a \in Accts, to \in Accts, x \in XferAmts} : op.a # op.to}

Can(op) ==
  CASE op.name = "Stake"      -> CanStake(op.a, op.x)
    [] op.name = "Unstake"    -> CanUnstake(op.a, op.x)
    [] op.name = "VoteBP"     -> CanVote(op.a, "BP")
    [] op.name = "VoteDAO"    -> CanVoteDao(op.a, op.i, op.v)
    [] op.name = "NameCreate" -> CanCreate(op.a, op.n, op.p)
    [] op.name = "NameUpdate" -> CanUpdate(op.a, op.n, op.to, op.p)
    [] op.name = "Transfer"   -> CanTransfer(op.a, op.to, op.x)

\* ------------------------------------------------------------------ actions
Init ==
  /\ height = 1 /\ nops = 0 /\ ndisc = 0
  /\ bal = [a \in Accts |-> InitBal]
  /\ sysBal = 0 /\ nameBal = 0 /\ total = 0
  /\ stake = [a \in Accts |-> [amt |-> 0, when |-> 0, ever |-> FALSE]]
  /\ vote = [a \in Accts |-> [i \in Issues |-> NoVote]]
  /\ tally = [i \in Issues |-> [c \in CandsOf(i) |-> Absent]]
  /\ voteTotal = [i \in DaoIssues |-> 0]
  /\ param = DefaultParam
  /\ paramNext = [p \in ParamIds |-> Absent]
  /\ names = [n \in Names |-> [owner |-> None, dest |-> None, born |-> 0]]
  /\ vpr = [a \in Accts |-> 0]
  /\ blockStart = absv
  /\ lastAct = [name |-> "Init"]

\* staking.go stakeCmd.run
Stake(a, x) ==
  /\ CanStake(a, x)
  /\ stake' = [stake EXCEPT ![a] = [amt |-> @.amt + x, when |-> height, ever |-> TRUE]]
  /\ total' = total + x
  /\ sysBal' = sysBal + x
  /\ bal' = [bal EXCEPT ![a] = @ - x]
  /\ UNCHANGED <<nameBal, vote, tally, voteTotal, param, paramNext, names, vpr>>

\* staking.go unstakeCmd.run + vote.go refreshAllVote
Unstake(a, x) ==
  /\ CanUnstake(a, x)
  /\ LET rest   == stake[a].amt - x
         shrink == {i \in Issues : vote[a][i].set /\ vote[a][i].amt > rest}
         nv     == [i \in Issues |-> IF i \in shrink
                                       THEN [set |-> Exists(i, vote[a][i].cands, rest), cands |-> vote[a][i].cands, amt |-> rest]
                                       ELSE vote[a][i]]
         nt     == [i \in Issues |-> IF i \in shrink
                                       THEN Retally(tally[i], vote[a][i].cands, vote[a][i].amt, vote[a][i].cands, rest)
                                       ELSE tally[i]]
     IN /\ stake' = [stake EXCEPT ![a] = [amt |-> rest, when |-> height, ever |-> TRUE]]
        /\ vote' = [vote EXCEPT ![a] = nv]
        /\ tally' = nt
        /\ voteTotal' = [i \in DaoIssues |-> IF i \in shrink THEN voteTotal[i] - vote[a][i].amt + rest ELSE voteTotal[i]]
        \* every refreshed parameter vote is re-evaluated against the staking total BEFORE this unstake
        /\ paramNext' = [p \in ParamIds |-> IF p \in shrink /\ Decide(nt[p], p, total) # Absent
                                              THEN Decide(nt[p], p, total) ELSE paramNext[p]]
        /\ vpr' = [vpr EXCEPT ![a] = VoteAmtSum([vote EXCEPT ![a] = nv], a)]
  /\ total' = total - x
  /\ sysBal' = sysBal - x
  /\ bal' = [bal EXCEPT ![a] = @ + x]
  /\ UNCHANGED <<nameBal, param, names>>

\* vote.go voteCmd.run (BP election and parameter votes)
CastVote(a, i, cs) ==
  /\ CanVote(a, i)
  /\ LET old == vote[a][i]
         amt == stake[a].amt
         nt  == Retally(tally[i], old.cands, old.amt, cs, amt)
     IN /\ vote' = [vote EXCEPT ![a][i] = [set |-> Exists(i, cs, amt), cands |-> cs, amt |-> amt]]
        /\ tally' = [tally EXCEPT ![i] = nt]
        /\ vpr' = [vpr EXCEPT ![a] = @ - old.amt + amt]
        /\ IF i = "BP"
             THEN UNCHANGED <<voteTotal, paramNext>>
             ELSE /\ voteTotal' = [voteTotal EXCEPT ![i] = @ - old.amt + amt]
                  /\ paramNext' = IF Decide(nt, i, total) # Absent
                                    THEN [paramNext EXCEPT ![i] = Decide(nt, i, total)] ELSE paramNext
  /\ stake' = [stake EXCEPT ![a].when = height]
  /\ UNCHANGED <<bal, sysBal, nameBal, total, param, names>>

VoteBP(a, cs)     == CastVote(a, "BP", cs)
VoteDAO(a, i, v)  == ValidVal(i, v) /\ CastVote(a, i, {v})

\* name/execute.go: create
NameCreate(a, n, p) ==
  /\ CanCreate(a, n, p)
  /\ names' = [names EXCEPT ![n] = [owner |-> a, dest |-> a, born |-> height]]
  /\ bal' = [bal EXCEPT ![a] = @ - p]
  /\ nameBal' = nameBal + p
  /\ UNCHANGED <<sysBal, stake, total, vote, tally, voteTotal, param, paramNext, vpr>>

\* name/execute.go: update = hand the name (ownership and destination) over to `to`
NameUpdate(a, n, to, p) ==
  /\ CanUpdate(a, n, to, p)
  /\ names' = [names EXCEPT ![n] = [owner |-> to, dest |-> to, born |-> @.born]]
  /\ bal' = [bal EXCEPT ![a] = @ - p]
  /\ nameBal' = nameBal + p
  /\ UNCHANGED <<sysBal, stake, total, vote, tally, voteTotal, param, paramNext, vpr>>

Transfer(a, b, x) ==
  /\ CanTransfer(a, b, x)
  /\ bal' = [bal EXCEPT ![a] = @ - x, ![b] = @ + x]
  /\ UNCHANGED <<sysBal, nameBal, stake, total, vote, tally, voteTotal, param, paramNext, names, vpr>>

Do(op) ==
  \/ op.name = "Stake"      /\ Stake(op.a, op.x)
  \/ op.name = "Unstake"    /\ Unstake(op.a, op.x)
  \/ op.name = "VoteBP"     /\ VoteBP(op.a, op.cs)
  \/ op.name = "VoteDAO"    /\ VoteDAO(op.a, op.i, op.v)
  \/ op.name = "NameCreate" /\ NameCreate(op.a, op.n, op.p)
  \/ op.name = "NameUpdate" /\ NameUpdate(op.a, op.n, op.to, op.p)
  \/ op.name = "Transfer"   /\ Transfer(op.a, op.to, op.x)

\* an accepted transaction
Tx(op) == /\ nops < MaxOps
          /\ Do(op)
          /\ nops' = nops + 1
          /\ height' = height
          /\ UNCHANGED <<blockStart, ndisc>>
          /\ lastAct' = op

\* a refused transaction changes nothing (used by the trace specification; a stuttering step for TLC)
Refuse(op) == /\ ~Can(op)
              /\ UNCHANGED <<height, nops, bal, sysBal, nameBal, stake, total, vote, tally, voteTotal, param, paramNext, names, vpr, blockStart, ndisc>>
              /\ lastAct' = [name |-> "Refused", op |-> op]

\* block boundary: the state is committed, the parameters decided in the block come into force.
\* restart = TRUE: the node is restarted here (in-memory voting power rank and parameters reloaded
\* from the committed state) - invisible in the abstract state.
Advance(h2, restart) ==
  /\ h2 > height /\ h2 <= MaxHeight
  /\ height' = h2
  /\ param' = [p \in ParamIds |-> IF paramNext[p] # Absent THEN paramNext[p] ELSE param[p]]
  /\ paramNext' = [p \in ParamIds |-> Absent]
  /\ UNCHANGED <<nops, ndisc, bal, sysBal, nameBal, stake, total, vote, tally, voteTotal, names, vpr>>
  /\ blockStart' = absv'
  /\ lastAct' = [name |-> "NextBlock", restart |-> restart]
NextBlock(restart) == Advance(height + 1, restart)

\* The block being executed fails validation (chain.executeBlock returns an error and calls cs.Update(bestBlock)):
\* its block state is dropped, i.e. the state is the one of the last connected block again, the in-memory voting
\* power rank is reloaded from that state and the parameter values decided by votes of the failed block - which
\* live only in memory until the block boundary - are forgotten (system.CommitParams(false)).  Whatever block
\* follows starts from exactly the state of the last connected block.
DiscardBlock ==
  /\ ndisc < MaxDiscards
  /\ ndisc' = ndisc + 1
  /\ absv # blockStart          \* at least one transaction was executed in the block
  /\ height' = blockStart.height /\ bal' = blockStart.bal /\ sysBal' = blockStart.sysBal /\ nameBal' = blockStart.nameBal
  /\ stake' = blockStart.stake /\ total' = blockStart.total /\ vote' = blockStart.vote /\ tally' = blockStart.tally
  /\ voteTotal' = blockStart.voteTotal /\ names' = blockStart.names /\ vpr' = blockStart.vpr
  /\ param' = blockStart.param
  /\ paramNext' = [p \in ParamIds |-> Absent]
  /\ UNCHANGED <<nops, blockStart>>
  /\ lastAct' = [name |-> "DiscardBlock"]

Next == (\E op \in Ops : Tx(op)) \/ (\E r \in BOOLEAN : NextBlock(r)) \/ DiscardBlock

Spec == Init /\ [][Next]_vars

\* ------------------------------------------------------------------ invariants
TypeOK ==
  /\ height \in 1..MaxHeight /\ nops \in 0..MaxOps
  /\ \A a \in Accts : bal[a] >= 0 /\ stake[a].amt >= 0 /\ vpr[a] >= 0
  /\ \A a \in Accts : stake[a].when <= height
  /\ \A a \in Accts, i \in Issues : vote[a][i].cands \subseteq CandsOf(i) /\ vote[a][i].amt >= 0
  /\ \A i \in Issues : \A c \in CandsOf(i) : tally[i][c] >= Absent
  /\ \A p \in ParamIds : param[p] > 0

\* the recorded total is the sum of the stakes and the balance of the system account
TotalIsSum == /\ total = SumSet([a \in Accts |-> stake[a].amt], Accts)
              /\ total = sysBal
\* nothing is created or destroyed
Conservation == SumFun(bal) + sysBal + nameBal = Cardinality(Accts) * InitBal

\* a candidate's tally is the sum of the vote amounts of the accounts currently voting for it
TallyIsSumOfVotes ==
  \A i \in Issues : \A c \in CandsOf(i) :
    LET voters == {a \in Accts : vote[a][i].set /\ c \in vote[a][i].cands}
    IN IF tally[i][c] = Absent THEN voters = {}
       ELSE tally[i][c] = SumSet([a \in Accts |-> vote[a][i].amt], voters)
VoteTotalIsSum == \A i \in DaoIssues : voteTotal[i] = SumSet([a \in Accts |-> vote[a][i].amt], Accts)
\* no recorded vote amount exceeds the stake
VoteLeStake == \A a \in Accts, i \in Issues : vote[a][i].amt <= stake[a].amt
\* a vote that is not set has no weight
UnsetIsEmpty == \A a \in Accts, i \in Issues : ~vote[a][i].set => vote[a][i].amt = 0 /\ vote[a][i].cands = {}
\* voting power = sum of the account's vote amounts over all issues
VprIsVotes == \A a \in Accts : vpr[a] = VoteAmtSum(vote, a)
\* the ranking lists exactly the candidates ever voted for, in tally order under the total tie-break
RankingIsSorted ==
  \A i \in Issues :
    LET r == Ranking(i)
    IN /\ Len(r) = Cardinality(Listed(tally[i], i))
       /\ \A k \in 1..Len(r) : r[k] \in Listed(tally[i], i)
       /\ \A k \in 1..(Len(r) - 1) : Before(tally[i], i, r[k], r[k + 1])
\* a name has an owner iff it has a destination
NameWellFormed == \A n \in Names : (names[n].owner = None) = (names[n].dest = None)
\* the parameters in force are the ones recorded in the state of the last connected block (no value decided in a
\* block that was not connected is ever in force), and nothing is pending at a block boundary
ParamMemEqualsState == /\ param = blockStart.param
                       /\ blockStart.height = height
                       /\ \A p \in ParamIds : blockStart.paramNext[p] = Absent
\* no parameter is ever 0 (nor is a 0 pending)
ParamsPositive == \A p \in ParamIds : param[p] > 0 /\ paramNext[p] # 0

\* ------------------------------------------------------------------ action properties
IsTx(n) == lastAct'.name = n
\* stake / unstake only outside the lock period, result zero or at least the minimum, exact amounts
LockPeriods ==
  [][/\ (IsTx("Stake") \/ IsTx("Unstake")) => ~Locked(lastAct'.a)
     /\ IsTx("VoteBP") => ~VLocked(lastAct'.a, "BP")
     /\ IsTx("VoteDAO") => ~VLocked(lastAct'.a, lastAct'.i)]_vars
MinStake ==
  [][(IsTx("Stake") \/ IsTx("Unstake")) =>
       LET s == stake'[lastAct'.a].amt IN s = 0 \/ s >= param["STAKINGMIN"]]_vars
UnstakeExact ==
  [][IsTx("Unstake") =>
       LET a == lastAct'.a  x == lastAct'.x
       IN /\ bal'[a] = bal[a] + x /\ stake'[a].amt = stake[a].amt - x
          /\ total' = total - x /\ sysBal' = sysBal - x
          /\ \A b \in Accts \ {a} : bal'[b] = bal[b] /\ stake'[b] = stake[b] /\ vote'[b] = vote[b]]_vars
StakeExact ==
  [][IsTx("Stake") =>
       LET a == lastAct'.a  x == lastAct'.x
       IN bal'[a] = bal[a] - x /\ stake'[a].amt = stake[a].amt + x /\ total' = total + x /\ sysBal' = sysBal + x]_vars
\* a name changes only by a create of a free name or an update by its current owner, and only for the price
NameOnlyByOwner ==
  [][\A n \in Names : names'[n] # names[n] =>
        \/ IsTx("NameCreate") /\ lastAct'.n = n /\ names[n].owner = None /\ names'[n].owner = lastAct'.a
        \/ IsTx("NameUpdate") /\ lastAct'.n = n /\ names[n].owner = lastAct'.a
        \/ IsTx("DiscardBlock")]_vars
NamePricePaid ==
  [][(IsTx("NameCreate") \/ IsTx("NameUpdate")) =>
        /\ nameBal' - nameBal >= param["NAMEPRICE"]
        /\ bal'[lastAct'.a] = bal[lastAct'.a] - (nameBal' - nameBal)]_vars
\* votes and stakes of an account change only by its own transactions
OnlyOwnTx ==
  [][\A a \in Accts : (stake'[a] # stake[a] \/ vote'[a] # vote[a] \/ vpr'[a] # vpr[a]) =>
        \/ lastAct'.name \in {"Stake", "Unstake", "VoteBP", "VoteDAO"} /\ lastAct'.a = a
        \/ IsTx("DiscardBlock")]_vars
\* parameters change only at block boundaries and only to a value decided by a parameter vote
ParamsAtBoundary ==
  [][param' # param => lastAct'.name = "NextBlock" /\ \A p \in ParamIds : param'[p] # param[p] => param'[p] = paramNext[p]]_vars
\* a parameter value is pending only through a winning vote executed in the block under construction
PendingOnlyByVote ==
  [][\A p \in ParamIds : (paramNext'[p] # paramNext[p] /\ paramNext'[p] # Absent) =>
        (IsTx("VoteDAO") /\ lastAct'.i = p) \/ IsTx("Unstake")]_vars
\* a failed block leaves exactly the state of the last connected block, nothing pending
DiscardRestores ==
  [][IsTx("DiscardBlock") => absv' = blockStart /\ blockStart' = blockStart]_vars
=============================================================================
