SPECIFICATION TraceSpec
CONSTANTS
  Accts <- TA
  Cands <- TC
  CandKey <- TCKey
  CandId <- TCId
  BpVoteSets <- TBp
  DaoIssues <- TD
  DaoVals <- TDVals
  Names <- TN
  StakeAmts = {}
  PayAmts = {}
  XferAmts = {}
  InitBal = 100000
  DefaultParam <- TDefaults
  StakingDelay = 86400
  VotingDelay = 86400
  MaxHeight = 2000000000
  MaxDiscards = 1000000
  MaxOps = 1
INVARIANTS TypeOK TotalIsSum Conservation TallyIsSumOfVotes VoteTotalIsSum VoteLeStake UnsetIsEmpty VprIsVotes RankingIsSorted NameWellFormed ParamMemEqualsState ParamsPositive
POSTCONDITION TraceAccepted
CHECK_DEADLOCK FALSE
