\* generation, deep single-account histories: one account, 3 candidates (c2, c3 twins), one parameter vote, no names, 5 transactions, 6 heights
SPECIFICATION Spec
CONSTANTS
  Accts <- A1
  Cands <- C3
  CandKey <- C3Key
  CandId <- C3Id
  BpVoteSets <- VS4
  DaoIssues <- D1
  DaoVals <- D1Vals
  Names <- N0
  StakeAmts = {10000, 20000}
  PayAmts = {}
  XferAmts = {}
  InitBal = 30001
  DefaultParam <- Defaults
  StakingDelay = 2
  VotingDelay = 2
  MaxHeight = 6
  MaxDiscards = 0
  MaxOps = 5
VIEW viewAbs
ACTION_CONSTRAINT GenLog
CHECK_DEADLOCK FALSE
