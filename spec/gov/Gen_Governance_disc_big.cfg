\* generation (thorough tier), failed blocks: the 2-account model of Gen_Governance.cfg with one DiscardBlock
SPECIFICATION Spec
CONSTANTS
  Accts <- A2
  Cands <- C3
  CandKey <- C3Key
  CandId <- C3Id
  BpVoteSets <- VS4
  DaoIssues <- D1
  DaoVals <- D1Vals
  Names <- N1
  StakeAmts = {10000, 20000}
  PayAmts = {0, 1}
  XferAmts = {}
  InitBal = 30001
  DefaultParam <- Defaults
  StakingDelay = 2
  VotingDelay = 2
  MaxHeight = 5
  MaxDiscards = 1
  MaxOps = 3
VIEW viewAbs
ACTION_CONSTRAINT GenLog
CHECK_DEADLOCK FALSE
