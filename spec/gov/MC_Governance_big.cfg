\* thorough design check: 3 accounts, 3 candidates (c2, c3 twins), two parameter votes, one name, transfers, 4 transactions, 5 heights
SPECIFICATION Spec
CONSTANTS
  Accts <- A3
  Cands <- C3
  CandKey <- C3Key
  CandId <- C3Id
  BpVoteSets <- VS4
  DaoIssues <- D2
  DaoVals <- D2Vals
  Names <- N1
  StakeAmts = {10000, 20000}
  PayAmts = {1, 2}
  XferAmts = {15000}
  InitBal = 30001
  DefaultParam <- Defaults
  StakingDelay = 2
  VotingDelay = 2
  MaxHeight = 5
  MaxDiscards = 1
  MaxOps = 4
VIEW viewAbs
INVARIANTS TypeOK TotalIsSum Conservation TallyIsSumOfVotes VoteTotalIsSum VoteLeStake UnsetIsEmpty VprIsVotes RankingIsSorted NameWellFormed ParamMemEqualsState ParamsPositive
PROPERTIES LockPeriods MinStake UnstakeExact StakeExact NameOnlyByOwner NamePricePaid OnlyOwnTx ParamsAtBoundary PendingOnlyByVote DiscardRestores
CHECK_DEADLOCK FALSE
