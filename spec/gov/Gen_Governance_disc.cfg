\* generation (quick tier), failed blocks: one account, one DiscardBlock, 4 transactions, 5 heights
SPECIFICATION Spec
CONSTANTS
  Accts <- A1
  Cands <- C3
  CandKey <- C3Key
  CandId <- C3Id
  BpVoteSets <- VS4
  DaoIssues <- D1
  DaoVals <- D1Vals
  Names <- N0
  StakeAmts = {10000, 20000}
  PayAmts = {}
  XferAmts = {}
  InitBal = 30001
  DefaultParam <- Defaults
  StakingDelay = 2
  VotingDelay = 2
  MaxHeight = 5
  MaxDiscards = 1
  MaxOps = 4
VIEW viewAbs
ACTION_CONSTRAINT GenLog
CHECK_DEADLOCK FALSE
