\* generation (thorough tier): 2 accounts, 3 candidates with all 6 vote sets, two parameter votes (STAKINGMIN, NAMEPRICE), one name, transfers, 3 transactions
SPECIFICATION Spec
CONSTANTS
  Accts <- A2
  Cands <- C3
  CandKey <- C3Key
  CandId <- C3Id
  BpVoteSets <- VS6
  DaoIssues <- D2
  DaoVals <- D2Vals
  Names <- N1
  StakeAmts = {10000, 20000}
  PayAmts = {1, 2}
  XferAmts = {15000}
  InitBal = 30001
  DefaultParam <- Defaults
  StakingDelay = 2
  VotingDelay = 2
  MaxHeight = 5
  MaxOps = 3
VIEW viewAbs
ACTION_CONSTRAINT GenLog
CHECK_DEADLOCK FALSE
