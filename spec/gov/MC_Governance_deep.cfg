\* thorough design check, deep: the quick model with 6 transactions
SPECIFICATION Spec
CONSTANTS
  Accts <- A2
  Cands <- C3
  CandKey <- C3Key
  CandId <- C3Id
  BpVoteSets <- VS4
  DaoIssues <- D1
  DaoVals <- D1Vals
  Names <- N1
  StakeAmts = {10000, 20000}
  PayAmts = {0, 1}
  XferAmts = {}
  InitBal = 30001
  DefaultParam <- Defaults
  StakingDelay = 2
  VotingDelay = 2
  MaxHeight = 5
  MaxDiscards = 0
  MaxOps = 6
VIEW viewAbs
INVARIANTS TypeOK TotalIsSum Conservation TallyIsSumOfVotes VoteTotalIsSum VoteLeStake UnsetIsEmpty VprIsVotes RankingIsSorted NameWellFormed ParamMemEqualsState ParamsPositive
PROPERTIES LockPeriods MinStake UnstakeExact StakeExact NameOnlyByOwner NamePricePaid OnlyOwnTx ParamsAtBoundary PendingOnlyByVote DiscardRestores
CHECK_DEADLOCK FALSE
