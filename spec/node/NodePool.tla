------------------------------- MODULE NodePool -------------------------------
(***************************************************************************)
(* C04 / C13 -- the COMPOSITION of the chain service and the transaction   *)
(* pool: chain/chainhandle.go (addBlock, executeBlock -> notifyEvents ->   *)
(* MemPoolDel), chain/reorg.go (rollforward -> MemPoolDel per new block,   *)
(* swapTxMapping -> MemPoolPut of the transactions of abandoned blocks),   *)
(* mempool/mempool.go (put, removeOnBlockArrival, get),                    *)
(* consensus/chain/tx.go (GatherTXs: the producer takes what the pool      *)
(* offers).  Neither ChainDB.tla (no pool) nor Mempool.tla (faked chain    *)
(* state) covers the loop  chain -> pool -> producer -> chain.             *)
(*                                                                         *)
(* Granularity: one action per message the node handles while nothing else *)
(* runs (a submitted transaction, an arriving block, one production round);*)
(* every state is QUIESCENT: the chain service is idle and the pool has    *)
(* handled every MemPoolDel / MemPoolPut of the step.                      *)
(*                                                                         *)
(* The block universe is a constant tree (as in ChainDB.tla) plus the      *)
(* blocks the node produces itself (`prod`).  A transaction is an id with  *)
(* TxAcc[t] / TxNonce[t]; two ids with the same account and nonce are      *)
(* different transactions (different hashes).                              *)
(*                                                                         *)
(* INTENDED DESIGN.  The pool is modelled as what the properties demand:   *)
(* a set of transactions that is, after every step, filtered by the        *)
(* account nonces of the best block.  The code reaches this through a view *)
(* of its own (mp.stateDB, moved by every MemPoolDel) and per-list bases   *)
(* (Mempool.tla models those); where the two differ at a quiescent point   *)
(* the replay on the real node reports it.  Deliberate simplifications:    *)
(*  - no orphan blocks (a block arrives after its parent), no duplicates,  *)
(*    no LIB: those are ChainDB.tla's subject;                             *)
(*  - balances never bind (plain transfers of dust between rich accounts); *)
(*  - a roll-forward that hits an invalid block leaves chain AND pool as   *)
(*    they were (without orphans the valid prefix of the new branch is     *)
(*    never longer than the old chain, so ChainDB.tla's "longest valid     *)
(*    prefix wins" cannot apply).                                          *)
(***************************************************************************)
EXTENDS Integers, Sequences, FiniteSets, TLC, Util

CONSTANTS Blocks,       \* block names of the constant tree, including the genesis block G
          G,
          Parent,       \* [Blocks \ {G} -> Blocks]
          BTxs,         \* [Blocks -> SUBSET Tx]   (BTxs[G] = {})
          Tx,           \* all transaction ids (tree transactions and client-only transactions)
          TxAcc,        \* [Tx -> Accounts]
          TxNonce,      \* [Tx -> 1..]
          Accounts,
          ValidChoices, \* candidate validity assignments (subsets of Blocks \ {G}); one is picked in Init
          Submittable,  \* the transactions clients may submit
          MaxSub,       \* how often one transaction may be submitted
          PNames,       \* sequence of names for locally produced blocks; its length bounds production
          Observing     \* TRUE: `obs` carries the derived observation (generation/simulation); FALSE: design checks

VARIABLES valid,    \* tree blocks that execute correctly on their parent's state (fixed in Init)
          store,    \* blocks found by hash (main chain, side branches, own blocks)
          best,     \* best block
          nonce,    \* [Accounts -> Nat]: account nonces in the state of the best block
          pool,     \* set of pooled transactions (ready and held aside)
          prod,     \* sequence of [parent, txs]: the blocks produced locally, PNames[k] = prod[k]
          arrived,  \* tree blocks that have arrived
          subs,     \* [Submittable -> Nat] number of submissions
          obs,      \* derived observation of the new state (function of the other variables; for the replay)
          lastAct

vars == <<valid, store, best, nonce, pool, prod, arrived, subs, obs, lastAct>>
view == <<valid, store, best, nonce, pool, prod, arrived, subs>>

\* ---------------------------------------------------------------- the block universe (tree + own blocks)
PIdx(pr, b) == CHOOSE k \in 1..Len(pr) : PNames[k] = b
Par(pr, b)  == IF b \in Blocks THEN Parent[b] ELSE pr[PIdx(pr, b)].parent
TxsB(pr, b) == IF b \in Blocks THEN BTxs[b] ELSE pr[PIdx(pr, b)].txs

RECURSIVE Anc(_, _)         \* b and all its ancestors
Anc(pr, b) == IF b = G THEN {G} ELSE {b} \cup Anc(pr, Par(pr, b))
RECURSIVE No(_, _)
No(pr, b) == IF b = G THEN 0 ELSE No(pr, Par(pr, b)) + 1

TxsOfSet(pr, S)  == UNION {TxsB(pr, x) : x \in S}
ChainTxs(pr, b)  == TxsOfSet(pr, Anc(pr, b))
\* the account nonces after executing the chain that ends in b
NonceAt(pr, b)   == [a \in Accounts |-> Cardinality({t \in ChainTxs(pr, b) : TxAcc[t] = a})]

\* every block of the tree carries, for each account, the nonces that continue its parent's chain
TreeOK ==
  /\ BTxs[G] = {}
  /\ \A b \in Blocks \ {G} : \A a \in Accounts :
       LET n0 == NonceAt(<<>>, Parent[b])[a]
           mine == {t \in BTxs[b] : TxAcc[t] = a}
       IN /\ {TxNonce[t] : t \in mine} = (n0 + 1)..(n0 + Cardinality(mine))
          /\ \A t \in mine : t \notin ChainTxs(<<>>, Parent[b])
ASSUME TreeOK
ASSUME Submittable \subseteq Tx

\* ---------------------------------------------------------------- the pool
SameSlot(t, u) == TxAcc[t] = TxAcc[u] /\ TxNonce[t] = TxNonce[u]

\* removeOnBlockArrival / FilterByState: everything at or below the account nonce goes
Filter(P, nn) == {t \in P : TxNonce[t] > nn[TxAcc[t]]}

\* admission (TxVerifier.Receive -> put): already pooled by hash, nonce too low, slot taken, else accepted
\* (a nonce beyond state+1 is accepted and held aside)
Admit(P, nn, t) == IF t \in P THEN "dup"
                   ELSE IF TxNonce[t] <= nn[TxAcc[t]] THEN "low"
                   ELSE IF \E u \in P : SameSlot(t, u) THEN "samenonce"
                   ELSE "ok"
Put(P, nn, t) == IF Admit(P, nn, t) = "ok" THEN P \cup {t} ELSE P

\* the MemPoolPut messages of swapTxMapping, one by one (the code sends them in map order)
RECURSIVE PutAll(_, _, _)
PutAll(P, nn, S) == IF S = {} THEN P
                    ELSE LET t == CHOOSE x \in S : TRUE IN PutAll(Put(P, nn, t), nn, S \ {t})

\* the run the pool offers a producer for account a: nonces nn[a]+1, nn[a]+2, ... while pooled
Ready(P, nn, a) == {t \in P : /\ TxAcc[t] = a
                              /\ \A n \in (nn[a] + 1)..TxNonce[t] : \E u \in P : TxAcc[u] = a /\ TxNonce[u] = n}
ReadyAll(P, nn) == UNION {Ready(P, nn, a) : a \in Accounts}

\* ---------------------------------------------------------------- observation
MainTxAt(pr, b) == [t \in ChainTxs(pr, b) |-> CHOOSE x \in Anc(pr, b) : t \in TxsB(pr, x)]
Observe(pr, b, P, nn) == IF Observing THEN [ready |-> ReadyAll(P, nn), maintx |-> MainTxAt(pr, b), no |-> No(pr, b)]
                         ELSE [ready |-> {}, maintx |-> <<>>, no |-> 0]

\* ---------------------------------------------------------------- actions
\* a client hands a transaction to the pool (MemPoolPut through the verifier actor)
Submit(t) ==
  /\ t \in Submittable /\ subs[t] < MaxSub
  /\ subs' = [subs EXCEPT ![t] = @ + 1]
  /\ pool' = Put(pool, nonce, t)
  /\ UNCHANGED <<valid, store, best, nonce, prod, arrived>>
  /\ obs' = Observe(prod, best, pool', nonce)
  /\ lastAct' = [name |-> "Submit", tx |-> t, res |-> Admit(pool, nonce, t)]

\* the new branch, ascending, stops being executable at its first invalid block
ValidPrefix(new) == {x \in new : \A y \in new : No(prod, y) <= No(prod, x) => y \in valid}

\* a block of the tree arrives from the network (its parent is known: no orphans here)
Arrive(b) ==
  /\ b \in Blocks \ {G} /\ b \notin arrived /\ Parent[b] \in store
  /\ arrived' = arrived \cup {b}
  /\ UNCHANGED <<valid, prod, subs>>
  /\ IF Parent[b] = best THEN
        IF b \in valid THEN
             \* executeBlock + connectToChain; MemPoolDel(b): the pool drops b's transactions and everything stale
             LET nn == NonceAt(prod, b) IN
             /\ store' = store \cup {b} /\ best' = b /\ nonce' = nn
             /\ pool' = Filter(pool, nn)
             /\ lastAct' = [name |-> "Arrive", blk |-> b, res |-> "connect", returned |-> {}, told |-> {}]
        ELSE \* execution fails: nothing is stored, nothing is told to the pool
             /\ UNCHANGED <<store, best, nonce, pool>>
             /\ lastAct' = [name |-> "Arrive", blk |-> b, res |-> "error", returned |-> {}, told |-> {}]
     ELSE
        /\ store' = store \cup {b}                        \* side branch: stored unvalidated
        /\ IF No(prod, b) <= No(prod, best) THEN
             /\ UNCHANGED <<best, nonce, pool>>
             /\ lastAct' = [name |-> "Arrive", blk |-> b, res |-> "side", returned |-> {}, told |-> {}]
           ELSE LET new == Anc(prod, b) \ Anc(prod, best)       \* blocks to roll forward
                    old == Anc(prod, best) \ Anc(prod, b)       \* abandoned blocks
                IN IF new \subseteq valid THEN
                     \* rollback, rollforward (MemPoolDel per new block), swapTxMapping (MemPoolPut per tx of an
                     \* abandoned block that is not on the adopted branch)
                     LET nn      == NonceAt(prod, b)
                         oldOnly == TxsOfSet(prod, old) \ TxsOfSet(prod, new)
                     IN /\ best' = b /\ nonce' = nn
                        /\ pool' = PutAll(Filter(pool, nn), nn, oldOnly)
                        /\ lastAct' = [name |-> "Arrive", blk |-> b, res |-> "reorg", returned |-> oldOnly, told |-> new]
                   ELSE \* the roll-forward hits an invalid block: chain, state and pool stay on the old tip
                        \* (`told`: the valid prefix the code has already announced to the pool)
                     /\ UNCHANGED <<best, nonce, pool>>
                     /\ lastAct' = [name |-> "Arrive", blk |-> b, res |-> "reorgfail", returned |-> {}, told |-> ValidPrefix(new)]
  /\ obs' = Observe(prod, best', pool', nonce')

\* one production round: the block factory fetches what the pool offers (MemPoolGet), executes it on the best
\* block's state, and the node connects its own block (MemPoolDel as for any connected block)
Produce ==
  /\ Len(prod) < Len(PNames)
  /\ LET p   == PNames[Len(prod) + 1]
         txs == ReadyAll(pool, nonce)
         pr  == Append(prod, [parent |-> best, txs |-> txs])
         nn  == [a \in Accounts |-> nonce[a] + Cardinality(Ready(pool, nonce, a))]
     IN /\ prod' = pr /\ store' = store \cup {p} /\ best' = p /\ nonce' = nn
        /\ pool' = Filter(pool, nn)
        /\ obs' = Observe(pr, p, pool', nn)
        /\ lastAct' = [name |-> "Produce", blk |-> p, txs |-> txs]
  /\ UNCHANGED <<valid, arrived, subs>>

Init ==
  /\ valid \in ValidChoices
  /\ store = {G} /\ best = G /\ nonce = [a \in Accounts |-> 0] /\ pool = {} /\ prod = <<>>
  /\ arrived = {} /\ subs = [t \in Submittable |-> 0]
  /\ obs = Observe(<<>>, G, {}, [a \in Accounts |-> 0])
  /\ lastAct = [name |-> "Init"]

Next == (\E t \in Submittable : Submit(t)) \/ (\E b \in Blocks : Arrive(b)) \/ Produce

Spec == Init /\ [][Next]_vars

\* ---------------------------------------------------------------- properties
AllBlocks == Blocks \cup {PNames[k] : k \in 1..Len(prod)}
Main      == Anc(prod, best)
MainTxs   == ChainTxs(prod, best)

TypeOK == /\ store \subseteq AllBlocks /\ best \in store /\ Main \subseteq store
          /\ pool \subseteq Tx /\ valid \subseteq Blocks /\ arrived \subseteq Blocks
          /\ Main \cap Blocks \subseteq valid \cup {G}

\* the account nonces are those of the executed main chain
StateIsMainChain == nonce = NonceAt(prod, best)

\* C13: no pooled transaction has a nonce at or below its account's nonce in the state of the best block
NoStalePooled == \A t \in pool : TxNonce[t] > nonce[TxAcc[t]]
\* C13: never two pooled transactions with the same account and nonce
NoDupSlot == \A t, u \in pool : SameSlot(t, u) => t = u
\* C13: what a producer is offered is, per account, exactly nonce+1 .. nonce+k without a gap, and everything
\* else of that account lies beyond a gap
ReadyRunsGapFree ==
  \A a \in Accounts :
    LET r == Ready(pool, nonce, a) IN
    /\ {TxNonce[t] : t \in r} = (nonce[a] + 1)..(nonce[a] + Cardinality(r))
    /\ \A t \in pool : TxAcc[t] = a /\ t \notin r => TxNonce[t] > nonce[a] + Cardinality(r) + 1
\* C04/C13: an executed transaction is not offered again
NoPooledTxOnMainChain == pool \cap MainTxs = {}

\* C04: along the main chain (tree blocks AND own blocks, whatever reorganisations happened) every account's
\* executed nonces are 1,2,3,... in block order
ExecutedNoncesSequential ==
  \A b \in Main \ {G} : \A a \in Accounts :
    LET n0   == NonceAt(prod, Par(prod, b))[a]
        mine == {t \in TxsB(prod, b) : TxAcc[t] = a}
    IN {TxNonce[t] : t \in mine} = (n0 + 1)..(n0 + Cardinality(mine)) /\ Cardinality({TxNonce[t] : t \in mine}) = Cardinality(mine)
\* C04: no transaction is executed twice along the main chain
NoHashExecutedTwice == \A x, y \in Main : x # y => TxsB(prod, x) \cap TxsB(prod, y) = {}

\* every block this node produced was executable on its parent: per account the nonces continue the parent's
\* chain, and nothing in it was already on that chain
ProducedBlockIsValid ==
  \A k \in 1..Len(prod) :
    LET b == PNames[k] IN
    /\ prod[k].txs \cap ChainTxs(prod, prod[k].parent) = {}
    /\ \A a \in Accounts :
         LET n0   == NonceAt(prod, prod[k].parent)[a]
             mine == {t \in prod[k].txs : TxAcc[t] = a}
         IN {TxNonce[t] : t \in mine} = (n0 + 1)..(n0 + Cardinality(mine)) /\ Cardinality({TxNonce[t] : t \in mine}) = Cardinality(mine)

Safe == /\ TypeOK /\ StateIsMainChain /\ NoStalePooled /\ NoDupSlot /\ ReadyRunsGapFree /\ NoPooledTxOnMainChain
        /\ ExecutedNoncesSequential /\ NoHashExecutedTwice /\ ProducedBlockIsValid

\* a transaction that was only on the abandoned branch and whose nonce is still above the state nonce is in the
\* pool after the reorganisation (no transaction is lost between chain and pool)
ReturnedToPool ==
  [][(lastAct'.name = "Arrive" /\ lastAct'.res = "reorg") =>
        LET old == Anc(prod, best) \ Anc(prod, best')
            new == Anc(prod, best') \ Anc(prod, best)
        IN /\ lastAct'.returned = TxsOfSet(prod, old) \ TxsOfSet(prod, new)
           /\ \A t \in lastAct'.returned : TxNonce[t] > nonce'[TxAcc[t]] => t \in pool'
           /\ \A t \in TxsOfSet(prod, new) : t \notin pool']_vars

\* nothing leaves the pool except by execution on the main chain or by becoming stale; nothing enters it except
\* by submission or by a reorganisation
PoolChangesExplained ==
  [][/\ \A t \in pool \ pool' : TxNonce[t] <= nonce'[TxAcc[t]]
     /\ \A t \in pool' \ pool : \/ (lastAct'.name = "Submit" /\ lastAct'.tx = t)
                                \/ (lastAct'.name = "Arrive" /\ t \in lastAct'.returned)]_vars

\* a block arrival that does not change the best block does not touch state or pool
NoChangeWithoutNewBest == [][best' = best => nonce' = nonce /\ (lastAct'.name # "Submit" => pool' = pool)]_vars
=============================================================================
