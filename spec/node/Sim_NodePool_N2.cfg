\* behaviour generation by simulation: tree N2 (three branches), 7 submittable txs, 3 own blocks; depth 17 = every action once, in random order
SPECIFICATION Spec
CONSTANTS
  Blocks <- N2Blocks
  G = "g"
  Parent <- N2Parent
  BTxs <- N2Txs
  Tx <- AllTxIds
  TxAcc <- AccOf
  TxNonce <- NonceOf
  Accounts <- AB
  ValidChoices <- N2Valid
  Submittable <- N2Sub
  MaxSub = 1
  PNames <- P3
  Observing = TRUE
VIEW view
INVARIANTS TypeOK StateIsMainChain NoStalePooled NoDupSlot ReadyRunsGapFree NoPooledTxOnMainChain ExecutedNoncesSequential NoHashExecutedTwice ProducedBlockIsValid
PROPERTIES ReturnedToPool PoolChangesExplained NoChangeWithoutNewBest
CHECK_DEADLOCK FALSE
