\* behaviour generation by simulation: tree N2 (three branches), 3 own blocks
SPECIFICATION Spec
CONSTANTS
  Blocks <- N2Blocks
  G = "g"
  Parent <- N2Parent
  BTxs <- N2Txs
  Tx <- AllTxIds
  TxAcc <- AccOf
  TxNonce <- NonceOf
  Accounts <- AB
  ValidChoices <- N2Valid
  Submittable <- N2Sub
  MaxSub = 2
  PNames <- P3
  Observing = TRUE
VIEW view
INVARIANTS TypeOK StateIsMainChain NoStalePooled NoDupSlot ReadyRunsGapFree NoPooledTxOnMainChain ExecutedNoncesSequential NoHashExecutedTwice ProducedBlockIsValid
PROPERTIES ReturnedToPool PoolChangesExplained NoChangeWithoutNewBest
CHECK_DEADLOCK FALSE
