\* generation: every transition of the N0 model printed once (run with one worker)
SPECIFICATION Spec
CONSTANTS
  Blocks <- N0Blocks
  G = "g"
  Parent <- N0Parent
  BTxs <- N0Txs
  Tx <- AllTxIds
  TxAcc <- AccOf
  TxNonce <- NonceOf
  Accounts <- AB
  ValidChoices <- N0Valid
  Submittable <- N0Sub
  MaxSub = 1
  PNames <- P1
  Observing = TRUE
VIEW view
ACTION_CONSTRAINT GenLog
CHECK_DEADLOCK FALSE
