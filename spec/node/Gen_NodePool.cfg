\* generation: every transition of the N0 model printed once (PrintT lines stay whole with several workers; the driver sorts them)
SPECIFICATION Spec
CONSTANTS
  Blocks <- N0Blocks
  G = "g"
  Parent <- N0Parent
  BTxs <- N0Txs
  Tx <- AllTxIds
  TxAcc <- AccOf
  TxNonce <- NonceOf
  Accounts <- AB
  ValidChoices <- N0Valid
  Submittable <- N0Sub
  MaxSub = 1
  PNames <- P1
  Observing = TRUE
VIEW view
ACTION_CONSTRAINT GenLog
INVARIANTS TypeOK StateIsMainChain NoStalePooled NoDupSlot ReadyRunsGapFree NoPooledTxOnMainChain ExecutedNoncesSequential NoHashExecutedTwice ProducedBlockIsValid
PROPERTIES ReturnedToPool PoolChangesExplained NoChangeWithoutNewBest
CHECK_DEADLOCK FALSE
