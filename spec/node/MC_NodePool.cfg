\* quick design check: tree N1, all blocks valid or b3 invalid, 5 submittable txs, 1 own block
SPECIFICATION Spec
CONSTANTS
  Blocks <- N1Blocks
  G = "g"
  Parent <- N1Parent
  BTxs <- N1Txs
  Tx <- AllTxIds
  TxAcc <- AccOf
  TxNonce <- NonceOf
  Accounts <- AB
  ValidChoices <- N1ValidQ
  Submittable <- N1SubQ
  MaxSub = 1
  PNames <- P1
  Observing = FALSE
VIEW view
INVARIANTS TypeOK StateIsMainChain NoStalePooled NoDupSlot ReadyRunsGapFree NoPooledTxOnMainChain ExecutedNoncesSequential NoHashExecutedTwice ProducedBlockIsValid
PROPERTIES ReturnedToPool PoolChangesExplained NoChangeWithoutNewBest
CHECK_DEADLOCK FALSE
