\* thorough design check: tree N2 (three branches), 3 validity assignments, 7 submittable txs, 1 own block
SPECIFICATION Spec
CONSTANTS
  Blocks <- N2Blocks
  G = "g"
  Parent <- N2Parent
  BTxs <- N2Txs
  Tx <- AllTxIds
  TxAcc <- AccOf
  TxNonce <- NonceOf
  Accounts <- AB
  ValidChoices <- N2Valid
  Submittable <- N2Sub
  MaxSub = 1
  PNames <- P1
  Observing = FALSE
VIEW view
INVARIANTS TypeOK StateIsMainChain NoStalePooled NoDupSlot ReadyRunsGapFree NoPooledTxOnMainChain ExecutedNoncesSequential NoHashExecutedTwice ProducedBlockIsValid
PROPERTIES ReturnedToPool PoolChangesExplained NoChangeWithoutNewBest
CHECK_DEADLOCK FALSE
