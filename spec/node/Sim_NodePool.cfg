\* behaviour generation by simulation: tree N1, 4 validity assignments, 7 submittable txs, 3 own blocks; depth 16 = every action once, in random order
SPECIFICATION Spec
CONSTANTS
  Blocks <- N1Blocks
  G = "g"
  Parent <- N1Parent
  BTxs <- N1Txs
  Tx <- AllTxIds
  TxAcc <- AccOf
  TxNonce <- NonceOf
  Accounts <- AB
  ValidChoices <- N1Valid
  Submittable <- N1Sub
  MaxSub = 1
  PNames <- P3
  Observing = TRUE
VIEW view
INVARIANTS TypeOK StateIsMainChain NoStalePooled NoDupSlot ReadyRunsGapFree NoPooledTxOnMainChain ExecutedNoncesSequential NoHashExecutedTwice ProducedBlockIsValid
PROPERTIES ReturnedToPool PoolChangesExplained NoChangeWithoutNewBest
CHECK_DEADLOCK FALSE
