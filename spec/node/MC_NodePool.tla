---------------------------- MODULE MC_NodePool -----------------------------
EXTENDS NodePool

\* ---- the transaction universe: two accounts; "x" = another transaction at the same (account, nonce);
\*      "c" = client-only transaction (in no block of any tree)
AB == {"A", "B"}
AllTxIds == {"A1", "A2", "A3", "A1x", "A2x", "B1", "B2", "B1x", "A2c", "A3c", "A4c", "B2c", "B3c"}
AccOf == [t \in AllTxIds |-> IF t \in {"B1", "B2", "B1x", "B2c", "B3c"} THEN "B" ELSE "A"]
NonceOf == [t \in AllTxIds |->
              CASE t \in {"A1", "A1x", "B1", "B1x"} -> 1
                [] t \in {"A2", "A2x", "A2c", "B2", "B2c"} -> 2
                [] t \in {"A3", "A3c", "B3c"} -> 3
                [] OTHER -> 4]

\* ---- tree N0 (generation, quick): a1-a2 and b2-b3 forking at a1; B1 on both branches, A2 only on branch a
N0Blocks == {"g", "a1", "a2", "b2", "b3"}
N0Parent == [b \in N0Blocks \ {"g"} |-> CASE b = "a1" -> "g" [] b = "a2" -> "a1" [] b = "b2" -> "a1" [] b = "b3" -> "b2"]
N0Txs == [b \in N0Blocks |-> CASE b = "a1" -> {"A1"} [] b = "a2" -> {"A2", "B1"} [] b = "b2" -> {"B1"} [] OTHER -> {}]
N0All == N0Blocks \ {"g"}
N0Valid == {N0All, N0All \ {"b3"}}
N0Sub == {"A2", "B1", "A2c", "A3c"}

\* ---- tree N1: a1-a2-a3 and b2-b3-b4 forking at a1 (one longer).  B1 on both branches; A2/A3 only on branch a;
\*      branch b ends with A2x, a different transaction at (A,2): after the reorganisation a3 -> b4 the returned A2
\*      is stale and A3 is wanted again; after a2 -> b3 the returned A2 is wanted again and dropped later by b4
N1Blocks == {"g", "a1", "a2", "a3", "b2", "b3", "b4"}
N1Parent == [b \in N1Blocks \ {"g"} |->
               CASE b = "a1" -> "g" [] b = "a2" -> "a1" [] b = "a3" -> "a2"
                 [] b = "b2" -> "a1" [] b = "b3" -> "b2" [] b = "b4" -> "b3"]
N1Txs == [b \in N1Blocks |->
               CASE b = "a1" -> {"A1"} [] b = "a2" -> {"A2", "B1"} [] b = "a3" -> {"A3"}
                 [] b = "b2" -> {"B1"} [] b = "b4" -> {"A2x"} [] OTHER -> {}]
N1All == N1Blocks \ {"g"}
N1Valid == {N1All, N1All \ {"b3"}, N1All \ {"a3"}, N1All \ {"b4"}}
N1ValidQ == {N1All, N1All \ {"b3"}}
N1SubQ == {"A2", "A3", "B1", "A2c", "B2c"}
N1Sub == {"A2", "A3", "A2x", "B1", "A2c", "A4c", "B2c"}

\* ---- tree N2: three branches: a1-a2 from genesis, b1-b2-b3 from genesis, c2-c3 below a1.
\*      A1 on a and b (shared at height 1), A1x nowhere...; B1 on a2, b2, c3; A2 on a2 and b3, A2x on c2
N2Blocks == {"g", "a1", "a2", "b1", "b2", "b3", "c2", "c3"}
N2Parent == [b \in N2Blocks \ {"g"} |->
               CASE b = "a1" -> "g" [] b = "a2" -> "a1" [] b = "b1" -> "g" [] b = "b2" -> "b1" [] b = "b3" -> "b2"
                 [] b = "c2" -> "a1" [] b = "c3" -> "c2"]
N2Txs == [b \in N2Blocks |->
               CASE b = "a1" -> {"A1"} [] b = "a2" -> {"A2", "B1"} [] b = "b1" -> {"A1x", "B1x"} [] b = "b2" -> {"B2"}
                 [] b = "b3" -> {"A2"} [] b = "c2" -> {"A2x"} [] b = "c3" -> {"B1", "A3"} [] OTHER -> {}]
N2All == N2Blocks \ {"g"}
N2Valid == {N2All, N2All \ {"b3"}, N2All \ {"c3"}}
N2Sub == {"A1", "A2", "A3", "B1", "B2", "A3c", "B2c"}

P1 == <<"p1">>
P2 == <<"p1", "p2">>
P3 == <<"p1", "p2", "p3">>

\* the constants of this run, printed once for the driver (single source of truth for the replay harness)
ASSUME PrintT("TREE|" \o ToString([blocks |-> Blocks, parent |-> Parent, btxs |-> BTxs,
                                   acc |-> [t \in Tx |-> TxAcc[t]], nonce |-> [t \in Tx |-> TxNonce[t]],
                                   accounts |-> Accounts, pnames |-> PNames]))

GenView == [valid |-> valid, store |-> store, best |-> best, nonce |-> nonce, pool |-> pool, prod |-> prod,
            arrived |-> arrived, subs |-> subs]
\* ACTION_CONSTRAINT printing every transition once (generation configurations, one worker)
GenLog == PrintT("TR|" \o ToString(<<GenView, [act |-> lastAct', obs |-> obs'], GenView'>>))
=============================================================================
