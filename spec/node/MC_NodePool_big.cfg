\* thorough design check: tree N1, 4 validity assignments, 7 submittable txs, 2 own blocks
SPECIFICATION Spec
CONSTANTS
  Blocks <- N1Blocks
  G = "g"
  Parent <- N1Parent
  BTxs <- N1Txs
  Tx <- AllTxIds
  TxAcc <- AccOf
  TxNonce <- NonceOf
  Accounts <- AB
  ValidChoices <- N1Valid
  Submittable <- N1Sub
  MaxSub = 1
  PNames <- P2
  Observing = FALSE
VIEW view
INVARIANTS TypeOK StateIsMainChain NoStalePooled NoDupSlot ReadyRunsGapFree NoPooledTxOnMainChain ExecutedNoncesSequential NoHashExecutedTwice ProducedBlockIsValid
PROPERTIES ReturnedToPool PoolChangesExplained NoChangeWithoutNewBest
CHECK_DEADLOCK FALSE
