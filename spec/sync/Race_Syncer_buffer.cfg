\* schedule finder (the trap invariant is EXPECTED to be violated; the counterexample is the schedule): more responses for an ended block fetcher than its channel buffers, queued ahead of its SyncStop.
\* checks/c17.py replays it on the real syncer: the actor must not block, the session must end, a new one succeed.
SPECIFICATION Spec
CONSTANTS
  MaxL = 1
  MaxR = 3
  NPeers = 2
  ChunkSize = 2
  HashReq = 3
  MaxTasks = 1
  MaxPendingConn = 2
  MaxFail = 2
  Skip = 2
  MaxAnchors = 2
  FullScanModes <- BothModes
  MaxSeq = 2
  MaxFaults = 3
  MaxStops = 0
  MaxExpire = 2
  IgnoredStarts = FALSE
  PreRepair = FALSE
VIEW view
INVARIANTS NoActorBlock TrapBufferOverflow
CHECK_DEADLOCK FALSE
