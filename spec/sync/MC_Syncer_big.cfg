\* thorough exhaustive design check: two sessions, all chain pairs (local <=2, remote <=5, every fork point),
\* light and full scan, <=2 faults, one stop request, multi-task expiry, stale messages
SPECIFICATION Spec
CONSTANTS
  MaxL = 2
  MaxR = 5
  NPeers = 2
  ChunkSize = 2
  HashReq = 3
  MaxTasks = 2
  MaxPendingConn = 2
  MaxFail = 2
  Skip = 2
  MaxAnchors = 2
  FullScanModes <- BothModes
  MaxSeq = 3
  MaxFaults = 2
  MaxStops = 1
  MaxExpire = 2
  IgnoredStarts = TRUE
  PreRepair = FALSE
VIEW view
INVARIANTS DeliveredAscending Outcome AncestorCommon NeverBeyondTarget PeerConservation ConnQueueSane HashReqSane NoActorBlock Restartable
CHECK_DEADLOCK FALSE
