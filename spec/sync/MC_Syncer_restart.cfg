\* two sessions: stale messages of the first session (old sequence numbers, the sequence-less AddBlockRsp),
\* restart; local <=1, remote <=3, <=1 fault, one stop request
SPECIFICATION Spec
CONSTANTS
  MaxL = 1
  MaxR = 3
  NPeers = 2
  ChunkSize = 2
  HashReq = 2
  MaxTasks = 2
  MaxPendingConn = 2
  MaxFail = 2
  Skip = 2
  MaxAnchors = 2
  FullScanModes <- BothModes
  MaxSeq = 3
  MaxFaults = 1
  MaxStops = 1
  MaxExpire = 2
  IgnoredStarts = TRUE
  PreRepair = FALSE
VIEW view
INVARIANTS DeliveredAscending Outcome AncestorCommon NeverBeyondTarget PeerConservation ConnQueueSane HashReqSane NoActorBlock Restartable
CHECK_DEADLOCK FALSE
