\* documentation only, not run by the check: the code BEFORE the repair (PreRepair = TRUE) violates NoActorBlock on
\* this schedule: a GetHashByNoRsp that was queued ahead of the SyncStop of a finder that timed out.
SPECIFICATION Spec
CONSTANTS
  MaxL = 1
  MaxR = 3
  NPeers = 2
  ChunkSize = 2
  HashReq = 3
  MaxTasks = 1
  MaxPendingConn = 2
  MaxFail = 2
  Skip = 2
  MaxAnchors = 2
  FullScanModes <- BothModes
  MaxSeq = 2
  MaxFaults = 1
  MaxStops = 0
  MaxExpire = 2
  IgnoredStarts = FALSE
  PreRepair = TRUE
INVARIANTS NoActorBlock
CHECK_DEADLOCK FALSE
