--------------------------- MODULE MC_FindAncestor ---------------------------
EXTENDS FindAncestor
GenLog == LogTransition(view, lastAct', view')
=============================================================================
