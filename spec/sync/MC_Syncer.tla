----------------------------- MODULE MC_Syncer ------------------------------
EXTENDS Syncer

BothModes == {FALSE, TRUE}
LightOnly == {FALSE}
FullOnly  == {TRUE}

\* what the harness compares after every step
Proj == [reqs |-> reqs, selfq |-> selfq, dlv |-> f.dlv, running |-> running, phase |-> phase, anc |-> anc,
         notif |-> notif, seq |-> seq, target |-> target, ch |-> ch]

\* A canonical identity of the state for the generated graph: nested tuples only (TLC prints the fields of a
\* record in construction order, so the text of a record is not a usable identity).
TSeq(q) == [i \in 1..Len(q) |-> <<q[i].s, q[i].c, q[i].r>>]
RSeq(q) == [i \in 1..Len(q) |-> <<q[i].s, q[i].c, q[i].r, q[i].p>>]
CSeq(q) == [i \in 1..Len(q) |-> <<q[i].s, q[i].c>>]
Key == <<ch.lbest, ch.rbest, ch.fork, ch.full, rstored, seq, running, target, phase,
         <<fd.st, fd.last, fd.lo, fd.hi, fd.mid, fd.lm, fd.full, fd.c0, fd.ab>>, anc,
         <<f.hfSt, f.hfLast, f.hfCnt, f.hfSet, f.hfTO, TSeq(f.pend), TSeq(f.retry), RSeq(f.runq), f.free, f.fail, f.bad,
           f.got, f.bfAlive, f.bfBuf, CSeq(f.connq), <<f.cur.s, f.cur.c, f.cur.i>>, f.curBlk, f.prev, f.dlv>>,
         {<<r.k, r.a, r.b, r.c, r.d>> : r \in reqs},
         [i \in 1..Len(selfq) |-> <<selfq[i].m, selfq[i].sq, selfq[i].who, selfq[i].v>>],
         <<stale.add, stale.other>>, notif, outcomeOK, faults, stops, blocked>>

\* ACTION_CONSTRAINT printing every transition (generation configs only).  The state keys are opaque
\* strings (graph node identities, never parsed); only the action and the projection are parsed by checks/c17.py.
GenLog == PrintT("TR|" \o ToString(Key) \o "|ACT|" \o ToString(lastAct') \o "|DST|" \o ToString(Key') \o "|PROJ|" \o ToString(Proj'))
=============================================================================
