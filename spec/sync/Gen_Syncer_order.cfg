\* generation, second instance: every arrival order of honest responses over two hash sets
\* (local chain = genesis, remote <=6, 3 peers, 3 concurrent tasks), no faults
SPECIFICATION Spec
CONSTANTS
  MaxL = 0
  MaxR = 6
  NPeers = 3
  ChunkSize = 2
  HashReq = 3
  MaxTasks = 3
  MaxPendingConn = 2
  MaxFail = 2
  Skip = 2
  MaxAnchors = 2
  FullScanModes <- LightOnly
  MaxSeq = 2
  MaxFaults = 0
  MaxStops = 0
  MaxExpire = 1
  IgnoredStarts = FALSE
  PreRepair = FALSE
VIEW view
ACTION_CONSTRAINT GenLog
CHECK_DEADLOCK FALSE
