\* exhaustive: request of 3 items, parts of <=2 items over {1,2}, <=4 parts (hashes receiver); also the generation config
SPECIFICATION Spec
CONSTANTS
  N = 3
  Items <- ItemSet2
  MaxPart = 2
  MaxParts = 4
  Kind = "hashes"
VIEW view
INVARIANTS AtMostOneMessage OkIsExact AnsweredWhenDone
ACTION_CONSTRAINT GenLog
CHECK_DEADLOCK FALSE
