\* exhaustive + generation: responder main chain 0..4, stored side branch 2..3 forking at 1, anchor lists of <=3 blocks
SPECIFICATION Spec
CONSTANTS
  R = 4
  F = 1
  S = 3
  MaxLen = 3
VIEW view
INVARIANTS AnswerCommon AnswerFirst
ACTION_CONSTRAINT GenLog
CHECK_DEADLOCK FALSE
