\* generation, second instance: every arrival order of honest responses over two hash sets
\* (local chain = genesis, remote <=6, 3 peers, 3 concurrent tasks) plus one faulty response / timeout
SPECIFICATION Spec
CONSTANTS
  MaxL = 0
  MaxR = 6
  NPeers = 3
  ChunkSize = 2
  HashReq = 3
  MaxTasks = 3
  MaxPendingConn = 2
  MaxFail = 2
  Skip = 2
  MaxAnchors = 2
  FullScanModes <- LightOnly
  MaxSeq = 2
  MaxFaults = 1
  MaxStops = 0
  MaxExpire = 1
  IgnoredStarts = FALSE
  PreRepair = FALSE
VIEW view
ACTION_CONSTRAINT GenLog
CHECK_DEADLOCK FALSE
