\* documentation only, not run by the check: the code BEFORE the repair (PreRepair = TRUE) violates NoActorBlock on
\* this schedule: more responses for an ended block fetcher than its channel buffers, queued ahead of its SyncStop.
SPECIFICATION Spec
CONSTANTS
  MaxL = 1
  MaxR = 3
  NPeers = 2
  ChunkSize = 2
  HashReq = 3
  MaxTasks = 1
  MaxPendingConn = 2
  MaxFail = 2
  Skip = 2
  MaxAnchors = 2
  FullScanModes <- BothModes
  MaxSeq = 2
  MaxFaults = 3
  MaxStops = 0
  MaxExpire = 2
  IgnoredStarts = FALSE
  PreRepair = TRUE
VIEW view
INVARIANTS NoBufferBlock
CHECK_DEADLOCK FALSE
