\* generation: every transition of a tiny instance printed once (one session, <=1 fault, <=1 stop request)
SPECIFICATION Spec
CONSTANTS
  MaxL = 1
  MaxR = 3
  NPeers = 2
  ChunkSize = 2
  HashReq = 2
  MaxTasks = 2
  MaxPendingConn = 1
  MaxFail = 2
  Skip = 2
  MaxAnchors = 2
  FullScanModes <- BothModes
  MaxSeq = 2
  MaxFaults = 1
  MaxStops = 1
  MaxExpire = 1
  IgnoredStarts = TRUE
  PreRepair = FALSE
VIEW view
ACTION_CONSTRAINT GenLog
CHECK_DEADLOCK FALSE
