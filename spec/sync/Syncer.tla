------------------------------- MODULE Syncer -------------------------------
(***************************************************************************)
(* C17 -- block synchronisation (syncer/*.go).                             *)
(*                                                                         *)
(* Grain: ONE ACTION PER MESSAGE HANDLED BY THE SYNCER ACTOR.  The actor's *)
(* helper goroutines (Finder, HashFetcher, BlockFetcher + BlockProcessor)  *)
(* run to quiescence inside the action (operators Sched / NextConnect /    *)
(* HfAfterPush below are the code of blockfetcher.go:schedule,             *)
(* searchCandidateTask, blockprocessor.go:getNextBlockToConnect,           *)
(* popFromConnQueue and hashfetcher.go:processHashSet).  Messages the      *)
(* goroutines send to the actor itself (FinderResult, SyncStop,            *)
(* CloseFetcher) go through the FIFO `selfq` and are handled by            *)
(* DeliverSelf, interleaved arbitrarily with the environment's responses   *)
(* (the actor may lag behind its mailbox).  Time is modelled by explicit   *)
(* timeout actions.                                                        *)
(*                                                                         *)
(* Blocks are numbers on the remote main chain; local and remote chain     *)
(* agree on 0..fork.  The sync peer is honest-or-failing for ancestor and  *)
(* hash queries (it decides what "the remote chain" is); block chunk       *)
(* responses of all peers may be arbitrary (classes ok / fail / drop,      *)
(* refined into concrete corruptions by the harness).                      *)
(***************************************************************************)
EXTENDS Integers, Sequences, FiniteSets, TLC, Util

CONSTANTS MaxL,            \* local best is chosen in 0..MaxL
          MaxR,            \* remote best in 1..MaxR
          NPeers,          \* peers 1..NPeers, peer 1 is the sync peer (ctx.PeerID)
          ChunkSize,       \* cfg.maxBlockReqSize
          HashReq,         \* cfg.maxHashReqSize
          MaxTasks,        \* cfg.maxBlockReqTasks
          MaxPendingConn,  \* cfg.maxPendingConn
          MaxFail,         \* MaxPeerFailCount
          Skip,            \* chain.Skip
          MaxAnchors,      \* chain.MaxAnchors
          FullScanModes,   \* subset of BOOLEAN: values of cfg.useFullScanOnly explored
          MaxSeq,          \* last session sequence number explored (Seq starts at 1, first session is 2)
          MaxFaults,       \* bound on faulty responses + timeouts
          MaxStops,        \* bound on external stop requests
          MaxExpire,       \* max number of running tasks that expire in one checkTaskTimeout call
          IgnoredStarts,   \* TRUE: explore SyncStart messages arriving while a session runs (ignored; a no-op)
          PreRepair        \* FALSE: the design (and the code since bcac7c21 / 9f6c2e3b): a response for a helper goroutine
                           \*        that has ended is dropped.  TRUE: the code before those commits, kept only to document
                           \*        the two counterexamples (PreRepair_Syncer_*.cfg): the actor blocks forever sending it.

Peers == 1..NPeers
Min2(a, b) == IF a < b THEN a ELSE b
Max2(a, b) == IF a < b THEN b ELSE a

VARIABLES ch,        \* the chains: [lbest, rbest, fork, full]  (constant during a behaviour)
          rstored,   \* highest remote-branch block the local chain service has connected (0 = none above fork)
          seq,       \* Syncer.Seq
          running,   \* Syncer.isRunning
          target,    \* ctx.TargetNo
          phase,     \* "idle" | "finder" | "fetch"
          fd,        \* finder goroutine
          anc,       \* ctx.CommonAncestor (number), -1 = unset
          f,         \* hash fetcher + block fetcher + block processor
          reqs,      \* requests of the current session the environment has not answered yet
          selfq,     \* FIFO of messages the goroutines sent to SyncerSvc
          stale,     \* unanswered requests of finished sessions: [add |-> n or 0, other |-> 0..2]
          notif,     \* sequence of result notifications (ctx.NotifyC): TRUE = nil error
          outcomeOK, \* every notification so far told the truth (evaluated in DoReset)
          faults, stops,
          blocked,   \* the actor goroutine is blocked forever in a channel send (must never happen)
          lastAct

vars == <<ch, rstored, seq, running, target, phase, fd, anc, f, reqs, selfq, stale, notif, outcomeOK, faults, stops, blocked, lastAct>>
view == <<ch, rstored, seq, running, target, phase, fd, anc, f, reqs, selfq, stale, notif, outcomeOK, faults, stops, blocked>>

\* ------------------------------------------------------------------ chains
\* highest block of the remote chain the local store holds
RS == Max2(ch.fork, rstored)
\* local main chain: the remote branch wins when strictly longer (reorg)
LBest   == IF RS > ch.lbest THEN RS ELSE ch.lbest
LCommon == IF RS > ch.lbest THEN RS ELSE ch.fork     \* highest block shared by local MAIN chain and remote chain

\* chain/chainanchor.go:getAnchorsNew -- block numbers of the anchors, best first
RECURSIVE AnchorSeq(_, _)
AnchorSeq(no, cnt) == IF cnt = 0 THEN <<>>
                      ELSE IF no = 0 THEN <<0>>
                      ELSE <<no>> \o AnchorSeq(IF no < Skip THEN 0 ELSE no - Skip, cnt - 1)
Anchors(best) == AnchorSeq(best, MaxAnchors)
LastOf(s) == s[Len(s)]

\* chain/chainhandle.go:findAncestor on the remote node: the first (= highest) anchor on its main chain, -1 = none.
\* The anchors are blocks of the local main chain as it was when they were taken (c = highest shared block then).
RemoteAncestor(as, c) == LET I == {i \in 1..Len(as) : as[i] <= c} IN IF I = {} THEN 0 - 1 ELSE as[Min(I)]

\* ------------------------------------------------------------------ records
Req(k, a, b, c) == [k |-> k, a |-> a, b |-> b, c |-> c, d |-> 0]
ChunkReq(p, s, c, r) == [k |-> "chunk", a |-> p, b |-> s, c |-> c, d |-> r]
\* k = "anc"                       GetSyncAncestor
\*     "hbn"    a = block no       GetHashByNo
\*     "hashes" a = prev, b = cnt  GetHashes
\*     "chunk"  a = peer, b = first no, c = count, d = retry number of the task   GetBlockChunks
\*     "add"    a = block no       AddBlock
Self(m, who, v) == [m |-> m, sq |-> seq, who |-> who, v |-> v]
\* m = "FinderResult" v = ancestor no (-1 = nil) | "SyncStop" v = 1 (Err = nil) / 0 (Err # nil) | "CloseFetcher"

Task(s, c, r) == [s |-> s, c |-> c, r |-> r]
NoCur == [s |-> 0, c |-> 0, i |-> 0]
NoFd  == [st |-> "idle", last |-> 0, lo |-> 0, hi |-> 0, mid |-> 0, lm |-> 0 - 1, full |-> FALSE, c0 |-> 0, ab |-> 0]
\* c0: highest shared block when the session started; ab: local best when the anchors were taken
NoFetch == [hfSt |-> "none", hfLast |-> 0, hfCnt |-> 0, hfSet |-> <<0, 0>>, hfTO |-> FALSE,
            pend |-> <<>>, retry |-> <<>>, runq |-> <<>>, free |-> <<>>, fail |-> [p \in Peers |-> 0], bad |-> {},
            got |-> FALSE, bfAlive |-> FALSE, bfBuf |-> 0,
            connq |-> <<>>, cur |-> NoCur, curBlk |-> 0, prev |-> 0, dlv |-> <<>>,
            outs |-> {}, self |-> <<>>]

RemoveAt(q, i) == SubSeq(q, 1, i - 1) \o SubSeq(q, i + 1, Len(q))
FirstIdx(q, P(_)) == LET I == {i \in 1..Len(q) : P(q[i])} IN IF I = {} THEN 0 ELSE Min(I)

\* SortedTaskQueue.Push / pushToConnQueue: insert before the first element with a greater first number
RECURSIVE InsSorted(_, _)
InsSorted(q, t) == IF q = <<>> THEN <<t>>
                   ELSE IF Head(q).s > t.s THEN <<t>> \o q
                   ELSE <<Head(q)>> \o InsSorted(Tail(q), t)

\* addNewFetchTasks
RECURSIVE Chunks(_, _)
Chunks(s, n) == IF n = 0 THEN <<>>
                ELSE LET c == Min2(n, ChunkSize) IN <<Task(s, c, 0)>> \o Chunks(s + c, n - c)

\* ------------------------------------------------------------------ hash fetcher
\* processHashSet after the set was taken by the block fetcher, isFinished, requestHashSet
HfAfterPush(g) ==
  IF g.hfLast = target
    THEN [g EXCEPT !.hfSt = "done", !.self = Append(@, Self("CloseFetcher", "HashFetcher", 0))]
    ELSE LET cnt == Min2(HashReq, target - g.hfLast) IN
         [g EXCEPT !.hfSt = "wait", !.hfCnt = cnt, !.outs = @ \cup {Req("hashes", g.hfLast, cnt, 0)}]

\* ------------------------------------------------------------------ block fetcher: schedule()
RECURSIVE Sched(_)
Sched(g) ==
  IF ~g.bfAlive \/ Len(g.free) = 0 \/ Len(g.runq) >= MaxTasks THEN g
  ELSE LET q == IF Len(g.retry) > 0 THEN "retry" ELSE IF Len(g.pend) > 0 THEN "pend" ELSE "none" IN
    IF q = "none"
      THEN IF g.hfSt = "push"      \* getNewHashSet: (first time blocking) receive from the hash fetcher
             THEN Sched(HfAfterPush([g EXCEPT !.pend = Chunks(g.hfSet[1], g.hfSet[2]), !.got = TRUE]))
             ELSE g
      ELSE LET cand == Head(g[q]) IN
           IF Len(g.connq) >= MaxPendingConn /\ cand.r <= 0 THEN g
           ELSE LET p == Head(g.free) IN
                Sched([g EXCEPT ![q] = Tail(@), !.free = Tail(@),
                                !.runq = Append(@, [s |-> cand.s, c |-> cand.c, r |-> cand.r, p |-> p]),
                                !.outs = @ \cup {ChunkReq(p, cand.s, cand.c, cand.r)}])

\* ------------------------------------------------------------------ block processor
\* getNextBlockToConnect + popFromConnQueue + connectBlock
NextConnect(g) ==
  IF g.curBlk # 0 THEN g
  ELSE LET g1 == IF g.cur # NoCur
                   THEN (IF g.cur.i + 1 >= g.cur.c THEN [g EXCEPT !.cur = NoCur] ELSE [g EXCEPT !.cur.i = @ + 1])
                   ELSE g
           g2 == IF g1.cur = NoCur /\ Len(g1.connq) > 0 /\ Head(g1.connq).s = g1.prev + 1
                   THEN [g1 EXCEPT !.cur = [s |-> Head(g1.connq).s, c |-> Head(g1.connq).c, i |-> 0], !.connq = Tail(@)]
                   ELSE g1
       IN IF g2.cur = NoCur THEN g2
          ELSE LET n == g2.cur.s + g2.cur.i IN
               [g2 EXCEPT !.curBlk = n, !.dlv = Append(@, n), !.outs = @ \cup {Req("add", n, 0, 0)}]

\* the block fetcher goroutine ends with stopSyncer(err)
Die(g) == [g EXCEPT !.bfAlive = FALSE, !.self = Append(@, Self("SyncStop", "BlockFetcher", 0))]

\* processFailedTask for the idx-th running task (no schedule yet)
FailAt(g, idx) ==
  LET t  == g.runq[idx]
      nf == g.fail[t.p] + 1
      g1 == [g EXCEPT !.runq = RemoveAt(@, idx), !.fail[t.p] = nf,
                      !.retry = InsSorted(@, Task(t.s, t.c, t.r + 1))]
      g2 == IF nf >= MaxFail THEN [g1 EXCEPT !.bad = @ \cup {t.p}] ELSE [g1 EXCEPT !.free = Append(@, t.p)]
  IN IF g2.bad = Peers THEN Die(g2) ELSE g2

\* a message for the block fetcher while its goroutine is gone sits in the buffered channel
Buffered(g) == [g EXCEPT !.bfBuf = Min2(@ + 1, 2 * MaxTasks + 1)]

\* GetBlockChunkRsp, valid and matching a running task of that peer
OnChunkOk(g, p, s, c) ==
  IF ~g.bfAlive THEN Buffered(g)
  ELSE LET idx == FirstIdx(g.runq, LAMBDA t : t.p = p /\ t.s = s /\ t.c = c) IN
       IF idx = 0 THEN g
       ELSE Sched(NextConnect([g EXCEPT !.runq = RemoveAt(@, idx), !.free = Append(@, p),
                                        !.connq = InsSorted(@, [s |-> s, c |-> c])]))

\* GetBlockChunkRspError: Err set, empty, or hash-unlinked blocks; fails the running task of that peer
OnChunkFail(g, p) ==
  IF ~g.bfAlive THEN Buffered(g)
  ELSE LET idx == FirstIdx(g.runq, LAMBDA t : t.p = p) IN
       IF idx = 0 THEN g ELSE Sched(FailAt(g, idx))

\* a well-formed response that matches no running task is dropped
OnChunkDrop(g) == IF ~g.bfAlive THEN Buffered(g) ELSE g

\* checkTaskTimeout: the tasks at positions S of the running queue expire in one call (in queue order)
RECURSIVE ExpireSeq(_, _)
ExpireSeq(g, idxs) ==   \* idxs: descending sequence of positions still to expire, processed from the smallest
  IF idxs = <<>> \/ ~g.bfAlive THEN g
  ELSE LET i == idxs[Len(idxs)] IN
       \* removing position i shifts the later ones down by one
       ExpireSeq(FailAt(g, i), [j \in 1..(Len(idxs) - 1) |-> idxs[j] - 1])
RECURSIVE SetToDescSeq(_)
SetToDescSeq(S) == IF S = {} THEN <<>> ELSE LET m == Max(S) IN <<m>> \o SetToDescSeq(S \ {m})
OnExpire(g, S) == Sched(ExpireSeq(g, SetToDescSeq(S)))

\* AddBlockResponse
OnAddRsp(g, n, ok) ==
  IF ~g.bfAlive THEN Buffered(g)
  ELSE IF ~ok THEN Die(g)                       \* msg.Err # nil
  ELSE IF g.curBlk = 0 THEN Die(g)              \* no block is being connected: nil dereference, recovered, ErrSyncerPanic
  ELSE IF g.curBlk # n THEN Die(g)              \* "drop unknown add response" is an error
  ELSE LET g1 == [g EXCEPT !.prev = n, !.curBlk = 0,
                           !.self = IF n = target THEN Append(@, Self("SyncStop", "BlockProcessor", 1)) ELSE @]
       IN Sched(NextConnect(g1))

\* a valid GetHashesRsp for the outstanding request
OnHashesOk(g, prev, cnt) ==
  IF g.hfSt = "wait" /\ g.hfLast = prev /\ g.hfCnt = cnt
    THEN Sched([g EXCEPT !.hfLast = prev + cnt, !.hfSt = "push", !.hfSet = <<prev + 1, cnt>>])
    ELSE g

\* ------------------------------------------------------------------ state update helpers
Commit(g, consumed) ==
  /\ f' = [g EXCEPT !.outs = {}, !.self = <<>>]
  /\ reqs' = (reqs \ consumed) \cup g.outs
  /\ selfq' = selfq \o g.self
  \* a response for a block fetcher that has ended is buffered in responseCh or, when that is full, dropped (doneCh)
  /\ blocked' = (blocked \/ (PreRepair /\ g.bfBuf > 2 * MaxTasks))

\* the notification tells the truth: nil error only if every block anc+1..target was handed over and acknowledged
SessionOutcomeOK(ok) ==
  /\ \A j \in 1..Len(f.dlv) : f.dlv[j] = anc + j
  /\ ok => (phase = "fetch" /\ anc >= 0 /\ f.prev = target /\ Len(f.dlv) = target - anc)

\* Syncer.Reset.  q: the self-message queue without the message being handled.  A finder that is still waiting
\* is woken through quitCh, returns ErrFinderQuit and reports that with a SyncStop of its own (stale by then).
DoReset(ok, who, q) ==
  /\ selfq' = IF fd.st \in {"light", "full"} THEN Append(q, Self("SyncStop", "Finder", 0)) ELSE q
  /\ running' = FALSE /\ phase' = "idle" /\ fd' = NoFd /\ f' = NoFetch /\ anc' = 0 - 1
  /\ notif' = Append(notif, ok)
  /\ outcomeOK' = (outcomeOK /\ SessionOutcomeOK(ok))
  /\ reqs' = {}
  /\ stale' = [add   |-> IF \E r \in reqs : r.k = "add" THEN (CHOOSE r \in reqs : r.k = "add").a ELSE stale.add,
               other |-> Min2(1, stale.other + Cardinality({r \in reqs : r.k # "add"}))]

\* ------------------------------------------------------------------ initial states
Init ==
  /\ ch \in {c \in [lbest : 0..MaxL, rbest : 1..MaxR, fork : 0..MaxL, full : FullScanModes] :
               c.fork <= c.lbest /\ c.fork <= c.rbest /\ c.lbest < c.rbest}
  /\ rstored = 0 /\ seq = 1 /\ running = FALSE /\ target = 0 /\ phase = "idle" /\ fd = NoFd /\ anc = 0 - 1
  /\ f = NoFetch /\ reqs = {} /\ selfq = <<>> /\ stale = [add |-> 0, other |-> 0] /\ notif = <<>> /\ outcomeOK = TRUE
  /\ faults = 0 /\ stops = 0 /\ blocked = FALSE
  /\ lastAct = [name |-> "Init"]

\* ------------------------------------------------------------------ finder
\* binarySearch loop head: next request or the result
FinderSearch(lo, hi, lm, last, c0) ==
  IF lo <= hi
    THEN /\ fd' = [st |-> "full", last |-> last, lo |-> lo, hi |-> hi, mid |-> (lo + hi) \div 2, lm |-> lm, full |-> TRUE, c0 |-> c0, ab |-> fd.ab]
         /\ reqs' = (reqs \ {r \in reqs : r.k \in {"anc", "hbn"}}) \cup {Req("hbn", (lo + hi) \div 2, 0, 0)}
         /\ selfq' = selfq
    ELSE /\ fd' = [st |-> "done", last |-> last, lo |-> lo, hi |-> hi, mid |-> 0, lm |-> lm, full |-> TRUE, c0 |-> c0, ab |-> fd.ab]
         /\ reqs' = reqs \ {r \in reqs : r.k \in {"anc", "hbn"}}
         /\ selfq' = Append(selfq, Self("FinderResult", "Finder", lm))

FinderFail(last) ==
  /\ fd' = [fd EXCEPT !.st = "dead", !.last = last]
  /\ selfq' = Append(selfq, Self("SyncStop", "Finder", 0))

\* handleSyncStart (accepted): new session, finder started, anchors fetched from the chain service
SyncStart(t) ==
  /\ ~running /\ ~blocked /\ seq < MaxSeq
  /\ t > LBest /\ t <= ch.rbest
  /\ seq' = seq + 1 /\ running' = TRUE /\ target' = t /\ phase' = "finder" /\ anc' = 0 - 1
  /\ f' = NoFetch
  /\ IF ch.full
       THEN \* useFullScanOnly: LastAnchor = BestNo + 1, straight to fullscan
            /\ fd' = [st |-> "full", last |-> LBest + 1, lo |-> 0, hi |-> LBest, mid |-> LBest \div 2, lm |-> 0 - 1, full |-> TRUE, c0 |-> LCommon, ab |-> LBest]
            /\ reqs' = {Req("hbn", LBest \div 2, 0, 0)}
       ELSE /\ fd' = [NoFd EXCEPT !.st = "light", !.last = LastOf(Anchors(LBest)), !.c0 = LCommon, !.ab = LBest]
            /\ reqs' = {Req("anc", 0, 0, 0)}
  /\ UNCHANGED <<ch, rstored, selfq, stale, notif, outcomeOK, faults, stops, blocked>>
  /\ lastAct' = [name |-> "SyncStart", t |-> t]

\* handleSyncStart while a session is running: ignored
SyncStartIgnored ==
  /\ IgnoredStarts /\ running /\ ~blocked
  /\ UNCHANGED <<ch, rstored, seq, running, target, phase, fd, anc, f, reqs, selfq, stale, notif, outcomeOK, faults, stops, blocked>>
  /\ lastAct' = [name |-> "SyncStartIgnored"]

\* GetSyncAncestorRsp.  kind: "ok" the remote node's honest answer (may be nil),
\*                            "nil" peer failure reported as "no ancestor", "low" an answer below the last anchor
AncestorRsp(kind) ==
  /\ running /\ ~blocked /\ Req("anc", 0, 0, 0) \in reqs
  /\ LET a == RemoteAncestor(Anchors(fd.ab), fd.c0) IN
     /\ kind = "nil" => a >= 0
     /\ kind = "low" => fd.last > 0
     /\ kind # "ok" => faults < MaxFaults
     /\ faults' = IF kind = "ok" THEN faults ELSE faults + 1
     /\ IF fd.st # "light"
          THEN \* the finder is gone (timeout): handleAncestorRsp's non-blocking send drops the message
               /\ reqs' = reqs \ {Req("anc", 0, 0, 0)} /\ UNCHANGED <<fd, selfq>>
          ELSE IF kind = "low"
            THEN /\ reqs' = reqs \ {Req("anc", 0, 0, 0)} /\ UNCHANGED <<fd, selfq>>      \* ignored, finder keeps waiting
            ELSE IF kind = "ok" /\ a >= 0
              THEN \* lightscan found it (a >= LastAnchor always holds for an honest answer)
                   /\ fd' = [fd EXCEPT !.st = "done", !.lm = a]
                   /\ reqs' = reqs \ {Req("anc", 0, 0, 0)}
                   /\ selfq' = Append(selfq, Self("FinderResult", "Finder", a))
              ELSE \* nil: fullscan over 0..LastAnchor-1 (LastAnchor = 0 underflows: local GetHashByNo fails)
                   IF fd.last = 0
                     THEN /\ FinderFail(fd.last) /\ reqs' = reqs \ {Req("anc", 0, 0, 0)}
                     ELSE FinderSearch(0, fd.last - 1, 0 - 1, fd.last, fd.c0)
  /\ UNCHANGED <<ch, rstored, seq, running, target, phase, anc, f, stale, notif, outcomeOK, stops, blocked>>
  /\ lastAct' = [name |-> "AncestorRsp", kind |-> kind]

\* GetHashByNoRsp.  kind: "ok" honest hash of the remote chain, "err" failure
HashByNoRsp(kind) ==
  /\ running /\ ~blocked
  /\ \E r \in reqs : r.k = "hbn"
  /\ LET r == CHOOSE x \in reqs : x.k = "hbn" IN
     /\ kind = "err" => faults < MaxFaults
     /\ faults' = IF kind = "ok" THEN faults ELSE faults + 1
     /\ IF fd.st # "full"
          THEN \* the finder goroutine has ended (timeout) and its SyncStop is still queued: nobody receives on
               \* fScanCh any more; Finder.GetHashByNoRsp drops the response (doneCh)
               /\ blocked' = PreRepair /\ reqs' = reqs \ {r} /\ UNCHANGED <<fd, selfq>>
          ELSE /\ blocked' = blocked
               /\ IF kind = "err"
                    THEN /\ FinderFail(fd.last) /\ reqs' = reqs \ {r}
                    ELSE IF r.a <= LCommon
                      THEN FinderSearch(r.a + 1, fd.hi, r.a, fd.last, fd.c0)
                      ELSE IF r.a = 0 THEN FinderSearch(1, 0, fd.lm, fd.last, fd.c0)     \* break
                           ELSE FinderSearch(fd.lo, r.a - 1, fd.lm, fd.last, fd.c0)
  /\ UNCHANGED <<ch, rstored, seq, running, target, phase, anc, f, stale, notif, outcomeOK, stops>>
  /\ lastAct' = [name |-> "HashByNoRsp", kind |-> kind, late |-> (fd.st # "full")]

\* the finder's wait for GetSyncAncestorRsp / GetHashByNoRsp times out
FinderTimeout ==
  /\ running /\ ~blocked /\ phase = "finder" /\ fd.st \in {"light", "full"}
  /\ LET premature == \E r \in reqs : r.k \in {"anc", "hbn"} IN      \* the answer may still come: a slow peer
     /\ premature => faults < MaxFaults
     /\ faults' = IF premature THEN faults + 1 ELSE faults
  /\ FinderFail(fd.last)
  /\ UNCHANGED <<ch, rstored, seq, running, target, phase, anc, f, reqs, stale, notif, outcomeOK, stops, blocked>>
  /\ lastAct' = [name |-> "FinderTimeout"]

\* ------------------------------------------------------------------ the actor handles a message of its own goroutines
DeliverSelf ==
  /\ ~blocked /\ selfq # <<>>
  /\ LET m == Head(selfq) IN
     /\ lastAct' = [name |-> "DeliverSelf", m |-> m.m, who |-> m.who, v |-> m.v, sq |-> m.sq]
     /\ IF ~running \/ m.sq # seq
          THEN /\ selfq' = Tail(selfq)     \* garbage / stale sequence: dropped
               /\ UNCHANGED <<running, phase, fd, anc, f, reqs, stale, notif, outcomeOK>>
          ELSE CASE m.m = "FinderResult" ->
                      IF m.v < 0
                        THEN DoReset(FALSE, "FinderResult", Tail(selfq))
                        ELSE \* handleFinderResult: ancestor set, fetchers started (GetPeers answered by p2p at once)
                             LET cnt == Min2(HashReq, target - m.v) IN
                             /\ anc' = m.v /\ phase' = "fetch" /\ fd' = [fd EXCEPT !.st = "stopped"]
                             /\ f' = [NoFetch EXCEPT !.hfSt = "wait", !.hfLast = m.v, !.hfCnt = cnt, !.prev = m.v,
                                                     !.free = [i \in 1..NPeers |-> i], !.bfAlive = TRUE]
                             /\ reqs' = reqs \cup {Req("hashes", m.v, cnt, 0)}
                             /\ selfq' = Tail(selfq)
                             /\ UNCHANGED <<running, stale, notif, outcomeOK>>
                 [] m.m = "SyncStop" -> DoReset(m.v = 1, m.who, Tail(selfq))
                 [] m.m = "CloseFetcher" -> /\ selfq' = Tail(selfq)
                                            /\ UNCHANGED <<running, phase, fd, anc, f, reqs, stale, notif, outcomeOK>>
  /\ UNCHANGED <<ch, rstored, seq, target, faults, stops, blocked>>

\* a stop request from outside (SyncStop with the current sequence and an error)
ExtStop ==
  /\ running /\ ~blocked /\ stops < MaxStops
  /\ stops' = stops + 1
  /\ DoReset(FALSE, "ext", selfq)
  /\ UNCHANGED <<ch, rstored, seq, target, faults, blocked>>
  /\ lastAct' = [name |-> "ExtStop"]

\* ------------------------------------------------------------------ fetch phase: environment responses
\* GetHashesRsp.  kind: "ok"; "drop" (empty / too few / wrong prev: ignored); "fail" (Err set: stopSyncer)
HashesRsp(kind) ==
  /\ running /\ ~blocked /\ phase = "fetch"
  /\ \E r \in reqs : r.k = "hashes"
  /\ LET r == CHOOSE x \in reqs : x.k = "hashes" IN
     /\ kind # "ok" => faults < MaxFaults
     /\ faults' = IF kind = "ok" THEN faults ELSE faults + 1
     /\ CASE kind = "ok"   -> Commit(OnHashesOk(f, r.a, r.b), {r})
          [] kind = "drop" -> Commit(f, {r})
          [] kind = "fail" -> Commit([f EXCEPT !.self = Append(@, Self("SyncStop", "HashFetcher", 0))], {r})
  /\ UNCHANGED <<ch, rstored, seq, running, target, phase, fd, anc, stale, notif, outcomeOK, stops>>
  /\ lastAct' = [name |-> "HashesRsp", kind |-> kind]

\* the hash fetcher's response timer fires while a request is outstanding (one shot)
HashTimeout ==
  /\ running /\ ~blocked /\ phase = "fetch" /\ f.hfSt = "wait" /\ ~f.hfTO
  /\ LET premature == \E r \in reqs : r.k = "hashes" IN
     /\ premature => faults < MaxFaults
     /\ faults' = IF premature THEN faults + 1 ELSE faults
  /\ Commit([f EXCEPT !.hfTO = TRUE, !.self = Append(@, Self("SyncStop", "HashFetcher", 0))], {})
  /\ UNCHANGED <<ch, rstored, seq, running, target, phase, fd, anc, stale, notif, outcomeOK, stops>>
  /\ lastAct' = [name |-> "HashTimeout"]

\* GetBlockChunksRsp for an outstanding request r.  kind: "ok" | "fail" | "drop"
ChunkRsp(r, kind) ==
  /\ running /\ ~blocked /\ phase = "fetch" /\ r \in reqs /\ r.k = "chunk"
  /\ kind # "ok" => faults < MaxFaults
  /\ faults' = IF kind = "ok" THEN faults ELSE faults + 1
  /\ CASE kind = "ok"   -> Commit(OnChunkOk(f, r.a, r.b, r.c), {r})
       [] kind = "fail" -> Commit(OnChunkFail(f, r.a), {r})
       [] kind = "drop" -> Commit(OnChunkDrop(f), {r})
  /\ UNCHANGED <<ch, rstored, seq, running, target, phase, fd, anc, stale, notif, outcomeOK, stops>>
  /\ lastAct' = [name |-> "ChunkRsp", p |-> r.a, s |-> r.b, c |-> r.c, r |-> r.d, kind |-> kind]

\* running tasks (positions S of the running queue) exceed fetchTimeOut
TaskTimeout(S) ==
  /\ running /\ ~blocked /\ phase = "fetch" /\ f.bfAlive
  /\ S # {} /\ S \subseteq 1..Len(f.runq) /\ Cardinality(S) <= MaxExpire
  /\ LET premature == \E i \in S : ChunkReq(f.runq[i].p, f.runq[i].s, f.runq[i].c, f.runq[i].r) \in reqs IN
     /\ premature => faults < MaxFaults
     /\ faults' = IF premature THEN faults + 1 ELSE faults
  /\ Commit(OnExpire(f, S), {})
  /\ UNCHANGED <<ch, rstored, seq, running, target, phase, fd, anc, stale, notif, outcomeOK, stops>>
  /\ lastAct' = [name |-> "TaskTimeout", tasks |-> {[p |-> f.runq[i].p, s |-> f.runq[i].s] : i \in S}]

\* AddBlockRsp of the chain service for the outstanding AddBlock.  ok: the block is connected
AddRsp(ok) ==
  /\ running /\ ~blocked /\ phase = "fetch"
  /\ \E r \in reqs : r.k = "add"
  /\ LET r == CHOOSE x \in reqs : x.k = "add" IN
     /\ ~ok => faults < MaxFaults
     /\ faults' = IF ok THEN faults ELSE faults + 1
     /\ rstored' = IF ok THEN Max2(rstored, r.a) ELSE rstored
     /\ Commit(OnAddRsp(f, r.a, ok), {r})
     /\ lastAct' = [name |-> "AddRsp", n |-> r.a, ok |-> ok]
  /\ UNCHANGED <<ch, seq, running, target, phase, fd, anc, stale, notif, outcomeOK, stops>>

\* ------------------------------------------------------------------ leftovers of finished sessions
\* a response carrying an old sequence number (or arriving while idle): dropped
StaleOther ==
  /\ ~blocked /\ stale.other > 0
  /\ stale' = [stale EXCEPT !.other = @ - 1]
  /\ UNCHANGED <<ch, rstored, seq, running, target, phase, fd, anc, f, reqs, selfq, notif, outcomeOK, faults, stops, blocked>>
  /\ lastAct' = [name |-> "StaleOther"]

\* the AddBlockRsp of a finished session: it carries no sequence number
StaleAdd(ok) ==
  /\ ~blocked /\ stale.add > 0
  /\ stale' = [stale EXCEPT !.add = 0]
  /\ rstored' = IF ok THEN Max2(rstored, stale.add) ELSE rstored
  /\ IF running /\ phase = "fetch"
       THEN /\ (f.bfAlive => f.got)     \* not while the block fetcher is parked waiting for its first hash set
            /\ Commit(OnAddRsp(f, stale.add, ok), {})
       ELSE UNCHANGED <<f, reqs, selfq, blocked>>
  /\ UNCHANGED <<ch, seq, running, target, phase, fd, anc, notif, outcomeOK, faults, stops>>
  /\ lastAct' = [name |-> "StaleAdd", n |-> stale.add, ok |-> ok]

Next ==
  \/ \E t \in 1..MaxR : SyncStart(t)
  \/ SyncStartIgnored
  \/ \E k \in {"ok", "nil", "low"} : AncestorRsp(k)
  \/ \E k \in {"ok", "err"} : HashByNoRsp(k)
  \/ FinderTimeout
  \/ DeliverSelf
  \/ ExtStop
  \/ \E k \in {"ok", "drop", "fail"} : HashesRsp(k)
  \/ HashTimeout
  \/ \E r \in reqs : \E k \in {"ok", "fail", "drop"} : ChunkRsp(r, k)
  \/ \E S \in SUBSET (1..MaxTasks) : TaskTimeout(S)
  \/ \E ok \in BOOLEAN : AddRsp(ok)
  \/ StaleOther
  \/ \E ok \in BOOLEAN : StaleAdd(ok)

Spec == Init /\ [][Next]_vars

\* ------------------------------------------------------------------ properties
\* blocks are handed to the chain service in ascending contiguous order starting right above the ancestor
DeliveredAscending ==
  phase = "fetch" => \A i \in 1..Len(f.dlv) : f.dlv[i] = anc + i

\* ... and the same for every finished session, whose notification tells the truth (SessionOutcomeOK)
Outcome == outcomeOK

\* the adopted ancestor is on the local main chain and on the remote chain; after a full scan it is the
\* highest such block below the last anchor (as of session start; the local chain may have grown meanwhile).
\* When the "no ancestor among the anchors" answer was honest every shared block is below the last anchor,
\* so this is the highest shared block; a peer failure reported as "no ancestor" only lowers the result.
AncestorCommon ==
  phase = "fetch" => /\ anc >= 0 /\ anc <= LCommon
                     /\ fd.full => anc >= Min2(fd.c0, fd.last - 1)

\* at most one AddBlock outstanding, nothing beyond the target
OneAddAtATime == Cardinality({r \in reqs : r.k = "add"}) <= 1
NeverBeyondTarget == phase = "fetch" => \A i \in 1..Len(f.dlv) : f.dlv[i] <= target

\* every peer is in exactly one place
PeerConservation ==
  (phase = "fetch" /\ f.bfAlive) =>
     /\ \A p \in Peers : Cardinality({i \in 1..Len(f.free) : f.free[i] = p}) + Cardinality({i \in 1..Len(f.runq) : f.runq[i].p = p})
                          + (IF p \in f.bad THEN 1 ELSE 0) = 1
     /\ Len(f.runq) <= MaxTasks

\* queues are consistent: the connect queue is sorted and never holds blocks at or below the last connected one
ConnQueueSane ==
  phase = "fetch" => /\ \A i \in 1..(Len(f.connq) - 1) : f.connq[i].s + f.connq[i].c <= f.connq[i + 1].s
                     /\ \A i \in 1..Len(f.connq) : f.connq[i].s > f.prev

\* an outstanding hash request means the hash fetcher is waiting for it
HashReqSane == (phase = "fetch" /\ \E r \in reqs : r.k = "hashes") => f.hfSt = "wait"

\* the actor never blocks forever
NoActorBlock == ~blocked

\* "Traps" (Race_Syncer_*.cfg): invariants that are violated exactly when one of the two late-message schedules has
\* occurred; TLC's counterexample is the schedule, which checks/c17.py replays on the real syncer.
TrapLateFinderRsp == ~(lastAct.name = "HashByNoRsp" /\ lastAct.late)
TrapBufferOverflow == f.bfBuf <= 2 * MaxTasks
\* PreRepair_Syncer_buffer.cfg only: the actor blocked by the full response channel of an ended block fetcher
NoBufferBlock == ~(blocked /\ phase = "fetch" /\ f.bfBuf > 2 * MaxTasks)

\* a stopped syncer accepts the next SyncStart (Restartable): whenever idle with work left, SyncStart is enabled
Restartable == (~running /\ ~blocked /\ seq < MaxSeq /\ LBest < ch.rbest) => ENABLED (\E t \in 1..MaxR : SyncStart(t))

\* old sessions never influence the delivered sequence of the current one -- covered by DeliveredAscending/Outcome.

\* ------------------------------------------------------------------ liveness (small instances only)
EnvStep == \/ \E k \in {"ok", "nil", "low"} : AncestorRsp(k)
           \/ \E k \in {"ok", "err"} : HashByNoRsp(k)
           \/ \E k \in {"ok", "drop", "fail"} : HashesRsp(k)
           \/ \E r \in reqs : \E k \in {"ok", "fail", "drop"} : ChunkRsp(r, k)
           \/ \E ok \in BOOLEAN : AddRsp(ok)
           \/ FinderTimeout \/ HashTimeout
           \/ \E S \in SUBSET (1..MaxTasks) : TaskTimeout(S)
\* every request is eventually answered or timed out (faults are bounded, so answers are eventually honest),
\* and the actor eventually handles its own messages
Fairness == WF_vars(DeliverSelf) /\ WF_vars(EnvStep)
FairSpec == Spec /\ Fairness
Terminates == running ~> ~running
=============================================================================
