\* liveness on a small instance: under fairness of the actor's own steps and of the environment
\* (every request is eventually answered or times out) every session terminates
SPECIFICATION FairSpec
CONSTANTS
  MaxL = 1
  MaxR = 3
  NPeers = 2
  ChunkSize = 2
  HashReq = 2
  MaxTasks = 2
  MaxPendingConn = 2
  MaxFail = 2
  Skip = 2
  MaxAnchors = 2
  FullScanModes <- BothModes
  MaxSeq = 2
  MaxFaults = 1
  MaxStops = 0
  MaxExpire = 1
  IgnoredStarts = TRUE
  PreRepair = FALSE
VIEW view
PROPERTIES Terminates
CHECK_DEADLOCK FALSE
