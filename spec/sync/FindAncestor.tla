---------------------------- MODULE FindAncestor -----------------------------
(***************************************************************************)
(* C17, responder side of the quick anchor comparison                      *)
(* (chain/chainhandle.go:findAncestor, reached through GetSyncAncestor /   *)
(* p2p GetAncestorRequest).  The responder's store holds its MAIN chain    *)
(* 0..R and a stored SIDE branch that forks off at F and reaches height S  *)
(* (the requester's fork, shorter than the main chain); everything else is *)
(* unknown to it.  The requester's anchor list is an arbitrary sequence of *)
(* blocks: main-chain blocks, side-branch blocks and unknown blocks in     *)
(* every position (also last, with no main-chain anchor before it).        *)
(* The answer is the first anchor that is on the responder's main chain,   *)
(* or "no ancestor" -- never a block the responder's main chain lacks.     *)
(* Syncer.tla's RemoteAncestor is this operator for anchor lists that are  *)
(* the requester's main chain (there: number <= highest shared block).     *)
(***************************************************************************)
EXTENDS Integers, Sequences, FiniteSets, TLC, Util

CONSTANTS R,        \* responder's best block
          F,        \* fork point of the stored side branch
          S,        \* height of the side branch's tip (F < S < R)
          MaxLen    \* max number of anchors in a request

\* a block: <<"m", n>> main chain, <<"s", n>> side branch (F < n <= S), <<"u", n>> unknown to the responder
Blocks == {<<"m", n>> : n \in 0..R} \cup {<<"s", n>> : n \in (F + 1)..S} \cup {<<"u", 1>>}
Lists == UNION {[1..k -> Blocks] : k \in 1..MaxLen}
NoAnc == <<"none", 0>>

VARIABLES asked, answer, lastAct
vars == <<asked, answer, lastAct>>
view == <<asked, answer>>

OnMain(b) == b[1] = "m"

\* findAncestor
Find(as) == LET I == {i \in 1..Len(as) : OnMain(as[i])} IN IF I = {} THEN NoAnc ELSE as[Min(I)]

Init == asked = <<>> /\ answer = NoAnc /\ lastAct = [name |-> "Init"]
Query(as) == /\ asked = <<>> /\ asked' = as /\ answer' = Find(as)
             /\ lastAct' = [name |-> "Query", anchors |-> as]
Next == \E as \in Lists : Query(as)
Spec == Init /\ [][Next]_vars

\* AncestorCommon, responder's half: the answer is one of the requester's anchors and on the responder's main chain
AnswerCommon == asked # <<>> => (answer = NoAnc \/ (OnMain(answer) /\ \E i \in 1..Len(asked) : asked[i] = answer))
\* ... the first such anchor, and "no ancestor" only if there is none
AnswerFirst == asked # <<>> => /\ (answer = NoAnc) = (\A i \in 1..Len(asked) : ~OnMain(asked[i]))
                               /\ answer # NoAnc => \E i \in 1..Len(asked) : asked[i] = answer /\ \A j \in 1..(i - 1) : ~OnMain(asked[j])
=============================================================================
