---------------------------- MODULE MC_ChunkRecv -----------------------------
EXTENDS ChunkRecv
ItemSet == {1, 2, 3, 9}
ItemSet2 == {1, 2}
GenLog == LogTransition(view, lastAct', view')
=============================================================================
