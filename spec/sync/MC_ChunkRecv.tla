---------------------------- MODULE MC_ChunkRecv -----------------------------
EXTENDS ChunkRecv
ItemSet == {1, 2, 3, 9}
GenLog == LogTransition(view, lastAct', view')
=============================================================================
