\* schedule finder (the trap invariant is EXPECTED to be violated; the counterexample is the schedule): a GetHashByNoRsp that was queued ahead of the SyncStop of a finder that timed out.
\* checks/c17.py replays it on the real syncer: the actor must not block, the session must end, a new one succeed.
SPECIFICATION Spec
CONSTANTS
  MaxL = 1
  MaxR = 3
  NPeers = 2
  ChunkSize = 2
  HashReq = 3
  MaxTasks = 1
  MaxPendingConn = 2
  MaxFail = 2
  Skip = 2
  MaxAnchors = 2
  FullScanModes <- BothModes
  MaxSeq = 2
  MaxFaults = 1
  MaxStops = 0
  MaxExpire = 2
  IgnoredStarts = FALSE
  PreRepair = FALSE
INVARIANTS NoActorBlock TrapLateFinderRsp
CHECK_DEADLOCK FALSE
