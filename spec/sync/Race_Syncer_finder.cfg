\* race hunt (expected to FAIL NoActorBlock): a GetHashByNoRsp that was queued ahead of the SyncStop of a finder
\* that timed out.  checks/c17.py replays the counterexample on the real syncer.
SPECIFICATION Spec
CONSTANTS
  MaxL = 1
  MaxR = 4
  NPeers = 2
  ChunkSize = 2
  HashReq = 3
  MaxTasks = 2
  MaxPendingConn = 2
  MaxFail = 2
  Skip = 2
  MaxAnchors = 2
  FullScanModes <- BothModes
  MaxSeq = 2
  MaxFaults = 1
  MaxStops = 0
  MaxExpire = 2
  IgnoredStarts = FALSE
  RaceFinder = TRUE
  RaceBuffer = FALSE
VIEW view
INVARIANTS NoActorBlock
CHECK_DEADLOCK FALSE
