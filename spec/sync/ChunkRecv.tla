------------------------------ MODULE ChunkRecv ------------------------------
(***************************************************************************)
(* C17, p2p side: the receivers that turn the (possibly multi-part)        *)
(* response of a peer into ONE actor message for the syncer                *)
(* (p2p/blkreceiver.go:BlocksChunkReceiver, p2p/hashreceiver.go:           *)
(* BlockHashesReceiver).  The syncer's block fetcher relies on: at most    *)
(* one GetBlockChunksRsp per request, and a response without error carries *)
(* exactly the requested blocks in the requested order.                    *)
(* Items are numbers; the request asks for 1..N; 9 is a foreign item.      *)
(* The receiver's own deadline is not modelled (no timeout in the bounds). *)
(***************************************************************************)
EXTENDS Integers, Sequences, FiniteSets, TLC, Util

CONSTANTS N,         \* number of requested items
          Items,     \* items a peer may send
          MaxPart,   \* max items per response part
          MaxParts,  \* max response parts
          Kind       \* "blocks" | "hashes"

VARIABLES status,    \* "waiting" | "canceled" | "finished"
          got,       \* items accepted so far
          sent,      \* actor messages sent to the syncer: <<"ok", items>> or <<"err">>
          parts, lastAct

vars == <<status, got, sent, parts, lastAct>>
view == <<status, got, sent, parts>>

PartsOf == UNION {[1..n -> Items] : n \in 0..MaxPart}

Init == status = "waiting" /\ got = <<>> /\ sent = <<>> /\ parts = 0 /\ lastAct = [name |-> "Init"]

\* cancelReceiving(err, hasNext): the failure is reported at once; the request id is consumed now or when the peer is done
Cancel(hn, g) == /\ sent' = Append(sent, <<"err">>)
                 /\ status' = IF hn THEN "canceled" ELSE "finished"
                 /\ got' = g

\* the loop over the items of one part: result <<"ok"|"cancel", got>>
RECURSIVE Take(_, _, _)
Take(items, i, g) ==
  IF i > Len(items) THEN <<"ok", g>>
  ELSE IF Len(g) >= N THEN <<"cancel", g>>                                   \* more than requested
  ELSE IF Kind = "blocks" /\ items[i] # Len(g) + 1 THEN <<"cancel", g>>     \* not the block asked for at this position
  ELSE Take(items, i + 1, Append(g, items[i]))

Part(items, hasNext, ok) ==
  /\ parts < MaxParts /\ parts' = parts + 1
  /\ lastAct' = [name |-> "Part", items |-> items, hasNext |-> hasNext, ok |-> ok]
  /\ IF status # "waiting"
       THEN UNCHANGED <<status, got, sent>>                                 \* ignoreMsg / finished: nothing is sent any more
       ELSE IF ~ok \/ items = <<>>
         THEN Cancel(FALSE, got)                                             \* failure status or empty part
         ELSE LET r == Take(items, 1, got) IN
              IF r[1] = "cancel" THEN Cancel(hasNext, r[2])
              ELSE IF hasNext THEN /\ got' = r[2] /\ UNCHANGED <<status, sent>>
              ELSE IF Kind = "blocks" /\ Len(r[2]) < N THEN Cancel(FALSE, r[2])   \* too few
              ELSE /\ got' = r[2] /\ sent' = Append(sent, <<"ok", r[2]>>) /\ status' = "finished"

Next == \E items \in PartsOf : \E hn, ok \in BOOLEAN : Part(items, hn, ok)
Spec == Init /\ [][Next]_vars

\* one request, at most one answer
AtMostOneMessage == Len(sent) <= 1
\* an answer without error carries exactly what was asked for (blocks) / never more than asked for (hashes)
OkIsExact == \A i \in 1..Len(sent) : sent[i][1] = "ok" =>
                IF Kind = "blocks" THEN sent[i][2] = [j \in 1..N |-> j] ELSE Len(sent[i][2]) <= N /\ Len(sent[i][2]) >= 1
\* once the peer's last part was seen (or a failure reported) the syncer has its answer
AnsweredWhenDone == status # "waiting" => Len(sent) = 1
=============================================================================
