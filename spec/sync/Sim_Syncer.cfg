\* simulation (tlc -simulate): behaviours of a larger instance for the replay harness; single-task expiry only
\* (the harness expires one task at a time), two sessions
SPECIFICATION Spec
CONSTANTS
  MaxL = 3
  MaxR = 7
  NPeers = 3
  ChunkSize = 2
  HashReq = 3
  MaxTasks = 2
  MaxPendingConn = 2
  MaxFail = 2
  Skip = 2
  MaxAnchors = 2
  FullScanModes <- BothModes
  MaxSeq = 3
  MaxFaults = 4
  MaxStops = 1
  MaxExpire = 1
  IgnoredStarts = FALSE
  PreRepair = FALSE
INVARIANTS DeliveredAscending Outcome AncestorCommon NeverBeyondTarget PeerConservation ConnQueueSane HashReqSane NoActorBlock
CHECK_DEADLOCK FALSE
