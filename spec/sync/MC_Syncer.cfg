\* quick exhaustive design check: one session, all chain pairs (local <=2, remote <=4, every fork point),
\* light and full scan, <=2 faults (bad responses / premature timeouts), one stop request, multi-task expiry
SPECIFICATION Spec
CONSTANTS
  MaxL = 2
  MaxR = 4
  NPeers = 2
  ChunkSize = 2
  HashReq = 3
  MaxTasks = 2
  MaxPendingConn = 2
  MaxFail = 2
  Skip = 2
  MaxAnchors = 2
  FullScanModes <- BothModes
  MaxSeq = 2
  MaxFaults = 2
  MaxStops = 1
  MaxExpire = 2
  IgnoredStarts = TRUE
  PreRepair = FALSE
VIEW view
INVARIANTS DeliveredAscending Outcome AncestorCommon NeverBeyondTarget PeerConservation ConnQueueSane HashReqSane NoActorBlock Restartable
CHECK_DEADLOCK FALSE
