\* the variant "small payloads are read into a buffer embedded in the reader": EXPECTED TO FAIL — TLC's counterexample to
\* ReturnedMessagesImmutable (two small frames, the first message looked at after the second read) is replayed on the real
\* reader by checks/c18.py, where it must NOT reproduce
SPECIFICATION Spec
CONSTANTS
  Classes <- C5
  Empty = "z"
  Over = "over"
  Subs = {1}
  MaxFrames = 3
  Ends <- AllEnds
  Shared <- ShareSmall
VIEW mcView
INVARIANTS ReturnedMessagesImmutable
CHECK_DEADLOCK FALSE
