\* design check + generation (both tiers): every interleaving of <= 3 WriteMsg calls over the 8 payload size classes with the
\* ReadMsg calls, every ending; the history of calls is part of the state (one state per behaviour prefix), the invariants
\* are checked on every one of them, and every finished behaviour is printed (one line each) for the replay on the real code
SPECIFICATION Spec
CONSTANTS
  Classes <- C8
  Empty = "z"
  Over = "over"
  Subs = {1}
  MaxFrames = 3
  Ends <- AllEnds
  Shared <- NoShare
VIEW genView
INVARIANTS TypeOK ReturnedMessagesImmutable StreamFidelity OwnBuffer CleanFailure Total Complete BoundedAlloc
PROPERTIES RefusedWritesSilent
ACTION_CONSTRAINT GenLog
CHECK_DEADLOCK FALSE
