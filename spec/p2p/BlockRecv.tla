----------------------------- MODULE BlockRecv ------------------------------
(***************************************************************************)
(* C18(c), p2p side — how blocks obtained from the network are identified  *)
(* before they are handed to the chain service / the syncer                *)
(* (p2p/blkreceiver.go, p2p/syncmanager.go, p2p/subproto/bp.go,            *)
(* getblock.go, block.go).                                                 *)
(*                                                                         *)
(* A delivered block is [ann, hdr]: the identifier carried next to the     *)
(* header (types.Block.Hash, supplied by the sender) and the header, named *)
(* by its own digest (Digest(h) = h; "x" is any header that hashes neither *)
(* to a nor to b).  ann = "none": the field is empty.  The block is        *)
(* genuine iff ann = hdr.  Bodies are not looked at by this layer.         *)
(*                                                                         *)
(* CheckDigest = TRUE is the intended design (content that does not hash   *)
(* to the announced identifier is discarded without trace);                *)
(* CheckDigest = FALSE is the code as read (nothing on the receive paths   *)
(* recomputes the digest) and is expected to violate the properties.       *)
(***************************************************************************)
EXTENDS Integers, Sequences, FiniteSets, TLC, Util

CONSTANTS Ids,          \* block identifiers = header digests
          Reqs,         \* the hash lists a chunk receiver may be started with (sequences over Ids)
          ChunkMax,     \* max number of blocks in one response message
          SeqItems,     \* the delivered blocks that multi-block messages are built from (Items, or a subset of it)
          Parts,        \* subset of {"sm", "recv"}: which component's actions are enabled
          Interleave,   \* FALSE: the two components are explored separately (generation)
          CheckDigest

Anns  == Ids \cup {"none"}
Items == [ann : Anns, hdr : Ids]
ASSUME SeqItems \subseteq Items
Genuine(it) == it.ann = it.hdr
Forged(it)  == it.ann # "none" /\ it.ann # it.hdr

VARIABLES cache,     \* syncManager.blkCache: identifiers already seen (block notices)
          legit,     \* history: identifiers that entered the cache through an announcement that was not forged
          outF,      \* blocks handed to the chain service (AddBlock) by the last action
          outA,      \* identifiers requested back from the notifier (GetBlockInfos) by the last action
          req, off, got, rstat, rsp,   \* the chunk receiver: requested ids, offset, blocks kept, status, answer to the syncer
          lastAct

vars == <<cache, legit, outF, outA, req, off, got, rstat, rsp, lastAct>>
view == <<cache, legit, outF, outA, req, off, got, rstat, rsp>>

SeqsUpTo(S, n) == UNION {[1..k -> S] : k \in 0..n}

NoRsp == [k |-> "none", blocks |-> <<>>]

Init == /\ cache = {} /\ legit = {} /\ outF = <<>> /\ outA = <<>>
        /\ req = <<>> /\ off = 0 /\ got = <<>> /\ rstat = "none" /\ rsp = NoRsp
        /\ lastAct = [name |-> "Init"]

SmIdle   == UNCHANGED <<cache, legit>> /\ outF' = <<>> /\ outA' = <<>>
RecvIdle == UNCHANGED <<req, off, got, rstat, rsp>>

SmEnabled   == "sm" \in Parts /\ (Interleave \/ rstat = "none")
RecvEnabled == "recv" \in Parts /\ (Interleave \/ (cache = {} /\ outF = <<>> /\ outA = <<>>))

\* ------------------------------------------------------------------ block notices (syncManager)
\* BlockProducedNotice carrying a whole block; auth: the sender is entitled to speak for the producer key of the header
BPNotice(it, auth) ==
  /\ SmEnabled
  /\ IF it.ann = "none" \/ ~auth \/ (CheckDigest /\ Forged(it))
       THEN SmIdle                                            \* ignored: nothing is remembered
       ELSE IF it.ann \in cache
              THEN SmIdle                                     \* duplicate notice
              ELSE /\ cache' = cache \cup {it.ann}
                   /\ legit' = IF Genuine(it) THEN legit \cup {it.ann} ELSE legit
                   /\ outF' = <<it>> /\ outA' = <<>>
  /\ lastAct' = [name |-> "BPNotice", it |-> it, auth |-> auth]
  /\ RecvIdle

\* NewBlockNotice carrying only an identifier; known: the chain already has that block
NewBlockNotice(id, known) ==
  /\ SmEnabled
  /\ IF id \in cache THEN SmIdle
     ELSE /\ cache' = cache \cup {id} /\ legit' = legit \cup {id}
          /\ outF' = <<>> /\ outA' = IF known THEN <<>> ELSE <<id>>
  /\ lastAct' = [name |-> "NewBlockNotice", id |-> id, known |-> known]
  /\ RecvIdle

\* GetBlocksResponse that no chunk receiver is waiting for (answer to GetBlockInfos): a single block is passed on
GetBlockRsp(its, ok) ==
  /\ SmEnabled
  /\ UNCHANGED <<cache, legit>> /\ outA' = <<>>
  /\ outF' = IF ok /\ Len(its) = 1 /\ ~(CheckDigest /\ Forged(its[1])) THEN its ELSE <<>>
  /\ lastAct' = [name |-> "GetBlockRsp", its |-> its, ok |-> ok]
  /\ RecvIdle

\* ------------------------------------------------------------------ the chunk receiver (BlocksChunkReceiver)
StartGet(r) ==
  /\ RecvEnabled
  /\ req' = r /\ off' = 0 /\ got' = <<>> /\ rstat' = "waiting" /\ rsp' = NoRsp
  /\ lastAct' = [name |-> "StartGet", req |-> r]
  /\ SmIdle

\* the loop of handleInWaiting over the blocks of one message: result <<offset, kept blocks, stopped with an error?>>
RECURSIVE Take(_, _, _)
Take(its, o, g) ==
  IF its = <<>> THEN <<o, g, FALSE>>
  ELSE LET it == Head(its) IN
       IF o >= Len(req) THEN <<o, g, TRUE>>                                   \* more blocks than requested
       ELSE IF it.ann # req[o + 1] THEN <<o, g, TRUE>>                         \* not the requested block
       ELSE IF CheckDigest /\ it.hdr # it.ann THEN <<o, g, TRUE>>              \* content does not hash to the identifier
       ELSE Take(Tail(its), o + 1, Append(g, it))

Cancel(hasNext) == /\ rsp' = [k |-> "err", blocks |-> <<>>]
                   /\ rstat' = IF hasNext THEN "canceled" ELSE "finished"

Chunk(its, hasNext, ok) ==
  /\ RecvEnabled /\ rstat # "none"
  /\ IF rstat # "waiting" THEN RecvIdle                       \* canceled: ignoreMsg; finished: dropped
     ELSE IF ~ok \/ its = <<>> THEN Cancel(FALSE) /\ UNCHANGED <<req, off, got>>
     ELSE LET t == Take(its, off, got) IN
            /\ off' = t[1] /\ got' = t[2] /\ req' = req
            /\ IF t[3] THEN Cancel(hasNext)
               ELSE IF hasNext THEN UNCHANGED <<rstat, rsp>>
               ELSE IF t[1] < Len(req) THEN Cancel(FALSE)                      \* last message, blocks missing
               ELSE rsp' = [k |-> "ok", blocks |-> t[2]] /\ rstat' = "finished"
  /\ lastAct' = [name |-> "Chunk", its |-> its, hasNext |-> hasNext, ok |-> ok]
  /\ SmIdle

Next == \/ \E it \in Items, auth \in BOOLEAN : BPNotice(it, auth)
        \/ \E id \in Ids, known \in BOOLEAN : NewBlockNotice(id, known)
        \/ \E its \in SeqsUpTo(SeqItems, ChunkMax), ok \in BOOLEAN : GetBlockRsp(its, ok)
        \/ \E r \in Reqs : StartGet(r)
        \/ \E its \in SeqsUpTo(SeqItems, ChunkMax), hasNext \in BOOLEAN, ok \in BOOLEAN : Chunk(its, hasNext, ok)

Spec == Init /\ [][Next]_vars

\* ------------------------------------------------------------------ properties
TypeOK == /\ cache \subseteq Ids /\ legit \subseteq Ids /\ off \in 0..Len(req) /\ Len(got) = off
          /\ rstat \in {"none", "waiting", "canceled", "finished"} /\ rsp.k \in {"none", "ok", "err"}

\* a block is handed on only under the digest of its own header (or without identifier: the chain computes it)
FwdOwnDigest == \A i \in 1..Len(outF) : ~Forged(outF[i])

\* the syncer receives exactly the requested blocks, each being what its identifier says
SyncerOwnDigest == (rsp.k = "ok") => /\ Len(rsp.blocks) = Len(req)
                                     /\ \A i \in 1..Len(req) : rsp.blocks[i].ann = req[i] /\ rsp.blocks[i].hdr = req[i]
KeptOwnDigest == \A i \in 1..Len(got) : got[i].ann = req[i] /\ got[i].hdr = req[i]

\* forged content leaves no trace in the notice cache ...
CacheOnlyLegit == cache \subseteq legit
ForgedNoTrace == [][(lastAct'.name = "BPNotice" /\ Forged(lastAct'.it)) => (cache' = cache /\ outF' = <<>> /\ outA' = <<>>)]_vars
\* ... so the genuine block is still accepted afterwards, and so is its announcement
GenuineAccepted == [][(lastAct'.name = "BPNotice" /\ Genuine(lastAct'.it) /\ lastAct'.auth /\ lastAct'.it.ann \notin legit)
                        => outF' = <<lastAct'.it>>]_vars
AnnouncementHeard == [][(lastAct'.name = "NewBlockNotice" /\ ~lastAct'.known /\ lastAct'.id \notin legit)
                        => outA' = <<lastAct'.id>>]_vars

\* the syncer is answered at most once per receiver, and a finished/canceled receiver stays so
OneAnswer == [][(lastAct'.name = "Chunk" /\ rsp.k # "none") => rsp' = rsp]_vars
=============================================================================
