----------------------------- MODULE BlockRecv ------------------------------
(***************************************************************************)
(* C18(c), p2p side — how blocks obtained from the network are identified  *)
(* before they are handed to the chain service / the syncer                *)
(* (p2p/blkreceiver.go, p2p/syncmanager.go, p2p/subproto/bp.go,            *)
(* getblock.go, block.go).                                                 *)
(*                                                                         *)
(* A delivered block is [ann, hdr]: the identifier carried next to the     *)
(* header (types.Block.Hash, supplied by the sender) and the header, named *)
(* by its own digest (Digest(h) = h; "x" is any header that hashes neither *)
(* to a nor to b).  ann = "none": the field is empty.  The block is        *)
(* genuine iff ann = hdr.  Bodies are not looked at by this layer.         *)
(*                                                                         *)
(* Third component ("cs" \in Parts): the chain service behind those paths   *)
(* (chain/chainhandle.go addBlock), where the body counts: a block is       *)
(* [ann, hdr, body], the genuine header commits to the body through the    *)
(* transaction merkle root, and that root is computed with the padding rule *)
(* of internal/merkle (a missing right child is a copy of the left one), so *)
(* bodies that repeat the tail of the genuine body have the genuine root.   *)
(*                                                                         *)
(* CheckDigest = TRUE is the intended design (content that does not hash   *)
(* to the announced identifier is discarded without trace);                *)
(* CheckDigest = FALSE is the code as read (nothing on the receive paths   *)
(* recomputes the digest) and is expected to violate the properties.       *)
(***************************************************************************)
EXTENDS Integers, Sequences, FiniteSets, TLC, Util

CONSTANTS Ids,          \* block identifiers = header digests
          Reqs,         \* the hash lists a chunk receiver may be started with (sequences over Ids)
          ChunkMax,     \* max number of blocks in one response message
          SeqItems,     \* the delivered blocks that multi-block messages are built from (Items, or a subset of it)
          Parts,        \* subset of {"sm", "recv"}: which component's actions are enabled
          Interleave,   \* FALSE: the two components are explored separately (generation)
          CheckDigest,
          BodySizes,    \* chain service: the numbers of transactions the genuine block a may hold
          MaxArrive,    \* chain service: bound on the number of arrivals
          RepeatGuard   \* chain service: TRUE = a body holding a transaction twice is dropped at the door (chain.hasRepeatedTx)

Anns  == Ids \cup {"none"}
Items == [ann : Anns, hdr : Ids]
ASSUME SeqItems \subseteq Items
Genuine(it) == it.ann = it.hdr
Forged(it)  == it.ann # "none" /\ it.ann # it.hdr

\* ------------------------------------------------------------------ transaction lists and their merkle root
\* (internal/merkle/merkle.go CalculateMerkleTree, over an injective symbolic node hash; same rule as spec/commit/Commitments.tla)
Nil == <<"nil">>
RECURSIVE Pow2AtLeast(_, _)
Pow2AtLeast(x, n) == IF x >= n THEN x ELSE Pow2AtLeast(2 * x, n)
Level0(l) == [i \in 1..Pow2AtLeast(1, Len(l)) |-> IF i <= Len(l) THEN <<"L", l[i]>> ELSE Nil]
LevelUp(lv) == [i \in 1..(Len(lv) \div 2) |->
                  LET lc == lv[2 * i - 1]
                      rc == lv[2 * i]
                  IN IF lc = Nil THEN Nil ELSE IF rc = Nil THEN <<"N", lc, lc>> ELSE <<"N", lc, rc>>]
RECURSIVE Collapse(_)
Collapse(lv) == IF Len(lv) = 1 THEN lv[1] ELSE Collapse(LevelUp(lv))
MRoot(l) == IF Len(l) = 0 THEN <<"zero">> ELSE Collapse(Level0(l))
\* the full leaf row the padding rule makes of a list: at every level an odd number of blocks gets its last block repeated
RECURSIVE ExpandTo(_, _)
ExpandTo(l, w) ==
  IF Len(l) <= w THEN l
  ELSE LET nb == Len(l) \div w
           l2 == IF nb % 2 = 1 THEN l \o SubSeq(l, Len(l) - w + 1, Len(l)) ELSE l
       IN ExpandTo(l2, 2 * w)
Expand(l) == ExpandTo(l, 1)
\* every other list with the root of l: the root is the full binary tree over Expand(l), and Expand only appends, so a list
\* with the same root is a prefix of Expand(l) that expands to the same row (cross-checked against MRoot by brute force in
\* MC_BlockRecvCS.tla).  For the genuine body [t1..t6]: [t1..t6,t5,t6]; for [t1..t5]: [..t5,t5], [..t5,t5,t5], [..t5,t5,t5,t5].
PadVariants(l) == LET E == Expand(l) IN {p \in {SubSeq(E, 1, k) : k \in 1..Len(E)} : p # l /\ Expand(p) = E}
InjectiveSeq(l) == \A i, j \in DOMAIN l : l[i] = l[j] => i = j

\* the genuine body of block a with n transactions, and the altered bodies a relay may attach to a's genuine header
\* (transaction n + 1 is a valid transaction that is not in the block)
Gen(n) == [i \in 1..n |-> i]
AlteredBodies(n) ==
  [emptied |-> {<<>>},
   dropped |-> IF n >= 2 THEN {SubSeq(Gen(n), 1, n - 1)} ELSE {},
   swapped |-> IF n >= 2 THEN {[i \in 1..n |-> IF i = 1 THEN n ELSE IF i = n THEN 1 ELSE i]} ELSE {},
   substituted |-> {[i \in 1..n |-> IF i = n THEN n + 1 ELSE i], <<n + 1>>},
   appended |-> {Append(Gen(n), n + 1)},
   padded |-> PadVariants(Gen(n))]
BodyKinds == {"emptied", "dropped", "swapped", "substituted", "appended", "padded"}
CsItems(n) == {[ann |-> "a", hdr |-> "a", body |-> Gen(n), kind |-> "genuine"],
               [ann |-> "a", hdr |-> "x", body |-> Gen(n), kind |-> "header"]}
              \cup UNION {{[ann |-> "a", hdr |-> h, body |-> b, kind |-> k] : b \in AlteredBodies(n)[k], h \in {"a"}} : k \in BodyKinds}
              \cup {[ann |-> "a", hdr |-> "x", body |-> b, kind |-> "header+padded"] : b \in PadVariants(Gen(n))}

VARIABLES cache,     \* syncManager.blkCache: identifiers already seen (block notices)
          legit,     \* history: identifiers that entered the cache through an announcement that was not forged
          outF,      \* blocks handed to the chain service (AddBlock) by the last action
          outA,      \* identifiers requested back from the notifier (GetBlockInfos) by the last action
          req, off, got, rstat, rsp,   \* the chunk receiver: requested ids, offset, blocks kept, status, answer to the syncer
          gn,        \* chain service: number of transactions of the genuine block a (0: component not explored)
          conn,      \* chain service: is a block connected under the identifier of a, and with which body
          bad,       \* chain service: ChainService.errBlocks, the identifiers of genuine blocks cached as errored
          narr,      \* chain service: arrivals so far
          lastAct

csvars == <<gn, conn, bad, narr>>
vars == <<cache, legit, outF, outA, req, off, got, rstat, rsp, gn, conn, bad, narr, lastAct>>
view == <<cache, legit, outF, outA, req, off, got, rstat, rsp, gn, conn, bad, narr>>

SeqsUpTo(S, n) == UNION {[1..k -> S] : k \in 0..n}

NoRsp == [k |-> "none", blocks |-> <<>>]
NotConn == [on |-> FALSE, body |-> <<>>]

Init == /\ cache = {} /\ legit = {} /\ outF = <<>> /\ outA = <<>>
        /\ req = <<>> /\ off = 0 /\ got = <<>> /\ rstat = "none" /\ rsp = NoRsp
        /\ gn \in (IF "cs" \in Parts THEN BodySizes ELSE {0}) /\ conn = NotConn /\ bad = {} /\ narr = 0
        /\ lastAct = [name |-> "Init"]

SmIdle   == UNCHANGED <<cache, legit>> /\ outF' = <<>> /\ outA' = <<>>
RecvIdle == UNCHANGED <<req, off, got, rstat, rsp>>
CsIdle   == UNCHANGED csvars

SmEnabled   == "sm" \in Parts /\ (Interleave \/ rstat = "none")
RecvEnabled == "recv" \in Parts /\ (Interleave \/ (cache = {} /\ outF = <<>> /\ outA = <<>>))

\* ------------------------------------------------------------------ block notices (syncManager)
\* BlockProducedNotice carrying a whole block; auth: the sender is entitled to speak for the producer key of the header
BPNotice(it, auth) ==
  /\ SmEnabled
  /\ IF it.ann = "none" \/ ~auth \/ (CheckDigest /\ Forged(it))
       THEN SmIdle                                            \* ignored: nothing is remembered
       ELSE IF it.ann \in cache
              THEN SmIdle                                     \* duplicate notice
              ELSE /\ cache' = cache \cup {it.ann}
                   /\ legit' = IF Genuine(it) THEN legit \cup {it.ann} ELSE legit
                   /\ outF' = <<it>> /\ outA' = <<>>
  /\ lastAct' = [name |-> "BPNotice", it |-> it, auth |-> auth]
  /\ RecvIdle /\ CsIdle

\* NewBlockNotice carrying only an identifier; known: the chain already has that block
NewBlockNotice(id, known) ==
  /\ SmEnabled
  /\ IF id \in cache THEN SmIdle
     ELSE /\ cache' = cache \cup {id} /\ legit' = legit \cup {id}
          /\ outF' = <<>> /\ outA' = IF known THEN <<>> ELSE <<id>>
  /\ lastAct' = [name |-> "NewBlockNotice", id |-> id, known |-> known]
  /\ RecvIdle /\ CsIdle

\* GetBlocksResponse that no chunk receiver is waiting for (answer to GetBlockInfos): a single block is passed on
GetBlockRsp(its, ok) ==
  /\ SmEnabled
  /\ UNCHANGED <<cache, legit>> /\ outA' = <<>>
  /\ outF' = IF ok /\ Len(its) = 1 /\ ~(CheckDigest /\ Forged(its[1])) THEN its ELSE <<>>
  /\ lastAct' = [name |-> "GetBlockRsp", its |-> its, ok |-> ok]
  /\ RecvIdle /\ CsIdle

\* ------------------------------------------------------------------ the chunk receiver (BlocksChunkReceiver)
StartGet(r) ==
  /\ RecvEnabled
  /\ req' = r /\ off' = 0 /\ got' = <<>> /\ rstat' = "waiting" /\ rsp' = NoRsp
  /\ lastAct' = [name |-> "StartGet", req |-> r]
  /\ SmIdle /\ CsIdle

\* the loop of handleInWaiting over the blocks of one message: result <<offset, kept blocks, stopped with an error?>>
RECURSIVE Take(_, _, _)
Take(its, o, g) ==
  IF its = <<>> THEN <<o, g, FALSE>>
  ELSE LET it == Head(its) IN
       IF o >= Len(req) THEN <<o, g, TRUE>>                                   \* more blocks than requested
       ELSE IF it.ann # req[o + 1] THEN <<o, g, TRUE>>                         \* not the requested block
       ELSE IF CheckDigest /\ it.hdr # it.ann THEN <<o, g, TRUE>>              \* content does not hash to the identifier
       ELSE Take(Tail(its), o + 1, Append(g, it))

Cancel(hasNext) == /\ rsp' = [k |-> "err", blocks |-> <<>>]
                   /\ rstat' = IF hasNext THEN "canceled" ELSE "finished"

Chunk(its, hasNext, ok) ==
  /\ RecvEnabled /\ rstat # "none"
  /\ IF rstat # "waiting" THEN RecvIdle                       \* canceled: ignoreMsg; finished: dropped
     ELSE IF ~ok \/ its = <<>> THEN Cancel(FALSE) /\ UNCHANGED <<req, off, got>>
     ELSE LET t == Take(its, off, got) IN
            /\ off' = t[1] /\ got' = t[2] /\ req' = req
            /\ IF t[3] THEN Cancel(hasNext)
               ELSE IF hasNext THEN UNCHANGED <<rstat, rsp>>
               ELSE IF t[1] < Len(req) THEN Cancel(FALSE)                      \* last message, blocks missing
               ELSE rsp' = [k |-> "ok", blocks |-> t[2]] /\ rstat' = "finished"
  /\ lastAct' = [name |-> "Chunk", its |-> its, hasNext |-> hasNext, ok |-> ok]
  /\ SmIdle /\ CsIdle

\* ------------------------------------------------------------------ the chain service (ChainService.addBlock)
\* the block reaches the chain service (from any of the paths above, from the syncer, from a block producer).  The
\* announced identifier is not looked at: the block is named by the digest of its own header (ownID).  Header "x" is a's
\* header with a field altered: another identifier, and the producer's signature no longer covers it.
Arrive(it) ==
  /\ "cs" \in Parts /\ narr < MaxArrive
  /\ narr' = narr + 1 /\ gn' = gn
  /\ LET committed == MRoot(it.body) = MRoot(Gen(gn))            \* TxsRootHash of the header = root of the body received
         res == IF it.hdr # "a" THEN "refused"                                  \* not block a at all
                ELSE IF ~committed THEN "dropped"                                \* the body is not the committed one: no trace
                ELSE IF RepeatGuard /\ ~InjectiveSeq(it.body) THEN "dropped"     \* padded body: no trace
                ELSE IF "a" \in bad THEN "cached"
                ELSE IF conn.on THEN "known"
                ELSE IF it.body = Gen(gn) THEN "connected"
                ELSE "failed"                                                    \* executed, a transaction fails (nonce used)
     IN /\ conn' = IF res = "connected" THEN [on |-> TRUE, body |-> it.body] ELSE conn
        /\ bad' = IF res = "failed" THEN bad \cup {"a"} ELSE bad
        /\ lastAct' = [name |-> "Arrive", it |-> it, res |-> res]
  /\ SmIdle /\ RecvIdle

Next == \/ \E it \in Items, auth \in BOOLEAN : BPNotice(it, auth)
        \/ \E id \in Ids, known \in BOOLEAN : NewBlockNotice(id, known)
        \/ \E its \in SeqsUpTo(SeqItems, ChunkMax), ok \in BOOLEAN : GetBlockRsp(its, ok)
        \/ \E r \in Reqs : StartGet(r)
        \/ \E its \in SeqsUpTo(SeqItems, ChunkMax), hasNext \in BOOLEAN, ok \in BOOLEAN : Chunk(its, hasNext, ok)
        \/ \E it \in CsItems(gn) : Arrive(it)

Spec == Init /\ [][Next]_vars

\* ------------------------------------------------------------------ properties
TypeOK == /\ cache \subseteq Ids /\ legit \subseteq Ids /\ off \in 0..Len(req) /\ Len(got) = off
          /\ rstat \in {"none", "waiting", "canceled", "finished"} /\ rsp.k \in {"none", "ok", "err"}

\* a block is handed on only under the digest of its own header (or without identifier: the chain computes it)
FwdOwnDigest == \A i \in 1..Len(outF) : ~Forged(outF[i])

\* the syncer receives exactly the requested blocks, each being what its identifier says
SyncerOwnDigest == (rsp.k = "ok") => /\ Len(rsp.blocks) = Len(req)
                                     /\ \A i \in 1..Len(req) : rsp.blocks[i].ann = req[i] /\ rsp.blocks[i].hdr = req[i]
KeptOwnDigest == \A i \in 1..Len(got) : got[i].ann = req[i] /\ got[i].hdr = req[i]

\* forged content leaves no trace in the notice cache ...
CacheOnlyLegit == cache \subseteq legit
ForgedNoTrace == [][(lastAct'.name = "BPNotice" /\ Forged(lastAct'.it)) => (cache' = cache /\ outF' = <<>> /\ outA' = <<>>)]_vars
\* ... so the genuine block is still accepted afterwards, and so is its announcement
GenuineAccepted == [][(lastAct'.name = "BPNotice" /\ Genuine(lastAct'.it) /\ lastAct'.auth /\ lastAct'.it.ann \notin legit)
                        => outF' = <<lastAct'.it>>]_vars
AnnouncementHeard == [][(lastAct'.name = "NewBlockNotice" /\ ~lastAct'.known /\ lastAct'.id \notin legit)
                        => outA' = <<lastAct'.id>>]_vars

\* ---- chain service: content that is not the genuine block never affects what the node accepts later
\* the acceptance test is binding: among all the bodies a relay can attach, only the genuine one passes root check + repeat guard
AcceptBinding == \A it \in CsItems(gn) : (it.hdr = "a" /\ MRoot(it.body) = MRoot(Gen(gn)) /\ InjectiveSeq(it.body)) => it.body = Gen(gn)
\* the padded bodies are exactly the altered bodies that the root alone cannot tell from the genuine one
PaddedAreTheCollisions == \A it \in CsItems(gn) : (it.hdr = "a" /\ it.kind # "genuine") => ((MRoot(it.body) = MRoot(Gen(gn))) <=> it.kind = "padded")
\* a forged copy is never connected, nothing is cached as errored under the genuine identifier ...
ForgedNeverConnected == conn.on => conn.body = Gen(gn)
NoPoison == bad = {}
\* ... so the genuine block is connected when it arrives, whatever arrived before it
GenuineConnected == [][(lastAct'.name = "Arrive" /\ lastAct'.it.kind = "genuine") => (conn'.on /\ conn'.body = Gen(gn))]_vars
ForgedNoTraceCs == [][(lastAct'.name = "Arrive" /\ lastAct'.it.kind # "genuine") => (conn' = conn /\ bad' = bad)]_vars

\* the syncer is answered at most once per receiver, and a finished/canceled receiver stays so
OneAnswer == [][(lastAct'.name = "Chunk" /\ rsp.k # "none") => rsp' = rsp]_vars
=============================================================================
