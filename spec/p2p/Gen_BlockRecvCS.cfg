\* generation: every transition of the chain-service component (genuine bodies of 1..12 transactions, <= 3 arrivals)
SPECIFICATION Spec
CONSTANTS
  Ids <- I3
  Reqs <- NoReqs
  SeqItems <- NoItems
  ChunkMax = 0
  Parts <- OnlyCS
  Interleave = FALSE
  BodySizes <- N12
  MaxArrive = 3
  RepeatGuard = TRUE
  CheckDigest = TRUE
  CrossCheck = FALSE
VIEW mcView
ACTION_CONSTRAINT GenLog
CHECK_DEADLOCK FALSE
