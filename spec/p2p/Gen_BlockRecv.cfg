\* generation (quick): every transition of the two components (explored separately), responses of <= 2 blocks over 7 representative delivered blocks (single-block events use all 12)
SPECIFICATION Spec
CONSTANTS
  Ids <- I3
  Reqs <- R2
  SeqItems <- Items7
  ChunkMax = 2
  Parts <- Both
  Interleave = FALSE
  BodySizes = {}
  MaxArrive = 0
  RepeatGuard = TRUE
  CheckDigest = TRUE
VIEW genView
ACTION_CONSTRAINT GenLog
CHECK_DEADLOCK FALSE
