\* generation (thorough): every transition of the two components (explored separately), responses of <= 2 blocks over all 12 delivered blocks
SPECIFICATION Spec
CONSTANTS
  Ids <- I3
  Reqs <- R2
  SeqItems <- AllItems
  ChunkMax = 2
  Parts <- Both
  Interleave = FALSE
  BodySizes = {}
  MaxArrive = 0
  RepeatGuard = TRUE
  CheckDigest = TRUE
VIEW genView
ACTION_CONSTRAINT GenLog
CHECK_DEADLOCK FALSE
