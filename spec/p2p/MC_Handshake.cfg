\* exhaustive design check: every combination of field classes, 4 versions, both directions, write failures
SPECIFICATION Spec
CONSTANTS
  Versions <- AllVersions
  MaxDev = 99
VIEW mcView
INVARIANTS TypeOK SameChainOnly Decision TwinAccepted Total InboundSendsAfterAccept
CHECK_DEADLOCK FALSE
