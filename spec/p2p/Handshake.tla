----------------------------- MODULE Handshake ------------------------------
(***************************************************************************)
(* C18(b) — the status handshake of the p2p layer                          *)
(* (p2p/v200/v200handshake.go, p2p/v030/v03{0,2,3}handshake.go).           *)
(*                                                                         *)
(* One run = one connection.  The remote side is the environment: the      *)
(* first frame it sends is classified (`msg`), and when it is a status     *)
(* message each field is classified relative to the local node.            *)
(* Actions: SendLocal (sendLocalStatus), Receive (receiveRemoteStatus),    *)
(* Check (checkRemoteStatus).  Outbound: send, receive, check.             *)
(* Inbound: receive, check, send.                                          *)
(***************************************************************************)
EXTENDS Integers, Sequences, FiniteSets, TLC, Util

CONSTANTS Versions,     \* subset of {"v200", "v033", "v032", "v031"} (v031: V030Handshaker, the oldest accepted wire version)
          MaxDev        \* bound on the number of deviating fields of a status message (generation); 99 = no bound

VARIABLES ver, dir,     \* protocol version, "out" | "in"
          rs,           \* what the remote sends
          wok,          \* FALSE: writing to the stream fails
          phase,        \* "start" | "sent" | "recvd" | "checked" | "done"
          sentLocal,    \* the local status message went out
          sentGoAway,   \* a GoAway notice went out
          result,       \* "none" | "ok" | "fail"
          lastAct

vars == <<ver, dir, rs, wok, phase, sentLocal, sentGoAway, result, lastAct>>
view == <<ver, dir, rs, wok, phase, sentLocal, sentGoAway, result>>

Msgs    == {"status", "goaway", "other", "garbage", "eof"}
CidCls  == {"same", "diff", "badver", "malformed"}   \* badver: right chain, but not the chain-id version in force at the remote's best height
SndCls  == {"ok", "nil", "badaddr"}
PidCls  == {"same", "diff"}
GenCls  == {"same", "diff", "empty"}
HashCls == {"ok", "malformed"}
RoleCls == {"plain", "agentOk", "agentNoProd", "agentBadCert"}

Twin == [msg |-> "status", cid |-> "same", sender |-> "ok", pid |-> "same", gen |-> "same", bhash |-> "ok", role |-> "plain"]

Statuses == [msg : {"status"}, cid : CidCls, sender : SndCls, pid : PidCls, gen : GenCls, bhash : HashCls, role : RoleCls]
NonStatus == {[Twin EXCEPT !.msg = m] : m \in Msgs \ {"status"}}

Devs(s) == Cardinality({f \in {"cid", "sender", "pid", "gen", "bhash", "role"} : s[f] # Twin[f]})

GenesisChecked == {"v200", "v033", "v032"}

\* ------------------------------------------------------------------ the decision procedure (checkRemoteStatus)
\* v0.3.x receiveRemoteStatus already refuses a status without sender or with an unusable legacy address
ReceiveOK(v, s) == /\ s.msg = "status"
                   /\ (v # "v200") => s.sender = "ok"

Accept(v, s) ==
  /\ s.cid = "same"                                     \* decodable and equal to the local chain id at the remote's best height
  /\ (v = "v200") => s.bhash = "ok"                     \* v0.3.x does not look at the format of the best block hash
  /\ s.sender = "ok"                                    \* sender present, address is an IP or a domain name
  /\ s.pid = "same"                                     \* the peer id of the status = the peer id of the connection
  /\ (v \in GenesisChecked) => s.gen = "same"           \* ODDITY: v031 (V030Handshaker) has no genesis check at all
  /\ (v = "v200") => s.role \in {"plain", "agentOk"}    \* agents must present producers and valid certificates

\* ------------------------------------------------------------------ actions
Init == /\ ver \in Versions /\ dir \in {"out", "in"} /\ wok \in BOOLEAN
        /\ rs \in {s \in Statuses : Devs(s) <= MaxDev} \cup NonStatus
        /\ phase = "start" /\ sentLocal = FALSE /\ sentGoAway = FALSE /\ result = "none"
        /\ lastAct = [name |-> "Init"]

Fail(goaway) == /\ result' = "fail" /\ phase' = "done"
                /\ sentGoAway' = (goaway /\ wok)

SendLocal ==
  /\ \/ dir = "out" /\ phase = "start"
     \/ dir = "in" /\ phase = "checked"
  /\ IF wok THEN /\ sentLocal' = TRUE
                 /\ IF dir = "out" THEN phase' = "sent" /\ result' = result
                                   ELSE phase' = "done" /\ result' = "ok"
                 /\ UNCHANGED sentGoAway
            ELSE /\ Fail(FALSE) /\ UNCHANGED sentLocal
  /\ lastAct' = [name |-> "SendLocal"]
  /\ UNCHANGED <<ver, dir, rs, wok>>

Receive ==
  /\ \/ dir = "out" /\ phase = "sent"
     \/ dir = "in" /\ phase = "start"
  /\ IF ReceiveOK(ver, rs) THEN phase' = "recvd" /\ UNCHANGED <<result, sentGoAway>>
                           ELSE Fail(rs.msg # "goaway")
  /\ lastAct' = [name |-> "Receive"]
  /\ UNCHANGED <<ver, dir, rs, wok, sentLocal>>

Check ==
  /\ phase = "recvd"
  /\ IF Accept(ver, rs)
       THEN /\ IF dir = "out" THEN phase' = "done" /\ result' = "ok"
                              ELSE phase' = "checked" /\ result' = result
            /\ UNCHANGED sentGoAway
       ELSE Fail(TRUE)
  /\ lastAct' = [name |-> "Check"]
  /\ UNCHANGED <<ver, dir, rs, wok, sentLocal>>

Next == SendLocal \/ Receive \/ Check
Spec == Init /\ [][Next]_vars

\* ------------------------------------------------------------------ properties
TypeOK == /\ phase \in {"start", "sent", "recvd", "checked", "done"} /\ result \in {"none", "ok", "fail"}
          /\ (phase = "done") = (result # "none")

\* the property: a handshake succeeds only with a peer of the same chain that is who the connection says it is
SameChainOnly ==
  (result = "ok") => /\ rs.msg = "status"
                     /\ rs.cid = "same"
                     /\ rs.pid = "same"
                     /\ rs.sender = "ok"
                     /\ (ver \in GenesisChecked) => rs.gen = "same"

\* the decision is exactly the conjunction of the per-field checks (what the harness compares with the code)
Decision == (phase = "done") => ((result = "ok") = (ReceiveOK(ver, rs) /\ Accept(ver, rs) /\ wok))

\* a conforming peer is accepted
TwinAccepted == (phase = "done" /\ rs = Twin /\ wok) => result = "ok"

\* every run ends with a verdict (no state without successor before "done")
Total == (phase # "done") => ENABLED Next

\* an inbound connection learns the local status only after its own status was accepted
InboundSendsAfterAccept == (dir = "in" /\ sentLocal) => (ReceiveOK(ver, rs) /\ Accept(ver, rs))
=============================================================================
