--------------------------- MODULE MC_BlockRecv ----------------------------
EXTENDS BlockRecv

I3 == {"a", "b", "x"}
R2 == { <<"a">>, <<"a", "b">> }
R3 == { <<"a">>, <<"a", "b">>, <<"b", "a", "x">> }
Both == {"sm", "recv"}
AllItems == Items
\* genuine a, genuine b, a's id on a foreign header, b's id on a's header, a's id on b's header, an unrequested genuine
\* block, a block without identifier
Items7 == { [ann |-> "a", hdr |-> "a"], [ann |-> "b", hdr |-> "b"], [ann |-> "a", hdr |-> "x"], [ann |-> "b", hdr |-> "a"],
            [ann |-> "a", hdr |-> "b"], [ann |-> "x", hdr |-> "x"], [ann |-> "none", hdr |-> "a"] }

mcView == view
\* generation view: the history variable `legit` does not influence any action
genView == <<cache, outF, outA, req, off, got, rstat, rsp>>
Proj == [cache |-> cache, req |-> req, off |-> off, got |-> got, rstat |-> rstat, rsp |-> rsp]
GenLog == LogTransition(Proj, lastAct', [cache |-> cache', outF |-> outF', outA |-> outA', req |-> req', off |-> off',
                                         got |-> got', rstat |-> rstat', rsp |-> rsp'])
=============================================================================
