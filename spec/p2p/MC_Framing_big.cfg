\* thorough design check: header of 3 bytes (one id byte), payloads 0..3 (+ oversize 4), every byte stream of <= 7 bytes
\* over 5 byte values, every chunking, <= 2 writer calls with every truncation
SPECIFICATION Spec
CONSTANTS
  HdrLen = 3
  MaxLen = 3
  Bytes <- B4
  Subs = {1, 4}
  Fill = {0, 4}
  MaxStream = 12
  MaxInject = 7
  MaxWrites = 2
VIEW mcView
INVARIANTS TypeOK BoundedAlloc Total Deterministic PrefixOfRef CleanFailure RoundTrip ConsumedExact
PROPERTIES AllocAfterCheck RefusedWritesSilent
CHECK_DEADLOCK FALSE
