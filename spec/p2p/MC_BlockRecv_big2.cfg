\* thorough design check 2: a request for three blocks and responses of <= 3 blocks (components explored separately: they
\* share no variable)
SPECIFICATION Spec
CONSTANTS
  Ids <- I3
  Reqs <- R3
  SeqItems <- AllItems
  ChunkMax = 3
  Parts <- Both
  Interleave = FALSE
  BodySizes = {}
  MaxArrive = 0
  RepeatGuard = TRUE
  CheckDigest = TRUE
VIEW mcView
INVARIANTS TypeOK FwdOwnDigest SyncerOwnDigest KeptOwnDigest CacheOnlyLegit
PROPERTIES ForgedNoTrace GenuineAccepted AnnouncementHeard OneAnswer
CHECK_DEADLOCK FALSE
