--------------------------- MODULE MC_Handshake ----------------------------
EXTENDS Handshake

AllVersions == {"v200", "v033", "v032", "v031"}
mcView == view

\* generation: one line per finished run
GenLog == (phase' = "done") =>
            LogTransition(<<>>, lastAct', [ver |-> ver', dir |-> dir', rs |-> rs', wok |-> wok', sentLocal |-> sentLocal',
                                           sentGoAway |-> sentGoAway', result |-> result'])
=============================================================================
