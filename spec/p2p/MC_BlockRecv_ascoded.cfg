\* the receive paths AS CODED (no digest check anywhere): EXPECTED TO FAIL — TLC's counterexample to GenuineAccepted
\* (a forged block notice, then the genuine one is dropped as a duplicate) is replayed on the real code by checks/c18.py
SPECIFICATION Spec
CONSTANTS
  Ids <- I3
  Reqs <- R2
  SeqItems <- AllItems
  ChunkMax = 1
  Parts = {"sm"}
  Interleave = FALSE
  BodySizes = {}
  MaxArrive = 0
  RepeatGuard = TRUE
  CheckDigest = FALSE
VIEW mcView
PROPERTIES GenuineAccepted
CHECK_DEADLOCK FALSE
