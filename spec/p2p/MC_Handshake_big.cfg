\* thorough design check: identical to the quick configuration (the model is small enough to be exhaustive in both tiers)
SPECIFICATION Spec
CONSTANTS
  Versions <- AllVersions
  MaxDev = 99
VIEW mcView
INVARIANTS TypeOK SameChainOnly Decision TwinAccepted Total InboundSendsAfterAccept
CHECK_DEADLOCK FALSE
