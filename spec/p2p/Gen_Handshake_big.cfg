\* generation (thorough): every run, any number of deviating fields
SPECIFICATION Spec
CONSTANTS
  Versions <- AllVersions
  MaxDev = 99
VIEW mcView
ACTION_CONSTRAINT GenLog
CHECK_DEADLOCK FALSE
