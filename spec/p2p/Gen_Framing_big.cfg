\* generation (thorough): every finished reader run (stream, writer log, results) for: all byte streams of <= 6 bytes over 5 byte
\* values; all sequences of <= 2 writer calls (payload classes 0..3 and oversize 4, truthful or lying) with every truncation
SPECIFICATION Spec
CONSTANTS
  HdrLen = 2
  MaxLen = 3
  Bytes <- B4
  Subs = {1}
  Fill = {1, 4}
  MaxStream = 10
  MaxInject = 6
  MaxWrites = 2
VIEW genView
ACTION_CONSTRAINT GenLog
CHECK_DEADLOCK FALSE
