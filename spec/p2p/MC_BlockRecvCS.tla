--------------------------- MODULE MC_BlockRecvCS ---------------------------
(* the chain-service component of BlockRecv.tla: configurations, the cross-check of PadVariants, generation *)
EXTENDS BlockRecv

I3 == {"a", "b", "x"}
NoReqs == {}
NoItems == {}
OnlyCS == {"cs"}
N12 == 1..12

mcView == view

\* PadVariants(l) against the definition "another list with the same root", by brute force: all lists over the transactions
\* of the block plus a foreign one up to the width of the tree (n <= 4); for n = 5..12 all extensions of the genuine list by
\* <= 2 entries and by <= 4 of its last four entries.  Evaluated by the configuration that sets CrossCheck = TRUE.
CONSTANT CrossCheck
RECURSIVE SeqsOfLen(_, _)
SeqsOfLen(S, k) == IF k = 0 THEN {<<>>} ELSE {Append(t, x) : t \in SeqsOfLen(S, k - 1), x \in S}
UpTo(S, k) == UNION {SeqsOfLen(S, j) : j \in 0..k}
SameRoot(n, cands) == {l \in cands : l # Gen(n) /\ MRoot(l) = MRoot(Gen(n))}
Tails(n) == UpTo(1..n, 2) \cup UpTo((n - 3)..n, 4)
PadCrossCheck(on) ==
  on => /\ \A n \in 1..4 : SameRoot(n, UpTo(1..(n + 1), Pow2AtLeast(1, n))) = PadVariants(Gen(n))
        /\ \A n \in 5..12 : LET cands == {c \in {Gen(n) \o t : t \in Tails(n)} : Len(c) <= Pow2AtLeast(1, n)}
                            IN SameRoot(n, cands) = PadVariants(Gen(n)) \cap cands
        /\ PadVariants(Gen(6)) = {<<1, 2, 3, 4, 5, 6, 5, 6>>}
        /\ PadVariants(Gen(5)) = {<<1, 2, 3, 4, 5, 5>>, <<1, 2, 3, 4, 5, 5, 5>>, <<1, 2, 3, 4, 5, 5, 5, 5>>}
        /\ PadVariants(Gen(12)) = {Gen(12) \o <<9, 10, 11, 12>>}
        /\ PadVariants(Gen(1)) = {} /\ PadVariants(Gen(2)) = {} /\ PadVariants(Gen(8)) = {}
ASSUME PadCrossCheck(CrossCheck)

Proj == [gn |-> gn, conn |-> conn, bad |-> bad, narr |-> narr]
GenLog == LogTransition(Proj, lastAct', [gn |-> gn', conn |-> conn', bad |-> bad', narr |-> narr'])
=============================================================================
