\* thorough design check 1: 3 identifiers (2 requested + 1 foreign), every delivered block [ann, hdr] (forged,
\* genuine, unrequested, without identifier), responses of <= 2 blocks, notices and chunk receiver interleaved freely
SPECIFICATION Spec
CONSTANTS
  Ids <- I3
  Reqs <- R2
  SeqItems <- AllItems
  ChunkMax = 2
  Parts <- Both
  Interleave = TRUE
  BodySizes = {}
  MaxArrive = 0
  RepeatGuard = TRUE
  CheckDigest = TRUE
VIEW mcView
INVARIANTS TypeOK FwdOwnDigest SyncerOwnDigest KeptOwnDigest CacheOnlyLegit
PROPERTIES ForgedNoTrace GenuineAccepted AnnouncementHeard OneAnswer
CHECK_DEADLOCK FALSE
