------------------------------ MODULE Framing ------------------------------
(***************************************************************************)
(* C18(a) — the wire framing of p2p messages (p2p/v030/v030io.go):         *)
(* a frame is a fixed-size header followed by `length` payload bytes.      *)
(*                                                                         *)
(* The model is byte level over a small alphabet.  A header is HdrLen      *)
(* bytes: byte 1 is the sub-protocol id, byte 2 the payload length field,  *)
(* bytes 3..HdrLen stand for timestamp / message id / original id (carried *)
(* through unchanged).  HdrLen stands for 48, MaxLen for MaxPayloadLength.    *)
(*                                                                         *)
(* Build phase: a stream is produced by writer calls (WriteMsg), by an     *)
(* adversary appending arbitrary bytes (Inject) and by truncation (Chop).  *)
(* Read phase: one reader (ReadMsg called repeatedly until it fails)       *)
(* consumes the stream through short reads of any size; one action per     *)
(* step of readToLen / of ReadMsg's decisions.                             *)
(*                                                                         *)
(* This model decides what ONE pass over a byte stream returns.  The       *)
(* reader as a long-lived STREAM object (a connection carrying a sequence  *)
(* of frames, writes and reads interleaved, the consumer keeping the       *)
(* messages it was given: ReturnedMessagesImmutable, StreamFidelity) is    *)
(* FrameStream.tla.                                                        *)
(***************************************************************************)
EXTENDS Integers, Sequences, FiniteSets, TLC, Util

CONSTANTS HdrLen,        \* header size in bytes (>= 2)
          MaxLen,           \* largest admissible payload length
          Bytes,         \* byte alphabet, 0..B with B > MaxLen (so oversize length fields exist)
          Subs,          \* sub-protocol ids used by the writer (subset of Bytes)
          Fill,          \* byte values the writer fills payloads / id bytes with (subset of Bytes)
          MaxStream,     \* bound on the length of writer-built streams
          MaxInject,     \* bound on the length of streams the adversary appends to
          MaxWrites      \* bound on the number of WriteMsg calls

VARIABLES phase,    \* "build" | "read"
          stream,   \* the bytes on the wire
          wlog,     \* every WriteMsg call with its result (history)
          pure,     \* TRUE while the stream consists of writer output only (possibly truncated)
          chopped,  \* number of bytes removed from the end of the writer output
          pos,      \* bytes consumed by the reader
          rst,      \* reader: "hdr" | "body" | "failed"
          got,      \* bytes of the current unit (header / payload) read so far
          hdr,      \* header bytes read so far
          buf,      \* payload bytes read so far
          need,     \* payload length of the frame being read
          alloc,    \* largest payload buffer allocated so far
          out,      \* results of the ReadMsg calls so far, in order
          lastAct

vars  == <<phase, stream, wlog, pure, chopped, pos, rst, got, hdr, buf, need, alloc, out, lastAct>>

ConstSeq(n, c) == [i \in 1..n |-> c]

\* a message as the application sees it
Msg(sub, id, payload) == [k |-> "msg", sub |-> sub, id |-> id, payload |-> payload, n |-> Len(payload)]
Err(kind, n)          == [k |-> kind, sub |-> 0, id |-> <<>>, payload |-> <<>>, n |-> n]

Encode(m) == <<m.sub, Len(m.payload)>> \o m.id \o m.payload

SentMsgs == LET ok == SelectSeq(wlog, LAMBDA w : w.res = "ok")
            IN [i \in 1..Len(ok) |-> Msg(ok[i].sub, ok[i].id, ok[i].payload)]
Delivered == SelectSeq(out, LAMBDA o : o.k = "msg")

\* ------------------------------------------------------------------ reference: what any reader must return for a stream
RECURSIVE Ref(_)
Ref(s) ==
  IF Len(s) < HdrLen THEN << Err("err_header", Len(s)) >>
  ELSE LET len == s[2] IN
       IF len > MaxLen THEN << Err("err_too_big", len) >>
       ELSE IF Len(s) - HdrLen < len THEN << Err("err_truncated", Len(s) - HdrLen) >>
       ELSE << Msg(s[1], SubSeq(s, 3, HdrLen), SubSeq(s, HdrLen + 1, HdrLen + len)) >>
            \o Ref(SubSeq(s, HdrLen + len + 1, Len(s)))

\* ------------------------------------------------------------------ build phase
Init == /\ phase = "build" /\ stream = <<>> /\ wlog = <<>> /\ pure = TRUE /\ chopped = 0
        /\ pos = 0 /\ rst = "hdr" /\ got = 0 /\ hdr = <<>> /\ buf = <<>> /\ need = 0 /\ alloc = 0 /\ out = <<>>
        /\ lastAct = [name |-> "Init"]

\* WriteMsg(msg): msg.Length() = declared, len(msg.Payload()) = plen
Write(sub, c, plen, declared) ==
  /\ phase = "build" /\ pure /\ chopped = 0 /\ Len(wlog) < MaxWrites
  /\ LET m   == Msg(sub, ConstSeq(HdrLen - 2, c), ConstSeq(plen, c))
         res == IF declared # plen THEN "err_size"
                ELSE IF declared > MaxLen THEN "err_too_big" ELSE "ok"
     IN /\ (res = "ok") => Len(stream) + HdrLen + plen <= MaxStream
        /\ stream' = IF res = "ok" THEN stream \o Encode(m) ELSE stream      \* a refused message leaves no byte on the wire
        /\ wlog' = Append(wlog, [sub |-> sub, id |-> m.id, payload |-> m.payload, declared |-> declared, res |-> res])
        /\ lastAct' = [name |-> "Write", sub |-> sub, c |-> c, plen |-> plen, declared |-> declared, res |-> res]
  /\ UNCHANGED <<phase, pure, chopped, pos, rst, got, hdr, buf, need, alloc, out>>

\* the adversary appends an arbitrary byte (every byte string is reachable through Inject alone, so adversarial
\* streams are not mixed with writer calls)
Inject(b) ==
  /\ phase = "build" /\ Len(stream) < MaxInject /\ chopped = 0 /\ wlog = <<>>
  /\ stream' = Append(stream, b) /\ pure' = FALSE
  /\ lastAct' = [name |-> "Inject", b |-> b]
  /\ UNCHANGED <<phase, wlog, chopped, pos, rst, got, hdr, buf, need, alloc, out>>

\* the connection is cut: the last byte never arrives
Chop ==
  /\ phase = "build" /\ pure /\ Len(stream) > 0
  /\ stream' = SubSeq(stream, 1, Len(stream) - 1) /\ chopped' = chopped + 1
  /\ lastAct' = [name |-> "Chop"]
  /\ UNCHANGED <<phase, wlog, pure, pos, rst, got, hdr, buf, need, alloc, out>>

StartRead ==
  /\ phase = "build" /\ phase' = "read"
  /\ lastAct' = [name |-> "StartRead"]
  /\ UNCHANGED <<stream, wlog, pure, chopped, pos, rst, got, hdr, buf, need, alloc, out>>

\* ------------------------------------------------------------------ read phase (ReadMsg in a loop until it fails)
Avail == Len(stream) - pos

\* readToLen on the header buffer: one short read of n bytes
RecvHdr(n) ==
  /\ phase = "read" /\ rst = "hdr" /\ got < HdrLen /\ n >= 1 /\ n <= HdrLen - got /\ n <= Avail
  /\ hdr' = hdr \o SubSeq(stream, pos + 1, pos + n) /\ pos' = pos + n /\ got' = got + n
  /\ lastAct' = [name |-> "RecvHdr", n |-> n]
  /\ UNCHANGED <<phase, stream, wlog, pure, chopped, rst, buf, need, alloc, out>>

\* end of stream before the header is complete (got = 0: clean end between two frames)
EofHdr ==
  /\ phase = "read" /\ rst = "hdr" /\ got < HdrLen /\ Avail = 0
  /\ out' = Append(out, Err("err_header", got)) /\ rst' = "failed"
  /\ lastAct' = [name |-> "EofHdr"]
  /\ UNCHANGED <<phase, stream, wlog, pure, chopped, pos, got, hdr, buf, need, alloc>>

\* header complete: the length check comes BEFORE the allocation
Parse ==
  /\ phase = "read" /\ rst = "hdr" /\ got = HdrLen
  /\ LET len == hdr[2] IN
       IF len > MaxLen
         THEN /\ out' = Append(out, Err("err_too_big", len)) /\ rst' = "failed"
              /\ UNCHANGED <<got, buf, need, alloc>>
         ELSE /\ alloc' = IF len > alloc THEN len ELSE alloc          \* make([]byte, bodyLen)
              /\ need' = len /\ got' = 0 /\ buf' = <<>> /\ rst' = "body"
              /\ UNCHANGED out
  /\ lastAct' = [name |-> "Parse", len |-> hdr[2]]
  /\ UNCHANGED <<phase, stream, wlog, pure, chopped, pos, hdr>>

RecvBody(n) ==
  /\ phase = "read" /\ rst = "body" /\ got < need /\ n >= 1 /\ n <= need - got /\ n <= Avail
  /\ buf' = buf \o SubSeq(stream, pos + 1, pos + n) /\ pos' = pos + n /\ got' = got + n
  /\ lastAct' = [name |-> "RecvBody", n |-> n]
  /\ UNCHANGED <<phase, stream, wlog, pure, chopped, rst, hdr, need, alloc, out>>

EofBody ==
  /\ phase = "read" /\ rst = "body" /\ got < need /\ Avail = 0
  /\ out' = Append(out, Err("err_truncated", got)) /\ rst' = "failed"
  /\ lastAct' = [name |-> "EofBody"]
  /\ UNCHANGED <<phase, stream, wlog, pure, chopped, pos, got, hdr, buf, need, alloc>>

\* payload complete: the message is returned and the next ReadMsg starts at the next byte
Deliver ==
  /\ phase = "read" /\ rst = "body" /\ got = need
  /\ out' = Append(out, Msg(hdr[1], SubSeq(hdr, 3, HdrLen), buf))
  /\ rst' = "hdr" /\ got' = 0 /\ hdr' = <<>> /\ buf' = <<>> /\ need' = 0
  /\ lastAct' = [name |-> "Deliver"]
  /\ UNCHANGED <<phase, stream, wlog, pure, chopped, pos, alloc>>

ReadNext == \/ \E n \in 1..MaxStream : RecvHdr(n) \/ RecvBody(n)
            \/ EofHdr \/ Parse \/ EofBody \/ Deliver

\* a writer call either states its payload length truthfully or not (Length() # len(Payload()))
BuildNext == \/ \E sub \in Subs, c \in Fill, plen \in 0..(MaxLen + 1), lie \in BOOLEAN :
                  Write(sub, c, plen, IF lie THEN (plen + 1) % (MaxLen + 2) ELSE plen)
             \/ \E b \in Bytes : Inject(b)
             \/ Chop \/ StartRead

Next == BuildNext \/ ReadNext
Spec == Init /\ [][Next]_vars

\* ------------------------------------------------------------------ properties
TypeOK == /\ phase \in {"build", "read"} /\ rst \in {"hdr", "body", "failed"}
          /\ pos \in 0..Len(stream) /\ alloc \in 0..MaxLen /\ got >= 0

\* BoundedAlloc: no payload buffer larger than MaxLen is ever allocated, whatever the stream says
BoundedAlloc == alloc <= MaxLen
\* ... and a buffer is allocated only by Parse, after the length field was found admissible
AllocAfterCheck == [][alloc' # alloc => (lastAct'.name = "Parse" /\ hdr[2] <= MaxLen /\ alloc' = hdr[2])]_vars

\* Total: the reader is never stuck before it has failed (every stream, every chunking, ends in a result)
Total == (phase = "read" /\ rst # "failed") => ENABLED ReadNext

\* the results do not depend on how the bytes arrive, and are the reference results
Deterministic == (rst = "failed") => out = Ref(stream)
PrefixOfRef == LET r == Ref(stream) IN Len(out) <= Len(r) /\ \A i \in 1..Len(out) : out[i] = r[i]

\* fails cleanly: exactly one failure, last, and nothing is returned after it
CleanFailure == \A i \in 1..Len(out) : (out[i].k # "msg") => (i = Len(out) /\ rst = "failed")

\* RoundTrip: what one node wrote is read back identically, in order; a truncated stream yields a prefix
RoundTrip == (pure /\ rst = "failed") =>
               /\ Len(Delivered) <= Len(SentMsgs)
               /\ \A i \in 1..Len(Delivered) : Delivered[i] = SentMsgs[i]
               /\ (chopped = 0) => (Delivered = SentMsgs /\ out[Len(out)] = Err("err_header", 0))
               /\ (chopped > 0) => Len(Delivered) < Len(SentMsgs)

\* a refused WriteMsg (wrong Length(), oversize) leaves nothing on the wire
RefusedWritesSilent == [][(lastAct'.name = "Write" /\ lastAct'.res # "ok") => stream' = stream]_vars
\* the reader consumes exactly the frames it returns
ConsumedExact == (rst = "hdr" /\ got = 0) =>
                   pos = SumSet([i \in 1..Len(out) |-> HdrLen + out[i].n], 1..Len(out))
=============================================================================
