\* exhaustive design check (quick): header of 2 bytes, payloads 0..2 (+ oversize 3), every byte stream of <= 5 bytes
\* over 4 byte values, every chunking, <= 2 writer calls (truthful / lying / oversize) with every truncation
SPECIFICATION Spec
CONSTANTS
  HdrLen = 2
  MaxLen = 2
  Bytes <- B3
  Subs = {1, 3}
  Fill = {0, 3}
  MaxStream = 8
  MaxInject = 5
  MaxWrites = 2
VIEW mcView
INVARIANTS TypeOK BoundedAlloc Total Deterministic PrefixOfRef CleanFailure RoundTrip ConsumedExact
PROPERTIES AllocAfterCheck RefusedWritesSilent
CHECK_DEADLOCK FALSE
