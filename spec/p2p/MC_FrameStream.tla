--------------------------- MODULE MC_FrameStream ---------------------------
EXTENDS FrameStream

\* payload size classes, by the boundaries p2p/v030/v030io.go has today: the 48-byte header, the 4096-byte buffers of the
\* bufio.Reader / bufio.Writer it wraps (a read of >= 4096 bytes with an empty buffer goes to the connection directly, a
\* smaller one through the buffer; a frame of <= 4096 bytes is written from the buffer, a larger payload directly),
\* p2pcommon.MaxPayloadLength.  The harness maps a class to several real lengths:
\*   z = 0, one = 1, small = 2..2049 (frame well inside the buffer; powers of two +-1, 47..49),
\*   fedge = 4047..4049 (header + payload = buffer size +-1), pedge = 4095..4097 (payload = buffer size +-1),
\*   large = 4098..65536, max = MaxPayloadLength, over = MaxPayloadLength + 1
C8 == {"z", "one", "small", "fedge", "pedge", "large", "max", "over"}
C5 == {"z", "one", "small", "large", "over"}
C6 == {"z", "one", "small", "pedge", "max", "over"}
AllEnds == {"close", "cutHdr", "cutBody", "over"}
NoShare == {}
ShareSmall == {"z", "one", "small"}

mcView == <<wire, nw, sent, conn, endk, rst, heap, nbuf, ret, seen>>
genView == <<wire, nw, sent, conn, endk, rst, heap, nbuf, ret, seen, hist>>

\* generation: one line per finished behaviour (the reader has failed: nothing can follow), in a compact form
\* ("W <class> <sub> <result>" | "R" | "E <ending>"; results "<kind> <sub> <class> <tag>") that checks/c18.py reads
StepStr(a) == CASE a.name = "Write" -> "W " \o a.cls \o " " \o ToString(a.sub) \o " " \o a.res
                [] a.name = "End"   -> "E " \o a.kind
                [] OTHER            -> "R"
RetStr(r) == "= " \o r.k \o " " \o ToString(r.sub) \o " " \o r.cls \o " " \o ToString(r.tag)
GenLog == (rst' = "failed" /\ rst # "failed") =>
             PrintT("FS|" \o ToString(<<[i \in 1..Len(hist') |-> StepStr(hist'[i])],
                                        [i \in 1..Len(ret') |-> RetStr(Show(heap', ret'[i]))]>>))
=============================================================================
