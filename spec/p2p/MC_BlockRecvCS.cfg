\* the chain service behind the receive paths: genuine block a with 1..12 transactions; every altered copy a relay can make
\* of it under a's identifier (emptied / dropped / swapped / substituted / appended body, every body with the genuine root
\* by the merkle padding rule, altered header) in every order of <= 3 arrivals; PadVariants cross-checked by brute force;
\* design check and generation in one run (84 states): every transition is printed for the replay on real nodes
SPECIFICATION Spec
CONSTANTS
  Ids <- I3
  Reqs <- NoReqs
  SeqItems <- NoItems
  ChunkMax = 0
  Parts <- OnlyCS
  Interleave = FALSE
  BodySizes <- N12
  MaxArrive = 3
  RepeatGuard = TRUE
  CheckDigest = TRUE
  CrossCheck = TRUE
VIEW mcView
INVARIANTS TypeOK AcceptBinding PaddedAreTheCollisions ForgedNeverConnected NoPoison
PROPERTIES GenuineConnected ForgedNoTraceCs
ACTION_CONSTRAINT GenLog
CHECK_DEADLOCK FALSE
