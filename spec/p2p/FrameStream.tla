---------------------------- MODULE FrameStream -----------------------------
(***************************************************************************)
(* C18(a), second model — the framing reader/writer as a STREAM object     *)
(* (p2p/v030/v030io.go: one V030ReadWriter per connection, ReadMsg called  *)
(* in a loop by the peer's read goroutine, WriteMsg by its write           *)
(* goroutine; the messages returned are handed to handlers / actors that   *)
(* keep them after the loop has gone on reading).                          *)
(*                                                                         *)
(* Framing.tla decides what ONE pass over a byte stream returns (byte      *)
(* level).  This model is frame level: a connection carries a SEQUENCE of  *)
(* frames, writes and reads interleave in every way the transport allows   *)
(* (a ReadMsg returns once a whole frame has arrived or the connection has *)
(* ended; reads lag writes arbitrarily), and the consumer KEEPS every      *)
(* message it was given.  What a kept message shows is read through the    *)
(* reader's memory (`heap`): a message refers to the buffer its payload    *)
(* was read into.                                                          *)
(*                                                                         *)
(* Payload sizes are classes around the boundaries the code has (see       *)
(* MC_FrameStream.tla): empty, one byte, small (frame inside the bufio     *)
(* buffer), frame = bufio buffer +-1, payload = bufio buffer +-1 (direct   *)
(* read path), large, MaxPayloadLength, MaxPayloadLength + 1.              *)
(*                                                                         *)
(* Shared = {} is the design (every message gets a buffer of its own).     *)
(* Shared # {} is the variant "payloads of these classes are read into a   *)
(* buffer embedded in the reader"; it is expected to violate               *)
(* ReturnedMessagesImmutable / StreamFidelity (MC_FrameStream_shared.cfg). *)
(***************************************************************************)
EXTENDS Integers, Sequences, FiniteSets, TLC, Util

CONSTANTS Classes,     \* payload size classes (strings)
          Empty,       \* the class of the empty payload (no byte to keep)
          Over,        \* the class just above the admissible maximum
          Subs,        \* abstract sub-protocol ids
          MaxFrames,   \* bound on the number of WriteMsg calls
          Ends,        \* how a connection may end: subset of {"close", "cutHdr", "cutBody", "over"}
          Shared       \* classes whose payload is read into the buffer embedded in the reader (design: {})

VARIABLES wire,     \* frames written and not yet consumed: [sub, cls, tag, part], part \in {"whole", "hdr", "body"}
          nw,       \* number of WriteMsg calls so far (= tag of the last call)
          sent,     \* history: the accepted messages, in order [sub, cls, tag]
          conn,     \* "open" | "ended"
          endk,     \* how it ended ("none" while open)
          rst,      \* reader "ok" | "failed"
          heap,     \* buffer id -> tag of the frame whose payload bytes were read into it last (0: nothing yet); id 0 = the embedded buffer
          nbuf,     \* buffers allocated so far
          ret,      \* results of the ReadMsg calls, in order: [k, sub, cls, ref]
          seen,     \* history: what the consumer saw in the result when the call returned
          hist,     \* history: the calls so far (generation: one behaviour = one line)
          lastAct

vars == <<wire, nw, sent, conn, endk, rst, heap, nbuf, ret, seen, hist, lastAct>>

Frame(sub, cls, tag) == [sub |-> sub, cls |-> cls, tag |-> tag, part |-> "whole"]
Err(kind) == [k |-> kind, sub |-> 0, cls |-> Empty, ref |-> 0]

\* what a message shows NOW: its header fields and the bytes of the buffer it refers to
Show(h, m) == [k |-> m.k, sub |-> m.sub, cls |-> m.cls, tag |-> IF m.k # "msg" \/ m.cls = Empty THEN 0 ELSE h[m.ref]]
\* what was written
Written(s) == [k |-> "msg", sub |-> s.sub, cls |-> s.cls, tag |-> IF s.cls = Empty THEN 0 ELSE s.tag]

MsgIdx == {i \in 1..Len(ret) : ret[i].k = "msg"}
Delivered == SelectSeq(ret, LAMBDA r : r.k = "msg")

Init == /\ wire = <<>> /\ nw = 0 /\ sent = <<>> /\ conn = "open" /\ endk = "none" /\ rst = "ok"
        /\ heap = [i \in 0..MaxFrames |-> 0] /\ nbuf = 0 /\ ret = <<>> /\ seen = <<>> /\ hist = <<>>
        /\ lastAct = [name |-> "Init"]

Log(a) == lastAct' = a /\ hist' = Append(hist, a)

\* WriteMsg(msg) on the sending side; a message over the limit is refused and leaves nothing on the wire
Write(sub, cls) ==
  /\ conn = "open" /\ nw < MaxFrames
  /\ nw' = nw + 1
  /\ IF cls = Over
       THEN UNCHANGED <<wire, sent>>
       ELSE /\ wire' = Append(wire, Frame(sub, cls, nw + 1))
            /\ sent' = Append(sent, [sub |-> sub, cls |-> cls, tag |-> nw + 1])
  /\ Log([name |-> "Write", sub |-> sub, cls |-> cls, tag |-> nw + 1, res |-> IF cls = Over THEN "err_too_big" ELSE "ok"])
  /\ UNCHANGED <<conn, endk, rst, heap, nbuf, ret, seen>>

\* the connection ends: closed between two frames; cut inside the header / inside the payload of the frame written last
\* (it never arrives completely); or a foreign writer appends a header announcing more than the maximum
End(kind) ==
  /\ conn = "open" /\ kind \in Ends
  /\ CASE kind = "close" -> wire' = wire
       [] kind = "over"  -> wire' = Append(wire, Frame(CHOOSE s \in Subs : TRUE, Over, 0))
       [] OTHER          -> /\ wire # <<>> /\ wire[Len(wire)].part = "whole"
                            /\ (kind = "cutBody") => wire[Len(wire)].cls # Empty
                            /\ wire' = [wire EXCEPT ![Len(wire)].part = IF kind = "cutHdr" THEN "hdr" ELSE "body"]
  /\ conn' = "ended" /\ endk' = kind
  /\ Log([name |-> "End", kind |-> kind])
  /\ UNCHANGED <<nw, sent, rst, heap, nbuf, ret, seen>>

\* ReadMsg: returns when a whole frame has arrived or the connection has ended
CanRead == rst = "ok" /\ (wire # <<>> \/ conn = "ended")
Fail(kind) == /\ ret' = Append(ret, Err(kind)) /\ seen' = Append(seen, Show(heap, Err(kind))) /\ rst' = "failed"
              /\ UNCHANGED <<heap, nbuf>>
Read ==
  /\ CanRead
  /\ IF wire = <<>> THEN Fail("err_header") /\ wire' = wire                        \* clean end between two frames
     ELSE LET f == Head(wire) IN
          /\ wire' = Tail(wire)
          /\ IF f.part = "hdr" THEN Fail("err_header")
             ELSE IF f.cls = Over THEN Fail("err_too_big")                          \* length check before any allocation
             ELSE IF f.part = "body" THEN Fail("err_truncated")
             ELSE LET ref == IF f.cls \in Shared THEN 0 ELSE nbuf + 1
                      h2  == IF f.cls = Empty THEN heap ELSE [heap EXCEPT ![ref] = f.tag]
                      m   == [k |-> "msg", sub |-> f.sub, cls |-> f.cls, ref |-> ref]
                  IN /\ heap' = h2 /\ nbuf' = IF ref = 0 THEN nbuf ELSE nbuf + 1
                     /\ ret' = Append(ret, m) /\ seen' = Append(seen, Show(h2, m))
                     /\ rst' = rst
  /\ Log([name |-> "Read"])
  /\ UNCHANGED <<nw, sent, conn, endk>>

Next == \/ \E sub \in Subs, cls \in Classes : Write(sub, cls)
        \/ \E kind \in Ends : End(kind)
        \/ Read
Spec == Init /\ [][Next]_vars

\* ------------------------------------------------------------------ properties
TypeOK == /\ conn \in {"open", "ended"} /\ rst \in {"ok", "failed"} /\ nw \in 0..MaxFrames /\ nbuf \in 0..MaxFrames
          /\ Len(seen) = Len(ret)

\* a message once returned never changes: every kept message shows what it showed when it was returned,
\* whatever has been written, read or has failed since
ReturnedMessagesImmutable == \A i \in 1..Len(ret) : Show(heap, ret[i]) = seen[i]

\* the k-th message returned is the k-th message written — and still is (the comparison looks at the kept messages NOW)
StreamFidelity == /\ Len(Delivered) <= Len(sent)
                  /\ \A k \in 1..Len(Delivered) : Show(heap, Delivered[k]) = Written(sent[k])

\* the design behind both: no two returned messages share bytes
OwnBuffer == \A i, j \in MsgIdx : (i # j /\ ret[i].cls # Empty /\ ret[j].cls # Empty) => ret[i].ref # ret[j].ref

\* one failure, last, nothing after it
CleanFailure == \A i \in 1..Len(ret) : (ret[i].k # "msg") => (i = Len(ret) /\ rst = "failed")
\* a ReadMsg that the transport can answer is answered
Total == CanRead => ENABLED Read
\* when the reader has failed: everything that arrived completely was delivered, and the failure is the one of the ending
Complete == (rst = "failed") =>
              /\ ret[Len(ret)].k = CASE endk = "close" -> "err_header" [] endk = "cutHdr" -> "err_header"
                                      [] endk = "cutBody" -> "err_truncated" [] endk = "over" -> "err_too_big"
                                      [] OTHER -> "none"
              /\ Len(Delivered) = IF endk \in {"cutHdr", "cutBody"} THEN Len(sent) - 1 ELSE Len(sent)
\* no buffer for a frame that is not delivered because of its announced length; at most one per admissible frame
BoundedAlloc == nbuf <= Len(sent)
\* a refused WriteMsg leaves nothing on the wire
RefusedWritesSilent == [][(lastAct'.name = "Write" /\ lastAct'.res # "ok") => (wire' = wire /\ sent' = sent)]_vars
=============================================================================
