\* generation (thorough): every finished behaviour (interleaving of <= 4 WriteMsg calls over the 8 size classes with the ReadMsg
\* calls, every ending); one line per behaviour
SPECIFICATION Spec
CONSTANTS
  Classes <- C8
  Empty = "z"
  Over = "over"
  Subs = {1}
  MaxFrames = 4
  Ends <- AllEnds
  Shared <- NoShare
VIEW genView
ACTION_CONSTRAINT GenLog
CHECK_DEADLOCK FALSE
