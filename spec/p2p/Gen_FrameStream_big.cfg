\* generation (thorough, next to Gen_FrameStream.cfg): every finished behaviour with <= 4 WriteMsg calls over 6 of the size classes
SPECIFICATION Spec
CONSTANTS
  Classes <- C6
  Empty = "z"
  Over = "over"
  Subs = {1}
  MaxFrames = 4
  Ends <- AllEnds
  Shared <- NoShare
VIEW genView
ACTION_CONSTRAINT GenLog
CHECK_DEADLOCK FALSE
