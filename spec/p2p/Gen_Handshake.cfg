\* generation (quick): every run whose status message deviates from the local one in at most 2 fields
SPECIFICATION Spec
CONSTANTS
  Versions <- AllVersions
  MaxDev = 2
VIEW mcView
ACTION_CONSTRAINT GenLog
CHECK_DEADLOCK FALSE
