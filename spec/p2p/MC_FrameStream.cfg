\* exhaustive design check (thorough, next to Gen_FrameStream.cfg which checks the same invariants while generating): <= 3 WriteMsg
\* calls over the 8 payload size classes, 2 sub-protocols, every ending, every interleaving; every message has a buffer of its own
SPECIFICATION Spec
CONSTANTS
  Classes <- C8
  Empty = "z"
  Over = "over"
  Subs = {1, 2}
  MaxFrames = 3
  Ends <- AllEnds
  Shared <- NoShare
VIEW mcView
INVARIANTS TypeOK ReturnedMessagesImmutable StreamFidelity OwnBuffer CleanFailure Total Complete BoundedAlloc
PROPERTIES RefusedWritesSilent
CHECK_DEADLOCK FALSE
