---------------------------- MODULE MC_Framing -----------------------------
EXTENDS Framing

B3 == 0..3
B4 == 0..4

\* the model-checking view: everything but the action label and the log of refused writer calls
mcView == <<phase, stream, SentMsgs, pure, chopped, pos, rst, got, hdr, buf, need, alloc, out>>
genView == <<phase, stream, wlog, pure, chopped, pos, rst, got, hdr, buf, need, alloc, out>>

\* generation: the reader takes the largest possible chunk (the result does not depend on the chunking:
\* invariant Deterministic of the MC configurations); one line per finished reader run
MaximalChunk ==
  /\ (lastAct'.name = "RecvHdr")  => lastAct'.n = Min({HdrLen - got, Avail})
  /\ (lastAct'.name = "RecvBody") => lastAct'.n = Min({need - got, Avail})
GenLog ==
  /\ MaximalChunk
  /\ (rst' = "failed" /\ rst # "failed") =>
        LogTransition(<<>>, lastAct', [stream |-> stream', wlog |-> wlog', pure |-> pure', chopped |-> chopped',
                                       out |-> out', alloc |-> alloc'])
=============================================================================
