\* the chain service WITHOUT the repeated-transaction guard (the code before e8547b36): EXPECTED TO FAIL — TLC's
\* counterexample to GenuineConnected (a padded copy is executed and fails, the genuine identifier is cached as errored, the
\* genuine block is refused) is replayed on the real node by checks/c18_chain.py, where it must NOT reproduce
SPECIFICATION Spec
CONSTANTS
  Ids <- I3
  Reqs <- NoReqs
  SeqItems <- NoItems
  ChunkMax = 0
  Parts <- OnlyCS
  Interleave = FALSE
  BodySizes <- N12
  MaxArrive = 2
  RepeatGuard = FALSE
  CheckDigest = TRUE
  CrossCheck = FALSE
VIEW mcView
PROPERTIES GenuineConnected
CHECK_DEADLOCK FALSE
