\* OPEN FINDING F4, expected counterexample (Agreement): tree T4b, two observers, 1 of 4 producers Byzantine: conflicting irreversible blocks
SPECIFICATION Spec
CONSTANTS
  N = 4
  Byz <- Byz3
  Nodes <- Obs2
  Blk0s <- ST4b
  MaxBlocks = 8
  MaxRestarts = 0
  ByzMode = "any"
  ByzRanges <- R123
  Runs = FALSE
  BadKinds <- OnlyOk
  Fixes <- AllFixes
VIEW view
INVARIANTS Agreement
CHECK_DEADLOCK FALSE
