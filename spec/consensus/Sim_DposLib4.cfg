\* simulation: 4 producers, producer 3 Byzantine (equivocates, Confirms filled the honest way per branch), 3 correct nodes
SPECIFICATION Spec
CONSTANTS
  N = 4
  Byz <- Byz3
  Nodes <- Nodes012
  Blk0 <- NoBlocks
  MaxBlocks = 16
  MaxRestarts = 1
  ByzMode = "branch"
  ByzRanges <- R123
  Fixes <- NoFix
INVARIANTS TypeOK HonestConfirms
CHECK_DEADLOCK FALSE
