\* simulation: 4 producers, producer 3 Byzantine (equivocates, Confirms filled the honest way per branch), 3 correct nodes, up to 16 blocks, 2 restarts; all properties
SPECIFICATION Spec
CONSTANTS
  N = 4
  Byz <- Byz3
  Nodes <- Nodes012
  Blk0 <- NoBlocks
  MaxBlocks = 16
  MaxRestarts = 2
  ByzMode = "branch"
  ByzRanges <- R123
  Fixes <- AllFixes
INVARIANTS TypeOK LibOnMain ConfirmsOnMain Agreement HonestConfirms
PROPERTIES LibMonotone Final NoForkBelowLib LibQuorum RestoreEqualsRecompute
CHECK_DEADLOCK FALSE
