------------------------------ MODULE MC_Slot -------------------------------
EXTENDS Slot

\* ---------------------------------------------------------------- exhaustive configurations (tiny intervals)
\* keys 1..3 are producers of some list, key 4 never is
SmallLists == { <<1>>, <<2, 1>>, <<3, 1, 2>> }
BigLists   == { <<1>>, <<2, 1>>, <<3, 1, 2>>, <<2, 3>>, <<4, 2, 1, 3>> }
\* every ms of the first slots
SmallClock(i)  == 1..(i + 2)
\* every ms from before the double-length slot at the epoch to the fourth round of three producers
SmallStamps(i) == (0 - 3 * i)..(7 * i + 1)
BigClock(i)    == 1..(2 * i + 1)
BigStamps(i)   == (0 - 4 * i)..(9 * i + 1)

\* ---------------------------------------------------------------- generation: real intervals, instants around slot boundaries
\* owner table: all instants within 3 ms of a boundary plus one interior point, from four slots before
\* the epoch to beyond the third round of 100 producers
TableSlots == 304
TableLists == {<<1>>}
NearBoundary(i, lo, hi) == UNION { {k * i + d : d \in (0 - 3)..3} \cup {k * i + (i \div 2)} : k \in lo..hi }
TableClock(i) == {ms \in NearBoundary(i, 0 - 4, TableSlots) : TRUE}

\* the owner vector of an instant: owner index for every producer-set size 1..100
OwnerVec(ms, i) == [n \in 1..100 |-> BpIndex(ms, i, n)]
TableView(ms) == [ms |-> ms, next |-> NextIndex(ms, iv), prev |-> PrevIndex(ms, iv), owners |-> OwnerVec(ms, iv)]

\* table generation walks along the instants in increasing order; the "clock" may start before the epoch here
TableInit == /\ iv \in Intervals
             /\ now = 0 - 4 * iv - 3
             /\ bps = <<1>> /\ lib = 0 - 1 /\ blk = <<>> /\ res = <<>>
             /\ lastAct = [name |-> "Init"]
\* the instant after ms in TableClock: k*i-3 .. k*i+3, k*i + i/2, (k+1)*i-3 ...
TableSucc(ms, i) == LET k == (ms + 3) \div i
                        d == ms - k * i
                    IN IF d < 3 THEN ms + 1
                       ELSE IF d = 3 THEN k * i + (i \div 2)
                       ELSE (k + 1) * i - 3
TableStep == /\ TableSucc(now, iv) <= TableSlots * iv + 3
             /\ now' = TableSucc(now, iv)
             /\ UNCHANGED <<iv, bps, lib, blk, res>>
             /\ lastAct' = [name |-> "Tick", t |-> now']
TableSpec == TableInit /\ [][TableStep]_vars
TableLog == LogTransition(<<iv, now>>, lastAct', <<iv, TableView(now')>>)

\* ---------------------------------------------------------------- generation: decisions on crafted blocks
\* producer lists: sizes 1, 2, 3, 5, 23 and 100; keys 1..100 are producers of L100, 101/102 never are
L1   == <<7>>
L2   == <<2, 1>>
L3   == <<3, 1, 2>>
L5   == <<5, 4, 1, 3, 2>>
L23  == [j \in 1..23 |-> ((j * 7) % 23) + 1]
L100 == [j \in 1..100 |-> 101 - j]
\* same-size successors of L3 and L5 (one member voted out, one voted in): an election that keeps the size must
\* still replace the whole index map
L3b  == <<3, 4, 2>>
L5b  == <<5, 4, 6, 3, 2>>
GenVariants == {L3b, L5b}
GenLists == {L1, L2, L3, L5, L23, L100} \cup GenVariants
\* identifier of a list in the transition log: its length, +1000 for the same-size variants
Lid(l) == Len(l) + (IF l \in GenVariants THEN 1000 ELSE 0)
GenKeys  == 1..102

\* the local clock: first ms, middle and last ms of slot 1000 (far from the epoch)
BaseSlot == 1000
GenClock(i) == {(BaseSlot - 1) * i + 1, (BaseSlot - 1) * i + (i \div 2), BaseSlot * i}
\* timestamps: first / middle / last ms of the slots at distance d from the clock's slot
SlotPoints(k, i) == {(k - 1) * i + 1, (k - 1) * i + (i \div 2), k * i}
GenDistances == {0 - 101, 0 - 24, 0 - 3, 0 - 2, 0 - 1, 0, 1, 2, 3, 4}
GenStamps(i) == UNION {SlotPoints(BaseSlot + d, i) : d \in GenDistances}
                \cup {2 - 2 * i - 1, 2 - 2 * i, 0 - i, 0 - 1, 0, 1, i, i + 1}      \* around the epoch

\* signers worth distinguishing for a timestamp: the owner of its slot, the neighbours of the owner,
\* a far member, a key outside the list
SignersFor(ts) ==
  LET n == Len(bps)
      o == BpIndex(ts, iv, n)
      at(x) == bps[(x % n) + 1]
  IN (IF o \in 0..(n - 1) THEN {at(o), at(o + 1), at(o + n - 1), at(o + (n \div 2))} ELSE {bps[1], bps[n]})
     \cup {CHOOSE k \in GenKeys : k \notin Members(bps)}

GenMutations(r_signer, r_ts, r_no) ==
  {NoMut}
  \cup {FieldMut(f, 0) : f \in OpaqueFields}
  \cup {FieldMut("Timestamp", t) : t \in {r_ts + iv, r_ts - iv, r_ts + Len(bps) * iv, r_ts + 1, r_ts - 1}}
  \cup {FieldMut("BlockNo", n) : n \in {r_no + 1, r_no - 1} \cap Nos}
  \cup {FieldMut("PubKey", k) : k \in (SignersFor(r_ts) \cup {Garbage}) \ {r_signer}}
  \cup {FieldMut("Sign", k) : k \in (SignersFor(r_ts) \cup {Garbage}) \ {r_signer}}
  \cup {ShiftMut(p[1], p[2]) : p \in AdjacentPairs}

\* the owner of the timestamp's slot (if any) and a key outside the list
OwnerAndOutsider(ts) ==
  LET n == Len(bps)
      o == BpIndex(ts, iv, n)
  IN (IF o \in 0..(n - 1) THEN {bps[o + 1]} ELSE {bps[1]}) \cup {CHOOSE k \in GenKeys : k \notin Members(bps)}

\* (a) every signer class x every timestamp x block number, unmodified;
\* (b) every mutation of a block signed by the owner (and by an outsider) of a present, past and future slot
GenRecipes ==
  UNION { {Recipe(k, t, n, NoMut) : k \in SignersFor(t)} : t \in GenStamps(iv), n \in Nos }
  \cup UNION { UNION { {Recipe(k, t, n, m) : m \in GenMutations(k, t, n)} : k \in OwnerAndOutsider(t) }
               : t \in {now, now - iv, now + 2 * iv, now - Len(bps) * iv}, n \in {lib + 1} }

GenNext == \/ /\ blk = <<>>
              /\ \/ \E t \in ClockOf(iv) : Tick(t)
                 \/ \E l \in Lists : Elect(l)
                 \/ \E n \in 0..MaxLib : Finalize(n)
                 \/ \E r \in GenRecipes : Submit(r)
                 \/ Produce
           \/ Done
GenSpec == Init /\ [][GenNext]_vars
\* Lid identifies the list (Elect prints the list itself)
GenLog == lastAct'.name = "Done" \/ LogTransition(<<iv, now, Lid(bps), lib>>, lastAct', <<iv, now', Lid(bps'), lib', res'>>)
=============================================================================
