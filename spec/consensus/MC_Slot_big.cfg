\* thorough design check: intervals 2 and 3 ms, 5 keys, lists of 1..4 producers (one not containing key 1),
\* LIB -1..1, every ms from four slots before the epoch to the third round of four producers
SPECIFICATION Spec
CONSTANTS
  Intervals = {2, 3}
  Keys = {1, 2, 3, 4, 5}
  Lists <- BigLists
  MaxLib = 1
  ClockOf <- BigClock
  StampsOf <- BigStamps
VIEW view
INVARIANTS TypeOK UniqueOwner SlotLaw EpochOddity ShiftLaw NoTwoEntitled DecisionSound DecisionExact
PROPERTIES MutationDetected HonestAccepted
CHECK_DEADLOCK FALSE
