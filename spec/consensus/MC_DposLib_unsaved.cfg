\* BEFORE REPAIR 4cd694af (Fixes without persist), counterexample to RestoreEqualsRecompute: trees T4i, one restart: the Update calls of a reorganisation that is given up raise the LIB in memory, nothing saved it, the restart brought the older LIB back
SPECIFICATION Spec
CONSTANTS
  N = 4
  Byz <- Byz3
  Nodes <- Obs1
  Blk0s <- T4iExec
  MaxBlocks = 12
  MaxRestarts = 1
  ByzMode = "branch"
  ByzRanges <- R123
  Runs = TRUE
  BadKinds <- OnlyOk
  Fixes <- BeforeF56
VIEW view
PROPERTIES RestoreEqualsRecompute
CHECK_DEADLOCK FALSE
