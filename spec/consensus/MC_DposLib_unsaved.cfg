\* FINDING F5 (UNSAVED), expected counterexample (RestoreEqualsRecompute): trees T4i, one restart: the Update calls of a reorganisation that is given up raise the LIB in memory, nothing saves it, the restart brings the older LIB back
SPECIFICATION Spec
CONSTANTS
  N = 4
  Byz <- Byz3
  Nodes <- Obs1
  Blk0s <- T4iExec
  MaxBlocks = 12
  MaxRestarts = 1
  ByzMode = "branch"
  ByzRanges <- R123
  Runs = TRUE
  BadKinds <- OnlyOk
  Fixes <- AllFixes
VIEW view
PROPERTIES RestoreEqualsRecompute
CHECK_DEADLOCK FALSE
