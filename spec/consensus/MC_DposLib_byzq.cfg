\* OPEN FINDING F4, expected counterexample (LibQuorum): tree T4b, producer 3 Byzantine with free Confirms: one producer alone makes its block irreversible
SPECIFICATION Spec
CONSTANTS
  N = 4
  Byz <- Byz3
  Nodes <- Obs1
  Blk0s <- ST4b
  MaxBlocks = 8
  MaxRestarts = 0
  ByzMode = "any"
  ByzRanges <- R123
  Runs = FALSE
  BadKinds <- OnlyOk
  Fixes <- AllFixes
VIEW view
PROPERTIES LibQuorum
CHECK_DEADLOCK FALSE
