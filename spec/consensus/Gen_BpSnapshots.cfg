\* generation (quick): every transition; period 2 (offsets boundary / boundary+1), heights 0..9 (gc from 4P on), BPCOUNT 2 or 3 under the code's
\* GLOBALCOUNT rule (the model predicts what the code does; the harness' oracle decides whether that is a function of the chain),
\* two block contents (genesis content; ranking 2 with BPCOUNT 2), at most 1 content change per chain, no LIB (it only removes behaviours)
SPECIFICATION Spec
CONSTANTS
  P = 2
  MaxH = 9
  Genesis <- Gen3
  Rankings <- Rank2
  Counts <- C23
  ContentSet <- TwoContents
  DefaultCount = 3
  MaxChanges = 1
  MaxLibLag = 0
  CountFix = FALSE
  MaxReorgs = 99
  MaxRestarts = 99
  Acts <- NoLibActs
VIEW view
ACTION_CONSTRAINT GenLog
CHECK_DEADLOCK FALSE
