\* tree T4e (fork exactly at the LIB block, built by an equivocating producer): one observer, 2 restarts: the reorganisation at the LIB is allowed, all properties
SPECIFICATION Spec
CONSTANTS
  N = 4
  Byz <- Byz3
  Nodes <- Obs1
  Blk0s <- ST4e
  MaxBlocks = 10
  MaxRestarts = 2
  ByzMode = "branch"
  ByzRanges <- R123
  Runs = FALSE
  BadKinds <- OnlyOk
  Fixes <- AllFixes
VIEW view
INVARIANTS TypeOK LibOnMain ConfirmsOnMain ProposalsOnMain StatusBestIsBest Agreement HonestConfirms
PROPERTIES LibMonotone Final NoForkBelowLib LibQuorum RestoreEqualsRecompute AfterAbandonedReorgStatusMatchesMainChain
CHECK_DEADLOCK FALSE
