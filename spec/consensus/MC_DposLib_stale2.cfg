\* BEFORE REPAIR fb65fdad (Fixes without onchain), counterexample to ProposalsOnMain: tree T4j: the valid prefix of a reorganisation that is given up left a proposal that is not on the main chain
SPECIFICATION Spec
CONSTANTS
  N = 4
  Byz <- Byz3
  Nodes <- Obs1
  Blk0s <- T4jExec
  MaxBlocks = 7
  MaxRestarts = 0
  ByzMode = "branch"
  ByzRanges <- R123
  Runs = TRUE
  BadKinds <- OnlyOk
  Fixes <- BeforeF56
VIEW view
INVARIANTS ProposalsOnMain
CHECK_DEADLOCK FALSE
