\* BEFORE REPAIR c846cf0d (Fixes = {}), counterexample to LibMonotone: tree T3w, no restart, 3 honest producers, a one-block fork at the tip: the rollback window lowers a proposal, the next calcLIB result was assigned unconditionally
SPECIFICATION Spec
CONSTANTS
  N = 3
  Byz <- NoByz
  Nodes <- Obs1
  Blk0s <- ST3w
  MaxBlocks = 15
  MaxRestarts = 0
  ByzMode = "branch"
  ByzRanges <- R123
  Runs = FALSE
  BadKinds <- OnlyOk
  Fixes <- NoFix
VIEW view
PROPERTIES LibMonotone
CHECK_DEADLOCK FALSE
