SPECIFICATION TraceSpec
CONSTANTS
  Intervals = {1000, 2000, 3000}
  Keys = {1}
  Lists <- TraceLists
  MaxLib = 100
  ClockOf <- AnyClock
  StampsOf <- AnyClock
INVARIANTS TraceSound
POSTCONDITION TraceAccepted
CHECK_DEADLOCK FALSE
