\* exhaustive (thorough), heights 0..11, all four contents, BPCOUNT variable (2 or 3) under the REPAIRED rule (CountFix: the count is read from the state of the snapshot block): all properties hold
SPECIFICATION Spec
CONSTANTS
  P = 2
  MaxH = 11
  Genesis <- Gen3
  Rankings <- Rank2
  Counts <- C23
  ContentSet <- Every
  DefaultCount = 3
  MaxChanges = 2
  MaxLibLag = 0
  CountFix = TRUE
  MaxReorgs = 99
  MaxRestarts = 99
  Acts <- NoLibActs
VIEW view
INVARIANTS TypeOK ListInForceIsFunctionOfChain CacheCoherent DbAgrees SnapshotNeverLostWhileNeeded SizeMatchesBpCount IdealConstantInsidePeriod LagLaw
PROPERTIES GcKeepsOnePeriod ListChangesOnlyAtPeriodBoundaries
CHECK_DEADLOCK FALSE
