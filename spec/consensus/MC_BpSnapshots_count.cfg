\* EXPECTED COUNTEREXAMPLE (finding BPS-F1): BPCOUNT variable under the code's GLOBALCOUNT rule, connects and restarts only: a node restarted after a
\* BPCOUNT change recomputes the snapshot with the new count; the list in force is not a function of the chain
SPECIFICATION Spec
CONSTANTS
  P = 2
  MaxH = 8
  Genesis <- Gen3
  Rankings <- Rank2
  Counts <- C23
  ContentSet <- Every
  DefaultCount = 3
  MaxChanges = 1
  MaxLibLag = 0
  CountFix = FALSE
  MaxReorgs = 99
  MaxRestarts = 99
  Acts <- RestartOnly
VIEW view
INVARIANTS ListInForceIsFunctionOfChain
CHECK_DEADLOCK FALSE
