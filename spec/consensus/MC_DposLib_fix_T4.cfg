\* REPAIRED design (attach + stale + mono): tree T4 with 2 restarts: all properties hold (compare MC_DposLib_lazy.cfg)
SPECIFICATION Spec
CONSTANTS
  N = 4
  Byz <- NoByz
  Nodes <- Obs1
  Blk0 <- T4
  MaxBlocks = 11
  MaxRestarts = 2
  ByzMode = "branch"
  ByzRanges <- R123
  Fixes <- AllFixes
VIEW view
INVARIANTS TypeOK LibOnMain ConfirmsOnMain Agreement HonestConfirms
PROPERTIES LibMonotone Final NoForkBelowLib LibQuorum RestoreEqualsRecompute
CHECK_DEADLOCK FALSE
