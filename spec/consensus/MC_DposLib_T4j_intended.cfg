\* PROPOSED repairs "persist" and "onchain" (Fixes = Intended): tree T4j, 2 restarts: all properties hold (compare MC_DposLib_stale2.cfg)
SPECIFICATION Spec
CONSTANTS
  N = 4
  Byz <- Byz3
  Nodes <- Obs1
  Blk0s <- T4jExec
  MaxBlocks = 7
  MaxRestarts = 2
  ByzMode = "branch"
  ByzRanges <- R123
  Runs = TRUE
  BadKinds <- OnlyOk
  Fixes <- Intended
VIEW view
INVARIANTS TypeOK LibOnMain ConfirmsOnMain ProposalsOnMain StatusBestIsBest Agreement HonestConfirms
PROPERTIES LibMonotone Final NoForkBelowLib LibQuorum RestoreEqualsRecompute AfterAbandonedReorgStatusMatchesMainChain
CHECK_DEADLOCK FALSE
