\* thorough, exhaustive: period 3, heights 0..16, BPCOUNT constant, 3 rankings (one with fewer candidates than BPCOUNT), at most 2 content
\* changes per chain, LIB at most 6 behind, any number of reorganisations / restarts / failed blocks
SPECIFICATION Spec
CONSTANTS
  P = 3
  MaxH = 16
  Genesis <- Gen3
  Rankings <- Rank3
  Counts <- C3
  ContentSet <- Every
  DefaultCount = 3
  MaxChanges = 2
  MaxLibLag = 6
  CountFix = FALSE
  MaxReorgs = 99
  MaxRestarts = 99
  Acts <- AllActs
VIEW view
INVARIANTS TypeOK ListInForceIsFunctionOfChain CacheCoherent DbAgrees SnapshotNeverLostWhileNeeded SizeMatchesBpCount IdealConstantInsidePeriod LagLaw
PROPERTIES GcKeepsOnePeriod ListChangesOnlyAtPeriodBoundaries LibMonotone NoReorgBelowLib
CHECK_DEADLOCK FALSE
