\* thorough, exhaustive: period 3, heights 0..13, BPCOUNT constant, 2 rankings (the second with fewer candidates than BPCOUNT), at most 2 content
\* changes per chain, LIB at most 4 behind, any number of reorganisations / restarts / failed blocks
SPECIFICATION Spec
CONSTANTS
  P = 3
  MaxH = 13
  Genesis <- Gen3
  Rankings <- Rank2s
  Counts <- C3
  ContentSet <- Every
  DefaultCount = 3
  MaxChanges = 2
  MaxLibLag = 4
  CountFix = FALSE
  MaxReorgs = 99
  MaxRestarts = 99
  Acts <- AllActs
VIEW view
INVARIANTS TypeOK ListInForceIsFunctionOfChain CacheCoherent DbAgrees SnapshotNeverLostWhileNeeded SizeMatchesBpCount IdealConstantInsidePeriod LagLaw
PROPERTIES GcKeepsOnePeriod ListChangesOnlyAtPeriodBoundaries LibMonotone NoReorgBelowLib
CHECK_DEADLOCK FALSE
