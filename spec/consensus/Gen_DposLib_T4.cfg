\* generation: every transition over the scripted tree T4 (4 producers) with one observer and one restart, printed once
SPECIFICATION Spec
CONSTANTS
  N = 4
  Byz <- NoByz
  Nodes <- Obs1
  Blk0 <- T4
  MaxBlocks = 11
  MaxRestarts = 1
  ByzMode = "branch"
  ByzRanges <- R123
  Fixes <- NoFix
VIEW view
ACTION_CONSTRAINT GenLog
CHECK_DEADLOCK FALSE
