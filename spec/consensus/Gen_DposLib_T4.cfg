\* generation: every transition over tree T4, one observer, one restart, printed once (all properties checked on the way)
SPECIFICATION Spec
CONSTANTS
  N = 4
  Byz <- NoByz
  Nodes <- Obs1
  Blk0s <- ST4
  MaxBlocks = 11
  MaxRestarts = 1
  ByzMode = "branch"
  ByzRanges <- R123
  Runs = FALSE
  BadKinds <- OnlyOk
  Fixes <- AllFixes
VIEW view
ACTION_CONSTRAINT GenLog
INVARIANTS TypeOK LibOnMain ConfirmsOnMain ProposalsOnMain StatusBestIsBest Agreement HonestConfirms
PROPERTIES LibMonotone Final NoForkBelowLib LibQuorum RestoreEqualsRecompute AfterAbandonedReorgStatusMatchesMainChain
CHECK_DEADLOCK FALSE
