\* generation: every transition over the trees T4i (invalid block at each position of the longer branch), one observer, in order and children first, one restart (all properties checked on the way)
SPECIFICATION Spec
CONSTANTS
  N = 4
  Byz <- Byz3
  Nodes <- Obs1
  Blk0s <- T4iExec
  MaxBlocks = 12
  MaxRestarts = 1
  ByzMode = "branch"
  ByzRanges <- R123
  Runs = TRUE
  BadKinds <- OnlyOk
  Fixes <- AllFixes
VIEW view
ACTION_CONSTRAINT GenLog
INVARIANTS TypeOK LibOnMain ConfirmsOnMain ProposalsOnMain StatusBestIsBest Agreement HonestConfirms
PROPERTIES LibMonotone Final NoForkBelowLib LibQuorum RestoreEqualsRecompute AfterAbandonedReorgStatusMatchesMainChain
CHECK_DEADLOCK FALSE
