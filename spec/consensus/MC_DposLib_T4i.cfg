\* trees T4i (a longer branch of the Byzantine producer with a block that fails in execute() at its 1st, 2nd or 3rd position): one observer, blocks in order and children first, 2 restarts: all properties
SPECIFICATION Spec
CONSTANTS
  N = 4
  Byz <- Byz3
  Nodes <- Obs1
  Blk0s <- T4iExec
  MaxBlocks = 12
  MaxRestarts = 2
  ByzMode = "branch"
  ByzRanges <- R123
  Runs = TRUE
  BadKinds <- OnlyOk
  Fixes <- AllFixes
VIEW view
INVARIANTS TypeOK LibOnMain ConfirmsOnMain ProposalsOnMain StatusBestIsBest Agreement HonestConfirms
PROPERTIES LibMonotone Final NoForkBelowLib LibQuorum RestoreEqualsRecompute AfterAbandonedReorgStatusMatchesMainChain
CHECK_DEADLOCK FALSE
