\* tree T3, one observer, 2 restarts at any point; Final/NoForkBelowLib are left out: they do NOT hold with restarts (LAZY, see MC_DposLib_lazy*.cfg)
SPECIFICATION Spec
CONSTANTS
  N = 3
  Byz <- NoByz
  Nodes <- Obs1
  Blk0 <- T3
  MaxBlocks = 9
  MaxRestarts = 2
  ByzMode = "branch"
  ByzRanges <- R123
  Fixes <- NoFix
VIEW view
INVARIANTS TypeOK LibOnMain ConfirmsOnMain Agreement HonestConfirms
PROPERTIES LibMonotone LibQuorum RestoreEqualsRecompute
CHECK_DEADLOCK FALSE
