\* generation: every transition of the decision model for the real intervals 1, 2 and 3 s: producer lists of 1, 2, 3, 5,
\* 23 and 100 keys, the clock at the first/middle/last ms of a slot, blocks by the owner of the slot, its
\* neighbours, a far member and an outsider, at every slot distance -101..+4 and around the epoch, unmodified
\* and with every header mutation
SPECIFICATION GenSpec
CONSTANTS
  Intervals = {1000, 2000, 3000}
  Keys <- GenKeys
  Lists <- GenLists
  MaxLib = 1
  ClockOf <- GenClock
  StampsOf <- GenStamps
VIEW view
ACTION_CONSTRAINT GenLog
CHECK_DEADLOCK FALSE
