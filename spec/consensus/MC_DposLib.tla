----------------------------- MODULE MC_DposLib -----------------------------
EXTENDS DposLib

NoBlocks == {<<>>}
NoByz    == {}
Byz3     == {3}
Byz2     == {2}
Nodes3   == {0, 1, 2}
Nodes012 == {0, 1, 2}
Nodes01  == {0, 1}
Nodes02  == {0, 2}
Node0    == {0}
Obs1     == {100}
Obs2     == {100, 101}
Nodes0o  == {0, 100}
R123     == {1, 2, 3}
R0123    == {0, 1, 2, 3}
NoFix    == {}
AllFixes == {"attach", "stale", "mono", "persist", "onchain"}
BeforeF56 == {"attach", "stale", "mono"}

\* ---------------------------------------------------------------- scripted block trees
\* A script is a sequence of <<bp, parent>> or <<bp, parent, conf>> in creation order (parent = index of an earlier
\* entry, 0 = genesis).  Without an explicit conf the block carries what an honest producer that never restarted
\* fills in: no - (number of the block it produced last before, on whatever branch).
RECURSIVE PrevOwnNo(_, _, _)
PrevOwnNo(acc, k, p) == IF k = 0 THEN 0 ELSE IF acc[k].bp = p THEN acc[k].no ELSE PrevOwnNo(acc, k - 1, p)

RECURSIVE MkBlocks(_, _)
MkBlocks(scr, acc) ==
  IF Len(acc) = Len(scr) THEN acc
  ELSE LET e  == scr[Len(acc) + 1]
           no == No(acc, e[2]) + 1
           cf == IF Len(e) = 3 THEN e[3] ELSE no - PrevOwnNo(acc, Len(acc), e[1])
       IN MkBlocks(scr, Append(acc, [parent |-> e[2], no |-> no, bp |-> e[1], conf |-> cf, bad |-> "ok"]))
Tree(scr) == MkBlocks(scr, <<>>)
\* the same tree with block k failing inside execute()
MarkBad(T, k, kind) == [T EXCEPT ![k].bad = kind]
OnlyOk == {"ok"}
OkExec == {"ok", "exec"}

\* ---------------------------------------------------------------- the scripted trees
\* T3: 3 honest producers, one fork (producer 0 misses a3 and builds b3 on a2; the others follow b): LIB advances on b
T3 == Tree(<< <<0,0>>, <<1,1>>, <<2,2>>, <<0,2>>, <<1,4>>, <<2,5>>, <<0,6>>, <<1,7>>, <<2,8>> >>)

\* T4: 4 honest producers, producer 3 cut off: o1..o5 by 0,1,2 (LIB o1 after o5), d1..d6 by 3 alone from genesis.
\* Without a restart the observer refuses d1 (number <= LIB); before repair b495bde5 it adopted d1..d6 when restarted in between (LAZY).
T4 == Tree(<< <<0,0>>, <<1,1>>, <<2,2>>, <<0,3>>, <<1,4>>,
              <<3,0>>, <<3,6>>, <<3,7>>, <<3,8>>, <<3,9>>, <<3,10>> >>)

\* T4s: 4 honest producers: o1,o2,o3 by 0,1,2; d1..d4 by 3 alone from genesis (longer: the others switch to it, LIB is
\* still 0); then d5 by 0, d6 by 1, d7 by 3.  Before repair a4f2be36 the proposal of producer 2 kept pointing at o1 and became the LIB (STALE).
T4s == Tree(<< <<0,0>>, <<1,1>>, <<2,2>>,
               <<3,0>>, <<3,4>>, <<3,5>>, <<3,6>>,
               <<0,7>>, <<1,8>>, <<3,9>> >>)

\* T4b: producer 3 is Byzantine and fills Confirms freely: d1,d2,d3 with Confirms 1,2,3 give d1 three confirmations
\* (PERBLOCK) and it is the only proposal (PARTIAL): an observer that has only seen them makes d1 irreversible;
\* o1..o5 by the honest 0,1,2 make o1 irreversible for an observer that has only seen those.
T4b == Tree(<< <<0,0>>, <<1,1>>, <<2,2>>, <<0,3>>, <<1,4>>,
               <<3,0,1>>, <<3,6,2>>, <<3,7,3>> >>)

\* T4e: like T4, but the producer that builds alone (3, Byzantine here: it has seen o1) forks exactly AT the LIB block
\* o1: x2..x6 on o1 are longer than o1..o5, the fork point has the LIB's number, the reorganisation is allowed
T4e == Tree(<< <<0,0>>, <<1,1>>, <<2,2>>, <<0,3>>, <<1,4>>,
               <<3,1>>, <<3,6>>, <<3,7>>, <<3,8>>, <<3,9>> >>)

\* T3w: 3 honest producers, a chain longer than the rebuild window (3*required = 9 blocks): heights 1..12 round robin,
\* then producer 0 misses block 12 and builds 12' on 11, 1 and 2 follow (13', 14'): rollback and restarts with a
\* window that no longer starts at block 1.  Before repair c846cf0d the one-block fork at the tip was the simplest way to see the LIB go
\* DOWN: the rollback recomputes producer 2's proposal from the window (lower than the one it had made with block 12),
\* and the next calcLIB result was assigned unconditionally (UNCOND).
T3w == Tree(<< <<0,0>>, <<1,1>>, <<2,2>>, <<0,3>>, <<1,4>>, <<2,5>>, <<0,6>>, <<1,7>>, <<2,8>>, <<0,9>>, <<1,10>>, <<2,11>>,
               <<0,11>>, <<1,13>>, <<2,14>> >>)

\* T4i: 4 producers, 3 Byzantine.  Main chain m1..m5 by 0,1,2 (blocks 1..5), continued by m6..m9 (blocks 9..12); the
\* Byzantine producer builds s4,s5,s6 (blocks 6,7,8) on m3: longer than m1..m5.  One of s4/s5/s6 does not execute, so a
\* reorganisation to that branch is given up half-way (or, delivered in order after m6.., never starts).  Depending on the
\* delivery order the failing block sits below, at or above the height of the old best block.
T4i == Tree(<< <<0,0>>, <<1,1>>, <<2,2>>, <<0,3>>, <<1,4>>,
               <<3,3>>, <<3,6>>, <<3,7>>,
               <<2,5>>, <<0,9>>, <<1,10>>, <<2,11>> >>)
T4iExec == {MarkBad(T4i, 6, "exec"), MarkBad(T4i, 7, "exec"), MarkBad(T4i, 8, "exec")}

\* T4j: found by simulation.  The observer is on b1,b2,b3 (producer 1 alone, blocks 5,6,7); the branch a1(3) a2(2) a3(0) a4(3)
\* (blocks 1..4) is longer, but a4 does not execute.  The valid prefix a1..a3 gives a1 three confirmations: producer 0's
\* proposal becomes a1, and it survives the return to b3 (its number is not above the rollback target): STALE2.
T4j == Tree(<< <<3,0>>, <<2,1>>, <<0,2>>, <<3,3>>, <<1,0>>, <<1,5>>, <<1,6>> >>)
T4jExec == {MarkBad(T4j, 4, "exec")}

\* T4k: found by simulating the repaired design.  The observer is on b1..b5 (producer 0 alone, blocks 8..12); the branch
\* a1..a7 (blocks 1..7, producers 2,3,1,1,3,2,3) is longer; a1..a6 execute and give a1 its quorum (the LIB becomes a1,
\* legitimately), then a7 does not execute and the node returns to b5: its LIB is not on its chain.  This is the finality
\* side of known finding C07-valid-prefix-not-adopted (the valid, longer prefix a1..a6 is not adopted).
T4k == MarkBad(Tree(<< <<2,0,1>>, <<3,1,2>>, <<1,2,3>>, <<1,3,1>>, <<3,4,3>>, <<2,5,5>>, <<3,6,2>>,
                       <<0,0,1>>, <<0,8,1>>, <<0,9,1>>, <<0,10,1>>, <<0,11,1>> >>), 7, "exec")
ST4k == {T4k}
ST3  == {T3}
ST4  == {T4}
ST4s == {T4s}
ST4e == {T4e}
ST3w == {T3w}
ST4b == {T4b}

\* ACTION_CONSTRAINT printing every transition (generation configs only)
GenLog == LogTransition(view, lastAct', view')
=============================================================================
