\* generation: the owner table of the real intervals (1, 2, 3 s): for every instant within 3 ms of a slot
\* boundary (and one interior instant per slot), from four slots before the epoch to beyond the third round
\* of 100 producers, the slot indexes and the owner index for every producer-set size 1..100
SPECIFICATION TableSpec
CONSTANTS
  Intervals = {1000, 2000, 3000}
  Keys = {1}
  Lists <- TableLists
  MaxLib = 0
  ClockOf <- TableClock
  StampsOf <- TableClock
VIEW view
ACTION_CONSTRAINT TableLog
CHECK_DEADLOCK FALSE
