\* simulation (tlc -simulate): deep behaviours; period 3, heights 0..19 (rollbacks from 6P into a gc'd period), 3 rankings (one shorter than BPCOUNT),
\* BPCOUNT 2..4 (code rule: the properties that fail because of finding BPS-F1 are not listed), up to 4 content changes, LIB at most 4 behind
SPECIFICATION Spec
CONSTANTS
  P = 3
  MaxH = 19
  Genesis <- Gen3
  Rankings <- Rank3
  Counts <- C234
  ContentSet <- Every
  DefaultCount = 3
  MaxChanges = 4
  MaxLibLag = 4
  CountFix = FALSE
  MaxReorgs = 99
  MaxRestarts = 99
  Acts <- AllActs
INVARIANTS TypeOK DbAgrees SnapshotNeverLostWhileNeeded IdealConstantInsidePeriod LagLaw
PROPERTIES GcKeepsOnePeriod LibMonotone NoReorgBelowLib
CHECK_DEADLOCK FALSE
