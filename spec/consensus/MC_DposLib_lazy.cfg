\* BEFORE REPAIR b495bde5 (Fixes = {}), counterexample to Final: tree T4 with ONE restart: until the first Update after a restart the status was not attached, the veto saw LIB 0 and the observer reorganised below its LIB
SPECIFICATION Spec
CONSTANTS
  N = 4
  Byz <- NoByz
  Nodes <- Obs1
  Blk0s <- ST4
  MaxBlocks = 11
  MaxRestarts = 1
  ByzMode = "branch"
  ByzRanges <- R123
  Runs = FALSE
  BadKinds <- OnlyOk
  Fixes <- NoFix
VIEW view
PROPERTIES Final
CHECK_DEADLOCK FALSE
