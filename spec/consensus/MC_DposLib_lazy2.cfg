\* BEFORE REPAIR b495bde5 (Fixes = {}), counterexample to NoForkBelowLib: tree T3 with one restart: a block numbered below the LIB was accepted right after a restart
SPECIFICATION Spec
CONSTANTS
  N = 3
  Byz <- NoByz
  Nodes <- Obs1
  Blk0s <- ST3
  MaxBlocks = 9
  MaxRestarts = 1
  ByzMode = "branch"
  ByzRanges <- R123
  Runs = FALSE
  BadKinds <- OnlyOk
  Fixes <- NoFix
VIEW view
PROPERTIES NoForkBelowLib
CHECK_DEADLOCK FALSE
