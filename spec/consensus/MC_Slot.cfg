\* exhaustive design check: interval 3 ms, 4 keys, lists of 1..3 producers, every ms from before the epoch to round 3
SPECIFICATION Spec
CONSTANTS
  Intervals = {3}
  Keys = {1, 2, 3, 4}
  Lists <- SmallLists
  MaxLib = 0
  ClockOf <- SmallClock
  StampsOf <- SmallStamps
VIEW view
INVARIANTS TypeOK UniqueOwner SlotLaw EpochOddity ShiftLaw NoTwoEntitled DecisionSound DecisionExact
PROPERTIES MutationDetected HonestAccepted
CHECK_DEADLOCK FALSE
