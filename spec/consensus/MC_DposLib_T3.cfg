\* tree T3 (3 honest producers, one fork): every delivery order to TWO observers, 1 restart at any point: all properties
SPECIFICATION Spec
CONSTANTS
  N = 3
  Byz <- NoByz
  Nodes <- Obs2
  Blk0s <- ST3
  MaxBlocks = 9
  MaxRestarts = 1
  ByzMode = "branch"
  ByzRanges <- R123
  Runs = FALSE
  BadKinds <- OnlyOk
  Fixes <- AllFixes
VIEW view
INVARIANTS TypeOK LibOnMain ConfirmsOnMain ProposalsOnMain StatusBestIsBest Agreement HonestConfirms
PROPERTIES LibMonotone Final NoForkBelowLib LibQuorum RestoreEqualsRecompute AfterAbandonedReorgStatusMatchesMainChain
CHECK_DEADLOCK FALSE
