\* tree T3 (3 honest producers, one fork): every delivery order to TWO observers, 1 restart at any point: all properties
SPECIFICATION Spec
CONSTANTS
  N = 3
  Byz <- NoByz
  Nodes <- Obs2
  Blk0 <- T3
  MaxBlocks = 9
  MaxRestarts = 1
  ByzMode = "branch"
  ByzRanges <- R123
  Fixes <- AllFixes
VIEW view
INVARIANTS TypeOK LibOnMain ConfirmsOnMain Agreement HonestConfirms
PROPERTIES LibMonotone Final NoForkBelowLib LibQuorum RestoreEqualsRecompute
CHECK_DEADLOCK FALSE
