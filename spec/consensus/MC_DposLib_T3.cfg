\* exhaustive over the scripted tree T3 (3 honest producers, one fork): every delivery order to two observers, no restart
SPECIFICATION Spec
CONSTANTS
  N = 3
  Byz <- NoByz
  Nodes <- Obs2
  Blk0 <- T3
  MaxBlocks = 9
  MaxRestarts = 0
  ByzMode = "branch"
  ByzRanges <- R123
  Fixes <- NoFix
VIEW view
INVARIANTS TypeOK LibOnMain ConfirmsOnMain Agreement HonestConfirms
PROPERTIES LibMonotone Final NoForkBelowLib LibQuorum RestoreEqualsRecompute
CHECK_DEADLOCK FALSE
