\* tree T3w (chain longer than the rebuild window), one observer, 1 restart; Final/NoForkBelowLib (LAZY) and LibMonotone (UNCOND, see MC_DposLib_lower.cfg) are left out: they do not hold
SPECIFICATION Spec
CONSTANTS
  N = 3
  Byz <- NoByz
  Nodes <- Obs1
  Blk0 <- T3w
  MaxBlocks = 15
  MaxRestarts = 1
  ByzMode = "branch"
  ByzRanges <- R123
  Fixes <- NoFix
VIEW view
INVARIANTS TypeOK LibOnMain ConfirmsOnMain Agreement HonestConfirms
PROPERTIES LibQuorum RestoreEqualsRecompute
CHECK_DEADLOCK FALSE
