\* tree T3w (chain longer than the rebuild window, one-block fork at the tip), one observer, 2 restarts: all properties
SPECIFICATION Spec
CONSTANTS
  N = 3
  Byz <- NoByz
  Nodes <- Obs1
  Blk0s <- ST3w
  MaxBlocks = 15
  MaxRestarts = 2
  ByzMode = "branch"
  ByzRanges <- R123
  Runs = FALSE
  BadKinds <- OnlyOk
  Fixes <- AllFixes
VIEW view
INVARIANTS TypeOK LibOnMain ConfirmsOnMain ProposalsOnMain StatusBestIsBest Agreement HonestConfirms
PROPERTIES LibMonotone Final NoForkBelowLib LibQuorum RestoreEqualsRecompute AfterAbandonedReorgStatusMatchesMainChain
CHECK_DEADLOCK FALSE
