------------------------------- MODULE DposLib -------------------------------
(***************************************************************************)
(* C08 — DPoS finality (last irreversible block, LIB).                     *)
(*                                                                         *)
(* Code: consensus/impl/dpos/lib.go (libStatus: addConfirmInfo, getPreLIB, *)
(* calcLIB, gc, load/loadPlibStatus, begRecoBlockNo), status.go            *)
(* (Status.Update append/rollback branches, NeedReorganization, lazy       *)
(* Status.load, bootLoader), dpos.go (VerifyTimestamp: no <= LIB refused), *)
(* blockfactory.go (Confirms = no - lpbNo, lpbNo local to the worker),     *)
(* chain/chainhandle.go + reorg.go (when the consensus hooks are called),  *)
(* chain/chaindb.go (status saved in the tip transaction / the swap bulk). *)
(*                                                                         *)
(* Blocks are created in a global order; block k of the table `blk` is     *)
(* [parent, no, bp, conf].  Time is the creation index (the harness gives  *)
(* block k the slot  base + N*k + bp , which the producer bp owns); since  *)
(* slots may be skipped any producer order is possible, so no slot clock   *)
(* is needed.  Id 0 is the genesis block.                                  *)
(*                                                                         *)
(* A node is a full node: a correct block producer (id in BP \ Byz) or an  *)
(* observer (id outside BP).  One action per critical section of the chain *)
(* service (one AddBlock message); inside, the steps of the code are       *)
(* followed in order.  Blocks reach a node parents first (orphan handling  *)
(* is the business of ChainDB.tla).  All blocks are valid (C05/C07 cover   *)
(* invalid ones).  The BP set stays the genesis list (heights < 300).      *)
(*                                                                         *)
(* Oddities of the code kept as they are (names in capitals are referred   *)
(* to in docs/notes/C08.md):                                               *)
(*  U16      confirmsLeft is a uint16 and is decremented below zero        *)
(*  BREAK0   the walk of getPreLIB stops at the first entry whose counter  *)
(*           is zero, whether or not it is in the confirm range            *)
(*  PERBLOCK confirmations are counted per block, not per producer, and    *)
(*           the Confirms field of a header is not validated (OPEN, F4)    *)
(*  PARTIAL  calcLIB takes the (len-1)/3-th smallest of the proposals of   *)
(*           the producers seen so far (not of all N producers)            *)
(*  H1       load() at height 1 rebuilds nothing (beg = end)               *)
(* Five defects found with this model were repaired in the code; the       *)
(* constant Fixes says which repairs the model contains (all FIVE in       *)
(* every configuration that is checked or replayed; {} = the code before): *)
(*  "attach" (b495bde5) the restored status is attached when the Status is *)
(*           created; before, it was attached at the first Update only and *)
(*           libNo() was 0 until then: no veto, no refusal (LAZY)          *)
(*  "stale"  (a4f2be36) a rollback resets the proposals that point above   *)
(*           the rollback target; before, they kept pointing into the      *)
(*           abandoned branch (STALE)                                      *)
(*  "mono"   (c846cf0d) the LIB is only replaced by a higher one; before,  *)
(*           the result of calcLIB was assigned unconditionally (UNCOND)   *)
(* Two more defects, found with blocks that fail in execution:             *)
(*  "persist" (4cd694af) the status is also saved after a block failed (as a child of *)
(*           the best block or inside a reorganisation that is given up):  *)
(*           Update calls made on the way may have raised the LIB, which   *)
(*           is lost at the next restart otherwise (UNSAVED)               *)
(*  "onchain" (fb65fdad) a rollback resets every proposal not found in the  *)
(*           height index, not only those numbered above the target: the   *)
(*           valid prefix of a reorganisation that is given up makes       *)
(*           proposals at or below the old best block's number (STALE2)    *)
(***************************************************************************)
EXTENDS Integers, Sequences, FiniteSets, TLC, Util

CONSTANTS N,            \* number of block producers; BP = 0..N-1
          Byz,          \* Byzantine producers (subset of BP)
          Nodes,        \* full nodes that are modelled: correct producers and/or observers (ids >= N)
          Blk0s,        \* set of initial block tables (scripted block trees; {<<>>} = only genesis); one is picked in Init
          MaxBlocks,    \* bound on Len(blk)
          MaxRestarts,  \* bound on the number of restarts
          ByzMode,      \* "branch" = a Byzantine producer equivocates but fills Confirms the honest way on every branch;
                        \* "any"    = it also chooses Confirms freely from ByzRanges
          ByzRanges,    \* Confirms values available in mode "any"
          Runs,         \* TRUE: a run of blocks may also arrive children first (orphan pool): action DeliverRun
          BadKinds,     \* what a Byzantine producer's block may be: subset of {"ok", "exec"} (executes / fails inside
                        \* execute()); scripted trees mark invalid blocks themselves
          Fixes         \* repairs contained in the model: subset of {"attach", "stale", "mono"} (see the header);
                        \* all three = the code as it is now, {} = the code before the repairs

BP      == 0 .. (N - 1)
Correct == BP \ Byz
Req     == (N * 2) \div 3 + 1      \* lib.go setConfirmsRequired: bpCount*2/3 + 1
Lim     == 3 * Req                 \* gcNumLimit / the offset of begRecoBlockNo
NoPl    == -1                      \* "no entry" in the proposed-LIB map

VARIABLES blk,        \* block table: Seq([parent, no, bp, conf])
          node,       \* [Nodes -> [best, known, cf, pr, lib, lpb, bfl, ld]]
          restarts,
          lastAct

vars == <<blk, node, restarts, lastAct>>
view == <<blk, node, restarts>>

\* ---------------------------------------------------------------- block tree (B = a block table)
No(B, b)  == IF b = 0 THEN 0 ELSE B[b].no
Par(B, b) == B[b].parent

RECURSIVE AncAt(_, _, _)           \* the ancestor-or-self of b at height h <= No(b)
AncAt(B, b, h) == IF No(B, b) <= h THEN b ELSE AncAt(B, Par(B, b), h)

IsAnc(B, a, b) == No(B, a) <= No(B, b) /\ AncAt(B, b, No(B, a)) = a

RECURSIVE ComAnc(_, _, _)          \* gather(): the branch root of a side tip b against the main tip m
ComAnc(B, m, b) ==
  IF No(B, b) > No(B, m) THEN ComAnc(B, m, Par(B, b))
  ELSE IF AncAt(B, m, No(B, b)) = b THEN b ELSE ComAnc(B, m, Par(B, b))

\* blocks r+1 .. b of the branch of b, ascending
Path(B, r, b) == [k \in 1 .. (No(B, b) - No(B, r)) |-> AncAt(B, b, No(B, r) + k)]

\* the last block of producer p on the branch ending in b (0 if none): what an honest producer's lpbNo is on that branch
RECURSIVE LastOwnNo(_, _, _)
LastOwnNo(B, b, p) == IF b = 0 THEN 0 ELSE IF B[b].bp = p THEN B[b].no ELSE LastOwnNo(B, Par(B, b), p)

\* ---------------------------------------------------------------- libStatus (lib.go), S = [cf, pr, lib, lpb]
EmptyPr == [p \in BP |-> NoPl]
Fresh   == [cf |-> <<>>, pr |-> EmptyPr, lib |-> 0, lpb |-> 0, sb |-> 0]

\* addConfirmInfo
AddCI(B, S, b, self) ==
  LET ci == [no |-> B[b].no, id |-> b, bp |-> B[b].bp, left |-> Req, rng |-> B[b].conf]
  IN [S EXCEPT !.cf  = Append(@, ci),
               !.pr  = IF @[ci.bp] = NoPl THEN [@ EXCEPT ![ci.bp] = 0] ELSE @,    \* genesis info as the initial proposal
               !.lpb = IF ci.bp = self THEN ci.no ELSE @]

\* uint64: min := no - range + 1 wraps to a huge number when range > no + 1 (nothing is in range then)
InRange(c, last) ==
  LET mn == last.no - last.rng + 1
  IN IF mn < 0 THEN FALSE ELSE c.no >= mn /\ c.no <= last.no

Dec16(x) == IF x = 0 THEN 65535 ELSE x - 1      \* U16

\* getPreLIB: walk from the newest entry backwards, decrement the entries in range, stop at the first zero (BREAK0)
RECURSIVE Walk(_, _, _)
Walk(cf, k, last) ==
  IF k = 0 THEN [cf |-> cf, hit |-> 0]
  ELSE LET c   == cf[k]
           c2  == IF InRange(c, last) THEN [c EXCEPT !.left = Dec16(@)] ELSE c
           cf2 == [cf EXCEPT ![k] = c2]
       IN IF c2.left = 0 THEN [cf |-> cf2, hit |-> k] ELSE Walk(cf2, k - 1, last)

PreLIB(cf) == Walk(cf, Len(cf), cf[Len(cf)])

\* calcLIB: sort the proposals by block number, take index (len-1)/3 (PARTIAL).  sort.Slice is not stable and the
\* proposals come out of a map, so among proposals with the same number any may be returned.
CalcLIB(B, pr) ==
  LET ps == {p \in BP : pr[p] # NoPl}
      k  == (Cardinality(ps) - 1) \div 3
      v  == CHOOSE x \in {No(B, pr[p]) : p \in ps} :
               /\ Cardinality({p \in ps : No(B, pr[p]) < x}) <= k
               /\ Cardinality({p \in ps : No(B, pr[p]) <= x}) >= k + 1
  IN {pr[p] : p \in {q \in ps : No(B, pr[q]) = v}}

\* update() + updateLIB (only raised: "mono"); the set of possible results
UpdateSt(B, S) ==
  LET w == PreLIB(S.cf)
  IN IF w.hit = 0 THEN {[S EXCEPT !.cf = w.cf]}
     ELSE LET pr2 == [S.pr EXCEPT ![S.cf[Len(S.cf)].bp] = w.cf[w.hit].id]
          IN {[S EXCEPT !.cf = w.cf, !.pr = pr2,
                        !.lib = IF "mono" \in Fixes /\ No(B, l) <= No(B, S.lib) THEN @ ELSE l] : l \in CalcLIB(B, pr2)}

RECURSIVE DropLE(_, _)
DropLE(cf, n) == IF cf = <<>> \/ cf[1].no > n THEN cf ELSE DropLE(Tail(cf), n)
Trim(cf) == IF Len(cf) > Lim THEN SubSeq(cf, Len(cf) - Lim + 1, Len(cf)) ELSE cf

\* gc: entries at or below the LIB number, then the length limit (the BP list does not change: Prpsd.gc is a no-op)
Gc(B, S) == [S EXCEPT !.cf = Trim(DropLE(@, No(B, S.lib)))]

\* Status.Update, append branch
AppendBlock(B, S, b, self) == {Gc(B, T) : T \in UpdateSt(B, AddCI(B, S, b, self))}

\* loadPlibStatus: a scratch status over the main-chain blocks beg..end (no LIB assignment, no gc)
TmpStep(B, T, b) ==
  LET T1 == AddCI(B, [cf |-> T.cf, pr |-> T.pr, lib |-> 0, lpb |-> 0, sb |-> 0], b, NoPl)
      w  == PreLIB(T1.cf)
  IN [cf |-> w.cf,
      pr |-> IF w.hit = 0 THEN T1.pr ELSE [T1.pr EXCEPT ![T1.cf[Len(T1.cf)].bp] = w.cf[w.hit].id]]

RECURSIVE TmpFold(_, _, _, _, _)
TmpFold(B, tip, T, h, end) ==
  IF h > end THEN T ELSE TmpFold(B, tip, TmpStep(B, T, AncAt(B, tip, h)), h + 1, end)

\* rollbackStatusTo's reset of the proposals above the target ("stale"), then libStatus.load(end) over the main chain
\* of `tip` (begRecoBlockNo + loadPlibStatus + merge, H1)
ResetStale(B, pr, end, tip) ==
  IF "stale" \in Fixes
  THEN [p \in BP |-> IF pr[p] = NoPl THEN NoPl
                     ELSE IF No(B, pr[p]) > end THEN 0
                     ELSE IF "onchain" \in Fixes /\ ~IsAnc(B, pr[p], tip) THEN 0
                     ELSE pr[p]]
  ELSE pr

Load(B, S1, tip, end) ==
  LET S == [S1 EXCEPT !.pr = ResetStale(B, @, end, tip)]
  IN IF end = 0 THEN [S EXCEPT !.cf = <<>>]
     ELSE LET libNo == No(B, S.lib)
              m     == IF end < libNo THEN libNo ELSE end
              beg   == IF m > Lim THEN m - Lim ELSE 1
          IN IF beg >= end \/ end > No(B, tip) THEN [S EXCEPT !.cf = <<>>]   \* nil: nothing to rebuild / GetBlockByNo fails
             ELSE LET T == TmpFold(B, tip, [cf |-> <<>>, pr |-> EmptyPr], beg, end)
                  IN [S EXCEPT !.cf = T.cf,
                               !.pr = [p \in BP |-> IF T.pr[p] # NoPl /\ No(B, T.pr[p]) > 0 THEN T.pr[p] ELSE @[p]]]

\* Status.Update, rollback branch (target = the given block; the window is read from the height index = chain of `tip`)
RollbackTo(B, S, tip, r) == [Gc(B, Load(B, S, tip, No(B, r))) EXCEPT !.sb = r]

\* Status.Update(x): "connected" iff the status' best block is x's parent (compared by id), else "rollback"
UpdateOp(B, S, x, tip, self) ==
  IF x # 0 /\ S.sb = Par(B, x) THEN {[T EXCEPT !.sb = x] : T \in AppendBlock(B, S, x, self)}
  ELSE {RollbackTo(B, S, tip, x)}

\* rollforward: executeBlock -> Update(x) for the blocks path[k..upto] of the new branch
RECURSIVE AppendAll(_, _, _, _, _, _, _)
AppendAll(B, Ss, path, k, upto, tip, self) ==
  IF k > upto THEN Ss
  ELSE AppendAll(B, UNION {UpdateOp(B, S, path[k], tip, self) : S \in Ss}, path, k + 1, upto, tip, self)

StOf(n) == [cf |-> n.cf, pr |-> n.pr, lib |-> n.lib, lpb |-> n.lpb, sb |-> n.sb]
WithSt(n, S) == [n EXCEPT !.cf = S.cf, !.pr = S.pr, !.lib = S.lib, !.lpb = S.lpb, !.sb = S.sb]

\* the LIB number the veto and the timestamp check see (0 while the status is not attached)
EffLib(B, n) == IF n.ld THEN No(B, n.lib) ELSE 0

\* first position of a block of `path` that does not execute (0 = all fine)
RECURSIVE FirstBad(_, _, _)
FirstBad(B, path, k) == IF k > Len(path) THEN 0 ELSE IF B[path[k]].bad # "ok" THEN k ELSE FirstBad(B, path, k + 1)

\* ---------------------------------------------------------------- the chain service handling one block
\* results: the set of [n |-> new node record, res |-> outcome].  A block is "ok" or fails inside execute() ("exec": wrong
\* state/receipts root, failing transaction); executeBlock then calls Update(best block of the chain DB).  (A block that
\* fails before execution - ValidateBlock, e.g. a wrong transaction root - is refused on arrival, is never stored and
\* touches nothing: not modelled.)  A block that fails as the child of the best block is not stored; a side-branch block is
\* stored unexecuted and fails when a reorganisation rolls forward over it: rollback to the branch root, Update for the
\* valid prefix, then Update(old best block), which is a rollback to the old best block over the unchanged height index.
\* the status is saved with the tip: in the transaction that connects a block and in the bulk that swaps the height
\* index after a reorganisation; nowhere else (with "persist": also after a block that failed, see the header)
SvOf(S) == [pr |-> S.pr, lib |-> S.lib, lpb |-> S.lpb]
Saved(n) == [n EXCEPT !.sv = [pr |-> n.pr, lib |-> n.lib, lpb |-> n.lpb]]
Failed(n) == IF "persist" \in Fixes THEN Saved(n) ELSE n

HandleRaw(B, n, b, self) ==
  IF No(B, b) <= EffLib(B, n) THEN {[n |-> n, res |-> "refused"]}                       \* VerifyTimestamp
  ELSE IF Par(B, b) = n.best
  THEN IF B[b].bad = "ok"
       THEN {[n |-> Saved([WithSt(n, S) EXCEPT !.best = b, !.known = @ \cup {b}, !.ld = TRUE]), res |-> "connected"] :
                S \in UpdateOp(B, StOf(n), b, n.best, self)}
       ELSE {[n |-> Failed([WithSt(n, S) EXCEPT !.ld = TRUE]), res |-> "invalid"] : S \in UpdateOp(B, StOf(n), n.best, n.best, self)}
  ELSE LET n1 == [n EXCEPT !.known = @ \cup {b}]                                         \* side branch: stored
       IN IF No(B, b) <= No(B, n.best) THEN {[n |-> n1, res |-> "side"]}
          ELSE LET r    == ComAnc(B, n.best, b)
                   path == Path(B, r, b)
                   k    == FirstBad(B, path, 1)
                   Rb   == UpdateOp(B, StOf(n), r, n.best, self)                           \* reorg.rollback(): Update(r)
               IN IF ~(No(B, r) >= EffLib(B, n)) THEN {[n |-> n1, res |-> "vetoed"]}       \* NeedReorganization
                  ELSE IF k = 0
                  THEN {[n |-> Saved([WithSt(n1, S) EXCEPT !.best = b, !.ld = TRUE]), res |-> "reorg"] :
                           S \in AppendAll(B, Rb, path, 1, Len(path), n.best, self)}
                  ELSE LET Pre == AppendAll(B, Rb, path, 1, k - 1, n.best, self)              \* the valid prefix
                       IN {[n |-> Failed([WithSt(n1, S) EXCEPT !.ld = TRUE]), res |-> "reorg-failed"] :
                              S \in UNION {UpdateOp(B, P, n.best, n.best, self) : P \in Pre}}

\* an arriving block whose handling ends in an error is remembered in the errored-blocks cache (in memory only) and
\* refused without any processing from then on
Handle(B, n, b, self) ==
  {[n |-> IF h.res \in {"invalid", "reorg-failed"} THEN [h.n EXCEPT !.err = @ \cup {b}] ELSE h.n, res |-> h.res] :
      h \in HandleRaw(B, n, b, self)}

\* ---------------------------------------------------------------- actions
InitNode == [best |-> 0, known |-> {}, cf |-> <<>>, pr |-> EmptyPr, lib |-> 0, lpb |-> 0, bfl |-> 0, ld |-> TRUE, sb |-> 0,
             err |-> {}, sv |-> [pr |-> EmptyPr, lib |-> 0, lpb |-> 0]]

Init ==
  /\ blk \in Blk0s
  /\ node = [i \in Nodes |-> InitNode]
  /\ restarts = 0
  /\ lastAct = [name |-> "Init"]

\* a correct producer builds on its best block (block factory: Confirms = no - lpbNo) and connects the block itself
Produce(p) ==
  /\ p \in Nodes \cap Correct
  /\ Len(blk) < MaxBlocks
  /\ LET n  == node[p]
         no == No(blk, n.best) + 1
         b  == Len(blk) + 1
         B  == Append(blk, [parent |-> n.best, no |-> no, bp |-> p, conf |-> no - n.bfl, bad |-> "ok"])
     IN /\ no > n.bfl
        /\ \E h \in Handle(B, n, b, p) :
             /\ h.res = "connected"
             /\ blk' = B
             /\ node' = [node EXCEPT ![p] = [h.n EXCEPT !.bfl = no]]
             /\ lastAct' = [name |-> "Produce", node |-> p, b |-> b, res |-> h.res]
  /\ UNCHANGED restarts

\* a producer outside Nodes (Byzantine, or a correct one that is not modelled as a node) creates a block;
\* Byzantine producers build on any block, any number of times (equivocation)
ByzConfs(p, par) ==
  LET no == No(blk, par) + 1
  IN IF ByzMode = "any" THEN {c \in ByzRanges : c <= no + 1}
     ELSE {no - LastOwnNo(blk, par, p)}

ByzProduce(p, par, c, bd) ==
  /\ p \in Byz
  /\ Len(blk) < MaxBlocks
  /\ par \in 0 .. Len(blk)
  /\ c \in ByzConfs(p, par)
  /\ bd \in BadKinds
  /\ ~\E x \in 1 .. Len(blk) : blk[x].parent = par /\ blk[x].bp = p /\ blk[x].conf = c /\ blk[x].bad = bd
  /\ blk' = Append(blk, [parent |-> par, no |-> No(blk, par) + 1, bp |-> p, conf |-> c, bad |-> bd])
  /\ lastAct' = [name |-> "ByzProduce", node |-> p, b |-> Len(blk) + 1, res |-> "created"]
  /\ UNCHANGED <<node, restarts>>

\* a block from the network reaches node i (its parent is already stored)
Deliver(i, b) ==
  /\ b \in 1 .. Len(blk)
  /\ b \notin node[i].known /\ b \notin node[i].err
  /\ Par(blk, b) = 0 \/ Par(blk, b) \in node[i].known
  /\ \E h \in Handle(blk, node[i], b, i) :
       /\ node' = [node EXCEPT ![i] = h.n]
       /\ lastAct' = [name |-> "Deliver", node |-> i, b |-> b, res |-> h.res]
  /\ UNCHANGED <<blk, restarts>>

\* a run a..b of blocks (b a descendant of a, at least two blocks, none stored yet, a's parent stored) arrives CHILDREN
\* FIRST: the descendants wait in the orphan pool; when a arrives the chain processor handles a and then, one after the
\* other, the orphans depending on it.  If a extends the best block every block is executed and connected in turn (the
\* run ends at the first block that fails; the rest stays in the orphan pool, never to be resolved).  Otherwise all of
\* them are stored as side-branch blocks and ONE reorganisation to b is attempted at the end.
RECURSIVE MainRun(_, _, _, _, _)
MainRun(B, Ns, path, k, self) ==        \* Ns: set of node records
  IF k > Len(path) THEN {[n |-> n, res |-> "connected"] : n \in Ns}
  ELSE UNION {LET H == HandleRaw(B, n, path[k], self)
              IN UNION {IF h.res = "connected" THEN MainRun(B, {h.n}, path, k + 1, self) ELSE {h} : h \in H} : n \in Ns}

DeliverRun(i, a, b) ==
  /\ Runs
  /\ a \in 1 .. Len(blk) /\ b \in 1 .. Len(blk)
  /\ No(blk, b) > No(blk, a) /\ IsAnc(blk, a, b)
  /\ Par(blk, a) = 0 \/ Par(blk, a) \in node[i].known
  /\ LET n    == node[i]
         path == Path(blk, Par(blk, a), b)
     IN /\ \A k \in 1 .. Len(path) : path[k] \notin n.known /\ path[k] \notin n.err
        /\ No(blk, a) > EffLib(blk, n)
        /\ \E h \in (IF Par(blk, a) = n.best
                      THEN MainRun(blk, {n}, path, 1, i)
                      ELSE HandleRaw(blk, [n EXCEPT !.known = @ \cup {path[k] : k \in 1 .. (Len(path) - 1)}], b, i)) :
              \* the error of the run is the error of the arriving block a: a is the one that is cached
              /\ node' = [node EXCEPT ![i] = IF h.res \in {"invalid", "reorg-failed"} THEN [h.n EXCEPT !.err = @ \cup {a}] ELSE h.n]
              /\ lastAct' = [name |-> "DeliverRun", node |-> i, b |-> b, a |-> a, res |-> h.res]
  /\ UNCHANGED <<blk, restarts>>

\* stop and start on the same stores: NewStatus -> bootLoader.load (decode the saved status, load(best.no));
\* the block factory worker starts from the restored LpbNo; the status is attached at once ("attach")
Restart(i) ==
  /\ restarts < MaxRestarts
  /\ node[i].best # 0
  /\ LET n == node[i]
         S == Load(blk, [cf |-> <<>>, pr |-> n.sv.pr, lib |-> n.sv.lib, lpb |-> n.sv.lpb, sb |-> n.best], n.best, No(blk, n.best))
     IN node' = [node EXCEPT ![i] = [WithSt(n, S) EXCEPT !.bfl = S.lpb, !.ld = ("attach" \in Fixes), !.sb = n.best, !.err = {}]]
  /\ restarts' = restarts + 1
  /\ lastAct' = [name |-> "Restart", node |-> i, b |-> 0, res |-> "restarted"]
  /\ UNCHANGED blk

Next ==
  \/ \E p \in Nodes : Produce(p)
  \/ \E p \in Byz : \E par \in 0 .. Len(blk) : \E c \in 0 .. (MaxBlocks + 1) : \E bd \in BadKinds : ByzProduce(p, par, c, bd)
  \/ \E i \in Nodes : \E b \in 1 .. Len(blk) : Deliver(i, b)
  \/ \E i \in Nodes : \E a, b \in 1 .. Len(blk) : DeliverRun(i, a, b)
  \/ \E i \in Nodes : Restart(i)

Spec == Init /\ [][Next]_vars

\* ---------------------------------------------------------------- properties
TypeOK ==
  /\ \A k \in 1 .. Len(blk) : blk[k].parent \in 0 .. (k - 1) /\ blk[k].no = No(blk, blk[k].parent) + 1 /\ blk[k].bp \in BP
  /\ \A i \in Nodes :
       LET n == node[i]
       IN /\ n.best = 0 \/ n.best \in n.known
          /\ \A b \in n.known : Par(blk, b) = 0 \/ Par(blk, b) \in n.known
          /\ \A p \in BP : n.pr[p] \in {NoPl} \cup (0 .. Len(blk))
          /\ n.lib \in 0 .. Len(blk)
          /\ \A k \in 1 .. Len(n.cf) : n.cf[k].id \in n.known /\ (k > 1 => n.cf[k].no = n.cf[k - 1].no + 1)
          /\ n.bfl <= No(blk, n.best)

\* the reported LIB lies on the node's main chain
LibOnMain == \A i \in Nodes : IsAnc(blk, node[i].lib, node[i].best)

\* the confirm list describes the tail of the main chain
ConfirmsOnMain == \A i \in Nodes : \A k \in 1 .. Len(node[i].cf) : IsAnc(blk, node[i].cf[k].id, node[i].best)

\* the LIB number never decreases
LibMonotone == [][\A i \in Nodes : No(blk', node'[i].lib) >= No(blk, node[i].lib)]_vars

\* no block at or below a reported LIB is ever replaced: the old LIB is on the new main chain
\* (with LibOnMain and LibMonotone this gives: every LIB ever reported stays on the main chain)
Final == [][\A i \in Nodes : IsAnc(blk', node[i].lib, node'[i].best)]_vars

\* reorganisations forking below the LIB and blocks numbered at or below it are refused
NoForkBelowLib ==
  [][\A i \in Nodes :
       /\ (node'[i].best # node[i].best /\ ~IsAnc(blk', node[i].best, node'[i].best))
             => No(blk', ComAnc(blk', node[i].best, node'[i].best)) >= No(blk, node[i].lib)
       /\ \A b \in node'[i].known \ node[i].known : No(blk', b) > No(blk, node[i].lib)]_vars

\* a new LIB has been confirmed by blocks of more than two thirds of the producers: distinct producers of blocks the
\* node has stored that descend from the LIB (or are it) and whose confirm range contains it.  (Blocks of an abandoned
\* branch count: their producers did confirm the LIB, which is an ancestor of both branches.)
Confirmers(B, kn, l) ==
  {B[x].bp : x \in {y \in kn : /\ IsAnc(B, l, y)
                               /\ B[y].no - B[y].conf + 1 >= 0 /\ B[y].no - B[y].conf + 1 <= No(B, l)}}
LibQuorum ==
  [][\A i \in Nodes : (node'[i].lib # node[i].lib /\ node'[i].lib # 0)
        => Cardinality(Confirmers(blk', node'[i].known, node'[i].lib)) >= Req]_vars

\* two correct nodes never hold irreversible blocks on conflicting branches
Agreement == \A i, j \in Nodes : IsAnc(blk, node[i].lib, node[j].lib) \/ IsAnc(blk, node[j].lib, node[i].lib)

\* the status restored by a restart equals the one the node had computed from the blocks: same LIB, same
\* last-produced number; a proposal is either unchanged or recomputed from the stored main chain to something
\* at least as high (H1: the running status can have lost the entry of block 1, the rebuilt one has it again).
\* What the rebuilt confirm list and proposals are exactly is Load above; the harness compares them.
IsRestart == lastAct'.name = "Restart"
RestoreEqualsRecompute ==
  [][IsRestart => LET i == lastAct'.node
                  IN /\ node'[i].lib = node[i].lib /\ node'[i].lpb = node[i].lpb /\ node'[i].best = node[i].best
                     /\ \A p \in BP : \/ node'[i].pr[p] = node[i].pr[p]
                                      \/ /\ IsAnc(blk, node'[i].pr[p], node[i].best)
                                         /\ No(blk, node'[i].pr[p]) >= No(blk, node[i].pr[p])]_vars
\* stronger (does NOT hold, H1): the rebuilt confirm list above the LIB is the running one
RestoreConfirms ==
  [][IsRestart => LET i == lastAct'.node
                  IN Trim(DropLE(node'[i].cf, No(blk, node[i].lib))) = node[i].cf]_vars

\* every proposal is a block of the main chain
ProposalsOnMain == \A i \in Nodes : \A p \in BP : node[i].pr[p] = NoPl \/ IsAnc(blk, node[i].pr[p], node[i].best)

\* after a block that does not execute (as a child of the best block, or inside the roll-forward of a reorganisation
\* that is then given up) the status is the one of the main chain: its best block is the chain's best block and the
\* confirm list, the proposals and the LIB only name main-chain blocks
AfterAbandonedReorgStatusMatchesMainChain ==
  [][lastAct'.res \in {"reorg-failed", "invalid"} =>
        LET n == node'[lastAct'.node]
        IN /\ n.sb = n.best
           /\ \A k \in 1 .. Len(n.cf) : IsAnc(blk', n.cf[k].id, n.best)
           /\ \A p \in BP : n.pr[p] = NoPl \/ IsAnc(blk', n.pr[p], n.best)
           /\ IsAnc(blk', n.lib, n.best)]_vars

\* the status' best block is the chain's best block
StatusBestIsBest == \A i \in Nodes : node[i].sb = node[i].best

\* an honest producer never fills Confirms with less than 1 or more than its block number
HonestConfirms == \A k \in 1 .. Len(blk) : blk[k].bp \in Correct => blk[k].conf >= 1 /\ blk[k].conf <= blk[k].no
=============================================================================
