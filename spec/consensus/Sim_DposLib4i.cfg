\* simulation, GENERATION ONLY (behaviours for the replay): 4 producers, producer 3 Byzantine (equivocates; some of its blocks fail in execute()), 3 correct nodes, up to 16 blocks, runs of blocks children first, no restart.  The safety properties are not checked here: with blocks that fail, ProposalsOnMain and then LibOnMain do not hold in the code as it is (finding F6, MC_DposLib_stale2.cfg); they are checked for the design with the proposed repairs in Sim_DposLib4i_intended.cfg
SPECIFICATION Spec
CONSTANTS
  N = 4
  Byz <- Byz3
  Nodes <- Nodes012
  Blk0s <- NoBlocks
  MaxBlocks = 16
  MaxRestarts = 0
  ByzMode = "branch"
  ByzRanges <- R123
  Runs = TRUE
  BadKinds <- OkExec
  Fixes <- AllFixes
INVARIANTS TypeOK HonestConfirms
CHECK_DEADLOCK FALSE
