\* simulation: 4 producers, producer 3 Byzantine (equivocates; some of its blocks fail in execute()), 3 correct nodes, up to 16 blocks, runs of blocks children first, 2 restarts.  All properties except LibOnMain / AfterAbandonedReorgStatusMatchesMainChain: the valid prefix of a branch can legitimately make one of its blocks irreversible before a later block fails and the node stays on its old chain (finality side of known finding C07-valid-prefix-not-adopted, see MC_DposLib_prefix.cfg)
SPECIFICATION Spec
CONSTANTS
  N = 4
  Byz <- Byz3
  Nodes <- Nodes012
  Blk0s <- NoBlocks
  MaxBlocks = 16
  MaxRestarts = 2
  ByzMode = "branch"
  ByzRanges <- R123
  Runs = TRUE
  BadKinds <- OkExec
  Fixes <- AllFixes
INVARIANTS TypeOK ConfirmsOnMain ProposalsOnMain StatusBestIsBest Agreement HonestConfirms
PROPERTIES LibMonotone Final NoForkBelowLib LibQuorum RestoreEqualsRecompute
CHECK_DEADLOCK FALSE
