\* simulation: 4 producers, producer 3 Byzantine (equivocates, Confirms filled the honest way per branch), some of its blocks fail in execute(), 3 correct nodes, up to 16 blocks, runs of blocks children first, no restart; all properties
SPECIFICATION Spec
CONSTANTS
  N = 4
  Byz <- Byz3
  Nodes <- Nodes012
  Blk0s <- NoBlocks
  MaxBlocks = 16
  MaxRestarts = 0
  ByzMode = "branch"
  ByzRanges <- R123
  Runs = TRUE
  BadKinds <- OkExec
  Fixes <- AllFixes
INVARIANTS TypeOK LibOnMain ConfirmsOnMain ProposalsOnMain StatusBestIsBest Agreement HonestConfirms
PROPERTIES LibMonotone Final NoForkBelowLib LibQuorum RestoreEqualsRecompute AfterAbandonedReorgStatusMatchesMainChain
CHECK_DEADLOCK FALSE
