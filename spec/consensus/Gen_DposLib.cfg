\* generation: every transition over tree T3, one observer, one restart, printed once (all properties checked on the way)
SPECIFICATION Spec
CONSTANTS
  N = 3
  Byz <- NoByz
  Nodes <- Obs1
  Blk0 <- T3
  MaxBlocks = 9
  MaxRestarts = 1
  ByzMode = "branch"
  ByzRanges <- R123
  Fixes <- AllFixes
VIEW view
ACTION_CONSTRAINT GenLog
INVARIANTS TypeOK LibOnMain ConfirmsOnMain Agreement HonestConfirms
PROPERTIES LibMonotone Final NoForkBelowLib LibQuorum RestoreEqualsRecompute
CHECK_DEADLOCK FALSE
