\* generation: every transition over tree T4e, one observer, one restart
SPECIFICATION Spec
CONSTANTS
  N = 4
  Byz <- Byz3
  Nodes <- Obs1
  Blk0 <- T4e
  MaxBlocks = 10
  MaxRestarts = 1
  ByzMode = "branch"
  ByzRanges <- R123
  Fixes <- NoFix
VIEW view
ACTION_CONSTRAINT GenLog
CHECK_DEADLOCK FALSE
