\* REPAIRED design: tree T4s, 1 restart: all properties hold (compare MC_DposLib_stale.cfg)
SPECIFICATION Spec
CONSTANTS
  N = 4
  Byz <- NoByz
  Nodes <- Obs1
  Blk0 <- T4s
  MaxBlocks = 10
  MaxRestarts = 1
  ByzMode = "branch"
  ByzRanges <- R123
  Fixes <- AllFixes
VIEW view
INVARIANTS TypeOK LibOnMain ConfirmsOnMain Agreement HonestConfirms
PROPERTIES LibMonotone Final NoForkBelowLib LibQuorum RestoreEqualsRecompute
CHECK_DEADLOCK FALSE
