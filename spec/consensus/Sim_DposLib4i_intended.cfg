\* simulation of the design WITH the proposed repairs persist + onchain (Fixes = Intended): 4 producers, producer 3 Byzantine with blocks that fail in execute(), runs children first, 2 restarts; checked only, not replayed.  All properties except LibOnMain / AfterAbandonedReorgStatusMatchesMainChain: the valid prefix of a branch can legitimately make one of its blocks irreversible before a later block fails and the node stays on its old chain (the finality side of known finding C07-valid-prefix-not-adopted)
SPECIFICATION Spec
CONSTANTS
  N = 4
  Byz <- Byz3
  Nodes <- Nodes012
  Blk0s <- NoBlocks
  MaxBlocks = 16
  MaxRestarts = 2
  ByzMode = "branch"
  ByzRanges <- R123
  Runs = TRUE
  BadKinds <- OkExec
  Fixes <- Intended
INVARIANTS TypeOK ConfirmsOnMain ProposalsOnMain StatusBestIsBest Agreement HonestConfirms
PROPERTIES LibMonotone Final NoForkBelowLib LibQuorum RestoreEqualsRecompute
CHECK_DEADLOCK FALSE
