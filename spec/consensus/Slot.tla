-------------------------------- MODULE Slot --------------------------------
(***************************************************************************)
(* C09 — block producer legitimacy (DPoS): one producer per slot, valid    *)
(* signature over the complete header, timestamp not in the future.        *)
(*                                                                         *)
(* Code modelled:                                                          *)
(*   consensus/impl/dpos/slot/slot.go   msToIndex, msToNextIndex,          *)
(*                                      NextBpIndex, IsFor, IsFuture       *)
(*   consensus/impl/dpos/bp/cluster.go  Cluster.Update, BpID2Index, Size   *)
(*   consensus/impl/dpos/dpos.go        VerifyTimestamp, VerifySign,       *)
(*                                      IsBlockValid                       *)
(*   types/blockchain.go                Block.Sign, VerifySign,            *)
(*                                      writeBlockHeaderOmitSign           *)
(*                                                                         *)
(* State: the configured block interval, the local clock, the current      *)
(* producer list, the LIB number, and the block that is being checked with *)
(* the three verdicts the consensus layer gives on it.  Time is in ms (the *)
(* code divides the ns timestamp by 10^6 first; the harness covers the     *)
(* sub-millisecond remainder).                                             *)
(*                                                                         *)
(* Signatures are symbolic: a signature is the pair (signing key, exact    *)
(* content signed); the digest is injective in the tuple of header fields. *)
(***************************************************************************)
EXTENDS Integers, Sequences, FiniteSets, TLC, Util

CONSTANTS
  Intervals,    \* block intervals (ms per slot) a node may be configured with
  Keys,         \* signing identities (positive integers): producers and outsiders
  Lists,        \* producer lists that may be elected: sequences of distinct Keys
  MaxLib,       \* last-irreversible-block numbers range over -1..MaxLib (-1: no LIB status yet)
  ClockOf(_),   \* interval -> values of the local clock (ms, >= 1)
  StampsOf(_)   \* interval -> block timestamps considered (ms; an attacker may choose <= 0)

VARIABLES
  iv,           \* configured block interval (never changes)
  now,          \* local clock (ms)
  bps,          \* current producer list; bps[i] has producer index i-1
  lib,          \* LIB block number (-1: dpos.Status = nil)
  blk,          \* <<>> or <<b>>: the block under examination
  res,          \* <<>> or <<d>>: its verdicts [ts, sig, bp]
  lastAct

vars == <<iv, now, bps, lib, blk, res, lastAct>>
view == <<iv, now, bps, lib, blk, res>>

\* ------------------------------------------------------------------ Go integer arithmetic
\* Go's / and % truncate toward zero (TLA+'s \div and % floor); b > 0 everywhere below
GoDiv(a, b) == IF a >= 0 THEN a \div b ELSE 0 - ((0 - a) \div b)
GoMod(a, b) == a - b * GoDiv(a, b)

\* ------------------------------------------------------------------ slot.go
PrevIndex(ms, i) == GoDiv(ms - 1, i)                  \* msToIndex / msToPrevIndex
NextIndex(ms, i) == GoDiv(ms + i - 1, i)              \* msToNextIndex = msToIndex(ms + I)
BpIndex(ms, i, n) == GoMod(NextIndex(ms, i), n)       \* Slot.NextBpIndex
IsFor(ms, i, idx, n) == BpIndex(ms, i, n) = idx       \* Slot.IsFor
IsFuture(ts, t, i) == NextIndex(ts, i) >= NextIndex(t, i) + 2     \* Slot.IsFuture with Now() = t
SameSlot(a, b, i) == NextIndex(a, i) = NextIndex(b, i)            \* slot.Equal
IsNextTo(a, b, i) == PrevIndex(a, i) = NextIndex(b, i)            \* slot.IsNextTo

\* ------------------------------------------------------------------ bp/cluster.go
IndexNil == 65535                                     \* bp.indexNil = MaxUint16
IndexOf(l, k) == IF \E j \in 1..Len(l) : l[j] = k
                 THEN (CHOOSE j \in 1..Len(l) : l[j] = k) - 1
                 ELSE IndexNil                        \* Cluster.BpID2Index
Members(l) == Range(l)

\* ------------------------------------------------------------------ headers and symbolic signatures
\* the eight fields whose value the consensus checks never interpret
OpaqueFields == {"ChainID", "PrevBlockHash", "BlocksRootHash", "TxsRootHash", "ReceiptsRootHash",
                 "Confirms", "CoinbaseAccount", "Consensus"}
HeaderFields == OpaqueFields \cup {"BlockNo", "Timestamp", "PubKey", "Sign"}
\* pairs of byte-string fields that are neighbours in the serialisation writeBlockHeaderOmitSign
AdjacentPairs == { <<"ChainID", "PrevBlockHash">>, <<"BlocksRootHash", "TxsRootHash">>,
                   <<"TxsRootHash", "ReceiptsRootHash">>, <<"PubKey", "CoinbaseAccount">>,
                   <<"CoinbaseAccount", "Consensus">> }

Garbage == 0      \* a PubKey that does not decode / signature bytes that do not verify under any key

\* a header without its Sign field: producer key, timestamp (ms), block number, and the set of
\* opaque fields whose value differs from the value the producer gave them
Hdr(pub, ts, no, alt) == [pub |-> pub, ts |-> ts, no |-> no, alt |-> alt]

\* Block.Sign: setPubKey, then sign the digest of all fields but Sign
SignBlock(h, k) == LET h2 == [h EXCEPT !.pub = k]
                   IN [hdr |-> h2, sig |-> [key |-> k, over |-> h2]]

\* Block.VerifySign: the key is taken from the header; the digest is recomputed from the header
VerifySign(b) == /\ b.hdr.pub # Garbage
                 /\ b.sig.key = b.hdr.pub
                 /\ b.sig.over = b.hdr

\* ------------------------------------------------------------------ crafted blocks
\* A recipe describes how a submitted block came about: `signer` signed a block with timestamp
\* ts and number no, afterwards the mutation `mut` was applied to the header.
NoMut == [kind |-> "none", f |-> "", g |-> "", v |-> 0]
FieldMut(f, v) == [kind |-> "field", f |-> f, g |-> "", v |-> v]   \* field f replaced (v: the new value where it has a meaning)
ShiftMut(f, g) == [kind |-> "shift", f |-> f, g |-> g, v |-> 0]    \* bytes moved across the boundary between neighbours f and g

Recipe(signer, ts, no, mut) == [signer |-> signer, ts |-> ts, no |-> no, mut |-> mut]

Build(r) ==
  LET p == SignBlock(Hdr(Garbage, r.ts, r.no, {}), r.signer)
      m == r.mut
  IN CASE m.kind = "none"                       -> p
       [] m.kind = "shift"                      -> [p EXCEPT !.hdr.alt = {m.f, m.g} \cap OpaqueFields,
                                                             !.hdr.pub = IF "PubKey" \in {m.f, m.g} THEN Garbage ELSE @]
       [] m.kind = "field" /\ m.f = "Timestamp" -> [p EXCEPT !.hdr.ts = m.v]
       [] m.kind = "field" /\ m.f = "BlockNo"   -> [p EXCEPT !.hdr.no = m.v]
       [] m.kind = "field" /\ m.f = "PubKey"    -> [p EXCEPT !.hdr.pub = m.v]   \* another key, or Garbage
       [] m.kind = "field" /\ m.f = "Sign"      -> [p EXCEPT !.sig.key = m.v]   \* Garbage: corrupted bytes; a key: that key's signature over the same content
       [] OTHER                                 -> [p EXCEPT !.hdr.alt = {m.f}]

\* does the mutation leave the block as signed?
Pristine(r) == \/ r.mut.kind = "none"
               \/ r.mut.kind = "field" /\ r.mut.f = "Timestamp" /\ r.mut.v = r.ts
               \/ r.mut.kind = "field" /\ r.mut.f = "BlockNo" /\ r.mut.v = r.no
               \/ r.mut.kind = "field" /\ r.mut.f \in {"PubKey", "Sign"} /\ r.mut.v = r.signer

\* ------------------------------------------------------------------ dpos.go: the three consensus checks
VerifyTimestamp(b, t, lb, i) == /\ ~IsFuture(b.hdr.ts, t, i)
                                /\ b.hdr.no > lb                    \* "too small block number (<= LIB number)"; skipped when Status = nil (lb = -1)
IsBlockValid(b, l, i) == /\ b.hdr.pub # Garbage                    \* "bad public key in block"
                         /\ IsFor(b.hdr.ts, i, IndexOf(l, b.hdr.pub), Len(l))

Decide(b, t, l, lb, i) == [ts  |-> VerifyTimestamp(b, t, lb, i),
                           sig |-> VerifySign(b),
                           bp  |-> IsBlockValid(b, l, i)]
Accept(d) == d.ts /\ d.sig /\ d.bp      \* chain.addBlockInternal / executeBlock require all three

\* ------------------------------------------------------------------ what the property demands (declarative, no division)
\* slot k is the interval of instants ((k-1)*i, k*i]
SlotOf(ms, i) == CHOOSE k \in ((ms \div i) - 1)..((ms \div i) + 1) : (k - 1) * i < ms /\ ms <= k * i
OwnerOf(ms, i, n) == SlotOf(ms, i) % n                \* TLA+ %: always in 0..n-1

Legit(b, t, l, lb, i) ==
  /\ b.hdr.pub # Garbage /\ b.sig = [key |-> b.hdr.pub, over |-> b.hdr]     \* the holder of the header's key signed exactly this header
  /\ \E j \in 1..Len(l) : l[j] = b.hdr.pub /\ OwnerOf(b.hdr.ts, i, Len(l)) = j - 1   \* a current producer whose index owns the slot
  /\ SlotOf(b.hdr.ts, i) < SlotOf(t, i) + 2                                  \* not two or more slots ahead of the local clock
  /\ b.hdr.no > lb

Entitled(k, ms, l, i) == k \in Members(l) /\ IsFor(ms, i, IndexOf(l, k), Len(l))

\* ------------------------------------------------------------------ actions
Init == /\ iv \in Intervals
        /\ now = Min(ClockOf(iv))
        /\ bps \in Lists
        /\ lib = 0 - 1
        /\ blk = <<>> /\ res = <<>>
        /\ lastAct = [name |-> "Init"]

\* the local clock advances
Tick(t) == /\ blk = <<>>
           /\ t \in ClockOf(iv) /\ t > now
           /\ now' = t
           /\ UNCHANGED <<iv, bps, lib, blk, res>>
           /\ lastAct' = [name |-> "Tick", t |-> t]

\* bp.Cluster.Update: the producer list is replaced
Elect(l) == /\ blk = <<>>
            /\ l \in Lists /\ l # bps
            /\ bps' = l
            /\ UNCHANGED <<iv, now, lib, blk, res>>
            /\ lastAct' = [name |-> "Elect", l |-> l]

\* the LIB advances
Finalize(n) == /\ blk = <<>>
               /\ n \in (lib + 1)..MaxLib
               /\ lib' = n
               /\ UNCHANGED <<iv, now, bps, blk, res>>
               /\ lastAct' = [name |-> "Finalize", n |-> n]

\* a block arrives from the network and goes through the three consensus checks
Submit(r) == /\ blk = <<>>
             /\ LET b == Build(r) IN /\ blk' = <<b>>
                                     /\ res' = <<Decide(b, now, bps, lib, iv)>>
             /\ UNCHANGED <<iv, now, bps, lib>>
             /\ lastAct' = [name |-> "Submit", r |-> r]

\* the producer entitled to the current instant produces and signs a block (getBpInfo + Block.Sign)
Produce == /\ blk = <<>>
           /\ BpIndex(now, iv, Len(bps)) \in 0..(Len(bps) - 1)
           /\ LET p == bps[BpIndex(now, iv, Len(bps)) + 1]
                  b == SignBlock(Hdr(Garbage, now, lib + 1, {}), p)
              IN /\ blk' = <<b>>
                 /\ res' = <<Decide(b, now, bps, lib, iv)>>
                 /\ lastAct' = [name |-> "Produce", p |-> p]
           /\ UNCHANGED <<iv, now, bps, lib>>

\* the node goes on to the next block
Done == /\ blk # <<>>
        /\ blk' = <<>> /\ res' = <<>>
        /\ UNCHANGED <<iv, now, bps, lib>>
        /\ lastAct' = [name |-> "Done"]

\* ------------------------------------------------------------------ the universe of recipes (exhaustive configurations)
Nos == 0..(MaxLib + 1)
\* where a forger would move a signed block: the neighbouring ms and slots, the same producer's slot of the next rounds
TsTargets(ts) == ({ts - 1, ts + 1, ts - iv, ts + iv} \cup {ts + Len(l) * iv : l \in Lists}) \cap StampsOf(iv)
Mutations(r_signer, r_ts, r_no) ==
  {NoMut}
  \cup {FieldMut(f, 0) : f \in OpaqueFields}
  \cup {FieldMut("Timestamp", t) : t \in TsTargets(r_ts)}
  \cup {FieldMut("BlockNo", n) : n \in Nos \ {r_no}}
  \cup {FieldMut("PubKey", k) : k \in (Keys \cup {Garbage}) \ {r_signer}}
  \cup {FieldMut("Sign", k) : k \in (Keys \cup {Garbage}) \ {r_signer}}
  \cup {ShiftMut(p[1], p[2]) : p \in AdjacentPairs}
AllRecipes == UNION { {Recipe(k, t, n, m) : m \in Mutations(k, t, n)} : k \in Keys, t \in StampsOf(iv), n \in Nos }

\* (the guard blk = <<>> is repeated in front so that TLC does not enumerate the recipes in vain)
Next == \/ /\ blk = <<>>
           /\ \/ \E t \in ClockOf(iv) : Tick(t)
              \/ \E l \in Lists : Elect(l)
              \/ \E n \in 0..MaxLib : Finalize(n)
              \/ \E r \in AllRecipes : Submit(r)
              \/ Produce
        \/ Done

Spec == Init /\ [][Next]_vars

\* ------------------------------------------------------------------ properties
Sizes == {Len(l) : l \in Lists}
Instants(i) == ClockOf(i) \cup StampsOf(i)

TypeOK == /\ iv \in Intervals /\ now \in ClockOf(iv) /\ bps \in Lists /\ lib \in (0 - 1)..MaxLib
          /\ Len(blk) = Len(res) /\ Len(blk) <= 1

\* Every instant belongs to at most one producer index; every instant after the epoch to exactly one.
\* (static: evaluated once, in the initial states)
UniqueOwner ==
  (lastAct.name = "Init") =>
    \A n \in Sizes : \A ms \in Instants(iv) :
      LET own == {x \in 0..(n - 1) : IsFor(ms, iv, x, n)}
      IN Cardinality(own) <= 1 /\ (ms >= 1 => Cardinality(own) = 1)

\* After the epoch the Go arithmetic is exactly "slot k = ((k-1)*I, k*I], owner = k mod n":
\* ownership is constant inside a slot and moves to the next index at every boundary.
SlotLaw ==
  (lastAct.name = "Init") =>
    \A n \in Sizes : \A ms \in Instants(iv) :
      ms >= 1 => /\ NextIndex(ms, iv) = SlotOf(ms, iv)
                 /\ PrevIndex(ms, iv) = SlotOf(ms, iv) - 1
                 /\ BpIndex(ms, iv, n) = OwnerOf(ms, iv, n)
                 /\ BpIndex(ms + iv, iv, n) = (BpIndex(ms, iv, n) + 1) % n
\* Named oddity (truncating division): the instants -2I+2 .. 0 all have next index 0, a double-length slot
\* that producer 0 owns; before it every I instants share an index again, but the indexes k*n only
\* (Go's % gives a negative remainder otherwise, which no producer index equals).
EpochOddity ==
  (lastAct.name = "Init") =>
    \A ms \in Instants(iv) : (ms <= 0 /\ ms >= 2 - 2 * iv) => NextIndex(ms, iv) = 0

\* translation by whole slots (whole rounds) does not change the verdicts after the epoch; the harness
\* relies on it to move the model's instants next to the wall clock
ShiftLaw ==
  (lastAct.name = "Init") =>
    \A ms \in Instants(iv) : \A t \in ClockOf(iv) : \A q \in 0..3 :
      ms >= 1 => /\ IsFuture(ms + q * iv, t + q * iv, iv) = IsFuture(ms, t, iv)
                 /\ \A n \in Sizes : BpIndex(ms + q * n * iv, iv, n) = BpIndex(ms, iv, n)

\* two different keys are never both entitled to the same instant
NoTwoEntitled ==
  (blk = <<>>) =>
    \A ms \in Instants(iv) : \A p, q \in Keys :
      (p # q) => ~(Entitled(p, ms, bps, iv) /\ Entitled(q, ms, bps, iv))

\* an accepted block is legitimate; after the epoch the checks accept exactly the legitimate blocks
DecisionSound ==
  (blk # <<>> /\ Accept(res[1])) =>
    LET b == blk[1] IN
      /\ b.hdr.pub # Garbage /\ b.sig = [key |-> b.hdr.pub, over |-> b.hdr]
      /\ b.hdr.pub \in Members(bps)
      /\ NextIndex(b.hdr.ts, iv) < NextIndex(now, iv) + 2
      /\ b.hdr.no > lib
      /\ \A k \in Keys : Entitled(k, b.hdr.ts, bps, iv) => k = b.hdr.pub
DecisionExact ==
  (blk # <<>> /\ blk[1].hdr.ts >= 1) => (Accept(res[1]) <=> Legit(blk[1], now, bps, lib, iv))

\* every mutation of a signed header is detected by the signature check
MutationDetected ==
  [][lastAct'.name = "Submit" => (res'[1].sig <=> Pristine(lastAct'.r))]_vars

\* the block of the entitled producer is accepted by a node with the same clock
HonestAccepted ==
  [][lastAct'.name = "Produce" => Accept(res'[1])]_vars
=============================================================================
