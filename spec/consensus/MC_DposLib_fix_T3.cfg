\* REPAIRED design: tree T3, two observers, 1 restart: all properties hold (compare MC_DposLib_lazy2.cfg)
SPECIFICATION Spec
CONSTANTS
  N = 3
  Byz <- NoByz
  Nodes <- Obs2
  Blk0 <- T3
  MaxBlocks = 9
  MaxRestarts = 1
  ByzMode = "branch"
  ByzRanges <- R123
  Fixes <- AllFixes
VIEW view
INVARIANTS TypeOK LibOnMain ConfirmsOnMain Agreement HonestConfirms
PROPERTIES LibMonotone Final NoForkBelowLib LibQuorum RestoreEqualsRecompute
CHECK_DEADLOCK FALSE
