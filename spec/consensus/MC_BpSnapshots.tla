---------------------------- MODULE MC_BpSnapshots ----------------------------
EXTENDS BpSnapshots

\* candidates are 1..5; the genesis list is <<1,2,3>> (DefaultCount = 3)
Gen3 == <<1, 2, 3>>
\* rankings: the genesis order, a permutation with a newcomer, a short one (fewer candidates than BPCOUNT)
Rank2 == << <<1, 2, 3, 4>>, <<4, 2, 1, 3>> >>
\* two rankings, the second one shorter than BPCOUNT (and with a newcomer)
Rank2s == << <<1, 2, 3, 4>>, <<5, 1>> >>
Rank3 == << <<1, 2, 3, 4>>, <<4, 2, 1, 3>>, <<5, 1>> >>
Rank4 == << <<1, 2, 3, 4>>, <<4, 2, 1, 3>>, <<5, 1>>, <<2, 3, 4, 5, 1>> >>
C3  == {3}
C23 == {2, 3}
C234 == {2, 3, 4}
Every == AllContents
\* two contents: the genesis content and one that changes ranking and BPCOUNT at once; three: ranking and BPCOUNT change separately
TwoContents == {[rank |-> 1, count |-> 3], [rank |-> 2, count |-> 2]}
ThreeContents == {[rank |-> 1, count |-> 3], [rank |-> 2, count |-> 3], [rank |-> 1, count |-> 2]}

AllActs   == {"Connect", "Rollback", "FailedBlock", "Restart", "AdvanceLib"}
NoLibActs == {"Connect", "Rollback", "FailedBlock", "Restart"}
RestartOnly == {"Connect", "Restart"}
ReorgOnly == {"Connect", "Rollback"}

\* ACTION_CONSTRAINT printing every transition (generation configs only)
\* (the action is logged together with the lookups it performed and the list the new chain defines)
GenLog == LogTransition(view, <<lastAct', lookups', Ideal(chain', Len(chain'))>>, view')
=============================================================================
