----------------------------- MODULE SlotTrace ------------------------------
(***************************************************************************)
(* Trace validation for C09: what the real consensus checks answered in a  *)
(* seeded random run on ONE long-lived DPoS object per interval            *)
(* (harness/consensus/impl/dpos, randomDriver) is checked against Slot.tla.*)
(* One ndjson line per event:                                              *)
(*   {"ev":"Config","iv":1000}       a node configured with this interval  *)
(*   {"ev":"Elect","l":[k1,k2,..]}   bp.Cluster.Update with this list      *)
(*   {"ev":"Lib","n":2}              the LIB number advances               *)
(*   {"ev":"Clock","t":123456}       the (model) clock advances            *)
(*   {"ev":"Submit","r":{"signer":k,"ts":ms,"no":n,                        *)
(*                       "mut":{"kind":..,"f":..,"g":..,"v":..}},          *)
(*    "res":{"ts":b,"sig":b,"bp":b}} the verdicts the REAL code gave on the*)
(*                                   block built from recipe r             *)
(* Producer lists have 1..100 members out of 102 keys, timestamps are      *)
(* arbitrary ms: far beyond what the generation configs enumerate.         *)
(***************************************************************************)
EXTENDS Slot, Json

TraceLog == ndJsonDeserialize("trace.ndjson")

VARIABLES l      \* next line of the trace

tvars == <<vars, l>>

ToSet(s) == {s[i] : i \in DOMAIN s}
AnyClock(i) == {1}
TraceLists == {<<1>>}

TraceInit == /\ iv = 1000 /\ now = 1 /\ bps = <<1>> /\ lib = 0 - 1
             /\ blk = <<>> /\ res = <<>>
             /\ lastAct = [name |-> "Init"]
             /\ l = 1

IsEvent(name) == l <= Len(TraceLog) /\ TraceLog[l].ev = name

TraceConfig == /\ IsEvent("Config")
               /\ iv' = TraceLog[l].iv /\ now' = 1 /\ lib' = 0 - 1
               /\ blk' = <<>> /\ res' = <<>>
               /\ UNCHANGED bps
               /\ lastAct' = [name |-> "Config"]
               /\ l' = l + 1

\* Elect without the membership test l \in Lists (the lists are the harness's choice)
TraceElect == /\ IsEvent("Elect")
              /\ LET nl == TraceLog[l].l
                 IN /\ Len(nl) >= 1
                    /\ Cardinality(ToSet(nl)) = Len(nl)         \* distinct keys
                    /\ bps' = nl
                    /\ lastAct' = [name |-> "Elect", l |-> nl]
              /\ blk' = <<>> /\ res' = <<>>
              /\ UNCHANGED <<iv, now, lib>>
              /\ l' = l + 1

TraceLib == /\ IsEvent("Lib")
            /\ TraceLog[l].n > lib
            /\ lib' = TraceLog[l].n
            /\ blk' = <<>> /\ res' = <<>>
            /\ UNCHANGED <<iv, now, bps>>
            /\ lastAct' = [name |-> "Finalize", n |-> lib']
            /\ l' = l + 1

TraceClock == /\ IsEvent("Clock")
              /\ TraceLog[l].t > now
              /\ now' = TraceLog[l].t
              /\ blk' = <<>> /\ res' = <<>>
              /\ UNCHANGED <<iv, bps, lib>>
              /\ lastAct' = [name |-> "Tick", t |-> now']
              /\ l' = l + 1

\* Submit followed at once by Done: the block of the event, the verdicts of the model = the logged verdicts
TraceSubmit == /\ IsEvent("Submit")
               /\ LET e == TraceLog[l]
                      r == Recipe(e.r.signer, e.r.ts, e.r.no, [kind |-> e.r.mut.kind, f |-> e.r.mut.f, g |-> e.r.mut.g, v |-> e.r.mut.v])
                      b == Build(r)
                      d == Decide(b, now, bps, lib, iv)
                  IN /\ d.ts = e.res.ts
                     /\ d.sig = e.res.sig
                     /\ d.bp = e.res.bp
                     /\ blk' = <<b>> /\ res' = <<d>>
                     /\ lastAct' = [name |-> "Submit", r |-> r]
               /\ UNCHANGED <<iv, now, bps, lib>>
               /\ l' = l + 1

TraceNext == TraceConfig \/ TraceElect \/ TraceLib \/ TraceClock \/ TraceSubmit
TraceSpec == TraceInit /\ [][TraceNext]_tvars

\* every accepted block of the record is legitimate (the property itself, on the recorded run)
TraceSound == (blk # <<>> /\ Accept(res[1])) =>
                /\ blk[1].sig = [key |-> blk[1].hdr.pub, over |-> blk[1].hdr]
                /\ blk[1].hdr.pub \in Members(bps)
                /\ (blk[1].hdr.ts >= 1 => Legit(blk[1], now, bps, lib, iv))

TraceAccepted == TLCGet("stats").diameter - 1 = Len(TraceLog)
=============================================================================
