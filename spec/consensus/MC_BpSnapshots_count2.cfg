\* EXPECTED COUNTEREXAMPLE (finding BPS-F2): BPCOUNT variable under the code's GLOBALCOUNT rule, connects and reorganisations only: during the
\* roll-forward the in-memory BPCOUNT is still the abandoned branch's; a snapshot taken then has the wrong length
SPECIFICATION Spec
CONSTANTS
  P = 2
  MaxH = 8
  Genesis <- Gen3
  Rankings <- Rank2
  Counts <- C23
  ContentSet <- Every
  DefaultCount = 3
  MaxChanges = 1
  MaxLibLag = 0
  CountFix = FALSE
  MaxReorgs = 99
  MaxRestarts = 99
  Acts <- ReorgOnly
VIEW view
INVARIANTS ListInForceIsFunctionOfChain
CHECK_DEADLOCK FALSE
