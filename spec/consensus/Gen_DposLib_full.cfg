\* generation: every transition of the full protocol with 3 correct producers (= 3 nodes), 3 blocks, 1 restart
SPECIFICATION Spec
CONSTANTS
  N = 3
  Byz <- NoByz
  Nodes <- Nodes3
  Blk0s <- NoBlocks
  MaxBlocks = 3
  MaxRestarts = 1
  ByzMode = "branch"
  ByzRanges <- R123
  Runs = FALSE
  BadKinds <- OnlyOk
  Fixes <- AllFixes
VIEW view
ACTION_CONSTRAINT GenLog
CHECK_DEADLOCK FALSE
