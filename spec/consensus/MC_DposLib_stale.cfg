\* BEFORE REPAIR a4f2be36 (Fixes = {}), counterexample to LibOnMain: tree T4s, no restart, 4 honest producers: a proposal left over from the abandoned branch became the LIB
SPECIFICATION Spec
CONSTANTS
  N = 4
  Byz <- NoByz
  Nodes <- Obs1
  Blk0s <- ST4s
  MaxBlocks = 10
  MaxRestarts = 0
  ByzMode = "branch"
  ByzRanges <- R123
  Runs = FALSE
  BadKinds <- OnlyOk
  Fixes <- NoFix
VIEW view
INVARIANTS LibOnMain
CHECK_DEADLOCK FALSE
