\* tree T4j (the valid prefix of the abandoned branch makes a proposal), one observer, in order and children first, 2 restarts: all properties
SPECIFICATION Spec
CONSTANTS
  N = 4
  Byz <- Byz3
  Nodes <- Obs1
  Blk0s <- T4jExec
  MaxBlocks = 7
  MaxRestarts = 2
  ByzMode = "branch"
  ByzRanges <- R123
  Runs = TRUE
  BadKinds <- OnlyOk
  Fixes <- AllFixes
VIEW view
INVARIANTS TypeOK LibOnMain ConfirmsOnMain ProposalsOnMain StatusBestIsBest Agreement HonestConfirms
PROPERTIES LibMonotone Final NoForkBelowLib LibQuorum RestoreEqualsRecompute AfterAbandonedReorgStatusMatchesMainChain
CHECK_DEADLOCK FALSE
