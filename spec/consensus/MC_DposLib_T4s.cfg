\* tree T4s (the observer follows o1..o3, reorganises to d1..d4 built by producer 3 alone, then d5..d7): one observer, 2 restarts: no proposal of the abandoned branch survives, all properties
SPECIFICATION Spec
CONSTANTS
  N = 4
  Byz <- NoByz
  Nodes <- Obs1
  Blk0s <- ST4s
  MaxBlocks = 10
  MaxRestarts = 2
  ByzMode = "branch"
  ByzRanges <- R123
  Runs = FALSE
  BadKinds <- OnlyOk
  Fixes <- AllFixes
VIEW view
INVARIANTS TypeOK LibOnMain ConfirmsOnMain ProposalsOnMain StatusBestIsBest Agreement HonestConfirms
PROPERTIES LibMonotone Final NoForkBelowLib LibQuorum RestoreEqualsRecompute AfterAbandonedReorgStatusMatchesMainChain
CHECK_DEADLOCK FALSE
