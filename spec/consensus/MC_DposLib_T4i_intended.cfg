\* PROPOSED repair "persist" on top of the code (Fixes = Intended): trees T4i, 2 restarts: all properties hold
SPECIFICATION Spec
CONSTANTS
  N = 4
  Byz <- Byz3
  Nodes <- Obs1
  Blk0s <- T4iExec
  MaxBlocks = 12
  MaxRestarts = 2
  ByzMode = "branch"
  ByzRanges <- R123
  Runs = TRUE
  BadKinds <- OnlyOk
  Fixes <- Intended
VIEW view
INVARIANTS TypeOK LibOnMain ConfirmsOnMain ProposalsOnMain StatusBestIsBest Agreement HonestConfirms
PROPERTIES LibMonotone Final NoForkBelowLib LibQuorum RestoreEqualsRecompute AfterAbandonedReorgStatusMatchesMainChain
CHECK_DEADLOCK FALSE
