\* generation: every transition over tree T3w, one observer, one restart
SPECIFICATION Spec
CONSTANTS
  N = 3
  Byz <- NoByz
  Nodes <- Obs1
  Blk0 <- T3w
  MaxBlocks = 15
  MaxRestarts = 1
  ByzMode = "branch"
  ByzRanges <- R123
  Fixes <- NoFix
VIEW view
ACTION_CONSTRAINT GenLog
CHECK_DEADLOCK FALSE
