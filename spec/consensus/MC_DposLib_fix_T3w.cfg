\* REPAIRED design: tree T3w, 1 restart: all properties hold (compare MC_DposLib_lower.cfg)
SPECIFICATION Spec
CONSTANTS
  N = 3
  Byz <- NoByz
  Nodes <- Obs1
  Blk0 <- T3w
  MaxBlocks = 15
  MaxRestarts = 1
  ByzMode = "branch"
  ByzRanges <- R123
  Fixes <- AllFixes
VIEW view
INVARIANTS TypeOK LibOnMain ConfirmsOnMain Agreement HonestConfirms
PROPERTIES LibMonotone Final NoForkBelowLib LibQuorum RestoreEqualsRecompute
CHECK_DEADLOCK FALSE
