\* tree T4 (4 honest producers, producer 3 cut off and building alone from genesis): one observer, 2 restarts: the LIB veto holds at every point, all properties
SPECIFICATION Spec
CONSTANTS
  N = 4
  Byz <- NoByz
  Nodes <- Obs1
  Blk0s <- ST4
  MaxBlocks = 11
  MaxRestarts = 2
  ByzMode = "branch"
  ByzRanges <- R123
  Runs = FALSE
  BadKinds <- OnlyOk
  Fixes <- AllFixes
VIEW view
INVARIANTS TypeOK LibOnMain ConfirmsOnMain ProposalsOnMain StatusBestIsBest Agreement HonestConfirms
PROPERTIES LibMonotone Final NoForkBelowLib LibQuorum RestoreEqualsRecompute AfterAbandonedReorgStatusMatchesMainChain
CHECK_DEADLOCK FALSE
