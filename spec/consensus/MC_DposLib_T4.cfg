\* tree T4 (4 honest producers, producer 3 cut off and building alone from genesis): one observer, no restart: the LIB veto holds
SPECIFICATION Spec
CONSTANTS
  N = 4
  Byz <- NoByz
  Nodes <- Obs1
  Blk0 <- T4
  MaxBlocks = 11
  MaxRestarts = 0
  ByzMode = "branch"
  ByzRanges <- R123
  Fixes <- NoFix
VIEW view
INVARIANTS TypeOK LibOnMain ConfirmsOnMain Agreement HonestConfirms
PROPERTIES LibMonotone Final NoForkBelowLib LibQuorum RestoreEqualsRecompute
CHECK_DEADLOCK FALSE
