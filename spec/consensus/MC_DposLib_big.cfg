\* exhaustive, full protocol: 3 correct producers, 4 blocks, 1 restart at any point (thorough tier)
SPECIFICATION Spec
CONSTANTS
  N = 3
  Byz <- NoByz
  Nodes <- Nodes3
  Blk0s <- NoBlocks
  MaxBlocks = 4
  MaxRestarts = 1
  ByzMode = "branch"
  ByzRanges <- R123
  Runs = FALSE
  BadKinds <- OnlyOk
  Fixes <- AllFixes
VIEW view
INVARIANTS TypeOK LibOnMain ConfirmsOnMain ProposalsOnMain StatusBestIsBest Agreement HonestConfirms
PROPERTIES LibMonotone Final NoForkBelowLib LibQuorum RestoreEqualsRecompute AfterAbandonedReorgStatusMatchesMainChain
CHECK_DEADLOCK FALSE
