\* exhaustive, full protocol: 3 correct producers, 4 blocks, 1 restart at any point (thorough tier)
SPECIFICATION Spec
CONSTANTS
  N = 3
  Byz <- NoByz
  Nodes <- Nodes3
  Blk0 <- NoBlocks
  MaxBlocks = 4
  MaxRestarts = 1
  ByzMode = "branch"
  ByzRanges <- R123
  Fixes <- AllFixes
VIEW view
INVARIANTS TypeOK LibOnMain ConfirmsOnMain Agreement HonestConfirms
PROPERTIES LibMonotone Final NoForkBelowLib LibQuorum RestoreEqualsRecompute
CHECK_DEADLOCK FALSE
