\* generation (thorough): every transition; period 2, heights 0..9, all four contents (rankings 1/2 x BPCOUNT 2/3, code rule),
\* at most 1 content change per chain, any number of reorganisations / restarts / failed blocks
SPECIFICATION Spec
CONSTANTS
  P = 2
  MaxH = 9
  Genesis <- Gen3
  Rankings <- Rank2
  Counts <- C23
  ContentSet <- Every
  DefaultCount = 3
  MaxChanges = 1
  MaxLibLag = 0
  CountFix = FALSE
  MaxReorgs = 99
  MaxRestarts = 99
  Acts <- NoLibActs
VIEW view
ACTION_CONSTRAINT GenLog
CHECK_DEADLOCK FALSE
