\* generation (thorough): every transition; period 3 (offsets boundary / boundary+1 / boundary-1), heights 0..13, BPCOUNT 2 or 3 (code rule),
\* at most 1 content change per chain, one reorganisation and one restart / failed block per behaviour
SPECIFICATION Spec
CONSTANTS
  P = 3
  MaxH = 13
  Genesis <- Gen3
  Rankings <- Rank2
  Counts <- C23
  DefaultCount = 3
  MaxChanges = 1
  MaxLibLag = 0
  CountFix = FALSE
  MaxReorgs = 1
  MaxRestarts = 1
  Acts <- NoLibActs
VIEW view
ACTION_CONSTRAINT GenLog
CHECK_DEADLOCK FALSE
