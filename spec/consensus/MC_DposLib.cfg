\* exhaustive, full protocol: 3 correct producers = 3 nodes, every interleaving of production / delivery, 3 blocks, 1 restart at any point (quick tier; no LIB is reached with 3 blocks: the scripted trees carry the LIB logic)
SPECIFICATION Spec
CONSTANTS
  N = 3
  Byz <- NoByz
  Nodes <- Nodes3
  Blk0s <- NoBlocks
  MaxBlocks = 3
  MaxRestarts = 1
  ByzMode = "branch"
  ByzRanges <- R123
  Runs = FALSE
  BadKinds <- OnlyOk
  Fixes <- AllFixes
VIEW view
INVARIANTS TypeOK LibOnMain ConfirmsOnMain ProposalsOnMain StatusBestIsBest Agreement HonestConfirms
PROPERTIES LibMonotone Final NoForkBelowLib LibQuorum RestoreEqualsRecompute AfterAbandonedReorgStatusMatchesMainChain
CHECK_DEADLOCK FALSE
