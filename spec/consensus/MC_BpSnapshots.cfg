\* quick, exhaustive: period 2, heights 0..11 (the gc'd snapshot of 2P is needed again after a rollback from 5P), BPCOUNT constant,
\* 2 rankings, at most 2 content changes per chain, any LIB, any number of reorganisations / restarts / failed blocks
SPECIFICATION Spec
CONSTANTS
  P = 2
  MaxH = 11
  Genesis <- Gen3
  Rankings <- Rank2
  Counts <- C3
  ContentSet <- Every
  DefaultCount = 3
  MaxChanges = 2
  MaxLibLag = 11
  CountFix = FALSE
  MaxReorgs = 99
  MaxRestarts = 99
  Acts <- AllActs
VIEW view
INVARIANTS TypeOK ListInForceIsFunctionOfChain CacheCoherent DbAgrees SnapshotNeverLostWhileNeeded SizeMatchesBpCount IdealConstantInsidePeriod LagLaw
PROPERTIES GcKeepsOnePeriod ListChangesOnlyAtPeriodBoundaries LibMonotone NoReorgBelowLib
CHECK_DEADLOCK FALSE
