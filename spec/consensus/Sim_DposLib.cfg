\* simulation (tlc -simulate): deep behaviours of the full protocol, 3 correct producers, up to 14 blocks, 2 restarts; all properties
SPECIFICATION Spec
CONSTANTS
  N = 3
  Byz <- NoByz
  Nodes <- Nodes3
  Blk0 <- NoBlocks
  MaxBlocks = 14
  MaxRestarts = 2
  ByzMode = "branch"
  ByzRanges <- R123
  Fixes <- AllFixes
INVARIANTS TypeOK LibOnMain ConfirmsOnMain Agreement HonestConfirms
PROPERTIES LibMonotone Final NoForkBelowLib LibQuorum RestoreEqualsRecompute
CHECK_DEADLOCK FALSE
