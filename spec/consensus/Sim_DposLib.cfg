\* simulation (tlc -simulate): deep behaviours of the full protocol, 3 correct producers, up to 14 blocks, 2 restarts
SPECIFICATION Spec
CONSTANTS
  N = 3
  Byz <- NoByz
  Nodes <- Nodes3
  Blk0 <- NoBlocks
  MaxBlocks = 14
  MaxRestarts = 2
  ByzMode = "branch"
  ByzRanges <- R123
  Fixes <- NoFix
INVARIANTS TypeOK HonestConfirms
CHECK_DEADLOCK FALSE
