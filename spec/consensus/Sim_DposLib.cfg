\* simulation (tlc -simulate): deep behaviours of the full protocol, 3 correct producers, up to 14 blocks, 2 restarts; all properties
SPECIFICATION Spec
CONSTANTS
  N = 3
  Byz <- NoByz
  Nodes <- Nodes3
  Blk0s <- NoBlocks
  MaxBlocks = 14
  MaxRestarts = 2
  ByzMode = "branch"
  ByzRanges <- R123
  Runs = FALSE
  BadKinds <- OnlyOk
  Fixes <- AllFixes
INVARIANTS TypeOK LibOnMain ConfirmsOnMain ProposalsOnMain StatusBestIsBest Agreement HonestConfirms
PROPERTIES LibMonotone Final NoForkBelowLib LibQuorum RestoreEqualsRecompute AfterAbandonedReorgStatusMatchesMainChain
CHECK_DEADLOCK FALSE
