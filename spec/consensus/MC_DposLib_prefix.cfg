\* OPEN (finality side of known finding C07-valid-prefix-not-adopted), expected counterexample (LibOnMain): tree T4k: the valid prefix a1..a6 of the longer branch makes a1 irreversible, a7 fails, the node returns to its old chain
SPECIFICATION Spec
CONSTANTS
  N = 4
  Byz <- Byz3
  Nodes <- Obs1
  Blk0s <- ST4k
  MaxBlocks = 12
  MaxRestarts = 0
  ByzMode = "branch"
  ByzRanges <- R123
  Runs = TRUE
  BadKinds <- OnlyOk
  Fixes <- AllFixes
VIEW view
INVARIANTS LibOnMain
CHECK_DEADLOCK FALSE
