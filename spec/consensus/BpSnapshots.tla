---------------------------- MODULE BpSnapshots ----------------------------
(* EXTENSION (DESIGN.md §8): "which block-producer list is in force at which block height".

   The code: consensus/impl/dpos/bp/cluster.go (Snapshots: AddSnapshot, UpdateCluster, getCurrentCluster,
   loadClusterSnapshot, gc, snapBlockNo, bootstrapHeight), consensus/impl/dpos/status.go (Update: AddSnapshot +
   CommitParams(true) on connect, UpdateCluster + CommitParams(false) on rollback; NewStatus -> NewSnapshots ->
   UpdateCluster(best) on start), contract/system (GetRankers = first GetBpCount() entries of the stored BP vote
   ranking; GetBpCount = the in-memory parameter), chain/reorg.go (rollback = Update(branch root); roll-forward =
   Update(new block) for each block of the new branch while ChainDB's by-number index still shows the OLD main
   chain; InitSystemParams only at the very end), chain/chainservice.go (InitSystemParams at start).

   Abstraction.  A block is identified with the system-contract state it leaves: [rank, count] = which candidate
   ranking is stored (index into Rankings) and which BPCOUNT parameter value is stored.  The node's executed chain is
   the sequence `chain` (chain[h] = content of block h, genesis = height 0 is not in the sequence).  P is the
   election period (the code's constant 100; everything in cluster.go is arithmetic in multiples of it).

   Named oddities of the code that the model reproduces:
     * BOOTSTRAP: below 3P the genesis list is in force although snapshots are taken at P and 2P; the snapshot taken
       at P is never used by anybody.
     * LAG: the ranking recorded at height r (a multiple of P) comes into force with block r+P (validates r+P+1 ...).
     * DEADRESET: Snapshots.maxRefBlockNo is never assigned, so the "Reorganization!!!" reset of AddSnapshot is dead
       code: entries above the branch root survive a rollback (STALE entries).  They are overwritten before anybody
       reads them (invariant CacheCoherent + ListInForceIsFunctionOfChain show it).
     * GLOBALCOUNT: how many rankers make a list is decided by the in-memory BPCOUNT (system.GetBpCount()) at the
       moment the list is COMPUTED: at connect time for a cached snapshot (= the value stored by the parent block), at
       load time when the snapshot is recomputed from the state DB (= the value of the current best block, or - during
       the roll-forward of a reorganisation - of the abandoned branch's tip).  With a BPCOUNT that changes this makes
       the list in force depend on the node's history (finding BPS-F1, docs/notes/BpSnapshots.md; reproduced on the
       real code).  CountFix = TRUE replaces it by the repaired rule "the count is read from the state of the
       snapshot block itself".
*)
EXTENDS Integers, Sequences, FiniteSets, TLC, Util

CONSTANTS
  P,            \* election period (blocks)
  MaxH,         \* highest block number
  Genesis,      \* genesis BP list (sequence of candidate ids)
  Rankings,     \* sequence of candidate rankings (each a sequence of distinct candidate ids, best first)
  Counts,       \* possible values of the stored BPCOUNT parameter
  ContentSet,   \* the block contents [rank, count] that occur (a subset of [rank : DOMAIN Rankings, count : Counts])
  DefaultCount, \* BPCOUNT when nothing is stored (= number of genesis BPs)
  MaxChanges,   \* bound on the number of heights of one chain whose content differs from the parent's
  MaxLibLag,    \* the LIB is advanced only to heights >= tip - MaxLibLag (keeps the model small; 0..MaxH = any)
  CountFix,     \* FALSE = the code's GLOBALCOUNT rule, TRUE = the repaired rule
  MaxReorgs,    \* bound on the number of reorganisations of one behaviour (>= 99: unbounded, not counted)
  MaxRestarts,  \* bound on the number of restarts + failed blocks of one behaviour (>= 99: unbounded, not counted)
  Acts          \* names of the enabled actions (subsets isolate the ways to a counterexample)

VARIABLES
  chain,    \* executed chain of the node: chain[h] = [rank, count] of block h; Len(chain) = best block number
  db,       \* ChainDB's by-number index (GetBlockByNo); = chain except between Rollback and ReorgEnd (old main chain)
  reorg,    \* TRUE between Rollback and ReorgEnd (chain.reorg in progress)
  snaps,    \* Snapshots.snaps: function ref height -> list
  cluster,  \* the list in force: bp.Cluster members in index order
  cur,      \* system.GetBpCount(): the in-memory BPCOUNT
  lib,      \* last irreversible block number (abstract: see DposLib.tla); reorganisations branch at >= lib
  nre, nrs, \* history: reorganisations / restarts + failed blocks so far (0 when unbounded)
  lookups,  \* history: the lookups (getCurrentCluster) performed by the last action: sequence (at most one) of [h, ref, src]
  lastAct

vars == <<chain, db, reorg, snaps, cluster, cur, lib, nre, nrs, lookups, lastAct>>
view == <<chain, db, reorg, snaps, cluster, cur, lib, nre, nrs>>
Bump(n, max) == IF max >= 99 THEN 0 ELSE n + 1

Tip == Len(chain)
Contents == ContentSet
AllContents == [rank : DOMAIN Rankings, count : Counts]
GenesisContent == [rank |-> 1, count |-> DefaultCount]
ContentAt(c, h) == IF h = 0 THEN GenesisContent ELSE c[h]

Take(s, n) == SubSeq(s, 1, IF n < Len(s) THEN n ELSE Len(s))

\* ---------------------------------------------------------------- cluster.go arithmetic
BootstrapHeight == 3 * P
SnapRef(h) == IF h < BootstrapHeight THEN 0 ELSE ((h \div P) - 1) * P      \* snapBlockNo
IsSnapPeriod(h) == h % P = 0                                               \* isSnapPeriod / NeedToRefresh
GcLimit(n) == IF n > 2 * P THEN n - 2 * P ELSE 0                           \* gc: entries below it are deleted

\* system.GetRankers on the state c with n = the count the caller's moment dictates
Rankers(c, n) == Take(Rankings[c.rank], n)

\* getCurrentCluster(h) against the cache sn and the by-number index d, with count n for a recomputation.
\* Result: [ok, list, src]
Lookup(h, sn, d, n) ==
  LET r == SnapRef(h) IN
  IF r = 0 THEN [ok |-> TRUE, list |-> Genesis, src |-> "genesis"]
  ELSE IF r \in DOMAIN sn THEN [ok |-> TRUE, list |-> sn[r], src |-> "cache"]
  ELSE IF r <= Len(d) THEN [ok |-> TRUE, list |-> Rankers(d[r], IF CountFix THEN d[r].count ELSE n), src |-> "load"]
  ELSE [ok |-> FALSE, list |-> <<>>, src |-> "fail"]          \* GetBlockByNo fails: "skip BP member update"

\* UpdateCluster: the cluster is replaced unless the lookup failed
Updated(res) == IF res.ok THEN res.list ELSE cluster
Rec(h, res) == [h |-> h, ref |-> SnapRef(h), src |-> res.src]

\* ---------------------------------------------------------------- the list a chain DEFINES (no node state involved)
\* count in force while block r is executed = what block r-1 stored (a parameter voted in block r applies from r+1)
IdealSnap(c, r) == Rankers(c[r], IF CountFix THEN c[r].count ELSE ContentAt(c, r - 1).count)
Ideal(c, t) == IF SnapRef(t) = 0 THEN Genesis ELSE IdealSnap(c, SnapRef(t))

Changes(c) == Cardinality({h \in 1..Len(c) : c[h] # ContentAt(c, h - 1)})

\* ---------------------------------------------------------------- actions
Init ==
  /\ chain = <<>> /\ db = <<>> /\ reorg = FALSE
  /\ snaps = <<>>
  /\ cluster = Genesis
  /\ cur = DefaultCount
  /\ lib = 0 /\ nre = 0 /\ nrs = 0
  /\ lookups = <<>>
  /\ lastAct = [name |-> "Init"]

\* chain.executeBlock + Status.Update(block), block.PrevID = best: the block's transactions are executed (a changed
\* BPCOUNT is written to the state and remembered as next-block value), AddSnapshot(n), CommitParams(true)
Connect(c) ==
  LET n  == Tip + 1
      ch == Append(chain, c)
      bps == Rankers(c, IF CountFix THEN c.count ELSE cur)              \* gatherRankers on the state after block n
      s1 == IF n \in DOMAIN snaps THEN [snaps EXCEPT ![n] = bps] ELSE snaps @@ (n :> bps)
      res == Lookup(n, s1, db, cur)                                     \* UpdateCluster(n)
  IN
  /\ n <= MaxH
  /\ Changes(ch) <= MaxChanges
  /\ chain' = ch
  /\ db' = IF reorg THEN db ELSE ch
  /\ IF IsSnapPeriod(n)
       THEN /\ snaps' = Restrict(s1, {r \in DOMAIN s1 : r >= GcLimit(n)})      \* gc(n)
            /\ cluster' = Updated(res)
            /\ lookups' = <<Rec(n, res)>>
       ELSE UNCHANGED <<snaps, cluster>> /\ lookups' = <<>>
  /\ cur' = IF c.count # ContentAt(chain, Tip).count THEN c.count ELSE cur      \* updateParam ... CommitParams(true)
  /\ UNCHANGED <<reorg, lib, nre, nrs>>
  /\ lastAct' = [name |-> "Connect", c |-> c]

\* chain.reorg: reorganizer.rollback = sdb.SetRoot(root) + Status.Update(branch root): UpdateCluster(h), CommitParams(false)
Rollback(h) ==
  LET res == Lookup(h, snaps, db, cur) IN
  /\ ~reorg /\ h < Tip /\ h >= lib /\ Tip < MaxH
  /\ nre < MaxReorgs /\ nre' = Bump(nre, MaxReorgs)
  /\ chain' = SubSeq(chain, 1, h)
  /\ reorg' = TRUE
  /\ cluster' = Updated(res)
  /\ lookups' = <<Rec(h, res)>>
  /\ UNCHANGED <<db, snaps, cur, lib, nrs>>
  /\ lastAct' = [name |-> "Rollback", h |-> h]

\* end of chain.reorg: swapChain (the by-number index now shows the new branch), InitSystemParams from the new tip
ReorgEnd ==
  /\ reorg /\ Tip > Len(db)
  /\ db' = chain /\ reorg' = FALSE
  /\ cur' = ContentAt(chain, Tip).count
  /\ lookups' = <<>>
  /\ UNCHANGED <<chain, snaps, cluster, lib, nre, nrs>>
  /\ lastAct' = [name |-> "ReorgEnd"]

\* chain.executeBlock, block execution fails: Status.Update(bestBlock) (the "rollback" branch with the best block)
FailedBlock ==
  LET res == Lookup(Tip, snaps, db, cur) IN
  /\ ~reorg
  /\ nrs < MaxRestarts /\ nrs' = Bump(nrs, MaxRestarts)
  /\ cluster' = Updated(res)
  /\ lookups' = <<Rec(Tip, res)>>
  /\ UNCHANGED <<chain, db, reorg, snaps, cur, lib, nre>>
  /\ lastAct' = [name |-> "FailedBlock"]

\* process restart: InitSystemParams from the best block's state, NewCluster, NewStatus -> NewSnapshots -> UpdateCluster(best)
Restart ==
  LET c0  == ContentAt(chain, Tip).count
      res == Lookup(Tip, <<>>, chain, c0) IN
  /\ ~reorg
  /\ nrs < MaxRestarts /\ nrs' = Bump(nrs, MaxRestarts)
  /\ snaps' = <<>>
  /\ cur' = c0
  /\ cluster' = Updated(res)         \* res.ok always (ref <= tip); a fresh Cluster holds no members before
  /\ lookups' = <<Rec(Tip, res)>>
  /\ UNCHANGED <<chain, db, reorg, lib, nre>>
  /\ lastAct' = [name |-> "Restart"]

AdvanceLib(l) ==
  /\ ~reorg /\ l > lib /\ l <= Tip /\ l >= Tip - MaxLibLag
  /\ lib' = l
  /\ lookups' = <<>>
  /\ UNCHANGED <<chain, db, reorg, snaps, cluster, cur, nre, nrs>>
  /\ lastAct' = [name |-> "AdvanceLib", l |-> l]

Next ==
  \/ "Connect" \in Acts /\ \E c \in Contents : Connect(c)
  \/ "Rollback" \in Acts /\ \E h \in 0..MaxH : Rollback(h)
  \/ "Rollback" \in Acts /\ ReorgEnd
  \/ "FailedBlock" \in Acts /\ FailedBlock
  \/ "Restart" \in Acts /\ Restart
  \/ "AdvanceLib" \in Acts /\ \E l \in 1..MaxH : AdvanceLib(l)

Spec == Init /\ [][Next]_vars

\* ---------------------------------------------------------------- properties
TypeOK ==
  /\ ContentSet \subseteq AllContents
  /\ chain \in Seq(Contents) /\ Len(chain) <= MaxH
  /\ db \in Seq(Contents)
  /\ reorg \in BOOLEAN
  /\ DOMAIN snaps \subseteq {r \in 1..MaxH : r % P = 0}
  /\ cur \in Counts \cup {DefaultCount}
  /\ lib \in 0..MaxH

\* The list the node validates block Tip+1 with is the one the main chain below defines - whatever reorganisations,
\* failed blocks and restarts the node went through.  (Two nodes with the same chain therefore agree.)
ListInForceIsFunctionOfChain == cluster = Ideal(chain, Tip)

\* every cached snapshot at or below the tip is what the chain defines (entries above the tip are STALE leftovers)
CacheCoherent == \A r \in DOMAIN snaps : r <= Tip => snaps[r] = IdealSnap(chain, r)

\* outside a reorganisation ChainDB shows the executed chain
DbAgrees == ~reorg => db = chain

\* no lookup ever fails, and a lookup that recomputes from the state DB reads a block of the node's own chain
SnapshotNeverLostWhileNeeded ==
  \A i \in DOMAIN lookups : LET l == lookups[i] IN
     l.src # "fail" /\ (l.src = "load" => l.ref <= Tip /\ db[l.ref] = chain[l.ref])

\* gc keeps what a rollback by up to one period (not below the LIB) and the next period switch will read
GcKeepsOnePeriod ==
  [][ \A r \in DOMAIN snaps \ DOMAIN snaps' :
         \/ lastAct'.name = "Restart"
         \/ \A h \in (IF Len(chain') > P THEN Len(chain') - P ELSE 0)..(Len(chain') + P) : SnapRef(h) # r ]_vars

NoDup(s) == \A i, j \in DOMAIN s : i # j => s[i] # s[j]
CountOfList(c, t) == LET r == SnapRef(t) IN IF CountFix THEN c[r].count ELSE ContentAt(c, r - 1).count
SizeMatchesBpCount ==
  /\ Len(cluster) >= 1 /\ NoDup(cluster)
  /\ SnapRef(Tip) = 0 => Len(cluster) = Len(Genesis)
  /\ SnapRef(Tip) # 0 => Len(cluster) = Min({CountOfList(chain, Tip), Len(Rankings[chain[SnapRef(Tip)].rank])})

\* the list changes only when a period boundary at or above the bootstrap height is crossed
ListChangesOnlyAtPeriodBoundaries ==
  [][ cluster' # cluster =>
        \/ lastAct'.name = "Connect" /\ IsSnapPeriod(Len(chain')) /\ Len(chain') >= BootstrapHeight
        \/ lastAct'.name = "Rollback" /\ Len(chain') \div P < Len(chain) \div P /\ Len(chain) >= BootstrapHeight ]_vars

\* chain-level statement of the same (a theorem about Ideal, evaluated on every reachable chain)
IdealConstantInsidePeriod ==
  \A t \in 1..Tip : ~IsSnapPeriod(t) => Ideal(chain, t) = Ideal(chain, t - 1)

\* LAG and BOOTSTRAP spelled out
LagLaw == \A t \in 0..Tip : t >= BootstrapHeight => Ideal(chain, t) = IdealSnap(chain, (t \div P) * P - P)

LibMonotone == [][lib' >= lib]_vars
NoReorgBelowLib == [][lastAct'.name = "Rollback" => Len(chain') >= lib]_vars
=============================================================================
