\* binding self-test: a deliberately broken copy of the sources must be rejected (small bounds suffice)
SPECIFICATION Spec
CONSTANTS
  MaxLua = 2
  AmountSigns <- Signs3
  Direct = FALSE
  ForkVersions <- Fork5
VIEW view
CONSTRAINT Bounded
INVARIANTS ReadOnlyNoMutation ViewImpliesReadOnly NestingBalanced
CHECK_DEADLOCK FALSE
