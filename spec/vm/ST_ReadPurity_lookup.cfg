\* self-test: the design of seeded change C20-1 (a lookup of an unknown address leaves the default state in the buffer) violates ReadsPure
SPECIFICATION Spec
CONSTANTS
  MaxMut = 1
  MaxCache = 0
  Fault = "lookup-creates"
VIEW view
PROPERTIES ReadsPure
CHECK_DEADLOCK FALSE
