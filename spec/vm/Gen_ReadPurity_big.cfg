\* thorough tier: exhaustive check of the small model AND its complete transition list (the test plan of the harness)
SPECIFICATION Spec
CONSTANTS
  MaxMut = 3
  MaxCache = 3
  Fault = "none"
VIEW view
INVARIANTS TypeOK CacheIsolated
PROPERTIES ReadsPure
ACTION_CONSTRAINT GenLog
CHECK_DEADLOCK FALSE
