---------------------------- MODULE ViewNesting -----------------------------
(***************************************************************************)
(* C20 -- contract queries and view functions cannot change state.         *)
(*                                                                         *)
(* Hand-written part: the execution model of the contract VM host API      *)
(* (contexts, Lua frames, call chains, view nesting, SQL handles) and the  *)
(* properties.  The control-flow graphs it interprets are DATA, generated  *)
(* on every run from the current source text by /verif/tools/vmguards      *)
(* (module VmGuards: Procs, ProcEntry, GoCallbacks, CApi, Entries).        *)
(*                                                                         *)
(* State: the two read-only flags of vmContext (isQuery, nestedView), the  *)
(* hardfork version, the kind of SQL handle opened for the execution, and  *)
(* a stack whose entries are either an activation of an extracted process  *)
(* (program counter into its graph) or a Lua frame (contract code that may *)
(* call any host API function, call a view function of its own contract,   *)
(* or return).  Contract code is completely nondeterministic.              *)
(*                                                                         *)
(* Deliberate oddities of the code that the model reproduces:              *)
(*  - luaSendAmount / luaCallContract guard only positive amounts;         *)
(*  - luaSetRecoveryPoint "refuses" silently (returns 0) in read-only mode *)
(*    and luaCallContract creates recovery points in read-only mode:       *)
(*    recovery points and roll-backs are not mutations (class "restore");  *)
(*  - SQL is protected by luaCheckView in view functions but by the        *)
(*    read-only handle of luaGetDbHandle in queries.                       *)
(***************************************************************************)
EXTENDS Integers, Sequences, FiniteSets, TLC, Util, VmGuards

CONSTANTS MaxLua,        \* maximal number of Lua frames on the stack (length of call chains)
          AmountSigns,   \* signs of the amount a contract may pass to send/call: subset of {-1, 0, 1}
          ForkVersions,  \* hardfork versions explored
          Direct         \* TRUE: contract code may also invoke every Go callback directly (hedge, see ApiSet)

VARIABLES isQuery,       \* vmContext.isQuery
          nestedView,    \* vmContext.nestedView
          fork,          \* blockInfo.ForkVersion (= currentForkVersion)
          sqlHandle,     \* "none" | "ro" | "rw": SQL transaction opened by luaGetDbHandle / LuaGetDbHandleSnap
          rsWritable,    \* a result set was bound to a statement not known to be read-only
          ctxMade,       \* a vmContext value has been constructed (contract code cannot run without one)
          stack,         \* sequence of activations / Lua frames, top = last (see "run" for what is kept)
          depth,         \* number of Lua frames entered on the current call chain
          viol,          \* first property violation (history variable), NoViol if none
          lastAct        \* what the last step did (hidden by VIEW)

vars == <<isQuery, nestedView, fork, sqlHandle, rsWritable, ctxMade, stack, depth, viol, lastAct>>
view == <<isQuery, nestedView, fork, sqlHandle, rsWritable, ctxMade, stack, depth, viol>>

NoViol == [kind |-> "none", proc |-> "", src |-> "", what |-> ""]

\* The contexts the property calls read-only from the start (statement of C20): client query, fee-delegation check.
ReadOnlyEntries == {"Query", "CheckFeeDelegation"} \cap Entries

\* What contract code can reach: the Lua-visible C functions, and (hedge against the light C extraction)
\* every Go callback directly -- except the two that ARE the nesting mechanism (only LuaJIT's wrapper calls them).
NestingPrimitives == {"luaViewStart", "luaViewEnd"}
Relevant(p) == Len(Procs[p]) > 1
Calls(p, q) == \E i \in 1..Len(Procs[p]) : Procs[p][i].k = "cb" /\ Procs[p][i].a = q
CalledFromC(q) == \E p \in ProcNames \ GoCallbacks : Calls(p, q)
ApiSet == {p \in CApi \cup {q \in GoCallbacks \ NestingPrimitives : Direct \/ ~CalledFromC(q)} : Relevant(p)}

HasAtom(p, a) == \E i \in 1..Len(Procs[p]) : Procs[p][i].k = "test" /\ Procs[p][i].a = a
\* processes whose behaviour depends on the amount / the statement kind (directly or through a callback)
AmtProcs == {p \in ProcNames : HasAtom(p, "amt") \/ \E q \in ProcNames : Calls(p, q) /\ HasAtom(q, "amt")}
SroProcs == {p \in ProcNames : HasAtom(p, "sro") \/ \E i \in 1..Len(Procs[p]) : Procs[p][i].k \in {"sqlstep", "mkrs"}}

\* every process must leave the view depth as it found it, except the nesting primitives and their C shims
Balanced(p) == p \notin NestingPrimitives /\ ~(\E q \in NestingPrimitives : Calls(p, q))

RO == isQuery \/ nestedView > 0

Top == stack[Len(stack)]

Act(p, amt, sro, iv, ro) ==
  [t |-> "cfg", p |-> p, pc |-> ProcEntry[p], amt |-> amt, sro |-> sro, ds |-> {}, nn |-> {}, iv |-> iv, ro |-> ro, nv0 |-> nestedView]
LuaFrame(ro) ==
  [t |-> "lua", p |-> "", pc |-> 0, amt |-> 0, sro |-> TRUE, ds |-> {}, nn |-> {}, iv |-> FALSE, ro |-> ro, nv0 |-> nestedView]

Cmp(x, op, c) == CASE op = "==" -> x = c  [] op = "!=" -> x # c  [] op = ">" -> x > c
                   [] op = ">=" -> x >= c [] op = "<" -> x < c   [] op = "<=" -> x <= c
B2I(b) == IF b THEN 1 ELSE 0

Eval(a, n) ==
  CASE n.a = "isQuery"    -> Cmp(B2I(isQuery), n.op, n.c)
    [] n.a = "nestedView" -> Cmp(nestedView, n.op, n.c)
    [] n.a = "amt"        -> Cmp(a.amt, n.op, n.c)
    [] n.a = "fork"       -> Cmp(fork, n.op, n.c)
    [] n.a = "isView"     -> Cmp(B2I(a.iv), n.op, n.c)
    [] n.a = "tx"         -> Cmp(B2I(sqlHandle # "none"), n.op, n.c)
    [] n.a = "sro"        -> Cmp(B2I(a.sro), n.op, n.c)
    [] n.a = "deferred"   -> n.c \in a.ds
    [] n.a = "nl"         -> Cmp(B2I(n.s \in a.nn), n.op, 0)       \* tracked variable ==/!= nil

SetTop(a) == [stack EXCEPT ![Len(stack)] = a]
Goto(a, pc) == SetTop([a EXCEPT !.pc = pc])
Flag(kind, a, n, what) == IF viol = NoViol THEN [kind |-> kind, proc |-> a.p, src |-> n.src, what |-> what] ELSE viol

Init == /\ isQuery = FALSE /\ nestedView = 0          \* Go zero values of a fresh vmContext
        /\ fork \in ForkVersions
        /\ sqlHandle = "none" /\ rsWritable = FALSE /\ ctxMade = FALSE /\ depth = 0
        /\ viol = NoViol
        /\ \E e \in Entries :
             /\ stack = <<[t |-> "cfg", p |-> e, pc |-> ProcEntry[e], amt |-> 0, sro |-> TRUE, ds |-> {}, nn |-> {}, iv |-> FALSE,
                           ro |-> (e \in ReadOnlyEntries), nv0 |-> 0]>>
             /\ lastAct = [name |-> "Enter", proc |-> e, pc |-> 0, k |-> "", src |-> ""]

\* ------------------------------------------------------------------ one node of an extracted process
Step ==
  /\ Len(stack) > 0 /\ Top.t = "cfg"
  /\ LET a == Top
         n == Procs[a.p][a.pc]
     IN /\ lastAct' = [name |-> "Step", proc |-> a.p, pc |-> a.pc, k |-> n.k, src |-> n.src]
        /\ CASE n.k = "test" ->
                  /\ stack' = Goto(a, IF Eval(a, n) THEN n.t ELSE n.f)
                  /\ UNCHANGED <<isQuery, nestedView, fork, sqlHandle, rsWritable, ctxMade, depth, viol>>
             [] n.k = "nd" ->
                  /\ \E pc \in {n.t, n.f} : stack' = Goto(a, pc)
                  /\ UNCHANGED <<isQuery, nestedView, fork, sqlHandle, rsWritable, ctxMade, depth, viol>>
             [] n.k = "mut" ->
                  \* the entry points themselves (commit after the execution) are judged by the context kind only
                  /\ viol' = IF (IF a.p \in Entries THEN isQuery ELSE RO) THEN Flag("mutation", a, n, n.a) ELSE viol
                  /\ stack' = Goto(a, n.t)
                  /\ UNCHANGED <<isQuery, nestedView, fork, sqlHandle, rsWritable, ctxMade, depth>>
             [] n.k \in {"restore", "unknown", "skip"} ->
                  /\ stack' = Goto(a, n.t)
                  /\ UNCHANGED <<isQuery, nestedView, fork, sqlHandle, rsWritable, ctxMade, depth, viol>>
             [] n.k = "flag" /\ n.a = "nestedView" ->
                  /\ \E v \in (IF n.op = "+=" THEN {nestedView + n.c} ELSE IF n.op = "=" THEN {n.c} ELSE {0, 1}) :
                        /\ nestedView' = v
                        \* only increments/decrements are legitimate once contract code is running
                        /\ viol' = IF n.op # "+=" /\ depth > 0 /\ v # nestedView
                                   THEN Flag("flag-reset", a, n, "nestedView") ELSE viol
                  /\ stack' = Goto(a, n.t)
                  /\ UNCHANGED <<isQuery, fork, sqlHandle, rsWritable, ctxMade, depth>>
             [] n.k = "flag" /\ n.a = "isQuery" ->
                  /\ \E v \in (IF n.op = "=" THEN {n.c = 1} ELSE BOOLEAN) :
                        /\ isQuery' = v
                        /\ viol' = IF depth > 0 /\ v # isQuery THEN Flag("flag-reset", a, n, "isQuery") ELSE viol
                  /\ stack' = Goto(a, n.t)
                  /\ UNCHANGED <<nestedView, fork, sqlHandle, rsWritable, ctxMade, depth>>
             [] n.k = "flag" /\ n.a = "isView" ->
                  /\ \E v \in (IF n.op = "=" THEN {n.c = 1} ELSE BOOLEAN) :
                        stack' = SetTop([a EXCEPT !.pc = n.t, !.iv = v])
                  /\ UNCHANGED <<isQuery, nestedView, fork, sqlHandle, rsWritable, ctxMade, depth, viol>>
             [] n.k = "ctx" ->
                  /\ ctxMade' = TRUE
                  /\ stack' = Goto(a, n.t)
                  /\ UNCHANGED <<isQuery, nestedView, fork, sqlHandle, rsWritable, depth, viol>>
             [] n.k = "sqlopen" ->
                  /\ sqlHandle' = n.a
                  /\ stack' = Goto(a, n.t)
                  /\ UNCHANGED <<isQuery, nestedView, fork, rsWritable, ctxMade, depth, viol>>
             [] n.k = "sqlstep" ->
                  \* a step writes iff the statement is not read-only and the connection is writable
                  /\ LET stmtRO == IF n.a = "rs->s" THEN ~rsWritable ELSE a.sro
                         writes == ~stmtRO /\ sqlHandle = "rw"
                     IN viol' = IF writes /\ RO THEN Flag("mutation", a, n, "sql") ELSE viol
                  /\ stack' = Goto(a, n.t)
                  /\ UNCHANGED <<isQuery, nestedView, fork, sqlHandle, rsWritable, ctxMade, depth>>
             [] n.k = "mkrs" ->
                  /\ rsWritable' = (rsWritable \/ ~a.sro)
                  /\ stack' = Goto(a, n.t)
                  /\ UNCHANGED <<isQuery, nestedView, fork, sqlHandle, ctxMade, depth, viol>>
             [] n.k \in {"defer", "undefer"} ->
                  /\ stack' = SetTop([a EXCEPT !.pc = n.t,
                                               !.ds = IF n.k = "defer" THEN a.ds \cup {n.c} ELSE a.ds \ {n.c}])
                  /\ UNCHANGED <<isQuery, nestedView, fork, sqlHandle, rsWritable, ctxMade, depth, viol>>
             [] n.k = "nl" ->         \* nil-ness of a tracked variable (slot n.c): = value n.s / unknown / copy of slot n.s
                  /\ \E v \in (IF n.op = "=" THEN {n.s = 1} ELSE IF n.op = "cp" THEN {n.s \in a.nn} ELSE BOOLEAN) :
                        stack' = SetTop([a EXCEPT !.pc = n.t, !.nn = IF v THEN a.nn \cup {n.c} ELSE a.nn \ {n.c}])
                  /\ UNCHANGED <<isQuery, nestedView, fork, sqlHandle, rsWritable, ctxMade, depth, viol>>
             [] n.k = "exec" ->       \* nested contract execution: (*executor).call with the executor's isView
                  \* (a path on which no context was built cannot get here in the code: it ends)
                  /\ stack' = IF ctxMade THEN Append(Goto(a, n.t), Act("executor.call", 0, TRUE, a.iv, a.ro)) ELSE <<>>
                  /\ UNCHANGED <<isQuery, nestedView, fork, sqlHandle, rsWritable, ctxMade, depth, viol>>
             [] n.k = "cb" ->         \* C code calls a Go callback (or a C shim): arguments are arbitrary
                  /\ IF n.a \in ProcNames
                     THEN \E amt \in (IF n.a \in AmtProcs THEN AmountSigns ELSE {0}) :
                            stack' = Append(Goto(a, n.t), Act(n.a, amt, a.sro, FALSE, a.ro))
                     ELSE stack' = Goto(a, n.t)
                  /\ UNCHANGED <<isQuery, nestedView, fork, sqlHandle, rsWritable, ctxMade, depth, viol>>
             [] n.k = "run" ->        \* the Lua function body runs
                  \* Reduction (exact for the properties): what a callee can do to the shared context its caller
                  \* can do itself before the call, so (a) the caller's continuation is explored with the body
                  \* skipped, and (b) the body is explored with everything below the bracketing activation
                  \* (executor.call / view wrapper: the one that restores the view depth) forgotten.
                  /\ \/ /\ stack' = Goto(a, n.t)
                        /\ depth' = depth
                     \/ /\ depth < MaxLua
                        /\ stack' = <<[a EXCEPT !.pc = n.t],
                                      LuaFrame(a.ro \/ (a.p = "executor.call" /\ a.iv) \/ a.p = "lj_view_wrapper")>>
                        /\ depth' = depth + 1
                  /\ UNCHANGED <<isQuery, nestedView, fork, sqlHandle, rsWritable, ctxMade, viol>>
             [] n.k = "throw" ->      \* Lua error raised in a C shim: unwinds to the innermost Lua frame
                  /\ LET L == {i \in 1..Len(stack) : stack[i].t = "lua"}
                     IN stack' = IF L = {} THEN <<>> ELSE SubSeq(stack, 1, Max(L))
                  /\ UNCHANGED <<isQuery, nestedView, fork, sqlHandle, rsWritable, ctxMade, depth, viol>>
             [] n.k = "ret" ->
                  /\ viol' = IF Balanced(a.p) /\ nestedView < a.nv0
                             THEN Flag("unbalanced", a, n, "view depth lower at return than at entry") ELSE viol
                  /\ stack' = SubSeq(stack, 1, Len(stack) - 1)
                  /\ UNCHANGED <<isQuery, nestedView, fork, sqlHandle, rsWritable, ctxMade, depth>>

\* ------------------------------------------------------------------ contract code (a Lua frame on top)
\* a frame that must be read-only (declared view, called from a view, query, fee-delegation check) really is
FrameCheck(f) == IF f.ro /\ ~RO /\ viol = NoViol
                 THEN [kind |-> "view-not-readonly", proc |-> "lua", src |-> "", what |-> "read-only frame runs without read-only flags"]
                 ELSE viol

LuaInvoke ==
  /\ Len(stack) > 0 /\ Top.t = "lua"
  /\ \E p \in ApiSet :
     \E amt \in (IF p \in AmtProcs THEN AmountSigns ELSE {0}) :
     \E sro \in (IF p \in SroProcs THEN BOOLEAN ELSE {TRUE}) :
        /\ stack' = Append(stack, Act(p, amt, sro, FALSE, Top.ro))
        /\ lastAct' = [name |-> "LuaInvoke", proc |-> p, pc |-> amt, k |-> IF sro THEN "readonly-stmt" ELSE "any-stmt", src |-> ""]
  /\ viol' = FrameCheck(Top)
  /\ UNCHANGED <<isQuery, nestedView, fork, sqlHandle, rsWritable, ctxMade, depth>>

\* call of a view function of the same contract: LuaJIT brackets it with the two hooks
LuaViewCall ==
  /\ Len(stack) > 0 /\ Top.t = "lua"
  /\ "lj_view_wrapper" \in ProcNames
  /\ stack' = Append(stack, Act("lj_view_wrapper", 0, TRUE, FALSE, Top.ro))
  /\ lastAct' = [name |-> "LuaViewCall", proc |-> "lj_view_wrapper", pc |-> 0, k |-> "", src |-> ""]
  /\ viol' = FrameCheck(Top)
  /\ UNCHANGED <<isQuery, nestedView, fork, sqlHandle, rsWritable, ctxMade, depth>>

LuaReturn ==
  /\ Len(stack) > 0 /\ Top.t = "lua"
  /\ stack' = SubSeq(stack, 1, Len(stack) - 1)
  /\ lastAct' = [name |-> "LuaReturn", proc |-> "", pc |-> 0, k |-> "", src |-> ""]
  /\ viol' = FrameCheck(Top)
  /\ UNCHANGED <<isQuery, nestedView, fork, sqlHandle, rsWritable, ctxMade, depth>>

Next == Step \/ LuaInvoke \/ LuaViewCall \/ LuaReturn

Spec == Init /\ [][Next]_vars

\* ------------------------------------------------------------------ properties
TypeOK == /\ isQuery \in BOOLEAN /\ nestedView \in Int /\ fork \in ForkVersions
          /\ sqlHandle \in {"none", "ro", "rw"} /\ rsWritable \in BOOLEAN /\ ctxMade \in BOOLEAN /\ depth \in 0..MaxLua
          /\ \A i \in 1..Len(stack) : stack[i].t \in {"cfg", "lua"} /\ (stack[i].t = "cfg" => stack[i].p \in ProcNames)

\* no mutating primitive (storage, balance, code, nonce, account, event, governance, SQL write) runs while read-only
ReadOnlyNoMutation == viol.kind # "mutation"
\* a frame that has to be read-only is: isQuery / nestedView are set when its code runs
ViewImpliesReadOnly == viol.kind # "view-not-readonly"
\* view depth never drops below its value at entry; flags are not reset while contract code runs
NestingBalanced == viol.kind \notin {"unbalanced", "flag-reset"}
NoViolation == viol = NoViol

\* keeps the exploration finite when a (broken) tree leaks view depth
Bounded == nestedView \in -2..(2 * MaxLua + 2)

\* generation / coverage configuration: one line per executed node
GenLog == LogTransition(<<isQuery, nestedView, depth>>, lastAct',
                        IF Len(stack') > 0 /\ Len(stack') = Len(stack) THEN stack'[Len(stack')].pc ELSE 0)
=============================================================================
