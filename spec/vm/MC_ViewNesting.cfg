\* quick tier: call chains of 2 Lua frames, all amount signs, current hardfork (5)
SPECIFICATION Spec
CONSTANTS
  MaxLua = 2
  AmountSigns <- Signs3
  Direct = FALSE
  ForkVersions <- Fork5
VIEW view
CONSTRAINT Bounded
INVARIANTS TypeOK ReadOnlyNoMutation ViewImpliesReadOnly NestingBalanced
CHECK_DEADLOCK FALSE
