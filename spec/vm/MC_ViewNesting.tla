--------------------------- MODULE MC_ViewNesting ---------------------------
(* Model-checking instance of ViewNesting (C20).  VmGuards.tla is generated  *)
(* next to this file by checks/c20.py before TLC starts.                     *)
EXTENDS ViewNesting

Signs3 == {-1, 0, 1}
Signs2 == {0, 1}
Fork5 == {5}
Fork45 == {4, 5}
=============================================================================
