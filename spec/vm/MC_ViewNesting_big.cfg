\* thorough tier: call chains of 3 Lua frames
SPECIFICATION Spec
CONSTANTS
  MaxLua = 4
  AmountSigns <- Signs3
  Direct = TRUE
  ForkVersions <- Fork5
VIEW view
CONSTRAINT Bounded
INVARIANTS TypeOK ReadOnlyNoMutation ViewImpliesReadOnly NestingBalanced
CHECK_DEADLOCK FALSE
