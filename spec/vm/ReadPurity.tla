----------------------------- MODULE ReadPurity ------------------------------
(***************************************************************************)
(* C20, dynamic part -- the trusted base of ViewNesting.tla made explicit. *)
(*                                                                         *)
(* ViewNesting.tla / tools/vmguards drop every call of a state / statedb   *)
(* getter (classify.go: pureMethods, "pure" entries of pkgFuncs) from the  *)
(* model: the read-only primitives of the VM host API are ASSUMED to leave *)
(* the block state -- and every other block state -- untouched.  This      *)
(* small specification says what that means and generates the test plan    *)
(* with which harness/state/verif_pure_test.go discharges the assumption   *)
(* on the real code (twin-run differential + cache isolation).             *)
(*                                                                         *)
(* World (fixed committed history, built by the harness through the real   *)
(* code): block 1 (root r1) creates account a1 and deploys contract c1     *)
(* (code v1, storage k1 = k2 = v1); block 2 (root r2) changes a1 and       *)
(* REDEPLOYS c1 (code v2, k2 = v2).  The working block state b2 is opened  *)
(* at r2; b1 is the block state of a client query opened at r1 (before the *)
(* redeploy).  a2 / c2 do not exist yet, au / cu never exist.              *)
(*                                                                         *)
(* Actions                                                                 *)
(*  - the block's own transactions (mutating, for contrast and to produce  *)
(*    every target class): PutAcct, Deploy, Write (open, set/delete,       *)
(*    stage);                                                              *)
(*  - one read action per read primitive x target (Reads): the abstract    *)
(*    working state (visible accounts, which of them sit in the account    *)
(*    buffer, visible storage, staged storages) must not change;           *)
(*  - governance: GovTx (an earlier governance transaction of the block    *)
(*    stages the storage of the system / name contract -- only then would  *)
(*    a write made by a "read" reach the block) and the reads the host API *)
(*    makes in packages contract/system and contract/name (GvStaking,      *)
(*    GvResolve, GvAddress, GvOwner) on addresses / names with a committed *)
(*    record, a record of this block, and WITHOUT a record;                *)
(*  - RdVmLoad: the VM's GetABI/getCode -- a read for the chain state, its *)
(*    only effect is the code/ABI cache of THIS block state;               *)
(*  - CacheAdd / CacheRemove / CacheLookup on the two block states: a      *)
(*    lookup returns what THAT block state cached, or nothing.             *)
(*                                                                         *)
(* The mechanism layer is deliberately explicit (which reads bottom out in *)
(* StateDB.GetAccountState, which cache object a block state uses) so that *)
(* the two properties are not vacuous: Fault = "lookup-creates" (a lookup  *)
(* of an unknown address leaves the default state in the buffer) violates  *)
(* ReadsPure, Fault = "shared-cache" (one process-wide cache) violates     *)
(* CacheIsolated (ST_ReadPurity_*.cfg, run by checks/c20.py as self-test). *)
(***************************************************************************)
EXTENDS Integers, Sequences, FiniteSets, TLC, Util

CONSTANTS MaxMut,     \* steps of the block's own transactions (and RdVmLoad) on a path
          MaxCache,   \* cache operations on a path
          Fault       \* "none" | "lookup-creates" | "shared-cache"

VARIABLES acct,       \* entity -> visible account version ("none": no state)
          layer,      \* entity -> "none" | "trie" | "buf": where the visible state lives (buf = entry in the account buffer)
          store,      \* contract -> key -> visible storage value
          staged,     \* contracts whose storage sits in the storage cache of the block state
          nmut,
          ref,        \* block state -> kind -> key -> what THAT block state cached (reference)
          content,    \* cache object -> kind -> key -> cached version (mechanism)
          ncache,
          lastAct

vars == <<acct, layer, store, staged, nmut, ref, content, ncache, lastAct>>

Accts == {"a1", "a2", "au"}
Ctrs  == {"c1", "c2", "cu"}
Ents  == Accts \cup Ctrs
Keys  == {"k1", "k2", "k3"}
Roots == {"latest", "r1", "r2"}            \* "latest": empty root argument = the root the StateDB was opened at (r2)
BSs   == {"b1", "b2"}
Kinds == {"code", "abi"}
CKeys == {"c1", "c2"}
Objs  == {"x1", "x2"}
Govs  == {"sys", "nm"}                     \* the system and the name contract (governance): "staged" = an earlier governance
                                           \* transaction of this block put the contract's storage into the storage cache
Stakers == {"staker", "blockstaker", "nobody"}   \* staking record committed | written by the governance tx of this block | none
Names == {"regname", "blockname", "noname", "special", "addr"}  \* registered (committed) | by the tx of this block | never | aergo.system | a 33-byte address
Vers  == {"v1", "v2"}                      \* versions a block state may put into its cache
AVals == {"none", "zero", "v1", "v2", "v3"}
SVals == {"none", "v1", "v2", "v3"}

\* ---- the committed history
Hist(r, e) == CASE e = "a1" -> (IF r = "r1" THEN "v1" ELSE "v2")
                [] e = "c1" -> (IF r = "r1" THEN "v1" ELSE "v2")
                [] OTHER -> "none"
HistStore(r, c, k) == CASE c = "c1" /\ k = "k1" -> "v1"
                        [] c = "c1" /\ k = "k2" -> (IF r = "r1" THEN "v1" ELSE "v2")
                        [] OTHER -> "none"
\* code visible in the working block state
CodeOf(c) == CASE c = "c1" -> "v2" [] c = "c2" /\ acct["c2"] # "none" -> "v3" [] OTHER -> "none"

CacheObj(b) == IF Fault = "shared-cache" THEN "x1" ELSE IF b = "b1" THEN "x1" ELSE "x2"
NoCache == [kd \in Kinds |-> [k \in CKeys |-> "none"]]

\* ---- target classes (only used to name what a read was aimed at)
Class(e) == IF acct[e] = "none" THEN "unknown"
            ELSE IF Hist("r2", e) = "none" THEN "new-in-block"
            ELSE IF layer[e] = "buf" THEN "changed-in-block" ELSE "committed"
Target(e) == (IF e \in Ctrs THEN "contract:" ELSE "account:") \o Class(e)
             \o (IF e \in staged THEN "+staged-storage" ELSE "")
KClass(c, k) == IF c \notin Ctrs THEN "no-storage"
                ELSE IF store[c][k] = "none" THEN (IF HistStore("r2", c, k) = "none" THEN "missing-key" ELSE "deleted-key")
                ELSE IF store[c][k] = HistStore("r2", c, k) THEN "committed-key" ELSE "staged-key"
Dflt(v) == IF v = "none" THEN "zero" ELSE v

Init ==
  /\ acct = [e \in Ents |-> Hist("r2", e)]
  /\ layer = [e \in Ents |-> IF Hist("r2", e) = "none" THEN "none" ELSE "trie"]
  /\ store = [c \in Ctrs |-> [k \in Keys |-> HistStore("r2", c, k)]]
  /\ staged = {}
  /\ nmut = 0 /\ ncache = 0
  /\ ref = [b \in BSs |-> NoCache]
  /\ content = [x \in Objs |-> NoCache]
  /\ lastAct = [name |-> "Init"]

\* ---------------------------------------------------------------- the block's own transactions
NoGov == staged \cap Govs = {}
GovOnly == staged \cap Ctrs = {} /\ nmut = Cardinality(staged \cap Govs)   \* nothing but governance transactions so far
CanMutate == nmut < MaxMut /\ ncache = 0 /\ NoGov

PutAcct(e) ==
  /\ CanMutate /\ acct[e] # "v3"
  /\ acct' = [acct EXCEPT ![e] = "v3"]
  /\ layer' = [layer EXCEPT ![e] = "buf"]
  /\ nmut' = nmut + 1
  /\ lastAct' = [name |-> "PutAcct", e |-> e]
  /\ UNCHANGED <<store, staged, ref, content, ncache>>

Deploy(c) ==
  /\ CanMutate /\ acct[c] = "none"
  /\ acct' = [acct EXCEPT ![c] = "v3"]
  /\ layer' = [layer EXCEPT ![c] = "buf"]
  /\ store' = [store EXCEPT ![c] = [k \in Keys |-> IF k = "k1" THEN "v3" ELSE "none"]]
  /\ staged' = staged \cup {c}
  /\ nmut' = nmut + 1
  /\ lastAct' = [name |-> "Deploy", e |-> c]
  /\ UNCHANGED <<ref, content, ncache>>

\* open the contract, set (v3) or delete (none) one key, stage the storage
Write(c, k, v) ==
  /\ CanMutate /\ acct[c] # "none" /\ store[c][k] # v
  /\ store' = [store EXCEPT ![c][k] = v]
  /\ staged' = staged \cup {c}
  /\ nmut' = nmut + 1
  /\ lastAct' = [name |-> "Write", e |-> c, k |-> k, v |-> v]
  /\ UNCHANGED <<acct, layer, ref, content, ncache>>

\* a governance transaction: "sys" = stake of blockstaker, "nm" = registration of blockname.  Explored apart from the other
\* transactions (the governance reads below only look at the governance contracts).
GovTx(g) ==
  /\ nmut < MaxMut /\ ncache = 0 /\ GovOnly /\ g \notin staged
  /\ staged' = staged \cup {g}
  /\ nmut' = nmut + 1
  /\ lastAct' = [name |-> "GovTx", e |-> g]
  /\ UNCHANGED <<acct, layer, store, ref, content, ncache>>

Mutate == \/ \E e \in {"a1", "a2"} : PutAcct(e)
          \/ \E g \in Govs : GovTx(g)
          \/ Deploy("c2")
          \/ \E c \in {"c1", "c2"}, k \in Keys, v \in {"v3", "none"} : Write(c, k, v)

\* ---------------------------------------------------------------- reads
\* One record per read primitive x target.  lk = the entity whose state is looked up through
\* StateDB.GetAccountState ("" if the read does not go through it); res = the value the read has to return.
R(name, e, k, root, z, how, res, lk) ==
  [name |-> name, e |-> e, k |-> k, root |-> root, z |-> z, how |-> how, res |-> res, lk |-> lk,
   cls |-> Target(e) \o (IF k = "" THEN "" ELSE "/" \o KClass(e, k))]

Hows == {"acc", "st", "as"}   \* OpenContractStateAccount | GetAccountState + OpenContractState | state.GetAccountState + OpenContractState

Reads ==
  \* StateDB.GetState: nil for an address without state
       {R("RdGetState", e, "", "", FALSE, "", acct[e], "") : e \in Ents}
  \* StateDB.GetAccountState (contract.balance(addr)): the default empty state for an address without state
  \cup {R("RdGetAccountState", e, "", "", FALSE, "", Dflt(acct[e]), e) : e \in Ents}
  \* state.GetAccountState + the accessors of AccountState (getCallState)
  \cup {R("RdAccountState", e, "", "", FALSE, "", Dflt(acct[e]), "") : e \in Ents}
  \* statedb.OpenContractStateAccount + the accessors of ContractState (getOnlyContractState)
  \cup {R("RdOpenAcc", e, "", "", FALSE, "", Dflt(acct[e]), e) : e \in Ents}
  \* statedb.GetMultiCallState
  \cup {R("RdMulti", e, "", "", FALSE, "", Dflt(acct[e]), "") : e \in {"a1", "au"}}
  \* ContractState.GetData / HasKey / GetInitialData through the three ways the VM opens a contract
  \cup {R("RdData", c, k, "", FALSE, h, store[c][k], IF h = "as" THEN "" ELSE c) : c \in Ctrs, k \in Keys, h \in Hows}
  \* ContractState.GetCode / GetSourceCode / GetRawKV
  \cup {R("RdCode", c, "", "", FALSE, h, CodeOf(c), IF h = "as" THEN "" ELSE c) : c \in Ctrs, h \in {"acc", "as"}}
  \* StateDB.GetAccountAndProof at the latest / a historical root (committed state: the buffer is not visible)
  \cup {R("RdAcctProof", e, "", r, z, "", Hist(r, e), "") : e \in Ents, r \in Roots, z \in BOOLEAN}
  \* luaGetDB at a block height: GetAccountAndProof, then GetVarAndProof at the storage root of that state
  \cup {R("RdVarProof", e, k, r, z, "", HistStore(r, e, k), "") : e \in {"c1", "c2", "a1"}, k \in Keys, r \in Roots, z \in BOOLEAN}
  \* statedb.GetSystemAccountState / GetNameAccountState (luaGetStaking); neither account exists in this world
  \cup {R(n, "au", "", "", FALSE, "", "zero", "") : n \in {"RdSys", "RdName"}}
  \* constructors and revision numbers: state.NewBlockState / InitAccountState, Snapshot of BlockState / StateDB / ContractState
  \cup {R(n, "c1", "", "", FALSE, "", "", "") : n \in {"RdNewBS", "RdSnapshot"}}

\* ---- reads of the governance contracts: what the read-only host calls bottom out in OUTSIDE package state
\* (luaGetStaking: statedb.GetSystemAccountState / GetNameAccountState, name.GetAddress, system.GetStaking;
\*  luaNameResolve and every callback that takes an address or a name: name.Resolve; plus name.GetOwner)
G(name, e, res, cls) == [name |-> name, e |-> e, k |-> "", root |-> "", z |-> FALSE, how |-> "", res |-> res, lk |-> "", cls |-> cls]
SysSt == IF "sys" \in staged THEN "+system-contract-staged" ELSE ""
NmSt  == IF "nm" \in staged THEN "+name-contract-staged" ELSE ""
StakeRes(t) == CASE t = "staker" -> "v1" [] t = "blockstaker" /\ "sys" \in staged -> "v3" [] OTHER -> "none"
StakeCls(t) == "staking:" \o (CASE t = "staker" -> "committed-record" [] t = "blockstaker" /\ "sys" \in staged -> "record-of-this-block"
                                [] OTHER -> "no-record") \o SysSt
\* names are resolved on the COMMITTED storage of the name contract (GetInitialData): a registration of this block is not visible
NameRes(n) == CASE n = "regname" -> "owner" [] n \in {"special", "addr"} -> "self" [] OTHER -> "none"
OwnerRes(n) == IF n = "regname" THEN "owner" ELSE "none"
NameCls(n) == "name:" \o (CASE n = "regname" -> "registered" [] n = "blockname" /\ "nm" \in staged -> "registered-in-this-block"
                             [] n = "special" -> "special-account" [] n = "addr" -> "address" [] OTHER -> "unregistered") \o NmSt
GovReads ==
       {G("GvStaking", t, StakeRes(t), StakeCls(t)) : t \in Stakers}
  \cup {G(n, x, NameRes(x), NameCls(x)) : n \in {"GvResolve", "GvAddress"}, x \in Names}
  \cup {G("GvOwner", x, OwnerRes(x), NameCls(x)) : x \in Names}

GovRead(a) ==
  /\ ncache = 0 /\ GovOnly
  /\ lastAct' = a
  /\ UNCHANGED <<acct, layer, store, staged, nmut, ref, content, ncache>>

IsRead(n) == n \in {"GvStaking", "GvResolve", "GvAddress", "GvOwner", "RdGetState", "RdGetAccountState", "RdAccountState", "RdOpenAcc", "RdMulti", "RdData", "RdCode",
                    "RdAcctProof", "RdVarProof", "RdSys", "RdName", "RdNewBS", "RdSnapshot", "RdVmLoad", "CacheLookup"}

Read(a) ==
  /\ ncache = 0 /\ NoGov
  /\ lastAct' = a
  /\ IF Fault = "lookup-creates" /\ a.lk # "" /\ acct[a.lk] = "none"
     THEN /\ acct' = [acct EXCEPT ![a.lk] = "zero"]
          /\ layer' = [layer EXCEPT ![a.lk] = "buf"]
     ELSE UNCHANGED <<acct, layer>>
  /\ UNCHANGED <<store, staged, nmut, ref, content, ncache>>

\* contract/vm.go GetABI -> getCode: look in the cache of the block state, otherwise load the code from the
\* contract state and put code and ABI into the cache.  Counted as a step (it changes the cache).
RdVmLoad(c) ==
  /\ CanMutate
  /\ LET cc  == content[CacheObj("b2")]
         hitA == cc["abi"][c] # "none"
         hitC == cc["code"][c] # "none"
         ver == IF hitA THEN cc["abi"][c] ELSE IF hitC THEN cc["code"][c] ELSE CodeOf(c)
         put(f) == IF hitA \/ ver = "none" THEN f
                   ELSE IF hitC THEN [f EXCEPT !["abi"][c] = ver]
                   ELSE [f EXCEPT !["code"][c] = ver, !["abi"][c] = ver]
     IN /\ content' = [content EXCEPT ![CacheObj("b2")] = put(@)]
        /\ ref' = [ref EXCEPT !["b2"] = put(@)]
        /\ lastAct' = [name |-> "RdVmLoad", e |-> c, res |-> ver, cls |-> Target(c)]
  /\ nmut' = nmut + 1
  /\ UNCHANGED <<acct, layer, store, staged, ncache>>

\* ---------------------------------------------------------------- code / ABI caches of two block states
CanCache == ncache < MaxCache /\ nmut = 0

CacheAdd(b, kd, k, v) ==
  /\ CanCache
  /\ content' = [content EXCEPT ![CacheObj(b)][kd][k] = v]
  /\ ref' = [ref EXCEPT ![b][kd][k] = v]
  /\ ncache' = ncache + 1
  /\ lastAct' = [name |-> "CacheAdd", b |-> b, kind |-> kd, e |-> k, v |-> v]
  /\ UNCHANGED <<acct, layer, store, staged, nmut>>

CacheRemove(b, k) ==
  /\ CanCache
  /\ content' = [content EXCEPT ![CacheObj(b)] = [kd \in Kinds |-> [@[kd] EXCEPT ![k] = "none"]]]
  /\ ref' = [ref EXCEPT ![b] = [kd \in Kinds |-> [@[kd] EXCEPT ![k] = "none"]]]
  /\ ncache' = ncache + 1
  /\ lastAct' = [name |-> "CacheRemove", b |-> b, e |-> k]
  /\ UNCHANGED <<acct, layer, store, staged, nmut>>

CacheLookup(b, kd, k) ==
  /\ nmut = 0
  /\ lastAct' = [name |-> "CacheLookup", b |-> b, kind |-> kd, e |-> k, res |-> content[CacheObj(b)][kd][k]]
  /\ UNCHANGED <<acct, layer, store, staged, nmut, ref, content, ncache>>

CacheOp == \/ \E b \in BSs, kd \in Kinds, k \in CKeys, v \in Vers : CacheAdd(b, kd, k, v)
           \/ \E b \in BSs, k \in CKeys : CacheRemove(b, k)
           \/ \E b \in BSs, kd \in Kinds, k \in CKeys : CacheLookup(b, kd, k)

Next == \/ Mutate
        \/ \E a \in Reads : Read(a)
        \/ \E a \in GovReads : GovRead(a)
        \/ \E c \in CKeys : RdVmLoad(c)
        \/ CacheOp

Spec == Init /\ [][Next]_vars

\* ---------------------------------------------------------------- properties
TypeOK ==
  /\ acct \in [Ents -> AVals] /\ layer \in [Ents -> {"none", "trie", "buf"}]
  /\ store \in [Ctrs -> [Keys -> SVals]] /\ staged \subseteq Ctrs \cup Govs
  /\ nmut \in 0..MaxMut /\ ncache \in 0..MaxCache
  /\ ref \in [BSs -> [Kinds -> [CKeys -> SVals]]]
  /\ content \in [Objs -> [Kinds -> [CKeys -> SVals]]]

\* a read primitive leaves the working state of the block state as it found it
ReadsPure == [][IsRead(lastAct'.name) => UNCHANGED <<acct, layer, store, staged>>]_vars

\* what a block state finds in its cache is what THAT block state put there (or nothing)
CacheIsolated == \A b \in BSs, kd \in Kinds, k \in CKeys : content[CacheObj(b)][kd][k] = ref[b][kd][k]

\* ---------------------------------------------------------------- generation (tuple-only views: no record printing order)
EntSeq == <<"a1", "a2", "au", "c1", "c2", "cu">>
CtrSeq == <<"c1", "c2", "cu">>
StSeq  == <<"c1", "c2", "cu", "sys", "nm">>
KeySeq == <<"k1", "k2", "k3">>
BSeq   == <<"b1", "b2">>
KdSeq  == <<"code", "abi">>
CKSeq  == <<"c1", "c2">>
GView(ac, ly, st, sg, nm, rf, nc) ==
  << [i \in 1..6 |-> ac[EntSeq[i]]], [i \in 1..6 |-> ly[EntSeq[i]]],
     [i \in 1..3 |-> [j \in 1..3 |-> st[CtrSeq[i]][KeySeq[j]]]], [i \in 1..5 |-> StSeq[i] \in sg], nm,
     [i \in 1..2 |-> [j \in 1..2 |-> [l \in 1..2 |-> rf[BSeq[i]][KdSeq[j]][CKSeq[l]]]]], nc >>
GenLog == LogTransition(GView(acct, layer, store, staged, nmut, ref, ncache), lastAct',
                        GView(acct', layer', store', staged', nmut', ref', ncache'))
view == <<acct, layer, store, staged, nmut, ref, content, ncache>>
=============================================================================
