\* coverage: every executed node printed (MaxLua = 1), used to show that no guard is vacuous
SPECIFICATION Spec
CONSTANTS
  MaxLua = 1
  AmountSigns <- Signs3
  Direct = TRUE
  ForkVersions <- Fork5
VIEW view
CONSTRAINT Bounded
ACTION_CONSTRAINT GenLog
CHECK_DEADLOCK FALSE
