\* quick tier: exhaustive check of the small model AND its complete transition list (the test plan of the harness)
SPECIFICATION Spec
CONSTANTS
  MaxMut = 2
  MaxCache = 2
  Fault = "none"
VIEW view
INVARIANTS TypeOK CacheIsolated
PROPERTIES ReadsPure
ACTION_CONSTRAINT GenLog
CHECK_DEADLOCK FALSE
