\* observation (no verdict): the frozen behaviour of hardfork 4, where a negative decimal amount passes
SPECIFICATION Spec
CONSTANTS
  MaxLua = 1
  AmountSigns <- Signs3
  Direct = FALSE
  ForkVersions <- Fork45
VIEW view
CONSTRAINT Bounded
INVARIANTS ReadOnlyNoMutation ViewImpliesReadOnly NestingBalanced
CHECK_DEADLOCK FALSE
