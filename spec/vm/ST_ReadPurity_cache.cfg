\* self-test: the design of seeded change C20-2 (one process-wide code/ABI cache) violates CacheIsolated
SPECIFICATION Spec
CONSTANTS
  MaxMut = 0
  MaxCache = 2
  Fault = "shared-cache"
VIEW view
INVARIANTS CacheIsolated
CHECK_DEADLOCK FALSE
