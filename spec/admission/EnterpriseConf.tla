-------------------------- MODULE EnterpriseConf ----------------------------
(***************************************************************************)
(* C14, stateful part — the admission-time validators of aergo.enterprise  *)
(* read what EARLIER admitted transactions stored.  The model keeps the    *)
(* storage of the enterprise contract the way the code keeps it:           *)
(*                                                                         *)
(*   store[k]  the bytes under dbkey.EnterpriseConf(k), as a sequence of   *)
(*             ATOMS: <<ON|OFF>> followed, for every value, by the         *)
(*             separator atom BS (the backslash) and the atoms of the      *)
(*             value (config.go serializeConf); <<>> = never written       *)
(*   admins    the list of admin addresses (dbkey.EnterpriseAdmins)        *)
(*                                                                         *)
(* A VALUE (one JSON string argument of setConf/appendConf/removeConf) is  *)
(* a sequence of atoms.  The alphabet of atoms contains every character    *)
(* class the serialisation and the validators give a meaning to:           *)
(*   "BS"  the backslash: separator of serializeConf/deserializeConf       *)
(*   "C"   the colon: rpcpermissions values are <cert>:<permissions>       *)
(*   text atoms: base64 / non-base64 certificates, permission letters      *)
(*   with and without W, account addresses / names / non-addresses,        *)
(*   well-formed and malformed p2p list entries.                           *)
(* The empty value is <<>>; duplicates are equal sequences.                *)
(*                                                                         *)
(* Every READ goes through Deserialize (strings.Split(data, "\\")[1:]),    *)
(* every WRITE through Serialize, exactly as in config.go.  The operators  *)
(* with an index expression in the code (Conf.Validate: Split(v,":")[1])   *)
(* answer "panic" where the index does not exist; the property Total says  *)
(* that no reachable history of ADMITTED transactions leads there, and     *)
(* RoundTrip that what an admitted transaction stored is what later        *)
(* transactions read.  With SepGuard = FALSE (the check for the separator  *)
(* in checkArgs is gone) TLC finds both violated: self-test of the model.  *)
(*                                                                         *)
(* One action = one transaction delivered to the pool (mempool.validateTx  *)
(* -> enterprise.ValidateEnterpriseTx) and, if admitted, executed as the   *)
(* only transaction of the next block (chain.executeTx ->                  *)
(* enterprise.ExecuteEnterpriseTx, which validates again on the same       *)
(* state) and the block connected.                                         *)
(*                                                                         *)
(* Oddities of the code reproduced on purpose:                             *)
(*  - setConf validates the STORED conf (its old values for rpcpermissions,*)
(*    the new ones for accountwhite via the context), so an enabled        *)
(*    rpcpermissions can be set to a list without write permission;        *)
(*  - the empty string is a valid accountwhite value (types.DecodeAddress  *)
(*    takes it for a name);                                                *)
(*  - only the 2nd ':'-separated part of a stored rpc value is looked at;  *)
(*  - while no admin is set anybody may append one.                        *)
(***************************************************************************)
EXTENDS Integers, Sequences, FiniteSets, TLC, Util

CONSTANTS Ops,       \* the alphabet of transactions: set of [op, who, key, vals, flag, addr]
          MaxLen,    \* histories of at most this many transactions
          SepGuard,  \* TRUE: checkArgs rejects arguments containing the separator (the code); FALSE: self-test
          Raft,      \* the chain runs raft (changeCluster is supported)
          InitStore, InitAdmins

VARIABLES store, admins, n, lastAct
vars == <<store, admins, n, lastAct>>

Keys == {"RPC", "ACCW", "P2PW", "P2PB"}
BS == "BS"
C  == "C"

\* ------------------------------------------------------------------ strings.Split over atoms
RECURSIVE SplitOn(_, _)
SplitOn(s, sep) ==
  IF \A i \in DOMAIN s : s[i] # sep THEN <<s>>
  ELSE LET i == Min({j \in DOMAIN s : s[j] = sep})
       IN <<SubSeq(s, 1, i - 1)>> \o SplitOn(SubSeq(s, i + 1, Len(s)), sep)

RECURSIVE Flatten(_)
Flatten(ss) == IF ss = <<>> THEN <<>> ELSE Head(ss) \o Flatten(Tail(ss))

\* ------------------------------------------------------------------ config.go: serializeConf / deserializeConf / getConf
Conf(on, vals) == [set |-> TRUE, on |-> on, vals |-> vals]
NoConf == [set |-> FALSE, on |-> FALSE, vals |-> <<>>]

Serialize(c) == <<IF c.on THEN "ON" ELSE "OFF">> \o Flatten([i \in DOMAIN c.vals |-> <<BS>> \o c.vals[i]])
Deserialize(d) == Conf(d[1] = "ON", Tail(SplitOn(d, BS)))
Stored(k) == IF store[k] = <<>> THEN NoConf ELSE Deserialize(store[k])

\* ------------------------------------------------------------------ validate.go: checkArgs and the per-key value checks
B64Atoms == {"b64a", "b64b", "b64c", "junk"}          \* texts base64.Decode accepts
WAtoms   == {"RW", "W"}                               \* permission texts containing a W
HasW(p)  == \E i \in DOMAIN p : p[i] \in WAtoms

RpcOK(v) == LET p == SplitOn(v, C)                     \* checkRPCPermissions: exactly two parts, the first is base64
            IN Len(p) = 2 /\ (p[1] = <<>> \/ (Len(p[1]) = 1 /\ p[1][1] \in B64Atoms))
AccOK(v) == v = <<>> \/ (Len(v) = 1 /\ v[1] \in {"addrA", "addrB", "name"})     \* checkAccountWhite: types.DecodeAddress
P2POK(v) == v \in {<<"p2pa">>, <<"p2pb">>, <<"p2pe1", BS, "p2pe2">>}           \* checkP2PBlackWhite: types.ParseListEntry
                                                       \* (the third is well-formed JSON holding a \u escape)
ValOK(k, v) == CASE k = "RPC" -> RpcOK(v) [] k = "ACCW" -> AccOK(v) [] OTHER -> P2POK(v)

NoDup(s) == \A i, j \in DOMAIN s : i # j => s[i] # s[j]
HasSep(v) == \E i \in DOMAIN v : v[i] = BS
ArgsOK(k, vals) == /\ (SepGuard => \A i \in DOMAIN vals : ~HasSep(vals[i]))
                   /\ NoDup(vals)
                   /\ \A i \in DOMAIN vals : ValOK(k, vals[i])

\* ------------------------------------------------------------------ checkAdmin, the pool's account whitelist
Addr(who) == IF who = "A" THEN <<"addrA">> ELSE <<"addrB">>
AdminSet == admins # <<>>
IsAdmin(who) == \E i \in DOMAIN admins : admins[i] = who
AdminOK(who) == AdminSet /\ IsAdmin(who)
Listed(who) == LET c == Stored("ACCW") IN c.on => \E i \in DOMAIN c.vals : c.vals[i] = Addr(who)    \* mempool whitelistConf.Check

\* ------------------------------------------------------------------ config.go: Conf.Validate  ("ok" | "reject" | "panic")
RECURSIVE RpcScan(_, _)
RpcScan(vals, i) == IF i > Len(vals) THEN "reject"
                    ELSE LET p == SplitOn(vals[i], C)
                         IN IF Len(p) < 2 THEN "panic"            \* strings.Split(v, ":")[1]
                            ELSE IF HasW(p[2]) THEN "ok" ELSE RpcScan(vals, i + 1)

Validate(k, c, ctxVals) ==
  IF ~c.on THEN "ok"
  ELSE CASE k = "RPC"  -> RpcScan(c.vals, 1)
         [] k = "ACCW" -> IF \E a \in DOMAIN admins : \E i \in DOMAIN ctxVals : ctxVals[i] = Addr(admins[a]) THEN "ok" ELSE "reject"
         [] OTHER      -> "ok"

RemoveFirst(s, v) == LET i == Min({j \in DOMAIN s : s[j] = v}) IN SubSeq(s, 1, i - 1) \o SubSeq(s, i + 1, Len(s))
InSeq(s, v) == \E i \in DOMAIN s : s[i] = v

\* ------------------------------------------------------------------ ValidateEnterpriseTx: [out, conf (to be written under o.key), adm]
Res(out, conf, adm) == [out |-> out, conf |-> conf, adm |-> adm]
Rej == Res("reject", NoConf, admins)
FromVal(r, conf) == IF r = "ok" THEN Res("accept", conf, admins) ELSE IF r = "panic" THEN Res("panic", NoConf, admins) ELSE Rej

Ent(o) ==
  LET old == IF o.key \in Keys THEN Stored(o.key) ELSE NoConf IN
  CASE o.op = "setConf" ->
         IF ~(Len(o.vals) >= 1 /\ ArgsOK(o.key, o.vals) /\ AdminOK(o.who)) THEN Rej
         ELSE LET new == Conf(old.on, o.vals)
              IN IF old.set THEN FromVal(Validate(o.key, old, new.vals), new) ELSE Res("accept", new, admins)
    [] o.op \in {"appendConf", "removeConf"} ->
         IF ~(Len(o.vals) = 1 /\ ArgsOK(o.key, o.vals) /\ AdminOK(o.who)) THEN Rej
         ELSE LET v == o.vals[1] IN
              IF o.op = "appendConf" THEN
                IF InSeq(old.vals, v) THEN Rej
                ELSE LET new == Conf(old.on, Append(old.vals, v)) IN FromVal(Validate(o.key, new, new.vals), new)
              ELSE
                IF ~InSeq(old.vals, v) THEN Rej
                ELSE LET new == Conf(old.on, RemoveFirst(old.vals, v)) IN FromVal(Validate(o.key, new, new.vals), new)
    [] o.op = "enableConf" ->
         IF ~AdminOK(o.who) THEN Rej
         ELSE LET new == Conf(o.flag, old.vals) IN FromVal(Validate(o.key, new, new.vals), new)
    [] o.op = "appendAdmin" ->
         IF ~(o.addr \in {"A", "B"} /\ (AdminSet => IsAdmin(o.who)) /\ ~IsAdmin(o.addr)) THEN Rej
         ELSE Res("accept", NoConf, Append(admins, o.addr))
    [] o.op = "removeAdmin" ->
         IF ~(o.addr \in {"A", "B"} /\ (AdminSet => IsAdmin(o.who)) /\ IsAdmin(o.addr)) THEN Rej
         ELSE LET w == Stored("ACCW") IN
              IF w.on /\ InSeq(w.vals, Addr(o.addr)) THEN Rej
              ELSE Res("accept", NoConf, RemoveFirst(admins, o.addr))
    [] o.op = "changeCluster" -> IF Raft /\ AdminOK(o.who) THEN Res("accept", NoConf, admins) ELSE Rej
    [] o.op = "transfer" -> Res("accept", NoConf, admins)

\* the pool looks at the account whitelist before anything else
Outcome(o) == IF ~Listed(o.who) THEN Rej ELSE Ent(o)

IsConfOp(o) == o.op \in {"setConf", "appendConf", "removeConf", "enableConf"}

\* ------------------------------------------------------------------ behaviours
Init == /\ store = InitStore /\ admins = InitAdmins /\ n = 0
        /\ lastAct = [name |-> "Init", out |-> "-"]

\* (\E r \in {..}: the outcome is computed once per transition)
Tx(o) == \E r \in {Outcome(o)} :
         /\ n < MaxLen
         /\ n' = n + 1
         /\ store' = IF r.out = "accept" /\ IsConfOp(o) THEN [store EXCEPT ![o.key] = Serialize(r.conf)] ELSE store
         /\ admins' = IF r.out = "accept" THEN r.adm ELSE admins
         /\ lastAct' = [name |-> "Tx", o |-> o, out |-> r.out]

Next == \E o \in Ops : Tx(o)
Spec == Init /\ [][Next]_vars

\* ------------------------------------------------------------------ properties
TypeOK == /\ DOMAIN store = Keys
          /\ \A k \in Keys : store[k] = <<>> \/ store[k][1] \in {"ON", "OFF"}
          /\ \A i \in DOMAIN admins : admins[i] \in {"A", "B"}
          /\ n \in 0..MaxLen
          /\ lastAct.out \in {"-", "accept", "reject", "panic"}

\* TOTALITY: whatever admitted transactions stored before, every admission (and the re-validation in execution) ends
\* in accept or reject
Total == lastAct.out # "panic"

\* every stored value is one the validators of its key admit: the readers' index expressions are defined
ReadersDefined == \A k \in Keys : LET c == Stored(k) IN \A i \in DOMAIN c.vals : ValOK(k, c.vals[i]) /\ ~HasSep(c.vals[i])

\* ROUND TRIP, state form: the stored bytes are the serialisation of what is read from them
RoundTripState == \A k \in Keys : store[k] # <<>> => Serialize(Deserialize(store[k])) = store[k]

\* ROUND TRIP, action form: what an admitted conf transaction set is what the next transaction reads
Intended(o, old) == CASE o.op = "setConf"    -> Conf(old.on, o.vals)
                      [] o.op = "appendConf" -> Conf(old.on, Append(old.vals, o.vals[1]))
                      [] o.op = "removeConf" -> Conf(old.on, RemoveFirst(old.vals, o.vals[1]))
                      [] o.op = "enableConf" -> Conf(o.flag, old.vals)
RoundTrip == [][LET o == lastAct'.o IN
                 (lastAct'.out = "accept" /\ IsConfOp(o)) =>
                    Deserialize(store'[o.key]) = Intended(o, IF store[o.key] = <<>> THEN NoConf ELSE Deserialize(store[o.key]))]_vars

\* only an admitted transaction changes the storage; a conf transaction only its own key
Frame == [][/\ (lastAct'.out # "accept" => store' = store /\ admins' = admins)
            /\ \A k \in Keys : store'[k] # store[k] => lastAct'.o.key = k]_vars
=============================================================================
