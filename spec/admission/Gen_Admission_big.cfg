\* generation, thorough tier
SPECIFICATION Spec
CONSTANTS
  Worlds <- WBig
  MaxTx = 1
VIEW view
ACTION_CONSTRAINT GenLog
CHECK_DEADLOCK FALSE
