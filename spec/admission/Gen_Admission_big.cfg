\* generation, thorough tier
SPECIFICATION Spec
CONSTANTS
  Worlds <- WBig
  MaxArgs = 3
  MaxTx = 1
  Families <- FamAll
VIEW view
ACTION_CONSTRAINT GenLog
CHECK_DEADLOCK FALSE
