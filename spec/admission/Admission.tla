----------------------------- MODULE Admission ------------------------------
(***************************************************************************)
(* C14 — admission totality: an untrusted transaction is taken through     *)
(* three layers of the node,                                               *)
(*                                                                         *)
(*   TypesValidate  mempool.verifyTx -> types.transaction.Validate         *)
(*                  -> ValidateSystemTx / validateNameTx (stateless)       *)
(*   PoolValidate   mempool.validateTx -> system.ValidateSystemTx /        *)
(*                  name.ValidateNameTx / enterprise.ValidateEnterpriseTx  *)
(*   Execute        chain.executeTx -> executeGovernanceTx -> newSysCmd /  *)
(*                  newVoteCmd / ExecuteNameTx / ExecuteEnterpriseTx       *)
(*                                                                         *)
(* and every layer ends in one of its outcomes; there is NO panic outcome. *)
(*                                                                         *)
(* A transaction is an abstract SHAPE: classes of the envelope fields and, *)
(* for governance transactions, the JSON call {"Name":op,"Args":[..]} as a *)
(* sequence of argument classes.  The classes are the strings used by      *)
(* harness/mempool/verif_admission_test.go, which turns every class into   *)
(* several concrete byte strings.  The operators TypesOutcome, PoolOutcome *)
(* and ExecOutcome transcribe the decisions of the code; where the code    *)
(* has an unchecked type assertion or index expression the specification   *)
(* says "reject" (what a total validator answers).                         *)
(*                                                                         *)
(* Deliberate oddities of the code that the model reproduces:              *)
(*  - types.GetOpSysTx maps every unknown call name to OpvoteBP (zero      *)
(*    value of the map), so {"Name":"anything"} sent to aergo.system is a  *)
(*    BP vote (SysOp).                                                     *)
(*  - the enterprise validator of the types layer does not look at the     *)
(*    payload at all.                                                      *)
(*  - v1setOwner does not check the number of arguments.                   *)
(*  - a stake of amount 0 by an account that already stakes is accepted.   *)
(***************************************************************************)
EXTENDS Integers, Sequences, FiniteSets, TLC, Util

CONSTANTS Worlds,     \* set of [name, public, consensus, fork, lowmin (the staking minimum was voted down to 1 aer),
                      \*         full (calls whose argument lists are enumerated in full), depth (up to this length),
                      \*         fams (shape families enumerated on this world: subset of {"env","gov","pk","amt"})]
          MaxTx       \* 1: one transaction per behaviour; 2: a probe transaction follows every executed one

VARIABLES world, sender,   \* the context: chain configuration and class of the sending account
          facts,           \* what the validators read from the state (changes when a transaction is executed)
          tx, phase, out,  \* the transaction in flight, how far it got, the outcome of every layer
          n,               \* transactions finished
          lastAct

vars == <<world, sender, facts, tx, phase, out, n, lastAct>>
view == <<world, sender, facts, tx, phase, out, n>>

\* ------------------------------------------------------------------ vocabulary
SysOps  == {"v1stake", "v1unstake", "v1voteBP", "v1voteDAO"}
NameOps == {"v1createName", "v1updateName", "v1setOwner"}
EntOps  == {"appendAdmin", "removeAdmin", "setConf", "appendConf", "removeConf", "enableConf", "changeCluster"}
GovRcpt == {"system", "name", "enterprise"}

Senders == {"fresh", "rich", "stakedOld", "stakedNew", "votedOld", "votedNew", "nameOwner", "other", "admin", "whale", "tiny"}

\* classes whose JSON text is a string
PidOK     == {"pid39", "pidbp", "pidshort", "pidmid", "pid34", "pidlong"}      \* base58 of a well-formed multihash
Name12OK  == {"name12", "name12uc", "nameA", "nameB"}                          \* 12 characters of [a-z0-9] (any case)
AddrOK    == {"addr", "addrself", "addrrich", "addradmin", "vACC", "vACCadmin"} \* base58check account addresses
NameAddr  == Name12OK \cup {"nameshort", "namedot", "special", "empty"}        \* accepted by types.DecodeAddress as a name
DaoIdOK   == {"daoid", "daoidlc", "daoid2", "daoidgas"}            \* BPCOUNT, bpcount, STAKINGMIN|NAMEPRICE, GASPRICE
ConfKeyOK == {"kP2PW", "kP2PB", "kACCW", "kRPC", "klc"}
StrClasses == PidOK \cup Name12OK \cup AddrOK \cup DaoIdOK \cup ConfKeyOK \cup
              {"b58bad", "b58raw", "daoidbad", "nstr", "nstr0", "nstrbig", "nstrbad", "nstrneg", "namebad", "namedot",
               "nstr101", "nameshort", "namelong", "addrbad", "addrver", "special", "empty", "str", "dup", "strtrue", "kbad",
               "vP2P", "vP2Pbad", "vRPC", "vRPCro", "vRPCbad", "bslash"}
IsStr(c) == c \in StrClasses
ToSet(s) == {s[i] : i \in DOMAIN s}
AllStr(s) == \A i \in DOMAIN s : IsStr(s[i])
\* "dup" repeats the previous argument; classes with one fixed text repeat themselves; everything else differs
FixedText(c) == CASE c \in {"addrrich", "vACC"} -> "rich" [] c \in {"addradmin", "vACCadmin"} -> "admin"
                  [] c \in {"kP2PW", "kP2PB", "kACCW", "kRPC", "daoid", "daoidgas", "empty", "nameA", "nameB", "addrself", "strtrue", "true", "false", "null"} -> c
                  [] OTHER -> ""
HasDup(s) == \/ \E i \in DOMAIN s : i > 1 /\ s[i] = "dup"
             \/ \E i, j \in DOMAIN s : i < j /\ FixedText(s[i]) # "" /\ FixedText(s[i]) = FixedText(s[j])

\* ------------------------------------------------------------------ the shape grammar
Shape(ty, rc, ac, am, pr, gl, no, ci, hs, sg, pk, op, ar) ==
  [ty |-> ty, rc |-> rc, ac |-> ac, am |-> am, pr |-> pr, gl |-> gl, no |-> no, ci |-> ci, hs |-> hs, sg |-> sg,
   pk |-> pk, op |-> op, ar |-> ar]

Gov(rc, am, pk, op, ar) == Shape("GOVERNANCE", rc, "addr", am, "zero", "zero", "next", "ok", "ok", "ok", pk, op, ar)

Seqs(A, k) == UNION {[1..m -> A] : m \in 0..k}

\* argument alphabet per governance recipient and call
Alphabet(rc, op) ==
  IF rc = "system" THEN
    CASE op \in {"v1stake", "v1unstake"} -> {"num", "obj"}
      [] op = "v1voteBP"  -> {"pid39", "pidbp", "pidshort", "pidmid", "pid34", "pidlong", "b58bad", "b58raw", "empty", "dup",
                              "num", "bool", "null", "obj", "arr", "numbig"}
      [] op = "v1voteDAO" -> {"daoid", "daoidlc", "daoid2", "daoidgas", "daoidbad", "nstr", "nstr0", "nstr101", "nstrbig", "nstrbad", "nstrneg", "empty",
                              "dup", "num", "null", "obj", "arr", "numbig"}
      [] OTHER            -> {"pid39", "daoid", "name12", "num"}
  ELSE IF rc = "name" THEN
    CASE op = "v1createName" -> {"name12", "name12uc", "nameA", "namebad", "namedot", "nameshort", "namelong", "addr", "special",
                                 "empty", "num", "bool", "null", "obj", "arr", "numbig"}
      [] op = "v1updateName" -> {"name12", "nameA", "nameB", "namebad", "namedot", "nameshort", "namelong", "addr", "addrself",
                                 "addrbad", "addrver", "special", "empty", "num", "bool", "null", "obj", "arr", "numbig"}
      [] op = "v1setOwner"   -> {"addr", "addrself", "addrbad", "addrver", "nameshort", "special", "empty", "num", "null", "obj", "arr"}
      [] OTHER               -> {"name12", "addr", "num"}
  ELSE
    CASE op \in {"appendAdmin", "removeAdmin"} -> {"addr", "addrself", "addradmin", "addrbad", "addrver", "nameshort", "special",
                                                   "empty", "num", "bool", "null", "obj", "arr"}
      [] op \in {"setConf", "appendConf", "removeConf"} ->
                                 {"kP2PW", "kP2PB", "kACCW", "kRPC", "klc", "kbad", "vP2P", "vP2Pbad", "vACC", "vACCadmin", "vRPC",
                                  "vRPCro", "vRPCbad", "bslash", "dup", "empty", "num", "null", "obj", "arr"}
      [] op = "enableConf"    -> {"kP2PW", "kACCW", "kRPC", "klc", "kbad", "true", "false", "strtrue", "num", "null", "obj"}
      [] op = "changeCluster" -> {"ccAdd", "ccAddDns", "ccAddMiss", "ccAddType", "ccAddBadPeer", "ccAddBadAddr", "ccRem", "ccRemBad",
                                  "ccRemType", "ccCmdBad", "ccCmdType", "str", "num", "null", "arr"}
      [] OTHER                -> {"addr", "kP2PW", "num"}

OpsOf(rc) == CASE rc = "system"     -> SysOps \cup {"v1createName", "nosuchop"}
               [] rc = "name"       -> NameOps \cup {"v1stake", "nosuchop"}
               [] rc = "enterprise" -> EntOps \cup {"nosuchop"}

\* one well-formed argument list per call (used by the amount and payload-kind families and as probe transactions)
ValidArgs(op) ==
  CASE op = "v1voteBP"      -> <<"pidbp", "pid39">>
    [] op = "v1voteDAO"     -> <<"daoid", "nstr">>
    [] op = "v1createName"  -> <<"name12">>
    [] op = "v1updateName"  -> <<"nameA", "addr">>
    [] op = "v1setOwner"    -> <<"addr">>
    [] op = "appendAdmin"   -> <<"addr">>
    [] op = "removeAdmin"   -> <<"addradmin">>
    [] op = "setConf"       -> <<"kP2PW", "vP2P">>
    [] op = "appendConf"    -> <<"kRPC", "vRPC">>
    [] op = "removeConf"    -> <<"kACCW", "vACCadmin">>
    [] op = "enableConf"    -> <<"kRPC", "true">>
    [] op = "changeCluster" -> <<"ccRem">>
    [] OTHER                -> <<>>

NaturalAmount(rc, op) == IF op = "v1stake" THEN "stake2"
                         ELSE IF op = "v1unstake" THEN "stakemin"
                         ELSE IF rc = "name" THEN "nameprice" ELSE "zero"

Amounts == {"zero", "one", "nameprice", "stakemin", "stake2", "max", "over", "b32", "b33", "lead0"}

\* family "gov": every argument list up to world.depth over the alphabet of the call, for the calls in world.full (see Submit)

\* family "amt": every amount class on a well-formed call
AmtFamily == UNION {UNION {{Gov(rc, am, "ci", op, ValidArgs(op)) : am \in Amounts} : op \in OpsOf(rc)} : rc \in GovRcpt}

\* family "pk": malformed and unusual payload encodings around a well-formed call
PayloadKinds == {"lcase", "extra", "dupkey", "ws", "noargs", "argsnull", "argsobj", "argsstr", "namenum", "namenull", "empty",
                 "garbage", "trunc", "jsonnull", "jsonscalar", "jsonobj", "deep", "manyargs", "huge", "bp30", "bp31"}
PkFamily == UNION {UNION {{Gov(rc, NaturalAmount(rc, op), pk, op, ValidArgs(op)) : pk \in PayloadKinds} : op \in OpsOf(rc)} : rc \in GovRcpt}

\* family "env": the envelope.  (a) type x recipient x payload kind x amount, everything else in order;
\* (b) one field at a time (and signature x account) around a few base transactions.
TxTypes   == {"NORMAL", "GOVERNANCE", "REDEPLOY", "FEEDELEGATION", "TRANSFER", "CALL", "DEPLOY", "MULTICALL", "UNKNOWN", "NOBODY"}
Rcpts     == {"system", "name", "enterprise", "vault", "user", "usernew", "self", "contract", "empty", "long", "short", "nameA",
              "unkname", "rawshort", "sysprefix"}
Accts     == {"addr", "empty", "long", "short", "nameA", "unkname", "rawshort", "special"}
EnvOp(rc) == CASE rc = "system" -> "v1stake" [] rc = "name" -> "v1createName" [] rc = "enterprise" -> "appendAdmin" [] OTHER -> "v1stake"
EnvA == {Shape(ty, rc, "addr", am, "zero", "zero", "next", "ok", "ok", "ok", pk, EnvOp(rc), ValidArgs(EnvOp(rc))) :
            ty \in TxTypes, rc \in Rcpts, am \in {"zero", "one", "stake2", "over"}, pk \in {"empty", "vmops", "garbage", "ci"}}
Bases == {Shape("TRANSFER", "user", "addr", "one", "zero", "zero", "next", "ok", "ok", "ok", "empty", "", <<>>),
          Shape("NORMAL", "user", "addr", "zero", "zero", "zero", "next", "ok", "ok", "ok", "vmops", "", <<>>),
          Shape("DEPLOY", "empty", "addr", "zero", "zero", "zero", "next", "ok", "ok", "ok", "vmops", "", <<>>),
          Shape("MULTICALL", "empty", "addr", "zero", "zero", "zero", "next", "ok", "ok", "ok", "vmops", "", <<>>),
          Gov("system", "stake2", "ci", "v1stake", <<>>),
          Gov("name", "nameprice", "ci", "v1createName", <<"name12">>),
          Gov("enterprise", "zero", "ci", "appendAdmin", <<"addr">>)}
EnvB == UNION {
          {[b EXCEPT !.ac = a, !.sg = s] : a \in Accts, s \in {"ok", "other", "bad", "empty"}}
          \cup {[b EXCEPT !.pr = p] : p \in {"zero", "one", "max", "over", "b33"}}
          \cup {[b EXCEPT !.gl = g] : g \in {"zero", "one", "mid", "max"}}
          \cup {[b EXCEPT !.no = x] : x \in {"next", "low", "zero", "high", "max"}}
          \cup {[b EXCEPT !.ci = x] : x \in {"ok", "bad", "oldver", "empty"}}
          \cup {[b EXCEPT !.hs = x] : x \in {"ok", "bad", "empty"}}
          \cup {[b EXCEPT !.am = x] : x \in Amounts}
        : b \in Bases}
EnvFamily == EnvA \cup EnvB

\* which senders a shape is tried with
SendersFor(w, t) ==
  IF w.lowmin THEN {"whale", "tiny"}
  ELSE IF t.ty = "GOVERNANCE" /\ t.rc = "system" /\ t.pk # "empty" /\ t.ac = "addr"
    THEN {"fresh", "rich", "stakedOld", "stakedNew", "votedOld", "votedNew"}
  ELSE IF t.ty = "GOVERNANCE" /\ t.rc = "name" /\ t.ac = "addr" THEN {"fresh", "rich", "nameOwner", "other"}
  ELSE IF t.ty = "GOVERNANCE" /\ t.rc = "enterprise" /\ t.ac = "addr" THEN {"rich", "admin"}
  ELSE IF t.ac = "nameA" THEN {"rich", "nameOwner"}
  ELSE {"fresh", "rich"}

\* the second transaction of a behaviour: one well-formed call per governance operation
OwnOps(rc) == CASE rc = "system" -> SysOps [] rc = "name" -> NameOps [] rc = "enterprise" -> EntOps
GovProbes == UNION {{Gov(rc, NaturalAmount(rc, op), "ci", op, ValidArgs(op)) : op \in OwnOps(rc)} : rc \in GovRcpt}
\* ... and, for the name service, a transfer sent from a registered name and one sent to it
NameProbes == {Shape("TRANSFER", "user", "nameA", "one", "zero", "zero", "next", "ok", "ok", "ok", "empty", "", <<>>),
               Shape("TRANSFER", "nameA", "addr", "one", "zero", "zero", "next", "ok", "ok", "ok", "empty", "", <<>>)}
\* ... and, after a vote, a plain transfer with the default gas limit 0: its fee is computed from the voted parameters
FeeProbes == {Shape("TRANSFER", "user", "addr", "one", "zero", "zero", "next", "ok", "ok", "ok", "empty", "", <<>>)}
Probes == GovProbes \cup NameProbes \cup FeeProbes

\* ------------------------------------------------------------------ what the validators read from the state
InitFacts(w, s) ==
  LET dpos == w.consensus = "dpos" IN
  [funds    |-> s # "fresh",
   staked   |-> dpos /\ (s \in {"stakedOld", "stakedNew", "votedOld", "votedNew"} \/ (w.lowmin /\ s \in {"whale", "tiny"})),
   recent   |-> dpos /\ s \in {"stakedNew", "votedNew"},                 \* Staking.When within the last day
   votedBP  |-> dpos /\ s \in {"votedOld", "votedNew"},
   votedDAO |-> dpos /\ w.fork >= 2 /\ s \in {"votedOld", "votedNew"},     \* a vote on BPCOUNT
   ownsA    |-> s = "nameOwner",
   ownsB    |-> s = "other",
   admin    |-> ~w.public /\ s = "admin",
   adminSet |-> ~w.public,
   ownerSet |-> FALSE]                                                     \* owner of the aergo.name contract

\* ------------------------------------------------------------------ payload decoding (encoding/json into types.CallInfo)
\* "fail": json.Unmarshal returns an error;  otherwise the call name and the argument classes
Parsed(t) ==
  LET bignum == \E i \in DOMAIN t.ar : t.ar[i] = "numbig" IN
  CASE t.pk \in {"ci", "lcase", "extra", "dupkey", "ws"} -> IF bignum THEN [ok |-> FALSE, name |-> "", args |-> <<>>, many |-> FALSE]
                                                              ELSE [ok |-> TRUE, name |-> t.op, args |-> t.ar, many |-> FALSE]
    [] t.pk \in {"noargs", "argsnull"} -> [ok |-> TRUE, name |-> t.op, args |-> <<>>, many |-> FALSE]
    [] t.pk = "namenull"  -> IF bignum THEN [ok |-> FALSE, name |-> "", args |-> <<>>, many |-> FALSE]
                             ELSE [ok |-> TRUE, name |-> "", args |-> t.ar, many |-> FALSE]
    [] t.pk \in {"jsonnull", "jsonobj"} -> [ok |-> TRUE, name |-> "", args |-> <<>>, many |-> FALSE]
    [] t.pk = "manyargs"  -> [ok |-> TRUE, name |-> t.op, args |-> <<"nameshort", "dup">>, many |-> TRUE]   \* thousands of equal short strings
    [] t.pk = "bp30"      -> [ok |-> TRUE, name |-> t.op, args |-> <<"pid39", "pid39">>, many |-> FALSE]  \* 30 different peer ids
    [] t.pk = "bp31"      -> [ok |-> TRUE, name |-> t.op, args |-> <<"pid39", "pid39">>, many |-> TRUE]   \* 31: over MaxCandidates
    [] OTHER              -> [ok |-> FALSE, name |-> "", args |-> <<>>, many |-> FALSE]

\* types.GetOpSysTx: unknown names give the zero value, OpvoteBP
SysOp(name) == IF name \in SysOps THEN name ELSE "v1voteBP"

\* ------------------------------------------------------------------ layer 1: types.transaction.Validate + signature
SysTypesOK(p) ==          \* types.ValidateSystemTx
  LET op == SysOp(p.name) a == p.args IN
  CASE op \in {"v1stake", "v1unstake"} -> TRUE
    [] op = "v1voteBP"  -> ~p.many /\ (\A i \in DOMAIN a : a[i] \in PidOK) /\ ~HasDup(a)
    [] op = "v1voteDAO" -> Len(a) >= 1 /\ AllStr(a) /\ ~HasDup(a)

NameArgOK(a) == Len(a) >= 1 /\ a[1] \in Name12OK                         \* _validateNameTx
NameTypesOK(p) ==         \* types.validateNameTx (exact call names)
  LET a == p.args IN
  CASE p.name = "v1createName" -> NameArgOK(a) /\ Len(a) = 1
    [] p.name = "v1updateName" -> NameArgOK(a) /\ Len(a) = 2 /\ a[2] \in (AddrOK \cup NameAddr)    \* a[2].(string) unchecked in the code
    [] p.name = "v1setOwner"   -> Len(a) >= 1 /\ a[1] \in (AddrOK \cup NameAddr)                   \* a[1] unchecked index in the code
    [] OTHER -> FALSE

SigOK(w, s, t) ==
  CASE t.ac = "addr"  -> t.sg = "ok"
    [] t.ac = "nameA" -> t.sg = "ok" /\ s = "nameOwner"      \* name resolved to its destination, signature checked against it
    [] OTHER          -> FALSE                                 \* not a public key / unregistered name

GovTypesOK(w, t, p) ==
  CASE t.rc = "system"     -> w.consensus = "dpos" /\ p.ok /\ SysTypesOK(p)     \* every other consensus: ErrTxInvalidType
    [] t.rc = "name"       -> p.ok /\ NameTypesOK(p)
    [] t.rc = "enterprise" -> ~w.public                                        \* the payload is not looked at
    [] OTHER               -> FALSE                                            \* not a governance account

TypesOutcome(w, s, t) ==
  LET pempty == t.pk = "empty"
      p == Parsed(t)
      tyOK == CASE t.ty = "REDEPLOY"      -> ~w.public /\ t.rc # "empty"
                [] t.ty = "NORMAL"        -> ~(t.rc = "empty" /\ pempty)
                [] t.ty = "GOVERNANCE"    -> ~pempty /\ GovTypesOK(w, t, p)
                [] t.ty = "FEEDELEGATION" -> t.rc # "empty" /\ ~pempty
                [] t.ty \in {"TRANSFER", "CALL"} -> t.rc # "empty"
                [] t.ty \in {"DEPLOY", "MULTICALL"} -> t.rc = "empty" /\ ~pempty /\ (t.ty = "MULTICALL" => t.am = "zero")
                [] OTHER -> FALSE
  IN IF /\ t.ty # "NOBODY" /\ t.ci = "ok" /\ t.pk # "huge" /\ t.ac # "empty" /\ t.hs = "ok"
        /\ t.am \notin {"over", "b32", "b33"} /\ t.pr \notin {"over", "b32", "b33"}
        /\ t.ac # "long" /\ t.rc # "long"
        /\ tyOK /\ SigOK(w, s, t)
     THEN "accept" ELSE "reject"

\* ------------------------------------------------------------------ layer 2: mempool.validateTx
\* amounts as multiples of what matters: 0, tiny, name price, staking minimum, twice the minimum, the whole supply
AmtRank(am) == CASE am = "zero" -> 0 [] am \in {"one", "lead0"} -> 1 [] am = "nameprice" -> 2 [] am = "stakemin" -> 3 [] am = "stake2" -> 4 [] OTHER -> 9
\* balances: fresh 0, everybody else far more than twice the staking minimum and far less than the supply
CanPay(f, am) == AmtRank(am) = 0 \/ (f.funds /\ AmtRank(am) < 9)

SysPoolOK(w, f, t, p) ==      \* system.ValidateSystemTx
  LET op == SysOp(p.name) a == p.args IN
  CASE op = "v1stake"   -> CanPay(f, t.am) /\ ~(f.staked /\ f.recent) /\ (IF f.staked THEN AmtRank(t.am) < 9 ELSE AmtRank(t.am) \in {3, 4})
    [] op = "v1unstake" -> f.staked /\ ~f.recent /\ AmtRank(t.am) <= 4       \* staked amount is twice the minimum
    [] op = "v1voteBP"  -> f.staked /\ ~(f.votedBP /\ f.recent)
    [] op = "v1voteDAO" -> /\ w.fork >= 2
                           /\ Len(a) >= 1 /\ a[1] \in DaoIdOK
                           /\ Len(a) = 2                                       \* at least one candidate; MultipleChoice = 1
                           /\ (Len(a) = 2 => (a[2] \in {"nstr", "nstrneg"} \/ (a[2] = "nstr101" /\ a[1] \in {"daoid2", "daoidgas"})))
                                  \* decimal, non-zero, in range (a negative number passes); only BPCOUNT is limited to 100
                           /\ f.staked /\ ~(f.votedDAO /\ f.recent /\ a[1] \in {"daoid", "daoidlc"})

NamePoolOK(w, s, f, t, p) ==  \* name.ValidateNameTx
  LET a == p.args IN
  /\ CanPay(f, t.am)
  /\ CASE p.name = "v1createName" -> AmtRank(t.am) >= 2 /\ a[1] \notin {"nameA", "nameB"}
       [] p.name = "v1updateName" -> AmtRank(t.am) >= 2 /\ ((a[1] = "nameA" /\ f.ownsA) \/ (a[1] = "nameB" /\ f.ownsB))
       [] p.name = "v1setOwner"   -> ~f.ownerSet
       [] OTHER -> FALSE

ConfValOK(k, v) == CASE k \in {"kP2PW", "kP2PB"} -> v = "vP2P"
                     [] k = "kACCW" -> v \in AddrOK \cup NameAddr \cup {"kP2PW", "kP2PB", "kACCW", "klc", "kbad"}   \* anything types.DecodeAddress accepts
                     [] k = "kRPC"  -> v \in {"vRPC", "vRPCro"}
                     [] OTHER -> TRUE
EntPoolOK(w, f, t, p) ==      \* enterprise.ValidateEnterpriseTx
  LET a == p.args
      adminOK == f.admin \/ ~f.adminSet IN      \* checkAdmin passes (ErrTxEnterpriseAdminIsNotSet only tolerated by the admin calls)
  CASE p.name \in {"appendAdmin", "removeAdmin"} ->
           /\ Len(a) = 1 /\ a[1] \in AddrOK                                   \* a 33-byte address (names and special accounts are refused)
           /\ adminOK
           /\ (p.name = "appendAdmin" => ~(f.adminSet /\ a[1] = "addradmin") /\ ~(f.admin /\ a[1] = "addrself"))
           /\ (p.name = "removeAdmin" => f.adminSet /\ (a[1] = "addradmin" \/ (f.admin /\ a[1] = "addrself")))
    [] p.name \in {"setConf", "appendConf", "removeConf"} ->
           /\ (IF p.name = "setConf" THEN Len(a) >= 2 ELSE Len(a) = 2)
           /\ a[1] \in ConfKeyOK                                               \* a[1].(string) unchecked in the code
           /\ AllStr(a) /\ ~HasDup(a) /\ (\A i \in DOMAIN a : a[i] # "bslash")
           /\ (\A i \in 2..Len(a) : ConfValOK(IF a[1] = "klc" THEN "kP2PW" ELSE a[1], a[i]))    \* "klc" is p2pwhite in lower case
           /\ f.admin
           /\ (p.name = "removeConf" => a[1] = "kACCW" /\ a[2] \in {"vACCadmin", "addradmin"})
           /\ (p.name = "appendConf" => ~(a[1] = "kACCW" /\ a[2] \in {"vACCadmin", "addradmin"}))
    [] p.name = "enableConf" -> Len(a) = 2 /\ a[1] \in ConfKeyOK /\ a[2] \in {"true", "false", "bool"} /\ f.admin
    [] p.name = "changeCluster" -> w.consensus = "raft" /\ Len(a) = 1 /\ a[1] \in {"ccAdd", "ccAddDns", "ccRem"} /\ f.admin
    [] OTHER -> FALSE

\* names and special accounts resolve; anything else must be a 33-byte address
RcptResolves(t) == t.rc \in {"system", "name", "enterprise", "vault", "user", "usernew", "self", "contract", "nameA"}

GovPoolOK(w, s, f, t, p) ==
  CASE t.rc = "system"     -> SysPoolOK(w, f, t, p)
    [] t.rc = "name"       -> NamePoolOK(w, s, f, t, p)
    [] t.rc = "enterprise" -> p.ok /\ EntPoolOK(w, f, t, p)
    [] OTHER               -> FALSE

PoolOutcome(w, s, f, t) ==
  LET p == Parsed(t)
      feeOK == \/ ~w.public                                                    \* private chains run with zero fee
               \/ (f.funds /\ (w.fork < 2 \/ t.gl \in {"zero", "mid"}))
      typeOK ==
        CASE t.ty \in {"NORMAL", "TRANSFER", "CALL", "REDEPLOY"} -> CanPay(f, t.am) /\ feeOK /\ RcptResolves(t)
          [] t.ty = "DEPLOY"     -> CanPay(f, t.am) /\ feeOK
          [] t.ty = "MULTICALL"  -> TRUE
          [] t.ty = "FEEDELEGATION" -> t.rc = "contract" /\ ~w.public /\ CanPay(f, t.am)   \* the contract of the worlds holds no balance for fees
          [] t.ty = "GOVERNANCE" -> GovPoolOK(w, s, f, t, p)
          [] OTHER -> FALSE
  IN IF t.no \in {"low", "zero"} THEN "reject"
     ELSE IF ~typeOK THEN "reject"
     ELSE IF t.no \in {"high", "max"} THEN "orphan" ELSE "accept"

\* ------------------------------------------------------------------ layer 3: chain.executeTx on the same state
\* ok: success receipt; err: error receipt (enterprise errors, contract runtime errors); skip: executeTx returns an error
ExecOutcome(w, s, f, t) ==
  LET p == Parsed(t) IN
  IF t.ty # "GOVERNANCE" THEN "any"
  ELSE IF t.rc = "system" /\ SysOp(p.name) = "v1voteDAO" /\ Len(p.args) < 2 THEN "skip"     \* newVoteCmd reads Args[1] unchecked in the code
  ELSE "ok"

\* how the facts change when the block holding the transaction is connected
Effect(w, s, f, t) ==
  LET p == Parsed(t) a == p.args IN
  IF t.ty # "GOVERNANCE" THEN f
  ELSE IF t.rc = "system" THEN
    CASE SysOp(p.name) = "v1stake"   -> [f EXCEPT !.staked = TRUE, !.recent = TRUE]
      [] SysOp(p.name) = "v1unstake" -> [f EXCEPT !.staked = AmtRank(t.am) < 4, !.recent = TRUE]
      [] SysOp(p.name) = "v1voteBP"  -> [f EXCEPT !.votedBP = TRUE, !.recent = TRUE]
      [] SysOp(p.name) = "v1voteDAO" -> [f EXCEPT !.votedDAO = @ \/ a[1] \in {"daoid", "daoidlc"}, !.recent = TRUE]
  ELSE IF t.rc = "name" THEN
    CASE p.name = "v1updateName" -> [f EXCEPT !.ownsA = @ /\ ~(a[1] = "nameA" /\ a[2] # "addrself"),
                                              !.ownsB = @ /\ ~(a[1] = "nameB" /\ a[2] # "addrself")]
      [] p.name = "v1setOwner"   -> [f EXCEPT !.ownerSet = TRUE]
      [] OTHER -> f
  ELSE
    CASE p.name = "appendAdmin" -> [f EXCEPT !.adminSet = TRUE, !.admin = @ \/ a[1] = "addrself"]
      [] p.name = "removeAdmin" -> [f EXCEPT !.adminSet = FALSE, !.admin = FALSE]      \* the world has one admin
      [] OTHER -> f

\* ------------------------------------------------------------------ the layers as actions
NoTx  == [ty |-> "-"]
NoOut == [types |-> "-", pool |-> "-", exec |-> "-"]

Init == /\ world \in Worlds
        /\ sender \in (IF world.lowmin THEN {"whale", "tiny"} ELSE Senders \ {"whale", "tiny"})
        /\ facts = InitFacts(world, sender)
        /\ tx = NoTx /\ phase = "idle" /\ out = NoOut /\ n = 0
        /\ lastAct = [name |-> "Init"]

SubmitTx(t) == /\ (n = 0 => sender \in SendersFor(world, t))
               /\ tx' = t /\ phase' = "submitted" /\ out' = NoOut
               /\ lastAct' = [name |-> "Submit"]
               /\ UNCHANGED <<world, sender, facts, n>>

\* a client or peer delivers a transaction.  (The families are enumerated by nested quantifiers: TLC does not have to
\* build the set of all shapes of the world, which holds several hundred thousand records for depth 3.)
Submit == /\ phase = "idle" /\ n < MaxTx
          /\ IF n = 0
               THEN \/ /\ "gov" \in world.fams
                       /\ \E rc \in GovRcpt : \E op \in OpsOf(rc) \cap world.full : \E m \in 0..world.depth :
                            \E ar \in [1..m -> Alphabet(rc, op)] : SubmitTx(Gov(rc, NaturalAmount(rc, op), "ci", op, ar))
                    \/ "amt" \in world.fams /\ \E t \in AmtFamily : SubmitTx(t)
                    \/ "pk" \in world.fams /\ \E t \in PkFamily : SubmitTx(t)
                    \/ "env" \in world.fams /\ \E t \in EnvFamily : SubmitTx(t)
               ELSE \E t \in Probes : SubmitTx(t)

TypesValidate == /\ phase = "submitted"
                 /\ LET o == TypesOutcome(world, sender, tx) IN
                      /\ out' = [out EXCEPT !.types = o]
                      /\ phase' = IF o = "accept" THEN "typed" ELSE "done"
                 /\ lastAct' = [name |-> "TypesValidate"]
                 /\ UNCHANGED <<world, sender, facts, tx, n>>

PoolValidate == /\ phase = "typed"
                /\ LET o == PoolOutcome(world, sender, facts, tx) IN
                     /\ out' = [out EXCEPT !.pool = o]
                     /\ phase' = IF o = "accept" THEN "pooled" ELSE "done"
                /\ lastAct' = [name |-> "PoolValidate"]
                /\ UNCHANGED <<world, sender, facts, tx, n>>

Execute == /\ phase = "pooled"
           /\ LET o == ExecOutcome(world, sender, facts, tx) IN
                /\ out' = [out EXCEPT !.exec = o]
                /\ facts' = IF o = "ok" THEN Effect(world, sender, facts, tx) ELSE facts
           /\ phase' = "done"
           /\ lastAct' = [name |-> "Execute"]
           /\ UNCHANGED <<world, sender, tx, n>>

\* the transaction leaves the pipeline (rejected, orphaned, skipped or in a connected block)
Finish == /\ phase = "done"
          /\ phase' = "idle" /\ n' = n + 1 /\ tx' = NoTx /\ out' = NoOut
          /\ lastAct' = [name |-> "Finish", step |-> n, tx |-> tx, out |-> out]
          /\ UNCHANGED <<world, sender, facts>>

\* more than a day of blocks goes by between the first transaction and the probe (the waiting periods are over)
TimePasses == /\ phase = "idle" /\ n = 1 /\ n < MaxTx /\ facts.recent
              /\ facts' = [facts EXCEPT !.recent = FALSE]
              /\ lastAct' = [name |-> "TimePasses"]
              /\ UNCHANGED <<world, sender, tx, phase, out, n>>

\* nothing more to do: MaxTx transactions went through (the only state without another successor)
Done == phase = "idle" /\ n = MaxTx /\ UNCHANGED vars

Next == Submit \/ TypesValidate \/ PoolValidate \/ Execute \/ Finish \/ TimePasses \/ Done

Spec == Init /\ [][Next]_vars

\* ------------------------------------------------------------------ properties
TypeOK == /\ phase \in {"idle", "submitted", "typed", "pooled", "done"}
          /\ out.types \in {"-", "accept", "reject"}
          /\ out.pool \in {"-", "accept", "orphan", "reject"}
          /\ out.exec \in {"-", "ok", "err", "skip", "any"}
          /\ n \in 0..MaxTx

\* every submitted shape gets an outcome at every layer it reaches, and nothing but the listed outcomes exists
Total == phase = "done" =>
           /\ out.types \in {"accept", "reject"}
           /\ (out.types = "accept" => out.pool \in {"accept", "orphan", "reject"})
           /\ (out.types = "reject" => out.pool = "-" /\ out.exec = "-")

\* whatever the pool admits the block executor finishes with a receipt or by skipping the transaction
AdmittedExecutes == phase = "done" /\ out.pool = "accept" => out.exec \in {"ok", "err", "skip", "any"}

\* a layer is consulted only when the layer before accepted; a rejection is final
LayersInOrder == /\ (out.pool # "-" => out.types = "accept")
                 /\ (out.exec # "-" => out.pool = "accept")
                 /\ (phase = "typed" => out.types = "accept")
                 /\ (phase = "pooled" => out.pool = "accept")

\* the state changes only through an executed transaction
FactsOnlyByExecute == [][facts' # facts => (lastAct'.name = "Execute" /\ out'.exec = "ok") \/ lastAct'.name = "TimePasses"]_vars

\* Termination: every layer is one step and moves the phase forward; the configurations run with deadlock checking
\* on, so a shape for which some layer has no outcome (an operator that is not total) is reported by TLC, and
\* PhaseAdvances says that no step goes back.
PhaseRank(p) == CASE p = "idle" -> 0 [] p = "submitted" -> 1 [] p = "typed" -> 2 [] p = "pooled" -> 3 [] p = "done" -> 4
PhaseAdvances == [][(phase' # phase) => (PhaseRank(phase') > PhaseRank(phase) \/ (phase = "done" /\ phase' = "idle"))]_vars
=============================================================================
