\* generation, thorough tier: every transition out of every state reachable in fewer than 4 transactions (full alphabet)
SPECIFICATION Spec
CONSTANTS
  Ops <- OpsFull
  MaxLen = 4
  SepGuard = TRUE
  Raft = TRUE
  InitStore <- WorldStore
  InitAdmins <- WorldAdmins
VIEW viewN
ACTION_CONSTRAINT GenLog
CHECK_DEADLOCK FALSE
