\* exhaustive design check, thorough tier: every history of at most 4 transactions over the full alphabet
SPECIFICATION Spec
CONSTANTS
  Ops <- OpsFull
  MaxLen = 4
  SepGuard = TRUE
  Raft = TRUE
  InitStore <- WorldStore
  InitAdmins <- WorldAdmins
VIEW viewN
INVARIANTS TypeOK Total ReadersDefined RoundTripState
PROPERTIES RoundTrip Frame
CHECK_DEADLOCK FALSE
