\* exhaustive design check, quick tier: three worlds, argument lists <= 2, every family, one transaction
SPECIFICATION Spec
CONSTANTS
  Worlds <- WQuick
  MaxArgs = 2
  MaxTx = 1
  Families <- FamAll
VIEW view
INVARIANTS TypeOK Total AdmittedExecutes LayersInOrder
PROPERTIES FactsOnlyByExecute PhaseAdvances
CHECK_DEADLOCK TRUE
