\* exhaustive design check, quick tier: four worlds (WQuick), argument lists <= 2, one transaction
SPECIFICATION Spec
CONSTANTS
  Worlds <- WQuick
  MaxTx = 1
VIEW view
INVARIANTS TypeOK Total AdmittedExecutes LayersInOrder
PROPERTIES FactsOnlyByExecute PhaseAdvances
CHECK_DEADLOCK TRUE
