\* exhaustive design check, quick tier: three worlds, argument lists <= 2, every family, one transaction
SPECIFICATION Spec
CONSTANTS
  Worlds <- WQuick
  MaxTx = 1
VIEW view
INVARIANTS TypeOK Total AdmittedExecutes LayersInOrder
PROPERTIES FactsOnlyByExecute PhaseAdvances
CHECK_DEADLOCK TRUE
