\* generation, quick tier: every (world, sender, shape) with the specification's outcome per layer, printed once
SPECIFICATION Spec
CONSTANTS
  Worlds <- WQuick
  MaxTx = 1
VIEW view
ACTION_CONSTRAINT GenLog
CHECK_DEADLOCK FALSE
