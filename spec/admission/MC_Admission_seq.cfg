\* design check of two-transaction behaviours: every executed transaction is followed by every probe transaction
SPECIFICATION Spec
CONSTANTS
  Worlds <- WTiny
  MaxTx = 2
VIEW view
INVARIANTS TypeOK Total AdmittedExecutes LayersInOrder
PROPERTIES FactsOnlyByExecute PhaseAdvances
CHECK_DEADLOCK TRUE
