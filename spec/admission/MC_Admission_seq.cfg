\* design check of two-transaction behaviours: every executed transaction is followed by every probe transaction
SPECIFICATION Spec
CONSTANTS
  Worlds <- WTiny
  MaxArgs = 1
  MaxTx = 2
  Families <- FamGov
VIEW view
INVARIANTS TypeOK Total AdmittedExecutes LayersInOrder
PROPERTIES FactsOnlyByExecute PhaseAdvances
CHECK_DEADLOCK TRUE
