------------------------- MODULE MC_EnterpriseConf --------------------------
EXTENDS EnterpriseConf

\* ---- values (sequences of atoms); the harness maps every atom to one text per run
e      == <<>>                                   \* ""
rw     == <<"b64a", C, "RW">>                    \* dGVzdA==:RW   (the value the world starts with)
ro     == <<"b64b", C, "R">>                     \* cm8=:R
w      == <<"b64c", C, "W">>                     \* YWJj:W
cw     == <<C, "W">>                             \* :W            (empty certificate)
nocol  == <<"junk">>                             \* junk          (no colon)
c3     == <<"b64a", C, "R", C, "W">>             \* three parts
nb     == <<"nb64", C, "RW">>                    \* @@@:RW        (certificate is not base64)
bsro   == <<"b64b", C, "R", BS, "junk">>         \* cm8=:R\junk   (= ro, separator, nocol)
bs     == <<BS>>                                 \* \
addrA  == <<"addrA">>                            \* address of the admin account A (the sender of most transactions)
addrB  == <<"addrB">>                            \* address of account B
name   == <<"name">>                             \* aergo.vault: not a key address, but types.DecodeAddress takes it
nonad  == <<"nonaddr">>                          \* not an address at all
bsacc  == <<"addrA", BS, "addrB">>
p2pa   == <<"p2pa">>                             \* {"peerid":"<bp 0>"}   (the value the world starts with)
p2pb   == <<"p2pb">>                             \* {"cidr":"172.21.3.35/24"}
p2pbad == <<"p2pbad">>                           \* {}
p2pesc == <<"p2pe1", BS, "p2pe2">>               \* {"address":"10.0.0.1"}: well-formed entry holding a backslash
bsp    == <<"p2pa", BS, "p2pb">>

O(op, who, key, vals, flag, addr) == [op |-> op, who |-> who, key |-> key, vals |-> vals, flag |-> flag, addr |-> addr]
Set(who, k, vals) == O("setConf", who, k, vals, FALSE, "-")
App(who, k, v)    == O("appendConf", who, k, <<v>>, FALSE, "-")
Rem(who, k, v)    == O("removeConf", who, k, <<v>>, FALSE, "-")
En(who, k, f)     == O("enableConf", who, k, <<>>, f, "-")
AddAdm(who, a)    == O("appendAdmin", who, "-", <<>>, FALSE, a)
RemAdm(who, a)    == O("removeAdmin", who, "-", <<>>, FALSE, a)
CC(who)           == O("changeCluster", who, "-", <<>>, FALSE, "-")
Xfer(who)         == O("transfer", who, "-", <<>>, FALSE, "-")

RpcVals == {e, rw, ro, w, cw, nocol, c3, nb, bsro, bs}
AccVals == {e, addrA, addrB, name, nonad, bsacc}
P2PVals == {e, p2pa, p2pb, p2pbad, p2pesc, bsp}

\* the alphabet of transactions (quick: histories <= 3; thorough: <= 4)
OpsFull ==
     {Set("A", "RPC", <<v>>) : v \in RpcVals}
  \cup {Set("A", "RPC", vs) : vs \in {<<ro, rw>>, <<rw, ro>>, <<ro, ro>>, <<bsro, rw>>, <<rw, bsro>>, <<nocol, rw>>}}
  \cup {App("A", "RPC", v) : v \in RpcVals}
  \cup {Rem("A", "RPC", v) : v \in {rw, ro, w, nocol, e, bsro}}
  \cup {En("A", k, f) : k \in Keys, f \in BOOLEAN}
  \cup {Set("A", "ACCW", <<v>>) : v \in AccVals}
  \cup {Set("A", "ACCW", vs) : vs \in {<<addrA, addrB>>, <<addrB, addrA>>, <<addrB, name>>}}
  \cup {App("A", "ACCW", v) : v \in AccVals}
  \cup {Rem("A", "ACCW", v) : v \in {addrA, addrB, name, e}}
  \cup {Set("A", "P2PW", <<v>>) : v \in P2PVals} \cup {Set("A", "P2PW", <<p2pb, p2pa>>)}
  \cup {App("A", "P2PW", v) : v \in P2PVals}
  \cup {Rem("A", "P2PW", v) : v \in {p2pa, p2pb, e}}
  \cup {Set("A", "P2PB", <<p2pa>>), Set("A", "P2PB", <<bsp>>), App("A", "P2PB", p2pb), Rem("A", "P2PB", p2pa)}
  \cup {AddAdm("A", a) : a \in {"A", "B", "name", "nonaddr"}} \cup {RemAdm("A", a) : a \in {"A", "B"}}
  \cup {CC("A"), Xfer("A")}
  \cup {Set("B", "RPC", <<rw>>), Rem("B", "RPC", rw), App("B", "ACCW", addrB), En("B", "ACCW", TRUE), En("B", "RPC", TRUE),
        AddAdm("B", "B"), RemAdm("B", "A"), CC("B"), Xfer("B")}

\* the world of the harness after its set-up blocks: admin A; p2pwhite, rpcpermissions, accountwhite hold one value each, all off
WorldStore == [k \in Keys |-> CASE k = "RPC" -> Serialize(Conf(FALSE, <<rw>>)) [] k = "ACCW" -> Serialize(Conf(FALSE, <<addrA>>))
                                [] k = "P2PW" -> Serialize(Conf(FALSE, <<p2pa>>)) [] OTHER -> <<>>]
WorldAdmins == <<"A">>

\* (the views hide lastAct except for the one fact Total talks about)
viewN == <<store, admins, n, lastAct.out = "panic">>
viewS == <<store, admins, lastAct.out = "panic">>

\* generation: every transition out of every (state, history length < MaxLen) printed (a state reachable at several lengths is printed
\* again: the check driver merges the lines and verifies that every state below MaxLen has a line for every transaction)
SV(st, ad) == <<st["RPC"], st["ACCW"], st["P2PW"], st["P2PB"], ad>>
ASSUME PrintT("IS|" \o ToString(SV(WorldStore, WorldAdmins)))
OpT(o) == <<o.op, o.who, o.key, o.vals, IF o.flag THEN "true" ELSE "false", o.addr>>
GenLog == PrintT("TR|" \o ToString(<<SV(store, admins), <<OpT(lastAct'.o), lastAct'.out>>, SV(store', admins')>>))
=============================================================================
