---------------------------- MODULE MC_Admission ----------------------------
EXTENDS Admission

W(name, pub, cons, fork, full, depth, fams) ==
  [name |-> name, public |-> pub, consensus |-> cons, fork |-> fork, lowmin |-> FALSE, full |-> full, depth |-> depth, fams |-> fams]

SysFull  == SysOps \cup {"v1createName", "nosuchop"}
NameFull == NameOps \cup {"v1stake"}
EntFull  == EntOps \ {"changeCluster"}
FamAll   == {"env", "gov", "pk", "amt"}
FamGov   == {"gov", "pk", "amt"}

\* a public DPoS chain on which a majority staker has voted the staking minimum down to 1 aer ("whale"),
\* and an account staking 50 aer ("tiny"); only the two voting calls are enumerated
LowMin(name, fork, depth) ==
  [name |-> name, public |-> TRUE, consensus |-> "dpos", fork |-> fork, lowmin |-> TRUE,
   full |-> {"v1voteBP", "v1voteDAO"}, depth |-> depth, fams |-> {"gov"}]

\* quick tier: a public DPoS chain after the first hard fork (system + name calls and the envelope in full),
\* a private DPoS chain (enterprise calls in full), a private raft chain (changeCluster in full), the low-minimum chain
WQuick == { W("pub2",  TRUE,  "dpos", 2, SysFull \cup NameFull, 2, FamAll),
            W("priv3", FALSE, "dpos", 3, EntFull, 2, FamGov),
            W("raft3", FALSE, "raft", 3, {"changeCluster"}, 2, FamGov),
            LowMin("low2", 2, 2) }

\* thorough tier: argument lists up to 3 where the calls live, every fork version of the public chain with lists up to 2
WBig == { W("pub2",  TRUE,  "dpos", 2, SysFull \cup NameFull, 3, FamAll),
          W("priv3", FALSE, "dpos", 3, EntFull, 3, FamAll),
          W("raft3", FALSE, "raft", 3, {"changeCluster", "appendAdmin"}, 3, FamAll),
          W("pub0",  TRUE,  "dpos", 0, SysFull \cup NameFull, 2, FamAll),
          W("pub3",  TRUE,  "dpos", 3, SysFull \cup NameFull, 2, FamAll),
          W("pub4",  TRUE,  "dpos", 4, SysFull \cup NameFull, 2, FamAll),
          W("pub5",  TRUE,  "dpos", 5, SysFull \cup NameFull, 2, FamAll),
          W("priv5", FALSE, "dpos", 5, EntFull \cup SysFull, 2, FamAll),
          LowMin("low2", 2, 2), LowMin("low5", 5, 2) }

\* design check with a second (probe) transaction after every executed one: one world of each kind, short lists
WTiny == { W("pub2",  TRUE,  "dpos", 2, SysFull \cup NameFull, 1, FamGov),
           W("raft3", FALSE, "raft", 3, EntOps, 1, FamGov),
           LowMin("low2", 2, 2) }

\* generation (ACTION_CONSTRAINT): one line per finished first transaction: context, shape, outcome of the three layers
GenLog == (phase = "done" /\ lastAct'.name = "Finish" /\ lastAct'.step = 0) =>
            PrintT("CS|" \o ToString(<<world.name, sender, tx.ty, tx.rc, tx.ac, tx.am, tx.pr, tx.gl, tx.no, tx.ci, tx.hs, tx.sg,
                                       tx.pk, tx.op, tx.ar, out.types, out.pool, out.exec>>))

\* the probe transactions and the worlds, printed once
ASSUME PrintT("PB|" \o ToString(Probes))
ASSUME PrintT("WD|" \o ToString({[name |-> w.name, public |-> w.public, consensus |-> w.consensus, fork |-> w.fork, lowmin |-> w.lowmin] : w \in Worlds}))
=============================================================================
