---------------------------- MODULE MC_Admission ----------------------------
EXTENDS Admission

W(name, pub, cons, fork, full, env) ==
  [name |-> name, public |-> pub, consensus |-> cons, fork |-> fork, full |-> full, env |-> env]

SysFull  == SysOps \cup {"v1createName", "nosuchop"}
NameFull == NameOps \cup {"v1stake"}
EntFull  == EntOps \ {"changeCluster"}

\* quick tier: a public DPoS chain after the first hard fork (system + name calls and the envelope in full),
\* a private DPoS chain (enterprise calls in full), a private raft chain (changeCluster in full)
WQuick == { W("pub2",  TRUE,  "dpos", 2, SysFull \cup NameFull, TRUE),
            W("priv3", FALSE, "dpos", 3, EntFull, FALSE),
            W("raft3", FALSE, "raft", 3, {"changeCluster"}, FALSE) }

\* thorough tier: every fork version of the public chain, private chains with everything in full
WBig == { W("pub0",  TRUE,  "dpos", 0, SysFull \cup NameFull, TRUE),
          W("pub2",  TRUE,  "dpos", 2, SysFull \cup NameFull, TRUE),
          W("pub3",  TRUE,  "dpos", 3, SysFull, FALSE),
          W("pub5",  TRUE,  "dpos", 5, SysFull \cup NameFull, TRUE),
          W("priv3", FALSE, "dpos", 3, EntFull \cup SysFull, TRUE),
          W("raft3", FALSE, "raft", 3, EntOps \cup NameFull, TRUE) }

\* design check with a second (probe) transaction after every executed one: one world of each kind, short lists
WTiny == { W("pub2",  TRUE,  "dpos", 2, SysFull \cup NameFull, FALSE),
           W("raft3", FALSE, "raft", 3, EntOps, FALSE) }

FamAll == {"env", "gov", "pk", "amt"}
FamGov == {"gov", "amt"}

\* generation (ACTION_CONSTRAINT): one line per finished first transaction: context, shape, outcome of the three layers
GenLog == (lastAct'.name = "Finish" /\ lastAct'.step = 0) =>
            PrintT("CS|" \o ToString(<<world.name, sender, tx.ty, tx.rc, tx.ac, tx.am, tx.pr, tx.gl, tx.no, tx.ci, tx.hs, tx.sg,
                                       tx.pk, tx.op, tx.ar, out.types, out.pool, out.exec>>))

\* the probe transactions and the worlds, printed once
ASSUME PrintT("PB|" \o ToString(Probes))
ASSUME PrintT("WD|" \o ToString({[name |-> w.name, public |-> w.public, consensus |-> w.consensus, fork |-> w.fork] : w \in Worlds}))
=============================================================================
