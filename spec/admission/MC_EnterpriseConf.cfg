\* exhaustive design check, quick tier: every history of at most 3 transactions over the full alphabet
SPECIFICATION Spec
CONSTANTS
  Ops <- OpsFull
  MaxLen = 3
  SepGuard = TRUE
  Raft = TRUE
  InitStore <- WorldStore
  InitAdmins <- WorldAdmins
VIEW viewN
INVARIANTS TypeOK Total ReadersDefined RoundTripState
PROPERTIES RoundTrip Frame
CHECK_DEADLOCK FALSE
