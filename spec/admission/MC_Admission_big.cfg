\* exhaustive design check, thorough tier: six worlds, argument lists <= 3, every family, one transaction
SPECIFICATION Spec
CONSTANTS
  Worlds <- WBig
  MaxTx = 1
VIEW view
INVARIANTS TypeOK Total AdmittedExecutes LayersInOrder
PROPERTIES FactsOnlyByExecute PhaseAdvances
CHECK_DEADLOCK TRUE
