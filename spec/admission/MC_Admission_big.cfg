\* exhaustive design check, thorough tier: six worlds, argument lists <= 3, every family, one transaction
SPECIFICATION Spec
CONSTANTS
  Worlds <- WBig
  MaxArgs = 3
  MaxTx = 1
  Families <- FamAll
VIEW view
INVARIANTS TypeOK Total AdmittedExecutes LayersInOrder
PROPERTIES FactsOnlyByExecute PhaseAdvances
CHECK_DEADLOCK TRUE
