\* exhaustive design check, thorough tier: ten worlds (WBig), argument lists <= 3 where the calls live and <= 2 elsewhere, one transaction
SPECIFICATION Spec
CONSTANTS
  Worlds <- WBig
  MaxTx = 1
VIEW view
INVARIANTS TypeOK Total AdmittedExecutes LayersInOrder
PROPERTIES FactsOnlyByExecute PhaseAdvances
CHECK_DEADLOCK TRUE
