\* self-test of the model: without the separator check of checkArgs TLC must find Total (and RoundTrip) violated
SPECIFICATION Spec
CONSTANTS
  Ops <- OpsFull
  MaxLen = 3
  SepGuard = FALSE
  Raft = TRUE
  InitStore <- WorldStore
  InitAdmins <- WorldAdmins
VIEW viewN
INVARIANTS TypeOK Total
CHECK_DEADLOCK FALSE
