\* generation, quick tier: every transition out of every state reachable in fewer than 3 transactions (full alphabet)
SPECIFICATION Spec
CONSTANTS
  Ops <- OpsFull
  MaxLen = 3
  SepGuard = TRUE
  Raft = TRUE
  InitStore <- WorldStore
  InitAdmins <- WorldAdmins
VIEW viewN
ACTION_CONSTRAINT GenLog
CHECK_DEADLOCK FALSE
