\* thorough tier: fork heights in 0..3 (256 configurations), chains of <= 4 blocks, <= 3 start attempts
SPECIFICATION Spec
CONSTANTS
  Heights <- H4
  MaxBest = 4
  MaxStarts = 3
  InPlace = FALSE
VIEW view
INVARIANTS TypeOK VersionMonotone ForkFlagsAgree VersionStable ReceiptFormatStable AssignedMonotone DbIsCfg HeaderMatchesId
PROPERTIES ParentUnchangedByChild RestartSameAccepted RefusedStartNoChange
CHECK_DEADLOCK FALSE
