\* verdict: start decisions are read from the log, the properties are evaluated on every state
SPECIFICATION TraceSpec
CONSTANTS
  Heights = {0}
  MaxBest = 1000000
  MaxStarts = 1000000
  InPlace = FALSE
  Strict = FALSE
INVARIANTS AssignedMonotone HeaderMatchesId
POSTCONDITION TraceAccepted
CHECK_DEADLOCK FALSE
