SPECIFICATION TraceSpec
CONSTANTS
  Heights = {0}
  MaxBest = 1000000
  MaxStarts = 1000000
INVARIANTS VersionStable ReceiptFormatStable AssignedMonotone DbIsCfg
POSTCONDITION TraceAccepted
CHECK_DEADLOCK FALSE
