\* exhaustive design check: fork heights in {0,2,3} (all 81 configurations, also non-monotone ones), chains of <= 3 blocks, <= 3 start attempts
SPECIFICATION Spec
CONSTANTS
  Heights <- H3
  MaxBest = 3
  MaxStarts = 3
VIEW view
INVARIANTS TypeOK VersionMonotone ForkFlagsAgree VersionStable ReceiptFormatStable AssignedMonotone DbIsCfg
PROPERTIES RestartSameAccepted RefusedStartNoChange
CHECK_DEADLOCK FALSE
