\* generation: every transition (node state, action, node state) of the model with fork heights in {0,2,3}, chains of <= 3 blocks
SPECIFICATION Spec
CONSTANTS
  Heights <- H3
  MaxBest = 3
  MaxStarts = 1000000
  InPlace = FALSE
VIEW genView
ACTION_CONSTRAINT GenLog
CHECK_DEADLOCK FALSE
