\* generation: every case of the exhaustive configuration, with the model's prediction, printed once
SPECIFICATION Spec
CONSTANTS
  MaxList = 4
  Leaves <- L3
  MaxEv = 1
  MaxRcpt = 1
  CodecStatuses = {"SUCCESS", "ERROR"}
  CumLens = {0, 1}
  NameChars = {0, 1}
  MaxName = 2
VIEW view
ACTION_CONSTRAINT GenLog
CHECK_DEADLOCK FALSE
