---------------------------- MODULE Commitments -----------------------------
(***************************************************************************)
(* C19 -- canonical, binding encodings of blocks, transactions, receipts   *)
(* and chain ids (types/blockchain.go, account/key/sign.go,                *)
(* types/receipt.go, internal/merkle/merkle.go, types/genesis.go).         *)
(*                                                                         *)
(* What an explicit-state model decides here (DESIGN section 7):           *)
(*  1. the decision tables: which field is written into which digest, per  *)
(*     kind / format version / status (the digest writers of the code,     *)
(*     transcribed field by field), against the set of fields the property *)
(*     REQUIRES to be committed.  Digests are symbolic: injective in the   *)
(*     tuple of the fields written (collision resistance of sha256 and the *)
(*     observation that a change of ONE field always changes the written   *)
(*     byte string, also without length prefixes).                         *)
(*  2. the merkle root over an ordered list exactly as                     *)
(*     merkle.CalculateMerkleTree computes it (padding by copying the left *)
(*     sibling), over an injective symbolic node hash.                     *)
(*  3. the layout of the persistence formats at the level of cells (one    *)
(*     cell = one fixed-width item or one length prefix or one byte of a   *)
(*     variable-length item): the encoder and the position arithmetic of   *)
(*     the decoder of types/receipt.go and of ChainID.Bytes/Read are       *)
(*     transcribed, so that decode(encode(x)) = x is decided for every     *)
(*     shape of x (lengths 0..1, 0..MaxEv events, both formats).  Fidelity *)
(*     for arbitrary byte contents is sampled by the harness.              *)
(*                                                                         *)
(* The state is the case under examination (`cur`); TLC's enumeration of   *)
(* the cases is the test plan that the harness replays on the real code.   *)
(***************************************************************************)
EXTENDS Integers, Sequences, FiniteSets, TLC, Util

CONSTANTS MaxList,     \* longest transaction / receipt list
          Leaves,      \* distinct list elements (strings)
          MaxEv,       \* most events per receipt in the layout part
          MaxRcpt,     \* most receipts per stored container in the layout part
          CodecStatuses, \* receipt statuses in the layout part (the status byte itself is covered by the mutation part)
          CumLens,     \* lengths of Receipt.CumulativeFeeUsed (nothing in the node sets the field today; the format carries it)
          NameChars,   \* alphabet of ChainID.Magic / Consensus; 0 stands for the separator '/'
          MaxName      \* longest Magic / Consensus

VARIABLES cur,         \* the case under examination
          lastAct

vars == <<cur, lastAct>>

SeqSet(s) == {s[i] : i \in DOMAIN s}

\* ======================================================================== 1. decision tables
HeaderFields == <<"ChainID", "PrevBlockHash", "BlockNo", "Timestamp", "BlocksRootHash", "TxsRootHash",
                  "ReceiptsRootHash", "Confirms", "PubKey", "CoinbaseAccount", "Sign", "Consensus">>
TxFields == <<"Nonce", "Account", "Recipient", "Amount", "Payload", "GasLimit", "GasPrice", "Type", "ChainIdHash", "Sign">>
ReceiptFields == <<"ContractAddress", "Status", "Ret", "TxHash", "FeeUsed", "CumulativeFeeUsed", "Bloom", "Events",
                   "BlockNo", "BlockHash", "TxIndex", "From", "To", "FeeDelegation", "GasUsed">>
EventFields == <<"ContractAddress", "EventName", "JsonArgs", "EventIdx", "TxHash", "BlockHash", "BlockNo", "TxIndex">>

\* ---- the writers of the code, field by field
\* types/blockchain.go writeBlockHeader / writeBlockHeaderOmitSign
BlockHashWriter == <<"ChainID", "PrevBlockHash", "BlockNo", "Timestamp", "BlocksRootHash", "TxsRootHash",
                     "ReceiptsRootHash", "Confirms", "PubKey", "CoinbaseAccount", "Sign", "Consensus">>
BlockSignWriter == <<"ChainID", "PrevBlockHash", "BlockNo", "Timestamp", "BlocksRootHash", "TxsRootHash",
                     "ReceiptsRootHash", "Confirms", "PubKey", "CoinbaseAccount", "Consensus">>
\* types/blockchain.go Tx.CalculateTxHash / account/key/sign.go CalculateHashWithoutSign
TxHashWriter == <<"Nonce", "Account", "Recipient", "Amount", "Payload", "GasLimit", "GasPrice", "Type", "ChainIdHash", "Sign">>
TxSignWriter == <<"Nonce", "Account", "Recipient", "Amount", "Payload", "GasLimit", "GasPrice", "Type", "ChainIdHash">>
\* types/receipt.go marshalBody (fmt "v1") / marshalBodyV2 (fmt "v2"); merkle = the commitment format, else the stored one.
\* "Events" stands for the event counter written last.
RcptBodyWriter(fmt, status, merkle) ==
     <<"ContractAddress", "Status">>
  \o (IF ~merkle \/ status # "ERROR" THEN <<"Ret">> ELSE <<>>)       \* the return value of a failed execution is not committed
  \o <<"TxHash", "FeeUsed", "CumulativeFeeUsed">>
  \o (IF fmt = "v2" THEN <<"GasUsed", "FeeDelegation">> ELSE <<>>)
  \o <<"Bloom", "Events">>
EvMerkleWriter == <<"ContractAddress", "EventName", "JsonArgs", "TxHash", "EventIdx">>    \* Event.marshalCommonBinary
EvStoreWriter  == <<"ContractAddress", "EventName", "JsonArgs", "EventIdx">>              \* Event.marshalStoreBinary
EvDerived      == {"TxHash"}      \* restored from the receipt by SetMemoryInfo on every read path

Statuses == {"SUCCESS", "CREATED", "ERROR", "RECREATED"}
Fmts     == {"v1", "v2"}         \* receipts of blocks below / at-or-above the V2 fork height

EvName(i, f) == "Ev" \o ToString(i) \o "." \o f
EvFieldSet(nev, fs) == {EvName(i, f) : i \in 1..nev, f \in fs}

\* a shape fixes what the harness builds: header/tx: "full" (every field set) or "sparse" (variable-length fields
\* empty, numbers zero); receipt: format, status, number of events, whether their address equals the receipt's
\* (abbreviated in the stored format), whether the receipt carries a bloom filter
PlainShapes   == {[p |-> "full"], [p |-> "sparse"]}
ReceiptShapes == {[fmt |-> f, status |-> s, nev |-> n, same |-> sm, bloom |-> b] :
                     f \in Fmts, s \in Statuses, n \in 0..2, sm \in BOOLEAN, b \in BOOLEAN}
Shapes(kind) == IF kind = "receipt" THEN {s \in ReceiptShapes : s.nev = 0 => s.same} ELSE PlainShapes
Kinds == {"header", "tx", "receipt"}

FieldsOf(kind, shape) ==
  CASE kind = "header"  -> SeqSet(HeaderFields)
    [] kind = "tx"      -> SeqSet(TxFields)
    [] kind = "receipt" -> SeqSet(ReceiptFields) \cup EvFieldSet(shape.nev, SeqSet(EventFields))

DigestsOf(kind) ==
  CASE kind = "header"  -> {"blockHash", "blockSignDigest"}
    [] kind = "tx"      -> {"txHash", "txSignDigest"}
    [] kind = "receipt" -> {"leaf", "root"}      \* ReceiptMerkle.GetHash and Receipts.MerkleRoot of a list holding it

\* the fields a digest is computed from (as coded)
Committed(d, kind, shape) ==
  CASE d = "blockHash"       -> SeqSet(BlockHashWriter)
    [] d = "blockSignDigest" -> SeqSet(BlockSignWriter)
    [] d = "txHash"          -> SeqSet(TxHashWriter)
    [] d = "txSignDigest"    -> SeqSet(TxSignWriter)
    [] d \in {"leaf", "root"} -> SeqSet(RcptBodyWriter(shape.fmt, shape.status, TRUE))
                                 \cup EvFieldSet(shape.nev, SeqSet(EvMerkleWriter))

\* the fields the property requires a digest to commit to
Required(d, kind, shape) ==
  CASE d = "blockHash"       -> SeqSet(HeaderFields)
    [] d = "blockSignDigest" -> SeqSet(HeaderFields) \ {"Sign"}
    [] d = "txHash"          -> SeqSet(TxFields)
    [] d = "txSignDigest"    -> SeqSet(TxFields) \ {"Sign"}
    [] d \in {"leaf", "root"} ->
          {"Status", "ContractAddress", "TxHash", "FeeUsed", "Events"}
          \cup (IF shape.fmt = "v2" THEN {"GasUsed", "FeeDelegation"} ELSE {})
          \cup (IF shape.status # "ERROR" THEN {"Ret"} ELSE {})
          \cup EvFieldSet(shape.nev, {"ContractAddress", "EventName", "JsonArgs", "EventIdx"})
\* the fields a digest must NOT depend on
Forbidden(d, kind, shape) == IF d \in {"blockSignDigest", "txSignDigest"} THEN {"Sign"} ELSE {}

\* what the stored format of a receipt keeps (or the readers restore)
StoredFields(shape) == SeqSet(RcptBodyWriter(shape.fmt, shape.status, FALSE))
                       \cup EvFieldSet(shape.nev, SeqSet(EvStoreWriter) \cup EvDerived)

\* symbolic digest of an object whose fields all hold 0 except the mutated one: the valuation of the committed fields
Valuation(kind, shape, mut) == [f \in FieldsOf(kind, shape) |-> IF f = mut THEN 1 ELSE 0]
Digest(d, kind, shape, mut) == <<d, Restrict(Valuation(kind, shape, mut), Committed(d, kind, shape))>>
Changed(kind, shape, mut) == {d \in DigestsOf(kind) : Digest(d, kind, shape, mut) # Digest(d, kind, shape, "none")}

\* ======================================================================== 2. merkle root over an ordered list (as coded)
\* nodes: <<"L", x>> leaf (hash of an entry), <<"N", l, r>> = sha256(l || r), <<"nil">> absent, <<"zero">> = 32 zero bytes
Nil  == <<"nil">>
Zero == <<"zero">>
RECURSIVE Pow2AtLeast(_, _)
Pow2AtLeast(x, n) == IF x >= n THEN x ELSE Pow2AtLeast(2 * x, n)       \* getLeafCount (its bit test is dead code: `num&num - 1` is num-1)
Level0(l) == [i \in 1..Pow2AtLeast(1, Len(l)) |-> IF i <= Len(l) THEN <<"L", l[i]>> ELSE Nil]
\* one level up: nil parent of two nil children; a missing right child is replaced by a COPY OF THE LEFT one
LevelUp(lv) == [i \in 1..(Len(lv) \div 2) |->
                  LET lc == lv[2 * i - 1]
                      rc == lv[2 * i]
                  IN IF lc = Nil THEN Nil ELSE IF rc = Nil THEN <<"N", lc, lc>> ELSE <<"N", lc, rc>>]
RECURSIVE Collapse(_)
Collapse(lv) == IF Len(lv) = 1 THEN lv[1] ELSE Collapse(LevelUp(lv))
Root(l) == IF Len(l) = 0 THEN Zero ELSE Collapse(Level0(l))

Lists == UNION {[1..n -> Leaves] : n \in 0..MaxList}
BloomLeaf == "BLOOM"                                   \* the block bloom filter is appended as the last entry
Entries(l, bloom) == IF bloom THEN Append(l, BloomLeaf) ELSE l
RootTab == [b \in BOOLEAN |-> [l \in Lists |-> Root(Entries(l, b))]]        \* (tables: evaluated once)

\* the full leaf row the padding rule makes of a list (what the root really commits to)
RECURSIVE ExpandTo(_, _)
ExpandTo(l, w) ==      \* w: block width of the current level (1, 2, 4 ...); Len(l) is a multiple of w (lower levels were completed)
  IF Len(l) <= w THEN l                                   \* one block left: the root
  ELSE LET nb == Len(l) \div w
           l2 == IF nb % 2 = 1 THEN l \o SubSeq(l, Len(l) - w + 1, Len(l)) ELSE l      \* odd number of blocks: the last one is repeated
       IN ExpandTo(l2, 2 * w)
Expand(l) == ExpandTo(l, 1)
Injective(l) == \A i, j \in DOMAIN l : l[i] = l[j] => i = j
ExpandTab == [b \in BOOLEAN |-> [l \in Lists |-> Expand(Entries(l, b))]]
InjectiveLists == {l \in Lists : Injective(l)}

\* ======================================================================== 3. layout of the persistence formats (cells)
At(d, p)     == IF p \in 1..Len(d) THEN d[p] ELSE 0 - 1
InR(d, p, n) == n >= 0 /\ p >= 1 /\ p + n - 1 <= Len(d)
Sub(d, p, n) == IF InR(d, p, n) THEN SubSeq(d, p, p + n - 1) ELSE <<>>
B2C(b) == IF b THEN 1 ELSE 0
StatusCode(s) == CASE s = "SUCCESS" -> 0 [] s = "CREATED" -> 1 [] s = "ERROR" -> 2 [] s = "RECREATED" -> 3
StatusOf(c)   == CASE c = 0 -> "SUCCESS" [] c = 1 -> "CREATED" [] c = 2 -> "ERROR" [] c = 3 -> "RECREATED" [] OTHER -> ""

\* ---- receipts.  A receipt: addr (1 cell, never 0: real addresses start with 0x02/0x03/0x0C/0x80), status, ret, txh (1 cell),
\* fee, cum (variable), gas (1 cell, v2), fd (v2), bloom (<<>> or one cell), events (addr, name, args, idx)
Strs(lens) == UNION {[1..n -> {7}] : n \in lens}
Addrs == {1, 2}
EventsOf == [addr : Addrs, name : Strs({0, 1}), args : Strs({1}), idx : {0, 1}]
RECURSIVE SeqsUpTo(_, _)
SeqsUpTo(S, n) == IF n = 0 THEN {<<>>} ELSE LET T == SeqsUpTo(S, n - 1) IN T \cup {Append(t, x) : t \in {u \in T : Len(u) = n - 1}, x \in S}
ReceiptsOf(fmt, maxev) ==
  [addr : Addrs, status : CodecStatuses, ret : Strs({0, 1}), txh : {9}, fee : Strs({0, 1}), cum : Strs(CumLens),
   gas : IF fmt = "v2" THEN {5} ELSE {0}, fd : IF fmt = "v2" THEN BOOLEAN ELSE {FALSE},
   bloom : {<<>>, <<8>>}, events : SeqsUpTo(EventsOf, maxev)]
\* the containers examined (a configuration may substitute a different family)
Containers(fmt) == SeqsUpTo(ReceiptsOf(fmt, MaxEv), MaxRcpt)

EncEvStore(ev, r) == (IF ev.addr = r.addr THEN <<0>> ELSE <<ev.addr>>)       \* same address as the receipt: one zero byte
                     \o <<Len(ev.name)>> \o ev.name \o <<Len(ev.args)>> \o ev.args \o <<ev.idx>>
RECURSIVE EncEvs(_, _, _)
EncEvs(evs, r, i) == IF i > Len(evs) THEN <<>> ELSE EncEvStore(evs[i], r) \o EncEvs(evs, r, i + 1)
EncBodyStore(r, fmt) ==
     <<r.addr, StatusCode(r.status), Len(r.ret)>> \o r.ret \o <<r.txh, Len(r.fee)>> \o r.fee \o <<Len(r.cum)>> \o r.cum
  \o (IF fmt = "v2" THEN <<r.gas, B2C(r.fd)>> ELSE <<>>)
  \o (IF r.bloom = <<>> THEN <<0>> ELSE <<1>> \o r.bloom)
  \o <<Len(r.events)>>
EncReceipt(r, fmt) == EncBodyStore(r, fmt) \o EncEvs(r.events, r, 1)
RECURSIVE EncRs(_, _, _)
EncRs(rs, fmt, i) == IF i > Len(rs) THEN <<>> ELSE EncReceipt(rs[i], fmt) \o EncRs(rs, fmt, i + 1)
\* Receipts.MarshalBinary: bloom flag (+ the filter), the count, the receipts
EncContainer(rs, fmt, bloom) == (IF bloom THEN <<1, 8>> ELSE <<0>>) \o <<Len(rs)>> \o EncRs(rs, fmt, 1)

\* Event.unmarshalStoreBinary at position p
DecEv(d, p, raddr) ==
  LET abbr == At(d, p) = 0
      addr == IF abbr THEN raddr ELSE At(d, p)
      ln   == At(d, p + 1)
      name == Sub(d, p + 2, ln)
      q    == p + 2 + ln
      la   == At(d, q)
      args == Sub(d, q + 1, la)
      z    == q + 1 + la
  IN [ok |-> InR(d, p, 2) /\ InR(d, p + 2, ln) /\ InR(d, q, 1) /\ InR(d, q + 1, la) /\ InR(d, z, 1),
      ev |-> [addr |-> addr, name |-> name, args |-> args, idx |-> At(d, z)], next |-> z + 1]
RECURSIVE DecEvs(_, _, _, _)
DecEvs(d, p, n, raddr) ==
  IF n <= 0 THEN [ok |-> n = 0, evs |-> <<>>, next |-> p]
  ELSE LET e == DecEv(d, p, raddr)
       IN IF ~e.ok THEN [ok |-> FALSE, evs |-> <<>>, next |-> p]
          ELSE LET rest == DecEvs(d, e.next, n - 1, raddr)
               IN [ok |-> rest.ok, evs |-> <<e.ev>> \o rest.evs, next |-> rest.next]
\* Receipt.unmarshalBody / unmarshalBodyV2 + the event loop, at position p: the decoder reads the items in the order and
\* with the widths the encoder wrote them.
DecReceipt(d, p, fmt) ==
  LET addr == At(d, p)
      st   == At(d, p + 1)
      l1   == At(d, p + 2)
      ret  == Sub(d, p + 3, l1)
      p1   == p + 3 + l1
      txh  == At(d, p1)
      l2   == At(d, p1 + 1)
      fee  == Sub(d, p1 + 2, l2)
      p2   == p1 + 2 + l2
      l3   == At(d, p2)
      cum  == Sub(d, p2 + 1, l3)
      p3   == p2 + 1 + l3
      gas  == IF fmt = "v2" THEN At(d, p3) ELSE 0
      fd   == IF fmt = "v2" THEN At(d, p3 + 1) = 1 ELSE FALSE
      p4   == IF fmt = "v2" THEN p3 + 2 ELSE p3
      bf   == At(d, p4)
      blm  == IF bf = 1 THEN Sub(d, p4 + 1, 1) ELSE <<>>
      p5   == p4 + 1 + (IF bf = 1 THEN 1 ELSE 0)
      p6   == p5
      evc  == At(d, p6)
      hdr  == InR(d, p, 3) /\ InR(d, p + 3, l1) /\ InR(d, p1, 2) /\ InR(d, p1 + 2, l2) /\ InR(d, p2, 1) /\ InR(d, p2 + 1, l3)
              /\ InR(d, p3, p4 - p3 + 1) /\ InR(d, p4 + 1, p5 - p4 - 1) /\ InR(d, p6, 1)
      evs  == IF hdr THEN DecEvs(d, p6 + 1, evc, addr) ELSE [ok |-> FALSE, evs |-> <<>>, next |-> p]
  IN [ok |-> hdr /\ evs.ok,
      r |-> [addr |-> addr, status |-> StatusOf(st), ret |-> ret, txh |-> txh, fee |-> fee, cum |-> cum, gas |-> gas, fd |-> fd,
             bloom |-> blm, events |-> evs.evs],
      next |-> evs.next]
RECURSIVE DecRs(_, _, _, _)
DecRs(d, p, n, fmt) ==
  IF n <= 0 THEN [ok |-> n = 0, rs |-> <<>>]
  ELSE LET x == DecReceipt(d, p, fmt)
       IN IF ~x.ok THEN [ok |-> FALSE, rs |-> <<>>]
          ELSE LET rest == DecRs(d, x.next, n - 1, fmt) IN [ok |-> rest.ok, rs |-> <<x.r>> \o rest.rs]
\* Receipts.UnmarshalBinary
DecContainer(d, fmt) ==
  LET bloom == At(d, 1) = 1
      p     == IF bloom THEN 3 ELSE 2
      x     == DecRs(d, p + 1, At(d, p), fmt)
  IN [ok |-> InR(d, 1, p) /\ x.ok, rs |-> x.rs, bloom |-> bloom]
RoundTrip(rs, fmt, bloom) == DecContainer(EncContainer(rs, fmt, bloom), fmt)
RoundTripOk(rs, fmt, bloom) == RoundTrip(rs, fmt, bloom) = [ok |-> TRUE, rs |-> rs, bloom |-> bloom]

\* ---- chain ids: ChainID.Bytes = version (4 bytes: one cell) | public | mainnet | Magic "/" Consensus; Read splits the
\* rest at the separator and wants exactly two parts.  Bytes refuses an id whose Magic or Consensus contains the
\* separator (Genesis.Validate then refuses the genesis): such an id is never written anywhere.
Names == UNION {[1..n -> NameChars] : n \in 0..MaxName}
CidVersions == {0, 2, 5}
ChainIds == [ver : CidVersions, pub : BOOLEAN, main : BOOLEAN, magic : Names, cons : Names]
SepPositions(t) == {i \in DOMAIN t : t[i] = 0}
Encodable(c) == SepPositions(c.magic) = {} /\ SepPositions(c.cons) = {}
EncCid(c) == <<c.ver, B2C(c.pub), B2C(c.main)>> \o c.magic \o <<0>> \o c.cons          \* defined for Encodable(c) only
DecCid(d) ==
  LET t  == Sub(d, 4, Len(d) - 3)
      sp == SepPositions(t)
  IN IF Len(d) < 3 \/ Cardinality(sp) # 1 THEN [ok |-> FALSE]
     ELSE LET s == CHOOSE i \in sp : TRUE
          IN [ok |-> TRUE, c |-> [ver |-> d[1], pub |-> d[2] = 1, main |-> d[3] = 1,
                                  magic |-> SubSeq(t, 1, s - 1), cons |-> SubSeq(t, s + 1, Len(t))]]
CidRoundTripOk(c) == DecCid(EncCid(c)) = [ok |-> TRUE, c |-> c]
EncodableIds == {c \in ChainIds : Encodable(c)}
CidTab == [c \in EncodableIds |-> EncCid(c)]
\* types.MakeChainId: the version prefix replaced, everything else kept
MakeChainId(d, v) == [d EXCEPT ![1] = v]
EqualWithoutVersion(a, b) == Len(a) >= 1 /\ Len(b) >= 1 /\ SubSeq(a, 2, Len(a)) = SubSeq(b, 2, Len(b))

\* genesis: Genesis.Bytes (gob) keeps everything but the balance map, whose total is stored under its own key
GenesisFields    == {"ID", "Timestamp", "Balance", "BPs", "EnterpriseBPs"}
GenesisPersisted == GenesisFields \ {"Balance"}

\* ======================================================================== 4. the cases
Idle == [part |-> "idle"]
Init == cur = Idle /\ lastAct = [name |-> "Init"]

PickObject(kind, shape) ==
  /\ cur = Idle
  /\ cur' = [part |-> "mutate", kind |-> kind, shape |-> shape, field |-> "none"]
  /\ lastAct' = [name |-> "PickObject", kind |-> kind, shape |-> shape]
\* change exactly one field of the object
Mutate(f) ==
  /\ cur.part = "mutate" /\ cur.field = "none"
  /\ f \in FieldsOf(cur.kind, cur.shape)
  /\ cur' = [cur EXCEPT !.field = f]
  /\ lastAct' = [name |-> "Mutate", field |-> f]
PickList(l, bloom) ==
  /\ cur = Idle
  /\ cur' = [part |-> "list", list |-> l, bloom |-> bloom]
  /\ lastAct' = [name |-> "PickList", list |-> l, bloom |-> bloom]
\* write a receipts container in the format of the block's version and read it back
StoreReceipts(rs, fmt, bloom) ==
  /\ cur = Idle
  /\ cur' = [part |-> "codec", rs |-> rs, fmt |-> fmt, bloom |-> bloom]
  /\ lastAct' = [name |-> "StoreReceipts", rs |-> rs, fmt |-> fmt, bloom |-> bloom]
StoreChainId(c) ==
  /\ cur = Idle
  /\ cur' = [part |-> "cid", c |-> c]
  /\ lastAct' = [name |-> "StoreChainId", c |-> c]

Next == \/ \E k \in Kinds : \E s \in Shapes(k) : PickObject(k, s)
        \/ \E f \in SeqSet(HeaderFields) \cup SeqSet(TxFields) \cup SeqSet(ReceiptFields) \cup EvFieldSet(2, SeqSet(EventFields)) : Mutate(f)
        \/ \E b \in BOOLEAN : \E l \in Lists : PickList(l, b)
        \/ \E fmt \in Fmts : \E b \in BOOLEAN : \E rs \in Containers(fmt) : StoreReceipts(rs, fmt, b)
        \/ \E c \in ChainIds : StoreChainId(c)
Spec == Init /\ [][Next]_vars

\* what the model predicts for a case (printed with every generated transition, compared with the real code)
Outcome(s) ==
  CASE s.part = "mutate" /\ s.field # "none" ->
         [changed   |-> Changed(s.kind, s.shape, s.field),
          required  |-> {d \in DigestsOf(s.kind) : s.field \in Required(d, s.kind, s.shape)},
          forbidden |-> {d \in DigestsOf(s.kind) : s.field \in Forbidden(d, s.kind, s.shape)},
          stored    |-> s.kind = "receipt" /\ s.field \in StoredFields(s.shape)]
    [] s.part = "list"  -> [root |-> ToString(RootTab[s.bloom][s.list])]
    [] s.part = "codec" -> [ok |-> RoundTripOk(s.rs, s.fmt, s.bloom)]
    [] s.part = "cid"   -> [stored |-> Encodable(s.c), ok |-> Encodable(s.c) => CidRoundTripOk(s.c),
                            bytes |-> IF Encodable(s.c) THEN EncCid(s.c) ELSE <<>>]
    [] OTHER -> [none |-> TRUE]

\* ======================================================================== 5. properties
TypeOK == cur.part \in {"idle", "mutate", "list", "codec", "cid"}

\* (a) every field the property names is committed by the identifier / root; the signing digest leaves out the signature
Binding ==
  (cur.part = "mutate" /\ cur.field # "none") =>
      \A d \in DigestsOf(cur.kind) :
         /\ cur.field \in Required(d, cur.kind, cur.shape)  => d \in Changed(cur.kind, cur.shape, cur.field)
         /\ cur.field \in Forbidden(d, cur.kind, cur.shape) => d \notin Changed(cur.kind, cur.shape, cur.field)
\* ... and nothing but the signature: the two writers differ exactly in "Sign"
SignExcludesOnlySign ==
  cur.part \in {"idle", "mutate"} =>        \* (a table property; tied to the state only to be listed with the invariants)
  /\ SeqSet(BlockSignWriter) = SeqSet(BlockHashWriter) \ {"Sign"}
  /\ SeqSet(TxSignWriter) = SeqSet(TxHashWriter) \ {"Sign"}
  /\ SeqSet(BlockHashWriter) = SeqSet(HeaderFields) /\ SeqSet(TxHashWriter) = SeqSet(TxFields)
\* every field the roots commit to, and every field the property names, can be recomputed from the stored receipts
StoreCoversCommitment ==
  (cur.part = "mutate" /\ cur.kind = "receipt") =>
      /\ Committed("leaf", "receipt", cur.shape) \subseteq StoredFields(cur.shape)
      /\ Required("leaf", "receipt", cur.shape) \subseteq StoredFields(cur.shape)

\* (b) list commitment.  The padding rule makes a list and the same list with its odd tail repeated indistinguishable
\* (PadEquivalent); that is the ONLY source of equal roots, and lists without repeated elements (what a valid block
\* holds) are bound.  ListBinding is the property as stated; it is checked only by configurations that expect it.
PadEquivalent(l, m) == Expand(l) = Expand(m)
RootCollisionsArePadOnly ==
  cur.part = "list" => \A m \in Lists : (RootTab[cur.bloom][m] = RootTab[cur.bloom][cur.list])
                                          <=> (ExpandTab[cur.bloom][m] = ExpandTab[cur.bloom][cur.list])
DistinctElementsBind ==
  (cur.part = "list" /\ cur.list \in InjectiveLists) => \A m \in InjectiveLists : \A b \in BOOLEAN :
      RootTab[b][m] = RootTab[cur.bloom][cur.list] => (m = cur.list /\ b = cur.bloom)
BloomListsBind ==
  (cur.part = "list" /\ cur.bloom) => \A m \in Lists : \A b \in BOOLEAN :
      RootTab[b][m] = RootTab[TRUE][cur.list] => (m = cur.list /\ b)
ListBinding ==
  cur.part = "list" => \A m \in Lists : \A b \in BOOLEAN :
      RootTab[b][m] = RootTab[cur.bloom][cur.list] => (m = cur.list /\ b = cur.bloom)

\* (c) what is read back is what was written
ReceiptsRoundTrip == cur.part = "codec" => RoundTripOk(cur.rs, cur.fmt, cur.bloom)
ChainIdRoundTrip  == (cur.part = "cid" /\ Encodable(cur.c)) => CidRoundTripOk(cur.c)
ChainIdBinding    == (cur.part = "cid" /\ Encodable(cur.c)) => \A c2 \in EncodableIds : CidTab[c2] = CidTab[cur.c] => c2 = cur.c
MakeChainIdKeepsRest ==
  (cur.part = "cid" /\ Encodable(cur.c)) => \A v \in CidVersions :
      /\ EqualWithoutVersion(MakeChainId(EncCid(cur.c), v), EncCid(cur.c))
      /\ DecCid(MakeChainId(EncCid(cur.c), v)) = [ok |-> TRUE, c |-> [cur.c EXCEPT !.ver = v]]
=============================================================================
