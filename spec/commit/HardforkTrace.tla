---------------------------- MODULE HardforkTrace ----------------------------
(***************************************************************************)
(* Trace validation for C19 (hardfork part): a long random run of the real *)
(* start-up check (ChainService.checkHardfork on a real ChainDB), block    *)
(* appends with real stored receipts and restarts with arbitrary           *)
(* configurations, recorded by harness/chain, is checked against           *)
(* Hardfork.tla.  One ndjson line per event:                               *)
(*   {"ev":"Start","c":[v2,v3,v4,v5],"ok":b}   start attempt and its result *)
(*   {"ev":"AddBlock","no":n,"ver":v,"fmt":"v1"|"v2","pver":p,"pid":b}     *)
(*        version the node gave the block, format in which its receipts    *)
(*        were really stored; pver: the version the PARENT block held in    *)
(*        memory carries in its header after the child's header info was   *)
(*        derived from it, pid: its header still hashes to its identifier  *)
(*   {"ev":"Read","no":n,"ver":v,"fmt":f,"same":b}  after a restart: the    *)
(*        version the node now gives block n, the format its decoder used, *)
(*        whether the receipts read back equal what was written            *)
(*   {"ev":"Stop"}   {"ev":"Reset"} (a fresh chain database)               *)
(* The verdict configuration (HardforkTrace.cfg, Strict = FALSE) takes the *)
(* start decisions from the log: a start the code refuses is never an      *)
(* alarm, a start it accepts must leave every block its version and        *)
(* receipt format (invariants on the history variables).                   *)
(***************************************************************************)
EXTENDS Hardfork, Json

TraceLog == ndJsonDeserialize("trace.ndjson")

CONSTANT Strict    \* TRUE: every start decision must be the model's (diagnostic: does the code still follow the algorithm);
                   \* FALSE: the decision is read from the log and only the properties are evaluated (the verdict)

VARIABLES l
tvars == <<vars, l>>

CfgOf(s) == [v \in Vers |-> s[v - 1]]
Ev == TraceLog[l]
IsEvent(n) == l <= Len(TraceLog) /\ TraceLog[l].ev = n

TraceInit == Init /\ l = 1

TraceStart == /\ IsEvent("Start")
              /\ StartWith(CfgOf(Ev.c), Ev.ok)
              /\ Strict => Ev.ok = Decision(CfgOf(Ev.c))
              /\ l' = l + 1
TraceStop == IsEvent("Stop") /\ Stop /\ l' = l + 1
TraceAddBlock == /\ IsEvent("AddBlock")
                 /\ AddBlockWith(Ev.ver, Ev.fmt)
                 /\ Ev.no = best + 1
                 /\ Ev.pver = IdVer(best) /\ Ev.pid              \* ParentUnchangedByChild, observed
                 /\ Strict => (Ev.ver = Version(cfg, best + 1) /\ Ev.fmt = Fmt(cfg, best + 1))
                 /\ l' = l + 1
\* reading an existing block: no change of the model state, but what the node reports must be the history
TraceRead == /\ IsEvent("Read")
             /\ up /\ Ev.no \in 1..best
             /\ Ev.ver = assigned[Ev.no] /\ Ev.fmt = rfmt[Ev.no] /\ Ev.same
             /\ UNCHANGED vars
             /\ l' = l + 1
TraceReset == /\ IsEvent("Reset")
              /\ up' = FALSE /\ db' = NoDb /\ best' = 0 /\ assigned' = <<>> /\ rfmt' = <<>>
              /\ hdr' = <<0>> /\ buf' = <<GenesisVer>>
              /\ UNCHANGED <<cfg, starts>>
              /\ lastAct' = [name |-> "Reset"]
              /\ l' = l + 1

TraceNext == TraceStart \/ TraceStop \/ TraceAddBlock \/ TraceRead \/ TraceReset
TraceSpec == TraceInit /\ [][TraceNext]_tvars

TraceAccepted == TLCGet("stats").diameter - 1 = Len(TraceLog)
=============================================================================
