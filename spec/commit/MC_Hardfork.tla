----------------------------- MODULE MC_Hardfork -----------------------------
EXTENDS Hardfork

H4 == {0, 1, 2, 3}
H3 == {0, 2, 3}
H5 == {0, 1, 2, 3, 5}

genView == <<up, cfg, db, best>>
\* ACTION_CONSTRAINT printing every transition (generation configs only); the histories are not needed by the replay
GenLog == LogTransition([up |-> up, cfg |-> cfg, db |-> db, best |-> best], lastAct', [up |-> up', cfg |-> cfg', db |-> db', best |-> best'])
=============================================================================
