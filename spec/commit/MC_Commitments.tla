--------------------------- MODULE MC_Commitments ---------------------------
EXTENDS Commitments

L3 == {"a", "b", "c"}
L2 == {"a", "b"}

\* thorough tier: one receipt with up to two events, and every pair of receipts without events or with one
\* (the second receipt must start where the first one ended)
BigContainers(fmt) == SeqsUpTo(ReceiptsOf(fmt, 2), 1)
                      \cup {<<r1, r2>> : r1 \in {r \in ReceiptsOf(fmt, 1) : r.status = "SUCCESS" /\ r.addr = 1 /\ r.ret = <<>>},
                                         r2 \in {r \in ReceiptsOf(fmt, 1) : r.status = "ERROR" /\ r.fee = <<7>> /\ r.bloom = <<>>}}

view == cur
\* ACTION_CONSTRAINT printing every examined case with the model's prediction (generation configs only)
GenLog == LogTransition(cur, lastAct', Outcome(cur'))
=============================================================================
