--------------------------- MODULE MC_Commitments ---------------------------
EXTENDS Commitments

L3 == {"a", "b", "c"}
L2 == {"a", "b"}

\* thorough tier: one receipt with up to two events (statuses SUCCESS / ERROR), one receipt of every status with up to
\* one event, and pairs of receipts (the second receipt must start where the first one ended)
BigContainers(fmt) ==
       {<<r>> : r \in {x \in ReceiptsOf(fmt, 2) : x.status \in {"SUCCESS", "ERROR"}}}
  \cup SeqsUpTo(ReceiptsOf(fmt, 1), 1)
  \cup {<<r1, r2>> : r1 \in {r \in ReceiptsOf(fmt, 1) : r.status = "SUCCESS" /\ r.addr = 1 /\ r.ret = <<>> /\ r.fee = <<7>>},
                     r2 \in {r \in ReceiptsOf(fmt, 1) : r.status = "ERROR" /\ r.fee = <<7>> /\ r.bloom = <<>> /\ r.ret = <<7>>}}

view == cur
\* ACTION_CONSTRAINT printing every examined case with the model's prediction (generation configs only)
GenLog == LogTransition(cur, lastAct', Outcome(cur'))
=============================================================================
