\* the aliasing variant of MakeChainId (version prefix overwritten in the parent's buffer): HeaderMatchesId / ParentUnchangedByChild
\* are expected to FAIL here - shows that the property is not vacuous.  Not run by the check.
\* exhaustive design check: fork heights in {0,2,3} (all 81 configurations, also non-monotone ones), chains of <= 3 blocks, <= 3 start attempts
SPECIFICATION Spec
CONSTANTS
  Heights <- H3
  MaxBest = 3
  MaxStarts = 3
  InPlace = TRUE
VIEW view
INVARIANTS TypeOK VersionMonotone ForkFlagsAgree VersionStable ReceiptFormatStable AssignedMonotone DbIsCfg HeaderMatchesId
PROPERTIES ParentUnchangedByChild RestartSameAccepted RefusedStartNoChange
CHECK_DEADLOCK FALSE
