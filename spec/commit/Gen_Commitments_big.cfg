\* generation, thorough tier: every case of MC_Commitments_big.cfg with the model's prediction
SPECIFICATION Spec
CONSTANTS
  MaxList = 6
  Leaves <- L3
  MaxEv = 2
  MaxRcpt = 1
  CodecStatuses = {"SUCCESS", "CREATED", "ERROR", "RECREATED"}
  CumLens = {0, 1}
  NameChars = {0, 1}
  MaxName = 3
  Containers <- BigContainers
VIEW view
ACTION_CONSTRAINT GenLog
CHECK_DEADLOCK FALSE
