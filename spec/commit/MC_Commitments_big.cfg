\* thorough tier: lists of <= 6 entries, receipts with <= 2 events, pairs of receipts per container, names of <= 3 characters
SPECIFICATION Spec
CONSTANTS
  MaxList = 6
  Leaves <- L3
  MaxEv = 2
  MaxRcpt = 1
  CodecStatuses = {"SUCCESS", "CREATED", "ERROR", "RECREATED"}
  CumLens = {0, 1}
  NameChars = {0, 1}
  MaxName = 3
  Containers <- BigContainers
VIEW view
INVARIANTS TypeOK Binding SignExcludesOnlySign StoreCoversCommitment RootCollisionsArePadOnly DistinctElementsBind BloomListsBind
           ReceiptsRoundTrip ChainIdRoundTrip ChainIdBinding MakeChainIdKeepsRest
CHECK_DEADLOCK FALSE
