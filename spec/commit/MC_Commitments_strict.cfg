\* the property AS STATED over the full small domain (repeated list elements, CumulativeFeeUsed of length 1, names that
\* contain the separator).  Expected NOT to come out clean for the code as it is: every counterexample is a hypothesis
\* that the harness replays on the real code (run with -continue to see all of them).
SPECIFICATION Spec
CONSTANTS
  MaxList = 4
  Leaves <- L3
  MaxEv = 1
  MaxRcpt = 1
  CodecStatuses = {"SUCCESS", "ERROR"}
  CumLens = {0, 1}
  NameChars = {0, 1}
  MaxName = 2
VIEW view
INVARIANTS TypeOK Binding SignExcludesOnlySign StoreCoversCommitment ListBinding ReceiptsRoundTrip ChainIdRoundTrip ChainIdBinding
CHECK_DEADLOCK FALSE
