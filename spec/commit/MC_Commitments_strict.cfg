\* the list commitment AS THE PROPERTY STATES IT (a root denotes exactly one list).  Expected NOT to come out clean: the
\* padding rule of the merkle tree (kept as coded - it cannot change without a hardfork) gives <<a,b,c>> and <<a,b,c,c>>
\* the same root.  Not run by the check; the harness reports the collisions found on the real code (open finding
\* C19-merkle-padding-root-not-binding); the node drops bodies that repeat a transaction (DistinctElementsBind is what it relies on).
SPECIFICATION Spec
CONSTANTS
  MaxList = 4
  Leaves <- L3
  MaxEv = 1
  MaxRcpt = 1
  CodecStatuses = {"SUCCESS", "ERROR"}
  CumLens = {0, 1}
  NameChars = {0, 1}
  MaxName = 2
VIEW view
INVARIANTS TypeOK ListBinding
CHECK_DEADLOCK FALSE
