\* diagnostic: additionally every start decision must be the one Hardfork.tla takes
SPECIFICATION TraceSpec
CONSTANTS
  Heights = {0}
  MaxBest = 1000000
  MaxStarts = 1000000
  InPlace = FALSE
  Strict = TRUE
INVARIANTS VersionStable ReceiptFormatStable AssignedMonotone DbIsCfg
POSTCONDITION TraceAccepted
CHECK_DEADLOCK FALSE
