\* exhaustive design check over the domain in which the design holds: CumulativeFeeUsed empty (nothing in the node
\* sets it), chain-id names without the separator; lists of <= 4 entries over 3 elements
SPECIFICATION Spec
CONSTANTS
  MaxList = 4
  Leaves <- L3
  MaxEv = 1
  MaxRcpt = 1
  CodecStatuses = {"SUCCESS", "ERROR"}
  CumLens = {0}
  NameChars = {1, 2}
  MaxName = 2
VIEW view
INVARIANTS TypeOK Binding SignExcludesOnlySign StoreCoversCommitment RootCollisionsArePadOnly DistinctElementsBind BloomListsBind
           ReceiptsRoundTrip ChainIdRoundTrip ChainIdBinding MakeChainIdKeepsRest
CHECK_DEADLOCK FALSE
