\* exhaustive design check: lists of <= 4 entries over 3 elements, receipts with <= 1 event and CumulativeFeeUsed of
\* length 0/1, chain-id names of <= 2 characters over {"/", a} (ids with the separator are refused by the encoder)
SPECIFICATION Spec
CONSTANTS
  MaxList = 4
  Leaves <- L3
  MaxEv = 1
  MaxRcpt = 1
  CodecStatuses = {"SUCCESS", "ERROR"}
  CumLens = {0, 1}
  NameChars = {0, 1}
  MaxName = 2
VIEW view
INVARIANTS TypeOK Binding SignExcludesOnlySign StoreCoversCommitment RootCollisionsArePadOnly DistinctElementsBind BloomListsBind
           ReceiptsRoundTrip ChainIdRoundTrip ChainIdBinding MakeChainIdKeepsRest
CHECK_DEADLOCK FALSE
