------------------------------ MODULE Hardfork ------------------------------
(***************************************************************************)
(* C19 (second half) -- the hardfork version assigned to a height is       *)
(* monotone in the height and stable across restarts; receipts are read    *)
(* back in the format they were written in.                                *)
(* config/hardfork_gen.go (Version, IsV2Fork.., CheckCompatibility,        *)
(* validate), config/hardfork.go (isFork), chain/chainservice.go           *)
(* (checkHardfork), chain/chaindb.go (Hardfork, WriteHardfork,             *)
(* writeReceiptsAndOperations, getReceipts).                               *)
(*                                                                         *)
(* One node with a persistent chain database.  The operator may restart it *)
(* with ANY configuration of fork heights; the start-up check accepts or   *)
(* refuses.  Blocks are appended while the node is up; the version of a    *)
(* block and the format of its receipts are fixed by the configuration in  *)
(* force when it is appended (history variables `assigned`, `rfmt`).       *)
(***************************************************************************)
EXTENDS Integers, Sequences, FiniteSets, TLC, Util

CONSTANTS Heights,      \* candidate fork heights (a finite set of naturals)
          MaxBest,      \* chain length bound
          MaxStarts,    \* bound on the number of start attempts
          InPlace       \* FALSE: MakeChainId allocates the child's chain id (the code); TRUE: it overwrites the version
                        \* prefix in the buffer it was given (the aliasing variant the property excludes; MC_Hardfork_alias.cfg)

Vers == 2..5            \* HardforkConfig has the fields V2..V5
Cfgs == [Vers -> Heights]
NoDb == <<>>            \* no hardfork record in the chain database yet

VARIABLES up,           \* is the node running
          cfg,          \* configuration the node runs (ran) with
          db,           \* the hardfork record of the chain database (NoDb or a Cfgs)
          best,         \* best block number
          assigned,     \* 1..best -> version the block was given when it was appended
          rfmt,         \* 1..best -> format its receipts were written in
          hdr,          \* block h (0..best) -> the buffer that holds the chain id of its header (hdr[h + 1]); blocks held in
                        \* memory share buffers when MakeChainId returns its argument
          buf,          \* buffer -> the version prefix it holds now
          starts,
          lastAct

vars == <<up, cfg, db, best, assigned, rfmt, hdr, buf, starts, lastAct>>
view == <<up, cfg, db, best, assigned, rfmt, hdr, buf>>

GenesisVer == 0         \* the chain id of the genesis block carries the version of the genesis file
\* the version the identifier of block h was computed with
IdVer(h) == IF h = 0 THEN GenesisVer ELSE assigned[h]

\* ------------------------------------------------------------------ the functions of the code
IsFork(forkHeight, h) == forkHeight <= h                                   \* config/hardfork.go isFork
\* HardforkConfig.Version: scans V5 down to V2 and returns the first one whose height is reached; 0 if none
Version(c, h) == IF \E v \in Vers : c[v] <= h THEN Max({v \in Vers : c[v] <= h}) ELSE 0
\* HardforkConfig.validate: heights must not decrease from V2 to V5
Validated(c) == \A v \in 2..4 : c[v] <= c[v + 1]
\* HardforkConfig.CheckCompatibility(dbCfg, best) for a record written by this binary (all four keys present)
Compatible(c, d, h) == /\ Validated(c)
                       /\ \A v \in Vers : (IsFork(c[v], h) \/ IsFork(d[v], h)) => c[v] = d[v]
Fmt(c, h) == IF IsFork(c[2], h) THEN "v2" ELSE "v1"                        \* Receipts.MarshalBinary / UnmarshalBinary: IsV2Fork(blockNo)

\* ------------------------------------------------------------------ actions
Init == /\ up = FALSE /\ cfg = [v \in Vers |-> Min(Heights)] /\ db = NoDb /\ best = 0
        /\ assigned = <<>> /\ rfmt = <<>> /\ starts = 0
        /\ hdr = <<0>> /\ buf = <<GenesisVer>>            \* buffers are numbered from 0: buffer b is buf[b + 1]
        /\ lastAct = [name |-> "Init"]

\* ChainService.checkHardfork at start-up.  FirstStartUnchecked: with an empty record the configuration is written
\* without validate() -- a configuration with decreasing heights runs until the next restart, which then refuses it.
Decision(c) == IF db = NoDb THEN TRUE ELSE Compatible(c, db, best)
\* a start attempt with configuration c whose outcome is ok (the trace specification takes ok from the log)
StartWith(c, ok) ==
  /\ ~up /\ starts < MaxStarts
  /\ up' = ok
  /\ cfg' = IF ok THEN c ELSE cfg
  /\ db' = IF ok THEN c ELSE db                     \* WriteHardfork(config) on every accepted start
  /\ lastAct' = [name |-> "Start", c |-> c, ok |-> ok]
  /\ starts' = starts + 1
  /\ UNCHANGED <<best, assigned, rfmt, hdr, buf>>
Start(c) == StartWith(c, Decision(c))

Stop == /\ up /\ up' = FALSE /\ lastAct' = [name |-> "Stop"]
        /\ UNCHANGED <<cfg, db, best, assigned, rfmt, hdr, buf, starts>>

\* types.MakeChainId(cid, ver) on the buffer pb of the parent's header chain id (NewBlockHeaderInfoFromPrevBlock in the
\* block factories, the mempool for every new best block): the buffer itself when it already holds ver, else a NEW buffer
\* with the prefix replaced.  Returns <<buffer of the child, buffers afterwards>>.
DeriveChainId(pb, ver) ==
  IF buf[pb + 1] = ver THEN <<pb, buf>>
  ELSE IF InPlace THEN <<pb, [buf EXCEPT ![pb + 1] = ver]>>
  ELSE <<Len(buf), Append(buf, ver)>>
\* a block is appended with chain-id version ver, its receipts stored in format f (the trace specification takes both from
\* the log); its header info is derived from the parent block held in memory
AddBlockWith(ver, f) ==
  /\ up /\ best < MaxBest
  /\ best' = best + 1
  /\ assigned' = Append(assigned, ver)
  /\ rfmt' = Append(rfmt, f)
  /\ LET d == DeriveChainId(hdr[best + 1], ver) IN hdr' = Append(hdr, d[1]) /\ buf' = d[2]
  /\ lastAct' = [name |-> "AddBlock", no |-> best + 1, ver |-> ver, fmt |-> f]
  /\ UNCHANGED <<up, cfg, db, starts>>
\* the node: the version is Version(cfg, no), the format follows IsV2Fork(no)
AddBlock == AddBlockWith(Version(cfg, best + 1), Fmt(cfg, best + 1))

Next == (\E c \in Cfgs : Start(c)) \/ Stop \/ AddBlock
Spec == Init /\ [][Next]_vars

\* ------------------------------------------------------------------ properties
TypeOK == /\ up \in BOOLEAN /\ cfg \in Cfgs /\ (db = NoDb \/ db \in Cfgs) /\ best \in 0..MaxBest
          /\ Len(assigned) = best /\ Len(rfmt) = best /\ Len(hdr) = best + 1
          /\ \A i \in 1..Len(hdr) : hdr[i] \in 0..(Len(buf) - 1)

AllHeights == 0..(Max(Heights) + 1)
\* monotone in the height, for EVERY configuration (also one validate() would refuse)
VersionMonotone == \A h1, h2 \in AllHeights : h1 <= h2 => Version(cfg, h1) <= Version(cfg, h2)
\* for a validated configuration the fork predicates and the version agree
ForkFlagsAgree == Validated(cfg) => \A v \in Vers : \A h \in AllHeights : IsFork(cfg[v], h) <=> Version(cfg, h) >= v
\* a running node gives every existing block the version it was created with ...
VersionStable == up => \A h \in 1..best : Version(cfg, h) = assigned[h]
\* ... and reads its receipts in the format they were written in
ReceiptFormatStable == up => \A h \in 1..best : Fmt(cfg, h) = rfmt[h]
\* the versions along the chain never decrease
AssignedMonotone == \A h1, h2 \in 1..best : h1 <= h2 => assigned[h1] <= assigned[h2]
\* deriving the header info of a child leaves every block held in memory as it was: its header's chain id still holds the
\* version its identifier was computed with (the header still hashes to the id, the chain id reads back unchanged)
HeaderMatchesId == \A h \in 0..best : buf[hdr[h + 1] + 1] = IdVer(h)
ParentUnchangedByChild == [][\A i \in 1..Len(hdr) : buf'[hdr[i] + 1] = buf[hdr[i] + 1] /\ hdr'[i] = hdr[i]]_vars
\* the record is what the running node uses
DbIsCfg == up => db = cfg
\* a refused start changes nothing; the same configuration is always accepted again if it was validated
RestartSameAccepted == [][(lastAct'.name = "Start" /\ db # NoDb /\ lastAct'.c = db /\ Validated(db)) => lastAct'.ok]_vars
RefusedStartNoChange == [][(lastAct'.name = "Start" /\ ~lastAct'.ok) => (db' = db /\ cfg' = cfg /\ ~up')]_vars
=============================================================================
