---------------------------- MODULE MC_ChainCrash ----------------------------
EXTENDS ChainCrash

\* main a1-a2, branch b2-b3 forking at a1 (depth-1 reorg of one old block by two new ones), tx t2 on both
C1Blocks == {"g", "a1", "a2", "b2", "b3"}
C1Parent == [b \in C1Blocks \ {"g"} |-> CASE b = "a1" -> "g" [] b = "a2" -> "a1" [] b = "b2" -> "a1" [] b = "b3" -> "b2"]
C1Txs == [b \in C1Blocks |-> CASE b = "a1" -> {"t1"} [] b = "a2" -> {"t2"} [] b = "b2" -> {"t2", "t3"} [] b = "b3" -> {} [] OTHER -> {}]

\* deeper: main a1-a2-a3, branch b1-b2-b3-b4 from genesis
C2Blocks == {"g", "a1", "a2", "a3", "b1", "b2", "b3", "b4"}
C2Parent == [b \in C2Blocks \ {"g"} |-> CASE b = "a1" -> "g" [] b = "a2" -> "a1" [] b = "a3" -> "a2"
                                          [] b = "b1" -> "g" [] b = "b2" -> "b1" [] b = "b3" -> "b2" [] b = "b4" -> "b3"]
C2Txs == [b \in C2Blocks |-> CASE b = "a1" -> {"t1"} [] b = "a2" -> {"t2"} [] b = "a3" -> {} [] b = "b1" -> {"t1", "t3"}
                               [] b = "b2" -> {} [] b = "b3" -> {"t2"} [] b = "b4" -> {"t4"} [] OTHER -> {}]
=============================================================================
