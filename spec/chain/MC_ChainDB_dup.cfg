\* duplicates: every block may arrive twice
SPECIFICATION Spec
CONSTANTS
  Blocks <- T0Blocks
  G = "g"
  Parent <- T0Parent
  ValidChoices <- T0Valid
  Txs <- T0Txs
  MaxArrivals = 2
  OrphanCap = 99
  LibChoices = {1}
VIEW view
INVARIANTS TypeOK Coherent LongestValidWins
PROPERTIES NoDisplacement LibNeverUndone FailedArrivalNoResidue
CHECK_DEADLOCK FALSE
