SPECIFICATION Spec
CONSTANTS
  Blocks <- C1Blocks
  G = "g"
  Parent <- C1Parent
  Txs <- C1Txs
VIEW view
INVARIANTS Coherent RecoveryNeverStuck Legit StateBeforeTip
CHECK_DEADLOCK FALSE
