SPECIFICATION Spec
CONSTANTS
  Blocks <- C2Blocks
  G = "g"
  Parent <- C2Parent
  Txs <- C2Txs
VIEW view
INVARIANTS Coherent RecoveryNeverStuck Legit StateBeforeTip
CHECK_DEADLOCK FALSE
