----------------------------- MODULE MC_ChainDB -----------------------------
EXTENDS ChainDB

\* ---- tree T1: main a1-a2-a3, branch b2-b3-b4 forking at a1 (one longer), tx t2 on both branches
T1Blocks == {"g", "a1", "a2", "a3", "b2", "b3", "b4"}
T1Parent == [b \in T1Blocks \ {"g"} |->
               CASE b = "a1" -> "g" [] b = "a2" -> "a1" [] b = "a3" -> "a2"
                 [] b = "b2" -> "a1" [] b = "b3" -> "b2" [] b = "b4" -> "b3"]
T1Txs == [b \in T1Blocks |->
               CASE b = "a1" -> {"t1"} [] b = "a2" -> {"t2"} [] b = "a3" -> {"t4"}
                 [] b = "b2" -> {"t2", "t3"} [] b = "b3" -> {} [] b = "b4" -> {"t5"} [] OTHER -> {}]
T1All == T1Blocks \ {"g"}
T1Valid == { T1All, T1All \ {"b3"}, T1All \ {"b2"}, T1All \ {"a2"}, T1All \ {"b4"} }

\* ---- tree T2: three branches from genesis/a1: a1-a2, b1-b2-b3, c2-c3 (child of a1)
T2Blocks == {"g", "a1", "a2", "b1", "b2", "b3", "c2", "c3"}
T2Parent == [b \in T2Blocks \ {"g"} |->
               CASE b = "a1" -> "g" [] b = "a2" -> "a1" [] b = "b1" -> "g" [] b = "b2" -> "b1" [] b = "b3" -> "b2"
                 [] b = "c2" -> "a1" [] b = "c3" -> "c2"]
T2Txs == [b \in T2Blocks |->
               CASE b = "a1" -> {"t1"} [] b = "a2" -> {"t2"} [] b = "b1" -> {"t1", "t3"} [] b = "b2" -> {} [] b = "b3" -> {"t2"}
                 [] b = "c2" -> {"t3"} [] b = "c3" -> {"t2"} [] OTHER -> {}]
T2All == T2Blocks \ {"g"}
T2Valid == { T2All, T2All \ {"b2"}, T2All \ {"c3"} }

\* ---- tree T0 (generation): a1-a2, b1-b2-b3 from genesis... small
T0Blocks == {"g", "a1", "a2", "b1", "b2", "b3"}
T0Parent == [b \in T0Blocks \ {"g"} |->
               CASE b = "a1" -> "g" [] b = "a2" -> "a1" [] b = "b1" -> "g" [] b = "b2" -> "b1" [] b = "b3" -> "b2"]
T0Txs == [b \in T0Blocks |->
               CASE b = "a1" -> {"t1"} [] b = "a2" -> {"t2"} [] b = "b1" -> {"t1"} [] b = "b2" -> {"t3"} [] b = "b3" -> {} [] OTHER -> {}]
T0All == T0Blocks \ {"g"}
T0Valid == { T0All, T0All \ {"b2"}, T0All \ {"b3"}, T0All \ {"a2"} }

\* ---- tree T3: main a1-a2-a3; branch b1-b2 from genesis that continues as x3-x4 (x3 invalid) and as c3-c4 (valid):
\* a failed reorganisation to ...-x4 must not keep the node from adopting ...-c4, which shares the prefix b1-b2
T3Blocks == {"g", "a1", "a2", "a3", "b1", "b2", "x3", "x4", "c3", "c4"}
T3Parent == [b \in T3Blocks \ {"g"} |->
               CASE b = "a1" -> "g" [] b = "a2" -> "a1" [] b = "a3" -> "a2" [] b = "b1" -> "g" [] b = "b2" -> "b1"
                 [] b = "x3" -> "b2" [] b = "x4" -> "x3" [] b = "c3" -> "b2" [] b = "c4" -> "c3"]
T3Txs == [b \in T3Blocks |->
               CASE b = "a1" -> {"t1"} [] b = "a2" -> {"t2"} [] b = "b1" -> {"t1"} [] b = "b2" -> {"t3"}
                 [] b = "x3" -> {"t2"} [] b = "c3" -> {"t2"} [] b = "c4" -> {"t4"} [] OTHER -> {}]
T3All == T3Blocks \ {"g"}
T3Valid == { T3All \ {"x3"}, T3All }

GenView == [valid |-> valid, store |-> store, hidx |-> hidx, best |-> best, txidx |-> txidx, rcpt |-> rcpt,
            sroot |-> sroot, savail |-> savail, orph |-> orph, bad |-> bad, lib |-> lib, arrivals |-> arrivals]
GenLog == LogTransition(GenView, [act |-> lastAct', returned |-> returned'], GenView')
=============================================================================
