--------------------------- MODULE ChainCrashTrace ---------------------------
(***************************************************************************)
(* The journal of durable write units recorded on the real stores          *)
(* (verifdb, harness/internal/verifnode/verif_crash_test.go) validated     *)
(* against ChainCrash.tla: every unit the code writes while connecting     *)
(* blocks and reorganising must be the next durable action of the model,   *)
(* in the model's order — state before tip, all new states before the      *)
(* marker, marker before any index change, marker deleted last.            *)
(*   {"ev":"Reset"}                   a new node on empty stores           *)
(*   {"ev":"<action>","blks":["<b>",..]}  one write unit (candidate blocks)*)
(***************************************************************************)
EXTENDS ChainCrash, Json

TraceLog == ndJsonDeserialize("trace.ndjson")
VARIABLE l
tvars == <<vars, l>>

Ev(n) == l <= Len(TraceLog) /\ TraceLog[l].ev = n /\ l' = l + 1
Blks == {TraceLog[l].blks[i] : i \in DOMAIN TraceLog[l].blks}   \* candidate blocks of the unit (state roots can coincide)

\* the block tree of the recorded scenarios (T0 of ChainDB.tla)
TT0Blocks == {"g", "a1", "a2", "b1", "b2", "b3"}
TT0Parent == [b \in TT0Blocks \ {"g"} |-> CASE b = "a1" -> "g" [] b = "a2" -> "a1" [] b = "b1" -> "g" [] b = "b2" -> "b1" [] b = "b3" -> "b2"]
TT0Txs == [b \in TT0Blocks |-> CASE b = "a1" -> {"t1"} [] b = "a2" -> {"t2"} [] b = "b1" -> {"t1"} [] b = "b2" -> {"t3"} [] b = "b3" -> {} [] OTHER -> {}]

TraceInit == Init /\ l = 1

TReset ==
  /\ Ev("Reset")
  /\ dStore' = {G} /\ dHidx' = [n \in 0..MaxNo |-> IF n = 0 THEN G ELSE None] /\ dLatest' = 0
  /\ dTx' = [t \in AllTx |-> None] /\ dRcpt' = {} /\ dState' = {G} /\ dMarker' = NoMarker
  /\ up' = TRUE /\ mBest' = G /\ mRoot' = G /\ op' = Idle /\ tips' = {G}
  /\ lastAct' = [name |-> "Reset", blk |-> G]

TraceNext ==
  \/ TReset
  \/ Ev("StateCommit")    /\ ((op = Idle /\ \E b \in Blks : StateCommit(b)) \/ (op # Idle /\ RollForward /\ lastAct'.blk \in Blks))
  \/ Ev("WriteReceipts")  /\ (WriteReceipts \/ RollForwardReceipts) /\ lastAct'.blk \in Blks
  \/ Ev("ConnectTx")      /\ ConnectTx /\ lastAct'.blk \in Blks
  \/ Ev("StoreSide")      /\ \E b \in Blks : StoreSide(b)
  \/ Ev("MarkerWrite")    /\ MarkerWrite
  \/ Ev("DelOldReceipts") /\ DelOldReceipts
  \/ Ev("AddNewTxs")      /\ AddNewTxs /\ (lastAct'.blk \in Blks \/ Blks = {""})
  \/ Ev("DelOldTxs")      /\ DelOldTxs
  \/ Ev("SwapIdx")        /\ SwapIdx
  \/ Ev("MarkerDelete")   /\ MarkerDelete

TraceSpec == TraceInit /\ [][TraceNext]_tvars
TraceAccepted == TLCGet("stats").diameter - 1 = Len(TraceLog)
=============================================================================
