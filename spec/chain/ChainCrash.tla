------------------------------ MODULE ChainCrash ------------------------------
(***************************************************************************)
(* C06 — the DURABLE write order of block connection and reorganisation,   *)
(* crashes between any two durable writes, and recovery                    *)
(* (chain/chainhandle.go executeBlock/connectToChain, chain/reorg.go       *)
(* rollforward/swapChain, chain/recover.go, chain/chaindb.go Init/recover, *)
(* state/statedb Commit).                                                  *)
(*                                                                         *)
(* One action per durable write unit (a committed DB transaction or a      *)
(* flushed bulk of the chain DB or the state DB) — the atoms between which *)
(* the process can die.  ChainDB.tla treats an arrival as one step; this   *)
(* module refines the two arrivals that write most (connect, reorganise)   *)
(* down to their write units.  All blocks are valid here.                  *)
(*                                                                         *)
(* The journal of the real stores (verifdb) is validated against this      *)
(* module (ChainCrashTrace), which binds "TLC explored every crash point   *)
(* of this write order" to "this is the write order of the code".          *)
(***************************************************************************)
EXTENDS Integers, Sequences, FiniteSets, TLC, Util

CONSTANTS Blocks, G, Parent, Txs   \* the block tree (see ChainDB.tla)

None == "none"
NoMarker == [root |-> None, best |-> None, top |-> None]
HasMarker(m) == m.top # None

RECURSIVE No(_)
No(b) == IF b = G THEN 0 ELSE No(Parent[b]) + 1
RECURSIVE Ancestors(_)
Ancestors(b) == IF b = G THEN {G} ELSE {b} \cup Ancestors(Parent[b])
AllTx == UNION {Txs[b] : b \in Blocks}
MaxNo == Max({No(b) : b \in Blocks})
TxsOf(S) == UNION {Txs[x] : x \in S}

VARIABLES
  \* ---- durable (survives a crash)
  dStore,    \* block bodies by hash
  dHidx,     \* height -> block | None
  dLatest,   \* height of the best block
  dTx,       \* tx -> block | None
  dRcpt,     \* blocks with stored receipts
  dState,    \* blocks whose post-state is committed (marker present)
  dMarker,   \* reorg marker: NoMarker | [root, best, top]
  \* ---- volatile
  up,        \* is the process running (recovered)
  mBest,     \* in-memory best block
  mRoot,     \* in-memory state root (as a block)
  op,        \* current operation: [kind |-> "idle"] | [kind |-> "connect", b, pc] | [kind |-> "reorg", top, root, best, pc, i, reco]
  \* ---- history (for the legitimacy property only)
  tips,      \* blocks that have been the best block of a completed operation, or are the target of the running one
  lastAct

vars == <<dStore, dHidx, dLatest, dTx, dRcpt, dState, dMarker, up, mBest, mRoot, op, tips, lastAct>>
view == <<dStore, dHidx, dLatest, dTx, dRcpt, dState, dMarker, up, mBest, mRoot, op, tips>>

Idle == [kind |-> "idle"]
DBest == dHidx[dLatest]                               \* what a restart reads as the best block

\* new / old blocks of a reorganisation from branch root r to top (ascending by height)
NewOf(r, top) == {x \in Ancestors(top) : No(x) > No(r)}
OldOf(r, best) == {x \in Ancestors(best) : No(x) > No(r)}
AtNo(S, n) == CHOOSE x \in S : No(x) = n

Act(n, b) == lastAct' = [name |-> n, blk |-> b]

\* ---------------------------------------------------------------- connecting a block that extends the best block
\* The first durable write of connecting block b (which extends the best block): the state DB bulk of the block
\* (trie nodes, states, marker of the root) is flushed.  Nothing durable happens before it.
StateCommit(b) ==
  /\ up /\ op = Idle /\ b \notin dStore /\ b # G /\ Parent[b] = mBest /\ mRoot = mBest
  /\ dState' = dState \cup {b} /\ mRoot' = b
  /\ op' = [kind |-> "connect", b |-> b, pc |-> IF Txs[b] = {} THEN "tip" ELSE "rcpt"]
  /\ tips' = tips \cup {b}
  /\ Act("StateCommit", b)
  /\ UNCHANGED <<dStore, dHidx, dLatest, dTx, dRcpt, dMarker, up, mBest>>

WriteReceipts ==
  /\ up /\ op.kind = "connect" /\ op.pc = "rcpt"
  /\ dRcpt' = dRcpt \cup {op.b}
  /\ op' = [op EXCEPT !.pc = "tip"]
  /\ Act("WriteReceipts", op.b)
  /\ UNCHANGED <<dStore, dHidx, dLatest, dTx, dState, dMarker, up, mBest, mRoot, tips>>

\* ONE transaction: block body, height index, latest, tx index (and the consensus status)
ConnectTx ==
  /\ up /\ op.kind = "connect" /\ op.pc = "tip"
  /\ dStore' = dStore \cup {op.b}
  /\ dHidx' = [dHidx EXCEPT ![No(op.b)] = op.b]
  /\ dLatest' = No(op.b)
  /\ dTx' = [t \in AllTx |-> IF t \in Txs[op.b] THEN op.b ELSE dTx[t]]
  /\ mBest' = op.b /\ op' = Idle
  /\ Act("ConnectTx", op.b)
  /\ UNCHANGED <<dRcpt, dState, dMarker, up, mRoot, tips>>

\* ---------------------------------------------------------------- a side-branch block; a reorganisation if it is longer
StoreSide(b) ==
  /\ up /\ op = Idle /\ b \notin dStore /\ b # G /\ Parent[b] \in dStore /\ Parent[b] # mBest
  /\ dStore' = dStore \cup {b}
  /\ IF No(b) > No(mBest)
       THEN LET r == CHOOSE x \in Ancestors(b) \cap Ancestors(mBest) :
                        \A y \in Ancestors(b) \cap Ancestors(mBest) : No(y) <= No(x)
            IN /\ op' = [kind |-> "reorg", top |-> b, root |-> r, best |-> mBest, pc |-> "rf", i |-> No(r) + 1, reco |-> FALSE]
               /\ mRoot' = r                                      \* rollback (in memory)
               /\ tips' = tips \cup {b}
       ELSE UNCHANGED <<op, mRoot, tips>>
  /\ Act("StoreSide", b)
  /\ UNCHANGED <<dHidx, dLatest, dTx, dRcpt, dState, dMarker, up, mBest>>

\* roll forward block number op.i of the new branch: its state is committed (state DB bulk) ...
RollForward ==
  /\ up /\ op.kind = "reorg" /\ op.pc = "rf"
  /\ LET b == AtNo(NewOf(op.root, op.top), op.i) IN
       /\ IF op.reco
            THEN b \in dState /\ UNCHANGED dState                     \* recovery only re-points the state root
            ELSE dState' = dState \cup {b}
       /\ mRoot' = b
       /\ op' = IF ~op.reco /\ Txs[b] # {} THEN [op EXCEPT !.pc = "rfrcpt"]
                ELSE IF op.i = No(op.top) THEN [op EXCEPT !.pc = "marker"] ELSE [op EXCEPT !.i = @ + 1]
       /\ Act("RollForward", b)
  /\ UNCHANGED <<dStore, dHidx, dLatest, dTx, dRcpt, dMarker, up, mBest, tips>>

\* ... then its receipts are written (chain DB transaction)
RollForwardReceipts ==
  /\ up /\ op.kind = "reorg" /\ op.pc = "rfrcpt"
  /\ LET b == AtNo(NewOf(op.root, op.top), op.i) IN
       /\ dRcpt' = dRcpt \cup {b}
       /\ op' = IF op.i = No(op.top) THEN [op EXCEPT !.pc = "marker"] ELSE [op EXCEPT !.pc = "rf", !.i = @ + 1]
       /\ Act("RollForwardReceipts", b)
  /\ UNCHANGED <<dStore, dHidx, dLatest, dTx, dState, dMarker, up, mBest, mRoot, tips>>

MarkerWrite ==
  /\ up /\ op.kind = "reorg" /\ op.pc = "marker"
  /\ dMarker' = [root |-> op.root, best |-> op.best, top |-> op.top]
  /\ op' = [op EXCEPT !.pc = "delrcpt"]
  /\ Act("MarkerWrite", op.top)
  /\ UNCHANGED <<dStore, dHidx, dLatest, dTx, dRcpt, dState, up, mBest, mRoot, tips>>

DelOldReceipts ==
  /\ up /\ op.kind = "reorg" /\ op.pc = "delrcpt"
  /\ dRcpt' = dRcpt \ OldOf(op.root, op.best)
  /\ op' = [op EXCEPT !.pc = "addtx", !.i = No(op.root) + 1]
  /\ Act("DelOldReceipts", op.top)
  /\ UNCHANGED <<dStore, dHidx, dLatest, dTx, dState, dMarker, up, mBest, mRoot, tips>>

\* tx index of the new blocks, one transaction per block, from the branch root up to the top
AddNewTxs ==
  /\ up /\ op.kind = "reorg" /\ op.pc = "addtx"
  /\ LET b == AtNo(NewOf(op.root, op.top), op.i) IN
       /\ dTx' = [t \in AllTx |-> IF t \in Txs[b] THEN b ELSE dTx[t]]
       /\ op' = IF op.i = No(op.top) THEN [op EXCEPT !.pc = "deltx"] ELSE [op EXCEPT !.i = @ + 1]
       /\ Act("AddNewTxs", b)
  /\ UNCHANGED <<dStore, dHidx, dLatest, dRcpt, dState, dMarker, up, mBest, mRoot, tips>>

DelOldTxs ==
  /\ up /\ op.kind = "reorg" /\ op.pc = "deltx"
  /\ LET gone == TxsOf(OldOf(op.root, op.best)) \ TxsOf(NewOf(op.root, op.top)) IN
       dTx' = [t \in AllTx |-> IF t \in gone THEN None ELSE dTx[t]]
  /\ op' = [op EXCEPT !.pc = "swap"]
  /\ Act("DelOldTxs", op.top)
  /\ UNCHANGED <<dStore, dHidx, dLatest, dRcpt, dState, dMarker, up, mBest, mRoot, tips>>

\* ONE bulk: height index of the new blocks + latest (+ consensus status)
SwapIdx ==
  /\ up /\ op.kind = "reorg" /\ op.pc = "swap"
  /\ LET new == NewOf(op.root, op.top) IN
       /\ dHidx' = [n \in DOMAIN dHidx |-> IF \E x \in new : No(x) = n THEN AtNo(new, n) ELSE dHidx[n]]
       /\ dLatest' = No(op.top)
  /\ mBest' = op.top
  /\ op' = [op EXCEPT !.pc = "delmarker"]
  /\ Act("SwapIdx", op.top)
  /\ UNCHANGED <<dStore, dTx, dRcpt, dState, dMarker, up, mRoot, tips>>

MarkerDelete ==
  /\ up /\ op.kind = "reorg" /\ op.pc = "delmarker"
  /\ dMarker' = NoMarker /\ op' = Idle
  /\ Act("MarkerDelete", op.top)
  /\ UNCHANGED <<dStore, dHidx, dLatest, dTx, dRcpt, dState, up, mBest, mRoot, tips>>

\* ---------------------------------------------------------------- crash and recovery
Crash ==
  /\ up
  /\ up' = FALSE /\ op' = Idle /\ mBest' = None /\ mRoot' = None
  /\ Act("Crash", None)
  /\ UNCHANGED <<dStore, dHidx, dLatest, dTx, dRcpt, dState, dMarker, tips>>

\* ChainDB.Init: load the best block; with a marker whose best is not the loaded best, put the height index back
\* on the old chain (ONE bulk).  Then the state DB opens at the best block's root.
RecoverMapping ==
  /\ ~up /\ op = Idle /\ mBest = None
  /\ IF HasMarker(dMarker) /\ DBest # dMarker.best
       THEN LET oldc == Ancestors(dMarker.best) IN
            /\ dHidx' = [n \in DOMAIN dHidx |->
                           IF n > No(dMarker.best) /\ n <= No(dMarker.top) THEN None
                           ELSE IF n > No(dMarker.root) /\ n <= No(dMarker.best) THEN AtNo(oldc, n)
                           ELSE dHidx[n]]
            /\ dLatest' = No(dMarker.best)
            /\ mBest' = dMarker.best
            /\ Act("RecoverMapping", dMarker.best)
       ELSE /\ mBest' = DBest /\ UNCHANGED <<dHidx, dLatest>>
            /\ Act("Load", DBest)
  /\ mRoot' = mBest'
  /\ UNCHANGED <<dStore, dTx, dRcpt, dState, dMarker, up, op, tips>>

\* ChainService.Recover: without a marker nothing to do; with one, the reorganisation is done again in recovery mode
RecoverDone ==
  /\ ~up /\ op = Idle /\ mBest # None /\ ~HasMarker(dMarker)
  /\ up' = TRUE
  /\ Act("RecoverDone", mBest)
  /\ UNCHANGED <<dStore, dHidx, dLatest, dTx, dRcpt, dState, dMarker, mBest, mRoot, op, tips>>

RecoverReorg ==
  /\ ~up /\ op = Idle /\ mBest # None /\ HasMarker(dMarker) /\ mBest = dMarker.best
  /\ up' = TRUE                                                  \* the redo runs like a normal reorganisation (and may crash again)
  /\ op' = [kind |-> "reorg", top |-> dMarker.top, root |-> dMarker.root, best |-> dMarker.best, pc |-> "rf",
            i |-> No(dMarker.root) + 1, reco |-> TRUE]
  /\ mRoot' = dMarker.root
  /\ Act("RecoverReorg", dMarker.top)
  /\ UNCHANGED <<dStore, dHidx, dLatest, dTx, dRcpt, dState, dMarker, mBest, tips>>

Init ==
  /\ dStore = {G} /\ dHidx = [n \in 0..MaxNo |-> IF n = 0 THEN G ELSE None] /\ dLatest = 0
  /\ dTx = [t \in AllTx |-> None] /\ dRcpt = {} /\ dState = {G} /\ dMarker = NoMarker
  /\ up = TRUE /\ mBest = G /\ mRoot = G /\ op = Idle /\ tips = {G}
  /\ lastAct = [name |-> "Init", blk |-> G]

Next == (\E b \in Blocks : StateCommit(b) \/ StoreSide(b))
        \/ WriteReceipts \/ ConnectTx
        \/ RollForward \/ RollForwardReceipts \/ MarkerWrite \/ DelOldReceipts \/ AddNewTxs \/ DelOldTxs \/ SwapIdx \/ MarkerDelete
        \/ Crash \/ RecoverMapping \/ RecoverDone \/ RecoverReorg

Spec == Init /\ [][Next]_vars

\* ---------------------------------------------------------------- properties
Quiescent == up /\ op = Idle

\* the chain DB is coherent (C05) at every quiescent state — in particular after every recovery
Coherent ==
  Quiescent =>
    /\ DBest = mBest /\ mRoot = mBest /\ mBest \in dState
    /\ Ancestors(mBest) \subseteq dStore
    /\ \A b \in Ancestors(mBest) : dHidx[No(b)] = b
    /\ \A n \in DOMAIN dHidx : n > No(mBest) => dHidx[n] = None \/ dHidx[n] \notin Ancestors(mBest)
    /\ \A t \in AllTx : IF \E b \in Ancestors(mBest) : t \in Txs[b]
                          THEN dTx[t] \in Ancestors(mBest) /\ t \in Txs[dTx[t]]
                          ELSE dTx[t] = None \/ dTx[t] \notin Ancestors(mBest)   \* the lookup filters non-main-chain entries
    /\ \A b \in Ancestors(mBest) : Txs[b] # {} => b \in dRcpt
    /\ ~HasMarker(dMarker)

\* recovery can always complete: a restart never finds a best block whose state is missing or a marker it cannot use
RecoveryNeverStuck ==
  (~up /\ mBest # None) => /\ mBest \in dState
                           /\ (HasMarker(dMarker) => mBest = dMarker.best /\ NewOf(dMarker.root, dMarker.top) \subseteq dState)

\* the best block after a restart is one the node had reached or was about to reach
Legit == (mBest # None) => mBest \in tips

\* the state of a block is durable before the block becomes the best block
StateBeforeTip == DBest \in dState
=============================================================================
