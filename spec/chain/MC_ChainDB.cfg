SPECIFICATION Spec
CONSTANTS
  Blocks <- T1Blocks
  G = "g"
  Parent <- T1Parent
  ValidChoices <- T1Valid
  Txs <- T1Txs
  MaxArrivals = 1
  OrphanCap = 99
  LibChoices = {1, 2}
VIEW view
INVARIANTS TypeOK Coherent LongestValidWins
PROPERTIES NoDisplacement LibNeverUndone FailedArrivalNoResidue
CHECK_DEADLOCK FALSE
