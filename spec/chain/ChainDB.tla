------------------------------- MODULE ChainDB -------------------------------
(***************************************************************************)
(* C05 / C07 / C03(block level) / C18(c) — the chain service's handling    *)
(* of arriving blocks: chain/chainhandle.go (addBlock, chainProcessor),    *)
(* chain/reorg.go, chain/chaindb.go, chain/orphanpool.go.                  *)
(*                                                                         *)
(* Granularity: one action per arriving block (the chain service handles   *)
(* one AddBlock message at a time under the InAddBlock lock; nothing else  *)
(* observes intermediate states — crashes are the subject of ChainCrash).  *)
(* Inside the action the code's steps are followed in order, by the        *)
(* operators Exec / Side / Reorg below.                                    *)
(*                                                                         *)
(* The block universe is a constant tree.  Valid[b] means "b executes      *)
(* correctly on its parent's state" (its roots match).  Blocks below an    *)
(* invalid block can exist (they are crafted) but can never be executed.   *)
(***************************************************************************)
EXTENDS Integers, Sequences, FiniteSets, TLC, Util

CONSTANTS Blocks,      \* all block names, including the genesis block G
          G,
          Parent,      \* [Blocks \ {G} -> Blocks]
          ValidChoices,\* set of candidate validity assignments (subsets of Blocks \ {G}); one is picked in Init
          Txs,         \* [Blocks -> SUBSET Tx]  (Txs[G] = {})
          MaxArrivals, \* how often one block may arrive (duplicates)
          OrphanCap,   \* capacity of the orphan pool (the real pool holds 100 and evicts the oldest; all configurations stay below it)
          LibChoices   \* values the consensus LIB may be raised to

None == "none"

RECURSIVE No(_)
No(b) == IF b = G THEN 0 ELSE No(Parent[b]) + 1

RECURSIVE Ancestors(_)      \* b and all its ancestors
Ancestors(b) == IF b = G THEN {G} ELSE {b} \cup Ancestors(Parent[b])

AllTx == UNION {Txs[b] : b \in Blocks}
MaxNo == Max({No(b) : b \in Blocks})

\* every block on the path to b (b included) is valid
ChainValidIn(v, b) == \A x \in Ancestors(b) \ {G} : x \in v

VARIABLES
  valid,     \* the blocks that execute correctly on their parent's state (fixed in Init)
  store,     \* blocks found by hash (main chain and side branches)
  hidx,      \* height index: [0..MaxNo -> Blocks \cup {None}]
  best,      \* best block (in memory and "latest" key)
  txidx,     \* tx lookup: [AllTx -> Blocks \cup {None}]
  rcpt,      \* blocks whose receipts are stored
  sroot,     \* block whose post-state is the current in-memory state root
  savail,    \* blocks whose post-state is committed in the state DB
  orph,      \* orphan pool: function parent -> orphan block (ONE orphan per parent)
  bad,       \* ids in the errored-blocks cache
  lib,       \* last irreversible block number reported by consensus
  returned,  \* txs offered back to the pool by the last arrival
  arrivals,  \* [Blocks -> Nat] how often each block arrived
  lastAct

vars == <<valid, store, hidx, best, txidx, rcpt, sroot, savail, orph, bad, lib, returned, arrivals, lastAct>>
view == <<valid, store, hidx, best, txidx, rcpt, sroot, savail, orph, bad, lib, arrivals>>

\* the state record threaded through the steps of one arrival
St == [store |-> store, hidx |-> hidx, best |-> best, txidx |-> txidx, rcpt |-> rcpt, sroot |-> sroot,
       savail |-> savail, orph |-> orph, bad |-> bad, returned |-> {}, err |-> FALSE]

MainPath(s) == {b \in Blocks : s.hidx[No(b)] = b /\ No(b) <= No(s.best)}

\* ---------------------------------------------------------------- main-chain connection
\* executeBlock + connectToChain for one block that extends the best block
CanExec(s, b) == b \in valid /\ s.sroot = Parent[b]

Connect(s, b) ==
  [s EXCEPT !.store  = @ \cup {b},
            !.savail = @ \cup {b},
            !.sroot  = b,
            !.rcpt   = IF Txs[b] # {} THEN @ \cup {b} ELSE @,
            !.hidx   = [@ EXCEPT ![No(b)] = b],
            !.best   = b,
            !.txidx  = [t \in AllTx |-> IF t \in Txs[b] THEN b ELSE @[t]]]

\* run of the chain processor in main mode: b, then the orphan waiting for b, and so on
RECURSIVE MainRun(_, _)
MainRun(s, b) ==
  IF ~CanExec(s, b) THEN [s EXCEPT !.err = TRUE]
  ELSE LET s1 == Connect(s, b)
       IN IF b \in DOMAIN s1.orph
            THEN LET o  == s1.orph[b]
                     s2 == [s1 EXCEPT !.orph = Restrict(@, DOMAIN @ \ {b})]
                 IN MainRun(s2, o)
            ELSE s1

\* ---------------------------------------------------------------- side branch + reorganisation
\* run of the chain processor in side mode: blocks are stored unvalidated; returns the last one
RECURSIVE SideRun(_, _)
SideRun(s, b) ==
  LET s1 == [s EXCEPT !.store = @ \cup {b}]
  IN IF b \in DOMAIN s1.orph
       THEN LET o == s1.orph[b] IN SideRun([s1 EXCEPT !.orph = Restrict(@, DOMAIN @ \ {b})], o)
       ELSE [st |-> s1, last |-> b]

\* gather: the branch root is the first ancestor of top that the height index maps to itself
RECURSIVE BranchRoot(_, _)
BranchRoot(s, b) == IF s.hidx[No(b)] = b /\ No(b) <= No(s.best) THEN b ELSE BranchRoot(s, Parent[b])

NewBlocks(s, top) == LET r == BranchRoot(s, top) IN {x \in Ancestors(top) : No(x) > No(r)}
OldBlocks(s, top) == LET r == BranchRoot(s, top) IN {x \in MainPath(s) : No(x) > No(r)}

\* rollforward: execute the new blocks in ascending order; stops at the first invalid one.
\* (States committed for the valid prefix stay in the state DB; the in-memory root is dealt with by Reorg.)
RECURSIVE RollForward(_, _, _)
RollForward(s, new, n) ==
  IF \A x \in new : No(x) < n THEN s
  ELSE LET b == CHOOSE x \in new : No(x) = n
       IN IF ~CanExec(s, b) THEN [s EXCEPT !.err = TRUE]
          ELSE RollForward([s EXCEPT !.savail = @ \cup {b}, !.sroot = b,
                                     !.rcpt = IF Txs[b] # {} THEN @ \cup {b} ELSE @], new, n + 1)

TxsOf(S) == UNION {Txs[x] : x \in S}

\* Swap to `top`, given that the blocks above the branch root have been rolled forward up to `top`.
SwapTo(s, base, top) ==
  LET new     == NewBlocks(base, top)
      old     == OldBlocks(base, top)
      oldOnly == TxsOf(old) \ TxsOf(new)
  IN [s EXCEPT !.rcpt  = @ \ old,
               !.txidx = [t \in AllTx |-> IF t \in TxsOf(new) THEN CHOOSE x \in new : t \in Txs[x]
                                          ELSE IF t \in oldOnly THEN None ELSE @[t]],
               !.hidx  = [n \in DOMAIN @ |-> IF \E x \in new : No(x) = n THEN CHOOSE x \in new : No(x) = n ELSE @[n]],
               !.best  = top,
               !.returned = oldOnly]

\* INTENDED DESIGN (what the properties C05/C07 demand).  Where chain/reorg.go deviates, the replay on the
\* real code reports it (see known_findings.json):
\*  - a roll-forward that hits an invalid block must leave the node on a coherent state: either on the old
\*    tip with the state root of the old tip, or
\*  - when the valid prefix of the new branch is itself strictly longer than the old chain, on that prefix.
Reorg(s, top, libNo) ==
  LET r == BranchRoot(s, top)
  IN IF No(r) < libNo THEN s                                   \* vetoed by consensus: nothing changes, no error
     ELSE LET s1 == [s EXCEPT !.sroot = r]                     \* rollback
              s2 == RollForward(s1, NewBlocks(s, top), No(r) + 1)
          IN IF ~s2.err THEN SwapTo(s2, s, top)
             ELSE IF No(s2.sroot) > No(s.best) THEN SwapTo(s2, s, s2.sroot)      \* longest valid prefix wins
             ELSE [s2 EXCEPT !.sroot = s.best]                                   \* back on the old tip, state included

\* ---------------------------------------------------------------- one arrival
IsMain(s, b) == No(b) = No(s.best) + 1 /\ Parent[b] = s.best

Process(s, b, libNo) ==
  IF IsMain(s, b) THEN MainRun(s, b)
  ELSE LET r == SideRun(s, b)
       IN IF No(r.last) > No(r.st.best) THEN Reorg(r.st, r.last, libNo) ELSE r.st

Install(s) ==
  /\ store' = s.store /\ hidx' = s.hidx /\ best' = s.best /\ txidx' = s.txidx /\ rcpt' = s.rcpt
  /\ sroot' = s.sroot /\ savail' = s.savail /\ orph' = s.orph /\ bad' = s.bad /\ returned' = s.returned

Arrive(b) ==
  /\ b # G
  /\ arrivals[b] < MaxArrivals
  /\ arrivals' = [arrivals EXCEPT ![b] = @ + 1]
  /\ UNCHANGED <<lib, valid>>
  /\ IF b \in bad THEN                                  \* errored-blocks cache
        /\ UNCHANGED <<store, hidx, best, txidx, rcpt, sroot, savail, orph, bad>>
        /\ returned' = {}
        /\ lastAct' = [name |-> "Arrive", blk |-> b, res |-> "cached"]
     ELSE IF lib > 0 /\ No(b) <= lib THEN               \* numbered at or below the LIB: refused, not cached
        /\ UNCHANGED <<store, hidx, best, txidx, rcpt, sroot, savail, orph, bad>>
        /\ returned' = {}
        /\ lastAct' = [name |-> "Arrive", blk |-> b, res |-> "belowlib"]
     ELSE IF Parent[b] \notin store THEN                \* orphan: parked (one per parent), sync requested
        /\ orph' = IF Parent[b] \in DOMAIN orph \/ Cardinality(DOMAIN orph) >= OrphanCap THEN orph
                   ELSE [p \in DOMAIN orph \cup {Parent[b]} |-> IF p = Parent[b] THEN b ELSE orph[p]]
        /\ UNCHANGED <<store, hidx, best, txidx, rcpt, sroot, savail, bad>>
        /\ returned' = {}
        /\ lastAct' = [name |-> "Arrive", blk |-> b, res |-> "orphan"]
     ELSE LET s == Process(St, b, lib)
          IN /\ Install(IF s.err THEN [s EXCEPT !.bad = @ \cup {b}] ELSE s)
             /\ lastAct' = [name |-> "Arrive", blk |-> b, res |-> IF s.err THEN "error" ELSE "ok"]

\* consensus raises the LIB (it never lowers it and never beyond the best block)
RaiseLib(n) ==
  /\ n \in LibChoices /\ n > lib /\ n <= No(best)
  /\ lib' = n
  /\ returned' = {}
  /\ UNCHANGED <<valid, store, hidx, best, txidx, rcpt, sroot, savail, orph, bad, arrivals>>
  /\ lastAct' = [name |-> "RaiseLib", n |-> n]

Init ==
  /\ valid \in ValidChoices
  /\ store = {G} /\ hidx = [n \in 0..MaxNo |-> IF n = 0 THEN G ELSE None] /\ best = G
  /\ txidx = [t \in AllTx |-> None] /\ rcpt = {} /\ sroot = G /\ savail = {G}
  /\ orph = [p \in {} |-> G] /\ bad = {} /\ lib = 0 /\ returned = {}
  /\ arrivals = [b \in Blocks |-> 0]
  /\ lastAct = [name |-> "Init"]

Next == (\E b \in Blocks : Arrive(b)) \/ (\E n \in LibChoices : RaiseLib(n))

Spec == Init /\ [][Next]_vars

\* ---------------------------------------------------------------- properties (C05)
TypeOK == /\ store \subseteq Blocks /\ best \in store /\ sroot \in Blocks /\ bad \subseteq Blocks

\* the best block is the tip of a parent-linked path to genesis, all of it stored
PathStored == Ancestors(best) \subseteq store
\* the height index maps each height of that path to exactly that block, and nothing above the tip
IndexIsPath == /\ \A b \in Ancestors(best) : hidx[No(b)] = b
               /\ \A n \in DOMAIN hidx : n > No(best) => hidx[n] = None \/ hidx[n] \notin Ancestors(best)
\* every tx of a main-chain block resolves to its block; txs only on abandoned branches are not confirmed
TxIndexExact == \A t \in AllTx :
                  IF \E b \in Ancestors(best) : t \in Txs[b]
                    THEN txidx[t] \in Ancestors(best) /\ t \in Txs[txidx[t]]
                    ELSE txidx[t] = None
\* receipts exist for every main-chain block that has transactions
ReceiptsForMain == \A b \in Ancestors(best) : Txs[b] # {} => b \in rcpt
\* the current state root is the best block's state root, and it is available
StateAtBest == sroot = best /\ best \in savail
\* only valid chains become the main chain
MainChainValid == ChainValidIn(valid, best)

Coherent == PathStored /\ IndexIsPath /\ TxIndexExact /\ ReceiptsForMain /\ StateAtBest /\ MainChainValid

\* ---------------------------------------------------------------- properties (C07)
\* A branch is "available and winning" when all its blocks are stored and valid, it is strictly longer than
\* the main chain, and forks at or above the LIB.  After the arrival that completes it the node must be on it.
ForkPoint(b) == CHOOSE x \in Ancestors(b) \cap Ancestors(best) :
                  \A y \in Ancestors(b) \cap Ancestors(best) : No(y) <= No(x)

\* No stored, fully valid branch is strictly longer than the main chain unless it forks below the LIB
\* (checked in every state: arrivals are atomic, so every state is quiescent).
LongestValidWins ==
  \A b \in store : (ChainValidIn(valid, b) /\ Ancestors(b) \subseteq store /\ No(b) > No(best)) => No(ForkPoint(b)) < lib

\* a branch that is not strictly longer, is invalid, or forks below the LIB never displaces the main chain
NoDisplacement ==
  [][best' # best =>
        /\ No(best') > No(best)
        /\ ChainValidIn(valid, best')
        /\ (best \notin Ancestors(best') =>                                   \* a real reorganisation
              /\ No(CHOOSE x \in Ancestors(best') \cap Ancestors(best) :
                      \A y \in Ancestors(best') \cap Ancestors(best) : No(y) <= No(x)) >= lib
              /\ returned' = TxsOf(Ancestors(best) \ Ancestors(best')) \ TxsOf(Ancestors(best') \ Ancestors(best)))]_vars

\* blocks at or below the LIB are never replaced on the main chain
LibNeverUndone == [][\A n \in 0..lib : hidx'[n] = hidx[n]]_vars

\* C03 (block level): an arrival that ends in an error leaves best, indexes and state exactly as they were
FailedArrivalNoResidue ==
  [][(lastAct'.name = "Arrive" /\ lastAct'.res \in {"error", "cached", "belowlib"} /\ best' = best) =>
        /\ hidx' = hidx /\ txidx' = txidx /\ sroot' = sroot]_vars
=============================================================================
