SPECIFICATION Spec
CONSTANTS
  Blocks <- T2Blocks
  G = "g"
  Parent <- T2Parent
  ValidChoices <- T2Valid
  Txs <- T2Txs
  MaxArrivals = 1
  OrphanCap = 99
  LibChoices = {1, 2}
VIEW view
INVARIANTS TypeOK Coherent LongestValidWins
PROPERTIES NoDisplacement LibNeverUndone FailedArrivalNoResidue
CHECK_DEADLOCK FALSE
