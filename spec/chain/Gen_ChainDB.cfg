\* generation: every transition of the T0 model (5 blocks, 2 branches from genesis, 4 validity assignments)
SPECIFICATION Spec
CONSTANTS
  Blocks <- T0Blocks
  G = "g"
  Parent <- T0Parent
  ValidChoices <- T0Valid
  Txs <- T0Txs
  MaxArrivals = 1
  OrphanCap = 99
  LibChoices = {1}
VIEW view
ACTION_CONSTRAINT GenLog
CHECK_DEADLOCK FALSE
