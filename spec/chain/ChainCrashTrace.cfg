SPECIFICATION TraceSpec
CONSTANTS
  Blocks <- TT0Blocks
  G = "g"
  Parent <- TT0Parent
  Txs <- TT0Txs
INVARIANTS Coherent StateBeforeTip
POSTCONDITION TraceAccepted
CHECK_DEADLOCK FALSE
