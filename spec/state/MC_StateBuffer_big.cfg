\* thorough design check 1: contracts only, <= 3 log entries in total, 2 snapshot levels
SPECIFICATION Spec
CONSTANTS
  Accts = {}
  Ctrs = {"c1", "c2"}
  Keys = {"k1"}
  Vals = {"v1", "v2"}
  InitTries <- Tries1
  MaxABuf = 2
  MaxSBuf = 2
  MaxEnt = 3
  MaxSnaps = 2
  MaxCommits = 1
VIEW mcView
CONSTRAINT StateConstraint
INVARIANTS TypeOK IdxConsistent Refines SrSync CommittedIsRef SnapsValid
PROPERTIES RevertRestores ReadsSeeLastWrite UpdateCommitTransparent
CHECK_DEADLOCK FALSE
