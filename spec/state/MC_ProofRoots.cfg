\* exhaustive design check of the root life cycle (quick): 3 stored keys over 3 bits, single-key updates, 2 new roots,
\* 2 life-cycle steps, every retained root x 8 query keys x 2 encodings
SPECIFICATION RSpec
CONSTANTS
  H = 3
  Keys <- RK3
  Vals <- RV2
  MaxBatch = 1
  MaxCommits = 0
  MaxRoots = 2
  MaxLife = 2
  CopyOnAtomic = TRUE
  Proving = TRUE
VIEW rview
INVARIANTS RTypeOK ProofMatchesRequestedRoot RetainedRootsResolve Sound
PROPERTIES StatusMonotone
CHECK_DEADLOCK FALSE
