\* generation (quick): every behaviour of 4 blocks (<= 2 transfer-only blocks, deploy, canonical single-variable calls)
\* and every query on it: one line per (behaviour, query) with the expected answer
SPECIFICATION Spec
CONSTANTS
  Vars <- SV2
  Ghost = "w"
  Vals <- SVals
  MaxBatch = 1
  MaxBlocks = 4
  KeyLists <- KL2
  FromProven = TRUE
VIEW viewQGen
ACTION_CONSTRAINT QGenLog
CHECK_DEADLOCK FALSE
