\* thorough design check 4: two commit cycles on the same StateDB (the storage cache survives Commit)
SPECIFICATION Spec
CONSTANTS
  Accts = {}
  Ctrs = {"c1", "c2"}
  Keys = {"k1"}
  Vals = {"v1", "v2"}
  InitTries <- Tries1
  MaxABuf = 1
  MaxSBuf = 2
  MaxEnt = 2
  MaxSnaps = 1
  MaxCommits = 2
VIEW mcView
CONSTRAINT StateConstraint
INVARIANTS TypeOK IdxConsistent Refines SrSync CommittedIsRef SnapsValid
PROPERTIES RevertRestores ReadsSeeLastWrite UpdateCommitTransparent
CHECK_DEADLOCK FALSE
