------------------------------ MODULE SmtTrace ------------------------------
(***************************************************************************)
(* TraceLog validation for C10: executions of the real trie (walks on one     *)
(* long-lived instance, recorded by harness/pkg/trie) are checked against  *)
(* Smt.tla.  One ndjson line per commit:                                   *)
(*   {"ev":"Batch","upd":[{"k":[0,0,1],"v":"v1"|"DEL"}..],                 *)
(*    "reads":[{"k":..,"v":..}..]  contents read back through Get,         *)
(*    "depth":[{"k":..,"v":n}..]   abstract depth derived from proof length*)
(*    "root":"<hex>"}                                                      *)
(*   {"ev":"Reset","newfam":b}  new instance on an empty store (next walk); *)
(*                   newfam: another concretisation of the abstract keys   *)
(* The root dictionary `roots` persists across walks: equal contents must  *)
(* always show the same root and different contents different roots.       *)
(***************************************************************************)
EXTENDS Smt, Json

TraceLog == ndJsonDeserialize("trace.ndjson")

VARIABLES l,      \* next line of the trace
          roots   \* root id -> contents it was observed to denote

tvars == <<vars, l, roots>>

ToSet(s) == {s[i] : i \in DOMAIN s}
FromPairs(ps) == LET S == ToSet(ps) IN [k \in {p.k : p \in S} |-> (CHOOSE p \in S : p.k = k).v]

TK4 == { <<0,0,0>>, <<0,0,1>>, <<0,1,0>>, <<1,0,0>> }
TV2 == {"v1", "v2"}

TraceInit == Init /\ l = 1 /\ roots = [r \in {} |-> EmptyMap]

TraceBatch ==
  /\ l <= Len(TraceLog) /\ TraceLog[l].ev = "Batch"
  /\ LET e   == TraceLog[l]
         upd == FromPairs(e.upd)
     IN /\ upd \in Updates
        /\ Batch(upd)
        /\ map' = FromPairs(e.reads)                                  \* reads = model contents
        /\ \A p \in ToSet(e.depth) : p.k \in DOMAIN map' /\ Depth(p.k, DOMAIN map') = p.v   \* canonical shape
        /\ {p.k : p \in ToSet(e.depth)} = DOMAIN map'
        /\ IF e.root \in DOMAIN roots
             THEN roots[e.root] = map' /\ roots' = roots             \* same root => same contents
             ELSE /\ \A r \in DOMAIN roots : roots[r] # map'          \* same contents => same root
                  /\ roots' = [r \in DOMAIN roots \cup {e.root} |-> IF r = e.root THEN map' ELSE roots[r]]
  /\ l' = l + 1

TraceReset ==
  /\ l <= Len(TraceLog) /\ TraceLog[l].ev = "Reset"
  /\ map' = EmptyMap /\ hist' = <<>> /\ lastAct' = [name |-> "Reset"]
  /\ roots' = IF TraceLog[l].newfam THEN [r \in {} |-> EmptyMap] ELSE roots   \* the dictionary is per key family
  /\ l' = l + 1

TraceNext == TraceBatch \/ TraceReset
TraceSpec == TraceInit /\ [][TraceNext]_tvars

TraceAccepted == TLCGet("stats").diameter - 1 = Len(TraceLog)
\* where the validation stopped (printed when the trace is rejected)
TraceProgress == PrintT(<<"TRACE-PROGRESS", TLCGet("stats").diameter - 1, Len(TraceLog)>>)
=============================================================================
