------------------------------- MODULE Proof --------------------------------
(***************************************************************************)
(* C11 — Merkle proofs of the sparse Merkle state trie (pkg/trie           *)
(* trie_merkle_proof.go; state/statedb GetAccountAndProof/GetVarAndProof). *)
(*                                                                         *)
(* The trie is the canonical tree of Smt.tla (C10) over an INJECTIVE       *)
(* symbolic hash: Leaf(k,v,heightByte), Node(l,r), Default.  A full node   *)
(* commits a sequence of tries (hist, one per block, hist[1] = the empty   *)
(* trie); it answers Prove(ri,k,enc) for any committed root; an adversary  *)
(* between node and light client may Forge the answer once (single-field   *)
(* corruptions, transplants to another key/root, claim flips); the client  *)
(* evaluates the verifier.                                                 *)
(*                                                                         *)
(* Two verifiers are modelled by one operator Accept(msg, coded):          *)
(*   coded = FALSE  the intended design (sound and complete — checked)     *)
(*   coded = TRUE   what the Go code does; it deviates in two NAMED places *)
(*                  (oddity O1: VerifyNonInclusion does not require        *)
(*                  proofKey # key; oddity O2: the root of the empty trie  *)
(*                  is nil, not DefaultLeaf, so the empty proof of absence *)
(*                  is rejected).  CodeDeviatesOnlyAsNamed shows these are *)
(*                  the only differences.                                  *)
(* Abstract keys are bit strings of length H; the byte holding the leaf    *)
(* height wraps exactly like byte(256-0) = 0 in the code: HeightByte.      *)
(***************************************************************************)
EXTENDS Integers, Sequences, FiniteSets, TLC, Util

CONSTANTS H,          \* number of abstract key bits (= abstract TrieHeight)
          Keys,       \* keys that may be stored (subset of AllKeys), as sequences of 0/1
          Vals,       \* values
          MaxBatch,   \* max number of keys per batch
          MaxCommits  \* number of blocks committed after the initial empty trie

Del     == "DEL"
None    == "none"                       \* absent optional value (nil in Go)
NoKey   == <<>>                         \* absent optional key (nil proofKey in Go)
NoForge == [t |-> "none"]               \* the message is as the node sent it
Default == <<"default">>                \* DefaultLeaf: hash of an empty subtree
NilRoot == <<"nil">>                    \* O2: Trie.Root of an empty trie in the Go code
Junk    == <<"junk">>                   \* a hash value that occurs nowhere in any trie
AllKeys == [1..H -> {0, 1}]             \* every key a client may ask about
Encs    == {"plain", "comp"}            \* MerkleProof / MerkleProofCompressed

VARIABLES hist,       \* committed tries (maps), hist[1] = empty, append-only
          msg,        \* the proof message on the wire (NoMsg when none)
          lastAct

vars == <<hist, msg, lastAct>>
view == <<hist, msg>>

EmptyMap == [k \in {} |-> Del]
NoMsg    == [kind |-> "none"]
Cur      == hist[Len(hist)]

\* ------------------------------------------------------------------ map semantics (as Smt.tla)
Apply(m, upd) ==
  LET S    == DOMAIN upd
      dels == {k \in S : upd[k] = Del}
      dom  == (DOMAIN m \cup S) \ dels
  IN [k \in dom |-> IF k \in S THEN upd[k] ELSE m[k]]

Updates == UNION {[S -> Vals \cup {Del}] : S \in {T \in SUBSET Keys : Cardinality(T) \in 1..MaxBatch}}
AllMaps == UNION {[S -> Vals] : S \in SUBSET Keys}

\* ------------------------------------------------------------------ the tree (canonical shape of C10)
\* O3: byte(TrieHeight - depth) wraps: depth 0 and depth H give the same byte (256 -> 0 in the code)
HeightByte(depth) == (H - depth) % H
Leaf(k, v, depth) == <<"leaf", k, v, HeightByte(depth)>>
Node(l, r)        == <<"node", l, r>>

RECURSIVE Tree(_, _, _)
Tree(m, ks, lvl) ==   \* ks: keys of m below this node, lvl: bits already fixed (= depth)
  IF ks = {} THEN Default
  ELSE IF Cardinality(ks) = 1 THEN LET k == CHOOSE x \in ks : TRUE IN Leaf(k, m[k], lvl)
  ELSE Node(Tree(m, {k \in ks : k[lvl + 1] = 0}, lvl + 1), Tree(m, {k \in ks : k[lvl + 1] = 1}, lvl + 1))

Root(m) == Tree(m, DOMAIN m, 0)

\* ------------------------------------------------------------------ proof generation (merkleProof)
\* Walks the same nodes as Get.  ap is built bottom-up: ap[1] is the sibling next to the
\* node where the walk ends, ap[Len(ap)] the sibling of the root's child.
RECURSIVE Walk(_, _, _, _)
Walk(m, ks, lvl, q) ==
  IF ks = {} THEN [ap |-> <<>>, incl |-> FALSE, pk |-> NoKey, pv |-> None]           \* empty subtree on the path
  ELSE IF Cardinality(ks) = 1
    THEN LET k == CHOOSE x \in ks : TRUE IN
         IF k = q THEN [ap |-> <<>>, incl |-> TRUE,  pk |-> NoKey, pv |-> m[k]]       \* the key itself
                  ELSE [ap |-> <<>>, incl |-> FALSE, pk |-> k,    pv |-> m[k]]        \* a foreign leaf on the path
  ELSE LET same == {k \in ks : k[lvl + 1] = q[lvl + 1]}
           r    == Walk(m, same, lvl + 1, q)
       IN [r EXCEPT !.ap = Append(r.ap, Tree(m, ks \ same, lvl + 1))]

BitIdx == 0..H      \* bitmap positions (the Go bitmap always has at least one spare bit)

\* the answer of a node that walks the tree of contents m for key q, sent as the answer for root ri
HonestOf(m, ri, q, enc) ==
  LET w  == Walk(m, DOMAIN m, 0, q)
      nd == SelectSeq(w.ap, LAMBDA h : h # Default)
  IN [kind |-> "proof", ri |-> ri, key |-> q, enc |-> enc, forged |-> NoForge,
      incl |-> w.incl,
      val  |-> IF w.incl THEN w.pv ELSE None,        \* inclusion: the value travels as the account state / variable
      pk   |-> w.pk,
      pv   |-> IF w.incl THEN None ELSE w.pv,        \* GetAccountAndProof clears ProofVal on inclusion
      ap   |-> IF enc = "plain" THEN w.ap ELSE nd,
      bm   |-> IF enc = "plain" THEN {} ELSE {i \in BitIdx : i < Len(w.ap) /\ w.ap[i + 1] # Default},
      height |-> IF enc = "plain" THEN 0 ELSE Len(w.ap)]

\* the honest answer of the node for key q against committed root ri
Honest(ri, q, enc) == HonestOf(hist[ri], ri, q, enc)

\* ------------------------------------------------------------------ verification (VerifyInclusion(C), VerifyNonInclusion(C))
\* verifyInclusion: level i (from the root) uses ap[len-i-1] (0-based) = ap[Len(ap)-i] (1-based)
RECURSIVE Fold(_, _, _, _)
Fold(ap, i, key, leaf) ==
  IF i = Len(ap) THEN leaf
  ELSE LET sub == Fold(ap, i + 1, key, leaf)
           sib == ap[Len(ap) - i]
       IN IF key[i + 1] = 1 THEN Node(sib, sub) ELSE Node(sub, sib)

\* verifyInclusionC: level i uses bitmap bit length-i-1; set: next element from the END of ap, clear: DefaultLeaf
RECURSIVE FoldC(_, _, _, _, _, _, _)
FoldC(bm, ap, length, i, j, key, leaf) ==
  IF i = length THEN leaf
  ELSE IF (length - i - 1) \in bm
    THEN LET sub == FoldC(bm, ap, length, i + 1, j + 1, key, leaf)
         IN IF key[i + 1] = 1 THEN Node(ap[Len(ap) - j], sub) ELSE Node(sub, ap[Len(ap) - j])
    ELSE LET sub == FoldC(bm, ap, length, i + 1, j, key, leaf)
         IN IF key[i + 1] = 1 THEN Node(Default, sub) ELSE Node(sub, Default)

\* inputs on which the Go code indexes out of range (it panics; a panic is not an acceptance)
WellFormed(p) ==
  IF p.enc = "plain" THEN Len(p.ap) <= H
  ELSE /\ p.height \in 0..H
       /\ Cardinality({i \in p.bm : i < p.height}) <= Len(p.ap)

Computed(p, key, leaf) ==
  IF p.enc = "plain" THEN Fold(p.ap, 0, key, leaf)
                     ELSE FoldC(p.bm, p.ap, p.height, 0, 0, key, leaf)
PathLen(p) == IF p.enc = "plain" THEN Len(p.ap) ELSE p.height

RootSeen(m, o2) == IF o2 /\ m = EmptyMap THEN NilRoot ELSE Root(m)                \* O2

\* o1, o2: the verifier has oddity O1 / O2 of the Go code
AcceptO(p, o1, o2) ==
  LET root == RootSeen(hist[p.ri], o2) IN
  /\ WellFormed(p)
  /\ IF p.incl
       THEN root = Computed(p, p.key, Leaf(p.key, p.val, PathLen(p)))
     ELSE IF p.pk = NoKey
       THEN root = Computed(p, p.key, Default)                                     \* an empty subtree is on the path
     ELSE /\ root = Computed(p, p.pk, Leaf(p.pk, p.pv, PathLen(p)))                \* the foreign leaf is in the trie
          /\ \A b \in 1..PathLen(p) : p.key[b] = p.pk[b]                           \* ... and on the path of key
          /\ (o1 \/ p.pk # p.key)                                                  \* O1: missing in the Go code

\* coded = FALSE: the design verifier; coded = TRUE: the verifier as coded (both oddities)
Accept(p, coded) == AcceptO(p, coded, coded)

\* what the message claims, and whether that is true of the trie denoted by the root the client trusts
ClaimTrue(p) ==
  LET m == hist[p.ri] IN
  IF p.incl THEN p.key \in DOMAIN m /\ m[p.key] = p.val
            ELSE p.key \notin DOMAIN m

\* ------------------------------------------------------------------ the adversary: one forgery per honest message
JunkOrDefault(s) == IF s = "default" THEN Default ELSE Junk

Forgeries(p) ==
     {[t |-> "Key", k |-> k] : k \in AllKeys \ {p.key}}                                     \* proof of k shown for k'
  \cup {[t |-> "Root", ri |-> j] : j \in {x \in DOMAIN hist : hist[x] # hist[p.ri]}}          \* ... against another root
  \cup {[t |-> "FlipIncl"]}                                                                  \* claim flipped, fields kept
  \cup (IF p.incl
          THEN {[t |-> "Val", v |-> v] : v \in Vals \ {p.val}}                               \* another value
               \cup {[t |-> "SelfLeaf"]}                                                     \* absence "proved" by the key's own leaf
          ELSE {[t |-> "AsPresent", v |-> v] : v \in Vals}                                   \* presence claimed from an absence proof
               \cup {[t |-> "ProofKey", k |-> k] : k \in (AllKeys \cup {NoKey}) \ {p.pk}}
               \cup (IF p.pk = NoKey THEN {} ELSE {[t |-> "ProofVal", v |-> v] : v \in Vals \ {p.pv}}))
  \cup {[t |-> "Sib", i |-> i, s |-> s] : i \in 1..Len(p.ap), s \in {"default", "junk"}}
  \cup {[t |-> "SibCopy", i |-> i, j |-> j] : i \in 1..Len(p.ap), j \in 1..Len(p.ap)}
  \cup (IF Len(p.ap) > 0 THEN {[t |-> "DropBottom"], [t |-> "DropTop"]} ELSE {})              \* sibling count
  \cup {[t |-> "PushBottom", s |-> s] : s \in {"default", "junk"}}
  \cup {[t |-> "PushTop", s |-> s] : s \in {"default", "junk"}}
  \cup (IF p.enc = "comp"
          THEN {[t |-> "Height", d |-> d] : d \in {x \in {0 - 1, 1} : p.height + x >= 0}}     \* height field
               \cup {[t |-> "Bit", i |-> i] : i \in BitIdx}                                   \* one bitmap bit
          ELSE {})

Forged(p, f) ==
  CASE f.t = "Key"        -> [p EXCEPT !.key = f.k]
    [] f.t = "Root"       -> [p EXCEPT !.ri = f.ri]
    [] f.t = "FlipIncl"   -> IF p.incl THEN [p EXCEPT !.incl = FALSE, !.val = None]
                                       ELSE [p EXCEPT !.incl = TRUE, !.val = p.pv, !.pk = NoKey, !.pv = None]
    [] f.t = "Val"        -> [p EXCEPT !.val = f.v]
    [] f.t = "SelfLeaf"   -> [p EXCEPT !.incl = FALSE, !.pk = p.key, !.pv = p.val, !.val = None]
    [] f.t = "AsPresent"  -> [p EXCEPT !.incl = TRUE, !.val = f.v, !.pk = NoKey, !.pv = None]
    [] f.t = "ProofKey"   -> [p EXCEPT !.pk = f.k]
    [] f.t = "ProofVal"   -> [p EXCEPT !.pv = f.v]
    [] f.t = "Sib"        -> [p EXCEPT !.ap[f.i] = JunkOrDefault(f.s)]
    [] f.t = "SibCopy"    -> [p EXCEPT !.ap[f.i] = p.ap[f.j]]
    [] f.t = "DropBottom" -> [p EXCEPT !.ap = Tail(p.ap)]
    [] f.t = "DropTop"    -> [p EXCEPT !.ap = SubSeq(p.ap, 1, Len(p.ap) - 1)]
    [] f.t = "PushBottom" -> [p EXCEPT !.ap = <<JunkOrDefault(f.s)>> \o p.ap]
    [] f.t = "PushTop"    -> [p EXCEPT !.ap = Append(p.ap, JunkOrDefault(f.s))]
    [] f.t = "Height"     -> [p EXCEPT !.height = p.height + f.d]
    [] f.t = "Bit"        -> [p EXCEPT !.bm = IF f.i \in p.bm THEN p.bm \ {f.i} ELSE p.bm \cup {f.i}]

\* (identity forgeries such as SibCopy with i = j are kept: they are messages too)

\* ------------------------------------------------------------------ actions
Init == /\ hist = <<EmptyMap>>
        /\ msg = NoMsg
        /\ lastAct = [name |-> "Init"]

\* one block: a sorted batch of updates/deletions and a commit (the tries of C10)
Batch(upd) == /\ msg = NoMsg
              /\ Len(hist) <= MaxCommits
              /\ hist' = Append(hist, Apply(Cur, upd))
              /\ msg' = NoMsg
              /\ lastAct' = [name |-> "Batch", upd |-> upd]

\* the node answers a proof request for key q against the committed root ri (current or historical)
Prove(ri, q, enc) == /\ msg = NoMsg
                     /\ msg' = Honest(ri, q, enc)
                     /\ UNCHANGED hist
                     /\ lastAct' = [name |-> "Prove", ri |-> ri, key |-> q, enc |-> enc]

\* the adversary alters the answer once
Forge(f) == /\ msg.kind = "proof" /\ msg.forged = NoForge
            /\ f \in Forgeries(msg)
            /\ msg' = [Forged(msg, f) EXCEPT !.forged = f]
            /\ UNCHANGED hist
            /\ lastAct' = [name |-> "Forge", f |-> f]

\* the light client evaluates the verifier on whatever arrived and consumes the message
Verify == /\ msg.kind = "proof"
          /\ msg' = NoMsg
          /\ UNCHANGED hist
          /\ lastAct' = [name |-> "Verify", accepted |-> Accept(msg, FALSE)]

Next == \/ \E upd \in Updates : Batch(upd)
        \/ \E ri \in DOMAIN hist, q \in AllKeys, enc \in Encs : Prove(ri, q, enc)
        \/ \E f \in (IF msg.kind = "proof" /\ msg.forged = NoForge THEN Forgeries(msg) ELSE {}) : Forge(f)
        \/ Verify

Spec == Init /\ [][Next]_vars

\* ------------------------------------------------------------------ properties
IsProof  == msg.kind = "proof"
IsHonest == IsProof /\ msg.forged = NoForge

TypeOK == /\ \A i \in DOMAIN hist : hist[i] \in AllMaps
          /\ hist[1] = EmptyMap
          /\ IsProof => /\ msg.ri \in DOMAIN hist /\ msg.key \in AllKeys /\ msg.enc \in Encs
                        /\ msg.incl \in BOOLEAN /\ msg.bm \subseteq BitIdx

\* every key of every committed trie has an accepted proof of its value or of its absence, and the claim is the truth
Complete == IsHonest => /\ Accept(msg, FALSE)
                        /\ ClaimTrue(msg)
                        /\ msg.incl = (msg.key \in DOMAIN hist[msg.ri])

\* nothing false is ever accepted: neither a forged nor an honest message
Sound == IsProof => (Accept(msg, FALSE) => ClaimTrue(msg))

\* the Go verifier differs from the design verifier only in the two named oddities
SelfLeafCase(p)  == ~p.incl /\ p.pk = p.key                         \* O1
EmptyRootCase(p) == hist[p.ri] = EmptyMap                           \* O2
CodeDeviatesOnlyAsNamed ==
  IsProof => ((Accept(msg, TRUE) # Accept(msg, FALSE)) => (SelfLeafCase(msg) \/ EmptyRootCase(msg)))

\* both encodings carry the same path: expanding the compressed proof gives the plain one
Expand(p) == [i \in 1..p.height |->
                IF (i - 1) \in p.bm THEN p.ap[Cardinality({j \in p.bm : j < i - 1}) + 1] ELSE Default]
EncodingsAgree ==
  (IsHonest /\ msg.enc = "comp") =>
     LET q == Honest(msg.ri, msg.key, "plain") IN
       /\ Expand(msg) = q.ap
       /\ <<msg.incl, msg.val, msg.pk, msg.pv>> = <<q.incl, q.val, q.pk, q.pv>>

\* the proof of a present key is as long as the key's canonical depth (C10's shape)
RECURSIVE Lcp(_, _, _)
Lcp(a, b, i) == IF i > H \/ a[i] # b[i] THEN i - 1 ELSE Lcp(a, b, i + 1)
Depth(k, dom) == IF dom \ {k} = {} THEN 0 ELSE Max({Lcp(k, o, 1) : o \in dom \ {k}}) + 1
ProofLenIsDepth ==
  (IsHonest /\ msg.incl) => PathLen(msg) = Depth(msg.key, DOMAIN hist[msg.ri])

\* roots denote their contents (over the whole universe of maps; evaluated once, in the initial state)
RootInjective == (Len(hist) = 1 /\ msg = NoMsg) => \A m1, m2 \in AllMaps : (Root(m1) = Root(m2)) => (m1 = m2)

\* committed roots never change
HistoryStable == [][\A i \in 1..Len(hist) : hist'[i] = hist[i]]_vars

\* ------------------------------------------------------------------ generation (Gen_*.cfg): one line per Prove step
\* with the honest message's shape and the table of all its forgeries (every Forge successor) and their verdicts
Shape(p) == [incl |-> p.incl, val |-> p.val, pk |-> p.pk, pv |-> p.pv, len |-> PathLen(p),
             nd |-> IF p.enc = "plain" THEN {i \in BitIdx : i < Len(p.ap) /\ p.ap[i + 1] # Default} ELSE p.bm,
             naps |-> Len(p.ap)]
\* (design, as coded, claim true, as coded on a store where the abstractly empty trie is not physically empty)
Outcome(p) == <<Accept(p, FALSE), Accept(p, TRUE), ClaimTrue(p), AcceptO(p, TRUE, FALSE)>>
ForgeTable(p) == {<<f, Outcome(Forged(p, f))>> : f \in Forgeries(p)}
=============================================================================
