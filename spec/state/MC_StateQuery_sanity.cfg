\* sanity configuration (not part of the check): the variable proofs are built on the LATEST storage of the contract.
\* TLC must report AnswersTheRequestedBlock violated (Deploy, Call, Query(older block)).
SPECIFICATION Spec
CONSTANTS
  Vars <- SV2
  Ghost = "w"
  Vals <- SVals
  MaxBatch = 1
  MaxBlocks = 3
  KeyLists <- KL2
  FromProven = FALSE
VIEW view
INVARIANTS TypeOK AnswersTheRequestedBlock
CHECK_DEADLOCK FALSE
