\* sanity configuration (not part of the check): a loadBatch that hands out the uncommitted batch itself during an
\* AtomicUpdate.  TLC must report ProofMatchesRequestedRoot violated (AtomicUpdate, AtomicUpdate, ProveAt(earlier root)).
SPECIFICATION RSpec
CONSTANTS
  H = 3
  Keys <- RK2
  Vals <- RV2
  MaxBatch = 1
  MaxCommits = 0
  MaxRoots = 2
  MaxLife = 1
  CopyOnAtomic = FALSE
  Proving = TRUE
VIEW rview
INVARIANTS RTypeOK ProofMatchesRequestedRoot
CHECK_DEADLOCK FALSE
