---------------------------- MODULE MC_StateQuery ----------------------------
EXTENDS StateQuery, Json

SV2 == {"x", "y"}
SV3 == {"x", "y", "z"}
SVals == {"v1", "v2"}
\* what clients send: one key (aergocli, web3) or a list (grpc)
KL2 == { <<"x">>, <<"y">>, <<"w">>, <<"x", "y", "w">> }
KL3 == { <<"x">>, <<"z">>, <<"w">>, <<"w", "z", "y", "x">> }

\* ---- generation: behaviours are built to their full length (one contract per behaviour); every query of a
\* full-length behaviour is printed once as JSON <<trail, chain, query, expected answer>>
viewQGen == <<chain, trail, ans>>
JMap(m)  == {<<k, m[k]>> : k \in DOMAIN m}
JAct(a)  == IF "upd" \in DOMAIN a THEN [a EXCEPT !.upd = JMap(a.upd)] ELSE a
JChain   == [i \in DOMAIN chain |-> [ctr |-> chain[i].ctr, sv |-> JMap(chain[i].sv), nonce |-> chain[i].nonce]]
IsQ(a)   == a.name \in {"Query", "AcctQuery"}
NIdle(t) == Cardinality({i \in DOMAIN t : t[i].name = "Idle"})
\* canonical writes: an absent variable is created with v1, a present one gets its other value or is deleted
Canon(upd) == \A k \in DOMAIN upd : IF k \in DOMAIN Last.sv THEN upd[k] # Last.sv[k] ELSE upd[k] = "v1"
QGenLog ==
  /\ (lastAct'.name \in {"Deploy", "Call"} => Canon(lastAct'.upd))
  /\ (lastAct'.name = "Idle" => NIdle(trail') <= 2)
  /\ (IsQ(lastAct') => Len(chain) = MaxBlocks + 1)
  /\ (IsQ(lastAct') => PrintT("TJ|" \o ToJson(<<[i \in DOMAIN trail |-> JAct(trail[i])], JChain, lastAct', ans'>>)))
=============================================================================
