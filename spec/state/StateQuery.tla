----------------------------- MODULE StateQuery ------------------------------
(***************************************************************************)
(* C11, node level — the state queries of the chain service                *)
(* (chain/chainservice.go ChainWorker.Receive: *message.GetStateQuery      *)
(* behind the QueryContractState RPC, *message.GetStateAndProof behind the *)
(* GetStateAndProof RPC) answer for the block whose state root was asked.  *)
(*                                                                         *)
(* A chain is a sequence of block states.  One user account sends one      *)
(* transaction per block: it deploys a contract (the constructor writes    *)
(* variables), calls it (variables are written, overwritten, deleted,      *)
(* created later) or just transfers (the contract is not touched).         *)
(* A light client that trusts the state root of block b asks               *)
(*   QueryContractState(contract, storage keys, root of b | none, compr.)  *)
(* and checks: the contract account proof against the root of b, then each *)
(* variable proof against the storage root INSIDE the proven account.  The *)
(* handler works in two steps, and the model keeps them apart:             *)
(*   acct : the account state proven at block B(b)                         *)
(*   from : the block whose storage trie the variable proofs are built on  *)
(* FromProven = TRUE (design and code): from = B(b), the storage root is   *)
(* taken out of the proven account.  FALSE (sanity configuration): the     *)
(* contract is opened at the latest state — TLC must then find             *)
(* AnswersTheRequestedBlock violated.                                      *)
(***************************************************************************)
EXTENDS Integers, Sequences, FiniteSets, TLC, Util

CONSTANTS Vars,        \* contract variables that transactions write
          Ghost,       \* a variable nobody ever writes
          Vals,
          MaxBatch,    \* variables touched by one transaction
          MaxBlocks,   \* blocks after genesis
          KeyLists,    \* the storage-key lists a client sends (sequences over Vars \cup {Ghost})
          FromProven   \* TRUE: design = code

Del     == "DEL"
None    == "none"
AllVars == Vars \cup {Ghost}
Whos    == {"contract", "sender", "nobody"}

VARIABLES chain,     \* chain[i+1]: state after block i (chain[1] = genesis): [ctr, sv, nonce]
          ans,       \* the answer on the wire (NoAns when none)
          lastAct,
          trail      \* history variable: the block-building actions (generation: one contract per behaviour)

vars == <<chain, ans, lastAct, trail>>
view == <<chain, ans>>

EmptyMap == [k \in {} |-> Del]
NoAns    == [kind |-> "none"]
Last     == chain[Len(chain)]

Apply(m, upd) ==
  LET S    == DOMAIN upd
      dels == {k \in S : upd[k] = Del}
      dom  == (DOMAIN m \cup S) \ dels
  IN [k \in dom |-> IF k \in S THEN upd[k] ELSE m[k]]

Updates == UNION {[S -> Vals \cup {Del}] : S \in {T \in SUBSET Vars : Cardinality(T) \in 1..MaxBatch}}
Ctors   == UNION {[S -> Vals] : S \in {T \in SUBSET Vars : Cardinality(T) \in 0..MaxBatch}}

\* the block a root argument denotes: 0 = no root given = the latest block
B(b) == IF b = 0 THEN Len(chain) ELSE b

Init == /\ chain = <<[ctr |-> FALSE, sv |-> EmptyMap, nonce |-> 0]>>
        /\ ans = NoAns
        /\ lastAct = [name |-> "Init"]
        /\ trail = <<>>

Grow(s, a) == /\ ans = NoAns /\ Len(chain) <= MaxBlocks
              /\ chain' = Append(chain, [s EXCEPT !.nonce = Last.nonce + 1])
              /\ ans' = NoAns
              /\ lastAct' = a
              /\ trail' = Append(trail, a)

\* a block whose only transaction is a transfer of the sender: the contract (if any) is not touched
Idle == Grow(Last, [name |-> "Idle"])

\* the sender deploys the contract; the constructor writes variables
Deploy(upd) == /\ ~Last.ctr
               /\ Grow([Last EXCEPT !.ctr = TRUE, !.sv = Apply(EmptyMap, upd)], [name |-> "Deploy", upd |-> upd])

\* the sender calls the contract: set / delete
Call(upd) == /\ Last.ctr
             /\ Grow([Last EXCEPT !.sv = Apply(Last.sv, upd)], [name |-> "Call", upd |-> upd])

\* QueryContractState: ks = the storage keys, b = the block whose state root is given (0: none), comp = compressed
VarAnswer(S, k) == [incl |-> k \in DOMAIN S, val |-> IF k \in DOMAIN S THEN S[k] ELSE None]
Query(b, ks, comp) ==
  /\ ans = NoAns
  /\ LET acct == chain[B(b)]
         from == IF FromProven THEN B(b) ELSE Len(chain)
     IN ans' = [kind |-> "query", b |-> b, comp |-> comp, ks |-> ks,
                acct |-> [incl |-> acct.ctr],
                \* no variable proofs for an absent contract
                vars |-> IF acct.ctr THEN [i \in DOMAIN ks |-> VarAnswer(chain[from].sv, ks[i])] ELSE <<>>,
                \* the variable proofs verify against the storage root in the proven account iff they were built on it
                verifies |-> acct.ctr => chain[from].sv = acct.sv]
  /\ UNCHANGED <<chain, trail>>
  /\ lastAct' = [name |-> "Query", b |-> b, ks |-> ks, comp |-> comp]

\* GetStateAndProof for the contract account, the sender, an address nobody uses
AcctIncl(s, who) == CASE who = "contract" -> s.ctr [] who = "sender" -> TRUE [] who = "nobody" -> FALSE
AcctQuery(b, who, comp) ==
  /\ ans = NoAns
  /\ ans' = [kind |-> "acct", b |-> b, comp |-> comp, who |-> who,
             incl |-> AcctIncl(chain[B(b)], who),
             nonce |-> IF who = "sender" THEN chain[B(b)].nonce ELSE 0]
  /\ UNCHANGED <<chain, trail>>
  /\ lastAct' = [name |-> "AcctQuery", b |-> b, who |-> who, comp |-> comp]

\* the client consumes the answer
Consume == /\ ans # NoAns
           /\ ans' = NoAns
           /\ UNCHANGED <<chain, trail>>
           /\ lastAct' = [name |-> "Consume"]

Next == \/ Idle
        \/ \E upd \in Ctors : Deploy(upd)
        \/ \E upd \in Updates : Call(upd)
        \/ \E b \in 0..Len(chain), ks \in KeyLists, comp \in BOOLEAN : Query(b, ks, comp)
        \/ \E b \in 0..Len(chain), who \in Whos, comp \in BOOLEAN : AcctQuery(b, who, comp)
        \/ Consume

Spec == Init /\ [][Next]_vars

\* ------------------------------------------------------------------ properties
TypeOK == /\ \A i \in DOMAIN chain : /\ chain[i].ctr \in BOOLEAN
                                      /\ DOMAIN chain[i].sv \subseteq Vars
                                      /\ chain[i].nonce = i - 1
                                      /\ (~chain[i].ctr => chain[i].sv = EmptyMap)
          /\ \A i \in 1..(Len(chain) - 1) : chain[i].ctr => chain[i + 1].ctr

\* THE property: the answer is about the block whose root was given
AnswersTheRequestedBlock ==
  /\ ans.kind = "query" =>
       LET s == chain[B(ans.b)] IN
       /\ ans.acct.incl = s.ctr
       /\ ans.verifies
       /\ s.ctr => /\ Len(ans.vars) = Len(ans.ks)
                   /\ \A i \in DOMAIN ans.ks :
                        /\ ans.vars[i].incl = (ans.ks[i] \in DOMAIN s.sv)
                        /\ (ans.vars[i].incl => ans.vars[i].val = s.sv[ans.ks[i]])
       /\ ~s.ctr => ans.vars = <<>>
  /\ ans.kind = "acct" =>
       LET s == chain[B(ans.b)] IN
       /\ ans.incl = AcctIncl(s, ans.who)
       /\ (ans.who = "sender" => ans.nonce = s.nonce)

\* blocks are immutable
ChainStable == [][\A i \in 1..Len(chain) : chain'[i] = chain[i]]_vars
=============================================================================
