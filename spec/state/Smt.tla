-------------------------------- MODULE Smt ---------------------------------
(***************************************************************************)
(* C10 — the sparse Merkle state trie as a content-addressed, history-     *)
(* independent, persistent key-value map (pkg/trie, state/statedb).        *)
(*                                                                         *)
(* Abstract keys are bit strings of length H (H small); the harness maps   *)
(* abstract bit i to a chosen bit position of a 256-bit key, so that the   *)
(* prefix structure of the abstract key set is the prefix structure of the *)
(* concrete one (stretched).                                               *)
(*                                                                         *)
(* State: the current map and the list of committed maps (one per Batch).  *)
(* Canonical shape: the trie stores a key at the highest subtree root that *)
(* contains only that key, so the depth of a key is a function of the key  *)
(* SET (history independence), and so is the root.                         *)
(***************************************************************************)
EXTENDS Integers, Sequences, FiniteSets, TLC, Util

CONSTANTS H,          \* number of abstract key bits
          Keys,       \* the abstract keys used: a subset of [1..H -> {0,1}] given as sequences
          Vals,       \* values
          MaxBatch,   \* max number of keys per batch
          MaxCommits  \* bound on the number of commits (history length)

Del == "DEL"          \* the DefaultLeaf: writing it deletes

VARIABLES map,        \* current contents: function from a subset of Keys to Vals
          hist,       \* sequence of committed maps (hist[i] = contents after commit i)
          lastAct     \* name and arguments of the last action (hidden by VIEW in MC configs)

vars == <<map, hist, lastAct>>
view == <<map, Len(hist)>>

EmptyMap == [k \in {} |-> Del]

\* ------------------------------------------------------------------ map semantics
Apply(m, upd) ==
  LET S    == DOMAIN upd
      dels == {k \in S : upd[k] = Del}
      dom  == (DOMAIN m \cup S) \ dels
  IN [k \in dom |-> IF k \in S THEN upd[k] ELSE m[k]]

Updates == UNION {[S -> Vals \cup {Del}] : S \in {T \in SUBSET Keys : Cardinality(T) \in 1..MaxBatch}}

\* ------------------------------------------------------------------ canonical shape
\* length of the longest common prefix of two different keys
RECURSIVE Lcp(_, _, _)
Lcp(a, b, i) == IF i > H \/ a[i] # b[i] THEN i - 1 ELSE Lcp(a, b, i + 1)

\* number of siblings on the path from the root to the node holding k (= length of a merkle proof)
Depth(k, dom) == IF dom \ {k} = {} THEN 0
                 ELSE Max({Lcp(k, o, 1) : o \in dom \ {k}}) + 1

\* The canonical tree of a map, as a nested tuple over an injective symbolic hash.
RECURSIVE Tree(_, _, _)
Tree(m, ks, lvl) ==   \* ks: keys of m in this subtree, lvl: number of bits already fixed
  IF ks = {} THEN <<"default">>
  ELSE IF Cardinality(ks) = 1 THEN LET k == CHOOSE x \in ks : TRUE IN <<"leaf", k, m[k], H - lvl>>
  ELSE <<"node", Tree(m, {k \in ks : k[lvl + 1] = 0}, lvl + 1), Tree(m, {k \in ks : k[lvl + 1] = 1}, lvl + 1)>>

Root(m) == Tree(m, DOMAIN m, 0)

\* ------------------------------------------------------------------ actions
Init == /\ map = EmptyMap
        /\ hist = <<>>
        /\ lastAct = [name |-> "Init"]

\* one sorted batch of updates/deletions + one commit (what the node does once per block)
Batch(upd) == /\ Len(hist) < MaxCommits
              /\ map' = Apply(map, upd)
              /\ hist' = Append(hist, map')
              /\ lastAct' = [name |-> "Batch", upd |-> upd]

\* a fresh instance opened on the stored data at the current root
Reopen == /\ Len(hist) > 0
          /\ UNCHANGED <<map, hist>>
          /\ lastAct' = [name |-> "Reopen"]

Next == (\E upd \in Updates : Batch(upd)) \/ Reopen

Spec == Init /\ [][Next]_vars

\* ------------------------------------------------------------------ properties
TypeOK == /\ DOMAIN map \subseteq Keys
          /\ \A k \in DOMAIN map : map[k] \in Vals

\* reading returns the last value written, nothing for deleted/never written keys
ReadsLastWrite ==
  [][lastAct'.name = "Batch" =>
      LET upd == lastAct'.upd IN
        \A k \in Keys :
          /\ (k \in DOMAIN upd /\ upd[k] # Del) => (k \in DOMAIN map' /\ map'[k] = upd[k])
          /\ (k \in DOMAIN upd /\ upd[k] = Del) => k \notin DOMAIN map'
          /\ (k \notin DOMAIN upd) => ((k \in DOMAIN map') = (k \in DOMAIN map)
                                       /\ (k \in DOMAIN map => map'[k] = map[k]))]_vars

\* deleting an absent key changes nothing
DeleteAbsentNoop ==
  [][(lastAct'.name = "Batch" /\ \A k \in DOMAIN lastAct'.upd : lastAct'.upd[k] = Del /\ k \notin DOMAIN map)
        => map' = map]_vars

\* the root is a function of the contents only, and different contents have different roots
\* (checked over the whole universe of maps, once, in the initial state)
AllMaps == UNION {[S -> Vals] : S \in SUBSET Keys}
RootInjective == (hist = <<>>) => \A m1, m2 \in AllMaps : (Root(m1) = Root(m2)) => (m1 = m2)
\* every committed root denotes its own contents
HistRoots == \A i \in 1..Len(hist) : \A j \in 1..Len(hist) : (Root(hist[i]) = Root(hist[j])) = (hist[i] = hist[j])

\* the canonical shape: every key sits exactly at depth Depth(k, DOMAIN map)
RECURSIVE LeafDepth(_, _, _)
LeafDepth(t, k, d) == IF t[1] = "leaf" THEN d
                      ELSE IF t[1] = "default" THEN 0 - 1   \* unreachable for present keys
                      ELSE LeafDepth(t[IF k[d + 1] = 0 THEN 2 ELSE 3], k, d + 1)
ShapeCanonical == \A k \in DOMAIN map : LeafDepth(Root(map), k, 0) = Depth(k, DOMAIN map)

\* every committed root keeps its own contents (hist is append-only)
HistoryStable == [][\A i \in 1..Len(hist) : hist'[i] = hist[i]]_vars
=============================================================================
