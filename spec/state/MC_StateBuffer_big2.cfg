\* thorough design check 2: two keys per contract (interleaved index stacks), contract accounts only
SPECIFICATION Spec
CONSTANTS
  Accts = {}
  Ctrs = {"c1", "c2"}
  Keys = {"k1", "k2"}
  Vals = {"v1", "v2"}
  InitTries <- Tries1
  MaxABuf = 1
  MaxSBuf = 2
  MaxEnt = 2
  MaxSnaps = 2
  MaxCommits = 1
VIEW mcView
CONSTRAINT StateConstraint
INVARIANTS TypeOK IdxConsistent Refines SrSync CommittedIsRef SnapsValid
PROPERTIES RevertRestores ReadsSeeLastWrite UpdateCommitTransparent
CHECK_DEADLOCK FALSE
