\* generation (thorough): as Gen_ProofRoots over three keys (the deep pair and a lone key), 4 life-cycle steps
SPECIFICATION RSpec
CONSTANTS
  H = 3
  Keys <- RK3
  Vals <- RV2
  MaxBatch = 1
  MaxCommits = 0
  MaxRoots = 3
  MaxLife = 4
  CopyOnAtomic = TRUE
  Proving = FALSE
VIEW viewRootsGen
ACTION_CONSTRAINT RootsGenQuick
CHECK_DEADLOCK FALSE
