--------------------------- MODULE MC_StateBuffer ---------------------------
EXTENDS StateBuffer, TLCExt, Json

\* initial committed account tries: everything empty / a populated one
E0 == [k \in Keys |-> None]
T0 == [a \in AllAccts |-> [d |-> None, sr |-> E0]]
\* account a1 exists, contract c1 exists with k1 = v1 in its storage
T1 == [a \in AllAccts |->
         IF a = "a1" THEN [d |-> "v1", sr |-> E0]
         ELSE IF a = "c1" THEN [d |-> Zero, sr |-> [k \in Keys |-> IF k = "k1" THEN "v1" ELSE None]]
         ELSE [d |-> None, sr |-> E0]]
Tries01 == {T0, T1}
Tries1  == {T1}

mcView == state

\* ---- generation configs (workers=1): states are identified by two 32-bit fingerprints;
\* ---- "ST#key#obs" (obs as JSON) once per distinct state (evaluated as an invariant), "TX#key#act#key" per transition.
\* ---- Obs is the reference layer: what the harness must observe on the real code in that state.
Key == ToString(TLCFP(state)) \o "," \o ToString(TLCFP(<<"salt", state>>))
Obs == [acct |-> refA, store |-> refS,
        hv |-> [c \in Ctrs |-> IF hd[c].live THEN hd[c].view ELSE EmptyStore],
        live |-> {c \in Ctrs : hd[c].live},
        depth |-> Len(snaps), ncommit |-> ncommit, init |-> (lastAct.name = "Init")]
GenState == StateConstraint => PrintT("ST#" \o Key \o "#" \o ToJson(Obs))
GenLog == PrintT("TX#" \o Key \o "#" \o ToJson(lastAct') \o "#" \o Key')
=============================================================================
