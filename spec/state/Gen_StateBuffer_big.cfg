\* generation (thorough): as Gen_StateBuffer.cfg plus a plain account and a 2-entry account log
SPECIFICATION Spec
CONSTANTS
  Accts = {"a1"}
  Ctrs = {"c1", "c2"}
  Keys = {"k1"}
  Vals = {"v1", "v2"}
  InitTries <- Tries1
  MaxABuf = 2
  MaxSBuf = 2
  MaxEnt = 2
  MaxSnaps = 1
  MaxCommits = 1
VIEW mcView
CONSTRAINT StateConstraint
ACTION_CONSTRAINT GenLog
INVARIANT GenState
CHECK_DEADLOCK FALSE
