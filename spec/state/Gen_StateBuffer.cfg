\* generation (quick): the complete transition graph of the 2-contract/1-key/2-value model,
\* one snapshot level, <= 2 log entries in total
SPECIFICATION Spec
CONSTANTS
  Accts = {}
  Ctrs = {"c1", "c2"}
  Keys = {"k1"}
  Vals = {"v1", "v2"}
  InitTries <- Tries1
  MaxABuf = 1
  MaxSBuf = 2
  MaxEnt = 2
  MaxSnaps = 1
  MaxCommits = 1
VIEW mcView
CONSTRAINT StateConstraint
ACTION_CONSTRAINT GenLog
INVARIANT GenState
CHECK_DEADLOCK FALSE
