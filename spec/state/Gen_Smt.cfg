\* generation: every transition (map, batch, map') of the 4-key model printed once
SPECIFICATION Spec
CONSTANTS
  H = 3
  Keys <- K4
  Vals <- V2
  MaxBatch = 3
  MaxCommits = 1000000
VIEW viewMap
ACTION_CONSTRAINT GenLog
CHECK_DEADLOCK FALSE
