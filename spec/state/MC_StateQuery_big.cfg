\* exhaustive design check (thorough): 3 variables, 5 blocks
SPECIFICATION Spec
CONSTANTS
  Vars <- SV3
  Ghost = "w"
  Vals <- SVals
  MaxBatch = 2
  MaxBlocks = 5
  KeyLists <- KL3
  FromProven = TRUE
VIEW view
INVARIANTS TypeOK AnswersTheRequestedBlock
PROPERTIES ChainStable
CHECK_DEADLOCK FALSE
