\* exhaustive design check (thorough): 3 variables, transactions writing <= 2 variables, 4 blocks
SPECIFICATION Spec
CONSTANTS
  Vars <- SV3
  Ghost = "w"
  Vals <- SVals
  MaxBatch = 2
  MaxBlocks = 4
  KeyLists <- KL3
  FromProven = TRUE
VIEW view
INVARIANTS TypeOK AnswersTheRequestedBlock
PROPERTIES ChainStable
CHECK_DEADLOCK FALSE
