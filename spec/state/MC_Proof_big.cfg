\* thorough design check, shapes: 5 stored keys over 4 bits (a depth-4 pair: the height byte wraps), every trie over
\* them, 2 values, all 16 query keys, both encodings, every forgery
SPECIFICATION Spec
CONSTANTS
  H = 4
  Keys <- PK5x4
  Vals <- PV2
  MaxBatch = 5
  MaxCommits = 1
VIEW view
INVARIANTS TypeOK Complete Sound CodeDeviatesOnlyAsNamed EncodingsAgree ProofLenIsDepth RootInjective
PROPERTIES HistoryStable
CHECK_DEADLOCK FALSE
