----------------------------- MODULE StateBuffer -----------------------------
(***************************************************************************)
(* C12 -- snapshots of the working state of a block (state/statedb,        *)
(* state/block.go).                                                        *)
(*                                                                         *)
(* Two layers in one specification:                                        *)
(*                                                                         *)
(*  * the MECHANISM, faithful to the code: an entry log with per-key index *)
(*    stacks (stateBuffer: entries, indexes; nextIdx = Len(entries)), the  *)
(*    account buffer over the in-memory account trie (StateDB.Buffer/Trie),*)
(*    the storage cache (storageCache: staged bufferedStorage per contract:*)
(*    Buffer, Trie, dirty), ContractState handles (shared with the cache   *)
(*    when the contract was already staged, private otherwise; Stage moves *)
(*    the handle's storage into the cache), BlockState.Snapshot/Rollback   *)
(*    (account revision + revision of every staged storage; contracts      *)
(*    staged later are dropped), ContractState.Snapshot/Rollback, Update   *)
(*    (storage buffers into storage tries, storage roots into account      *)
(*    entries, account buffer into the account trie) and Commit;           *)
(*                                                                         *)
(*  * the REFERENCE: plain maps (refA, refS) with an explicit stack of     *)
(*    copies, i.e. what "the values visible at snapshot time" means.       *)
(*                                                                         *)
(* The property is that the mechanism refines the reference (Refines,      *)
(* RevertRestores, ReadsSeeLastWrite, CommittedIsRef).  The conformance    *)
(* harness compares the real code with the reference layer after every     *)
(* step.                                                                   *)
(*                                                                         *)
(* Tries are abstracted to their contents (C10 establishes that the root   *)
(* is an injective function of the contents); the storage root stored in   *)
(* an account state is therefore the contents map of the storage.          *)
(*                                                                         *)
(* Usage protocol assumed (what the callers in chain/ and contract/ do):   *)
(*  P1 one live ContractState handle per contract at a time;               *)
(*  P2 snapshots form a stack; reverting to one discards the later ones;   *)
(*  P3 handles opened after a block snapshot do not outlive a revert to it *)
(*     (they are transaction-scoped);                                      *)
(*  P4 Update and Commit invalidate all snapshots (tries are not undone);  *)
(*  P5 Update is directly followed by Commit or by giving up the block     *)
(*     state (one Update per block; pkg/trie.Update on a trie with         *)
(*     uncommitted nodes is not idempotent).                               *)
(***************************************************************************)
EXTENDS Integers, Sequences, FiniteSets, TLC, Util

CONSTANTS Accts,       \* plain accounts
          Ctrs,        \* contract accounts (have storage)
          Keys,        \* storage keys (per contract)
          Vals,        \* abstract values (account payload and storage values)
          InitTries,   \* set of possible initial committed account tries
          MaxABuf,     \* state constraint: length of the account entry log
          MaxSBuf,     \* state constraint: length of a storage entry log
          MaxEnt,      \* state constraint: total number of entries in all logs
          MaxSnaps,    \* max depth of the snapshot stack
          MaxCommits   \* max number of commits

None == "none"         \* absent account / absent or deleted storage key
Zero == "zero"         \* payload of a default account state (types.State{})

AllAccts   == Accts \cup Ctrs
EmptyStore == [k \in Keys |-> None]
Absent     == [d |-> None, sr |-> EmptyStore]      \* account that does not exist

VARIABLES
  abuf,       \* account buffer (StateDB.Buffer): [ent: Seq([k, v]), idx: [AllAccts -> Seq(Nat)]]
  atrie,      \* contents of the in-memory account trie (StateDB.Trie): [AllAccts -> account]
  cache,      \* storage cache: [Ctrs -> [in, buf, trie, dirty]]
  hd,         \* ContractState handle per contract: [live, shared, st, ep, view]; view is a ghost
  snaps,      \* stack of snapshots (block and handle level), ghost copies included
  phase,      \* "dirty" | "updated" | "committed"
  committed,  \* contents of the account trie at the committed root (what the store holds)
  ncommit,
  refA,       \* reference: account -> account value
  refS,       \* reference: contract -> key -> value
  refCA, refCS, \* reference as of the last commit
  lastAct

vars  == <<abuf, atrie, cache, hd, snaps, phase, committed, ncommit, refA, refS, refCA, refCS, lastAct>>
state == <<abuf, atrie, cache, hd, snaps, phase, committed, ncommit, refA, refS, refCA, refCS>>

\* ------------------------------------------------------------------ stateBuffer
EmptyBuf(K) == [ent |-> <<>>, idx |-> [k \in K |-> <<>>]]

\* put: append the entry, push its (0-based) position on the key's index stack
BufPut(b, k, v) == [ent |-> Append(b.ent, [k |-> k, v |-> v]),
                    idx |-> [b.idx EXCEPT ![k] = Append(@, Len(b.ent))]]
BufHas(b, k) == b.idx[k] # <<>>
\* get: the entry the top of the key's index stack points to
BufGet(b, k) == b.ent[b.idx[k][Len(b.idx[k])] + 1].v

\* rollback(rev): from the newest entry down to rev pop the index stack of the entry's key
RECURSIVE BufRollback(_, _)
BufRollback(b, rev) ==
  IF Len(b.ent) <= rev THEN b
  ELSE LET e == b.ent[Len(b.ent)]
       IN BufRollback([ent |-> SubSeq(b.ent, 1, Len(b.ent) - 1),
                       idx |-> [b.idx EXCEPT ![e.k] = SubSeq(@, 1, Len(@) - 1)]], rev)

\* export/updateTrie: the latest surviving entry per key is written to the trie
ApplyTo(b, trie) == [k \in DOMAIN trie |-> IF BufHas(b, k) THEN BufGet(b, k) ELSE trie[k]]

\* ------------------------------------------------------------------ storages and handles
NoStorage  == [in |-> FALSE, buf |-> EmptyBuf(Keys), trie |-> EmptyStore, dirty |-> FALSE]
DeadHandle == [live |-> FALSE, shared |-> FALSE, st |-> NoStorage, ep |-> 0, view |-> EmptyStore]

StorageView(st) == ApplyTo(st.buf, st.trie)

\* ------------------------------------------------------------------ what is visible (mechanism)
VisAcctIn(ab, a) == IF BufHas(ab, a) THEN BufGet(ab, a) ELSE atrie[a]
VisAcctOf(a)     == VisAcctIn(abuf, a)
VisAcct          == [a \in AllAccts |-> VisAcctOf(a)]
\* a fresh handle reads the staged storage if there is one, else the trie at the account's storage root
VisStoreOf(c)    == IF cache[c].in THEN StorageView(cache[c]) ELSE VisAcctOf(c).sr
VisStore         == [c \in Ctrs |-> VisStoreOf(c)]
HandleStorage(c) == IF hd[c].shared THEN cache[c] ELSE hd[c].st
HandleView(c)    == StorageView(HandleStorage(c))

HasHandleSnap(c) == \E i \in 1..Len(snaps) : snaps[i].kind = "handle" /\ snaps[i].c = c

\* ------------------------------------------------------------------ initial state
Init ==
  /\ atrie \in InitTries
  /\ committed = atrie
  /\ abuf = EmptyBuf(AllAccts)
  /\ cache = [c \in Ctrs |-> NoStorage]
  /\ hd = [c \in Ctrs |-> DeadHandle]
  /\ snaps = <<>>
  /\ phase = "committed"
  /\ ncommit = 0
  /\ refA = atrie /\ refCA = atrie
  /\ refS = [c \in Ctrs |-> atrie[c].sr] /\ refCS = refS
  /\ lastAct = [name |-> "Init"]

\* ------------------------------------------------------------------ actions

\* state.GetAccountState(a) -> SetNonce(v) -> PutState(): read-modify-write through an AccountState handle
PutAcct(a, v) ==
  /\ abuf' = BufPut(abuf, a, [d |-> v, sr |-> VisAcctOf(a).sr])
  /\ refA' = [refA EXCEPT ![a] = [d |-> v, sr |-> @.sr]]
  /\ phase' = "dirty"
  /\ UNCHANGED <<atrie, cache, hd, snaps, committed, ncommit, refS, refCA, refCS>>
  /\ lastAct' = [name |-> "PutAcct", a |-> a, v |-> v]

\* statedb.OpenContractState: the staged storage if the cache has one (shared), else a private
\* bufferedStorage on the trie at the account's storage root
Open(c) ==
  /\ ~hd[c].live
  /\ hd' = [hd EXCEPT ![c] =
              IF cache[c].in
                THEN [live |-> TRUE, shared |-> TRUE, st |-> NoStorage, ep |-> Len(snaps), view |-> refS[c]]
                ELSE [live |-> TRUE, shared |-> FALSE, st |-> [NoStorage EXCEPT !.trie = VisAcctOf(c).sr],
                      ep |-> Len(snaps), view |-> refS[c]]]
  /\ UNCHANGED <<abuf, atrie, cache, snaps, phase, committed, ncommit, refA, refS, refCA, refCS>>
  /\ lastAct' = [name |-> "Open", c |-> c]

\* ContractState.SetData (v in Vals) / DeleteData (v = None)
Write(c, k, v) ==
  /\ hd[c].live
  /\ IF hd[c].shared
       THEN /\ cache' = [cache EXCEPT ![c].buf = BufPut(@, k, v)]
            /\ hd' = [hd EXCEPT ![c].view = [@ EXCEPT ![k] = v]]
            /\ refS' = [refS EXCEPT ![c] = [@ EXCEPT ![k] = v]]
            /\ phase' = "dirty"
       ELSE /\ hd' = [hd EXCEPT ![c].st.buf = BufPut(@, k, v), ![c].view = [@ EXCEPT ![k] = v]]
            /\ UNCHANGED <<cache, refS, phase>>
  /\ UNCHANGED <<abuf, atrie, snaps, committed, ncommit, refA, refCA, refCS>>
  /\ lastAct' = [name |-> "Write", c |-> c, k |-> k, v |-> v]

\* statedb.StageContractState: the handle's storage becomes the staged storage; the handle dies
Stage(c) ==
  /\ hd[c].live /\ ~HasHandleSnap(c)
  /\ cache' = IF hd[c].shared THEN cache ELSE [cache EXCEPT ![c] = [hd[c].st EXCEPT !.in = TRUE]]
  /\ refS' = [refS EXCEPT ![c] = hd[c].view]
  /\ hd' = [hd EXCEPT ![c] = DeadHandle]
  /\ phase' = "dirty"
  /\ UNCHANGED <<abuf, atrie, snaps, committed, ncommit, refA, refCA, refCS>>
  /\ lastAct' = [name |-> "Stage", c |-> c]

\* the handle is forgotten without staging (failed execution)
Drop(c) ==
  /\ hd[c].live /\ ~HasHandleSnap(c)
  /\ hd' = [hd EXCEPT ![c] = DeadHandle]
  /\ UNCHANGED <<abuf, atrie, cache, snaps, phase, committed, ncommit, refA, refS, refCA, refCS>>
  /\ lastAct' = [name |-> "Drop", c |-> c]

NoRev == [c \in Ctrs |-> 0 - 1]

\* BlockState.Snapshot: account revision + revision of every staged storage
SnapBlock ==
  /\ Len(snaps) < MaxSnaps
  /\ snaps' = Append(snaps, [kind |-> "block", c |-> "-",
                             arev |-> Len(abuf.ent),
                             srev |-> [c \in Ctrs |-> IF cache[c].in THEN Len(cache[c].buf.ent) ELSE 0 - 1],
                             hrev |-> 0 - 1,
                             gA |-> refA, gS |-> refS, gH |-> EmptyStore])
  /\ UNCHANGED <<abuf, atrie, cache, hd, phase, committed, ncommit, refA, refS, refCA, refCS>>
  /\ lastAct' = [name |-> "SnapBlock"]

\* ContractState.Snapshot: revision of the handle's buffer
SnapHandle(c) ==
  /\ Len(snaps) < MaxSnaps
  /\ hd[c].live
  /\ snaps' = Append(snaps, [kind |-> "handle", c |-> c, arev |-> 0 - 1, srev |-> NoRev,
                             hrev |-> Len(HandleStorage(c).buf.ent),
                             gA |-> refA, gS |-> refS, gH |-> hd[c].view])
  /\ UNCHANGED <<abuf, atrie, cache, hd, phase, committed, ncommit, refA, refS, refCA, refCS>>
  /\ lastAct' = [name |-> "SnapHandle", c |-> c]

\* BlockState.Rollback(snaps[i]): storageCache.Rollback then StateDB.Rollback
RollbackBlock(i) ==
  LET s == snaps[i] IN
  /\ s.kind = "block"
  /\ cache' = [c \in Ctrs |->
                 IF ~cache[c].in THEN cache[c]
                 ELSE IF s.srev[c] >= 0 THEN [cache[c] EXCEPT !.buf = BufRollback(@, s.srev[c])]
                 ELSE NoStorage]                                   \* staged after the snapshot: dropped
  /\ abuf' = BufRollback(abuf, s.arev)
  /\ refA' = s.gA /\ refS' = s.gS
  /\ hd' = [c \in Ctrs |->
              IF hd[c].live /\ hd[c].ep >= i THEN DeadHandle      \* P3
              ELSE IF hd[c].live /\ hd[c].shared THEN [hd[c] EXCEPT !.view = s.gS[c]]
              ELSE hd[c]]
  /\ snaps' = SubSeq(snaps, 1, i)
  /\ phase' = "dirty"
  /\ UNCHANGED <<atrie, committed, ncommit, refCA, refCS>>
  /\ lastAct' = [name |-> "Rollback", i |-> i, kind |-> "block", c |-> "-"]

\* ContractState.Rollback(snaps[i]) on the handle that took the snapshot
RollbackHandle(i) ==
  LET s == snaps[i]
      c == s.c
      \* handles opened after snapshot i keep living; they predate every snapshot taken from now on
      clamp(h) == IF h.live /\ h.ep > i THEN [h EXCEPT !.ep = i] ELSE h IN
  /\ s.kind = "handle"
  /\ IF hd[c].shared
       THEN /\ cache' = [cache EXCEPT ![c].buf = BufRollback(@, s.hrev)]
            /\ hd' = [x \in Ctrs |-> IF x = c THEN [clamp(hd[c]) EXCEPT !.view = s.gH] ELSE clamp(hd[x])]
            /\ refS' = [refS EXCEPT ![c] = s.gH]
            /\ phase' = "dirty"
       ELSE /\ hd' = [x \in Ctrs |-> IF x = c THEN [clamp(hd[c]) EXCEPT !.st.buf = BufRollback(@, s.hrev), !.view = s.gH]
                                      ELSE clamp(hd[x])]
            /\ UNCHANGED <<cache, refS, phase>>
  /\ snaps' = SubSeq(snaps, 1, i)
  /\ UNCHANGED <<abuf, atrie, committed, ncommit, refA, refCA, refCS>>
  /\ lastAct' = [name |-> "Rollback", i |-> i, kind |-> "handle", c |-> c]

Rollback(i) == RollbackBlock(i) \/ RollbackHandle(i)

\* snapshots i.. are given up without reverting (no call into the code)
Release(i) ==
  /\ i \in 1..Len(snaps)
  /\ snaps' = SubSeq(snaps, 1, i - 1)
  /\ hd' = [c \in Ctrs |-> IF hd[c].live /\ hd[c].ep > i - 1 THEN [hd[c] EXCEPT !.ep = i - 1] ELSE hd[c]]
  /\ UNCHANGED <<abuf, atrie, cache, phase, committed, ncommit, refA, refS, refCA, refCS>>
  /\ lastAct' = [name |-> "Release", i |-> i]

\* bufferedStorage.update of every staged storage
UpdStorage(st) == LET t2 == StorageView(st) IN [st EXCEPT !.trie = t2, !.dirty = st.dirty \/ t2 # st.trie]

\* updateStorage: for every staged storage (map order: any) put the account state with the new storage root
RECURSIVE UpdAccts(_, _, _)
UpdAccts(ab, c2, order) ==
  IF order = <<>> THEN ab
  ELSE LET c  == Head(order)
           st == VisAcctIn(ab, c)
           nb == IF c2[c].dirty
                   THEN BufPut(ab, c, [d |-> IF st.d = None THEN Zero ELSE st.d, sr |-> c2[c].trie])
                   ELSE ab
       IN UpdAccts(nb, c2, Tail(order))

Orders(S) == {o \in [1..Cardinality(S) -> S] : \A i, j \in 1..Cardinality(S) : i # j => o[i] # o[j]}

\* StateDB.Update, the storages visited in the given order
UpdateWith(order) ==
  LET c2 == [c \in Ctrs |-> IF cache[c].in THEN UpdStorage(cache[c]) ELSE cache[c]] IN
    /\ cache' = c2
    /\ abuf' = UpdAccts(abuf, c2, order)
    /\ atrie' = ApplyTo(abuf', atrie)
    /\ refA' = [a \in AllAccts |->
                  IF a \in Ctrs /\ refS[a] # refA[a].sr
                    THEN [d |-> IF refA[a].d = None THEN Zero ELSE refA[a].d, sr |-> refS[a]]
                    ELSE refA[a]]
    /\ snaps' = <<>>                                                             \* P4
    /\ hd' = [c \in Ctrs |-> IF hd[c].live THEN [hd[c] EXCEPT !.ep = 0] ELSE hd[c]]
    /\ phase' = "updated"
    /\ UNCHANGED <<committed, ncommit, refS, refCA, refCS>>
    /\ lastAct' = [name |-> "Update"]

\* the cache is a Go map: any order
Update == \E order \in Orders({c \in Ctrs : cache[c].in}) : UpdateWith(order)

\* StateDB.Commit: stage every storage and the account trie, reset the buffers, flush
Commit ==
  /\ phase = "updated"                                                           \* P5
  /\ ncommit < MaxCommits
  /\ cache' = [c \in Ctrs |-> IF cache[c].in THEN [cache[c] EXCEPT !.buf = EmptyBuf(Keys)] ELSE cache[c]]
  /\ abuf' = EmptyBuf(AllAccts)
  /\ committed' = atrie
  /\ ncommit' = ncommit + 1
  /\ refCA' = refA /\ refCS' = refS
  /\ snaps' = <<>>
  /\ hd' = [c \in Ctrs |-> IF hd[c].live THEN [hd[c] EXCEPT !.ep = 0] ELSE hd[c]]
  /\ phase' = "committed"
  /\ UNCHANGED <<atrie, refA, refS>>
  /\ lastAct' = [name |-> "Commit"]

\* the block state is given up / the next block starts: a new StateDB on the store at the committed root
Reopen ==
  /\ abuf' = EmptyBuf(AllAccts)
  /\ cache' = [c \in Ctrs |-> NoStorage]
  /\ hd' = [c \in Ctrs |-> DeadHandle]
  /\ atrie' = committed
  /\ snaps' = <<>>
  /\ phase' = "committed"
  /\ refA' = refCA /\ refS' = refCS
  /\ UNCHANGED <<committed, ncommit, refCA, refCS>>
  /\ lastAct' = [name |-> "Reopen"]

\* P5: after Update only Commit or giving up the block state
Next ==
  \/ /\ phase # "updated"
     /\ \/ \E a \in AllAccts, v \in Vals : PutAcct(a, v)
        \/ \E c \in Ctrs : Open(c) \/ Stage(c) \/ Drop(c) \/ SnapHandle(c)
        \/ \E c \in Ctrs, k \in Keys, v \in Vals \cup {None} : Write(c, k, v)
        \/ SnapBlock
        \/ \E i \in 1..Len(snaps) : Rollback(i) \/ Release(i)
        \/ Update
  \/ Commit \/ Reopen

Spec == Init /\ [][Next]_vars

\* bounds the entry logs (they are reset by Commit only)
StateConstraint ==
  /\ Len(abuf.ent) <= MaxABuf
  /\ \A c \in Ctrs : Len(cache[c].buf.ent) <= MaxSBuf /\ Len(hd[c].st.buf.ent) <= MaxSBuf
  /\ Len(abuf.ent) + SumSet([c \in Ctrs |-> Len(cache[c].buf.ent) + Len(hd[c].st.buf.ent)], Ctrs) <= MaxEnt
  /\ ncommit = MaxCommits => phase = "committed"     \* after the last commit only Reopen is explored

\* ------------------------------------------------------------------ properties
Positions(b, k) == {i \in 1..Len(b.ent) : b.ent[i].k = k}
\* every index stack lists exactly the positions of its key, ascending (what rollback relies on)
IdxOK(b) == \A k \in DOMAIN b.idx :
              /\ Len(b.idx[k]) = Cardinality(Positions(b, k))
              /\ \A j \in 1..Len(b.idx[k]) : b.idx[k][j] + 1 \in Positions(b, k)
              /\ \A j \in 1..Len(b.idx[k]) - 1 : b.idx[k][j] < b.idx[k][j + 1]
IdxConsistent == IdxOK(abuf) /\ \A c \in Ctrs : IdxOK(cache[c].buf) /\ IdxOK(hd[c].st.buf)

TypeOK ==
  /\ phase \in {"dirty", "updated", "committed"}
  /\ \A a \in AllAccts : atrie[a].d \in Vals \cup {None, Zero}
  /\ \A c \in Ctrs : hd[c].live => (hd[c].shared => cache[c].in)
  /\ \A c \in Ctrs : ~hd[c].live => hd[c] = DeadHandle
  /\ \A c \in Ctrs : ~cache[c].in => cache[c] = NoStorage
  /\ \A i \in 1..Len(snaps) : snaps[i].kind = "handle" => hd[snaps[i].c].live
  /\ \A c \in Ctrs : hd[c].ep <= Len(snaps)

\* the mechanism shows exactly the reference: reads see the most recent non-reverted write,
\* reverts restore the snapshot's values, nothing else changes
Refines ==
  /\ VisAcct = refA
  /\ VisStore = refS
  /\ \A c \in Ctrs : hd[c].live => /\ HandleView(c) = hd[c].view
                                    /\ hd[c].shared => hd[c].view = refS[c]

\* the staged storage's trie is the one the account's storage root names
SrSync == \A c \in Ctrs : cache[c].in => cache[c].trie = VisAcctOf(c).sr

\* what the store holds at the committed root is the reference at commit time: reverted writes
\* never reach the committed state, surviving ones all do
CommittedIsRef ==
  /\ committed = refCA
  /\ \A c \in Ctrs : committed[c].sr = refCS[c]

\* recorded revisions never exceed the logs they index
SnapsValid ==
  \A i \in 1..Len(snaps) :
    LET s == snaps[i] IN
      IF s.kind = "block"
        THEN /\ s.arev <= Len(abuf.ent)
             /\ \A c \in Ctrs : s.srev[c] >= 0 => (cache[c].in /\ s.srev[c] <= Len(cache[c].buf.ent))
        ELSE s.hrev <= Len(HandleStorage(s.c).buf.ent)

\* after a revert every account and every storage key shows the value it had at snapshot time
RevertRestores ==
  [][\A i \in 1..Len(snaps) :
       (lastAct'.name = "Rollback" /\ lastAct'.i = i) =>
         LET s == snaps[i] IN
           IF s.kind = "block"
             THEN VisAcct' = s.gA /\ VisStore' = s.gS
             ELSE /\ \A c \in Ctrs : c = s.c => HandleView(c)' = s.gH
                  /\ VisAcct' = VisAcct
                  /\ \A c \in Ctrs \ {s.c} : VisStoreOf(c)' = VisStoreOf(c)]_vars

ReadsSeeLastWrite ==
  [][/\ \A a \in AllAccts : (lastAct'.name = "PutAcct" /\ lastAct'.a = a) => VisAcctOf(a)'.d = lastAct'.v
     /\ \A c \in Ctrs, k \in Keys : (lastAct'.name = "Write" /\ lastAct'.c = c /\ lastAct'.k = k)
                                       => HandleView(c)'[k] = lastAct'.v]_vars

\* Update and Commit do not change what is visible, except the storage roots Update writes
UpdateCommitTransparent ==
  [][lastAct'.name \in {"Update", "Commit"} =>
       /\ VisStore' = VisStore
       /\ \A a \in AllAccts : VisAcctOf(a)'.d = VisAcctOf(a).d \/ (VisAcctOf(a).d = None /\ VisAcctOf(a)'.d = Zero)
       /\ lastAct'.name = "Update" => \A c \in Ctrs : VisAcctOf(c)'.sr = VisStoreOf(c)']_vars
=============================================================================
