\* generation (thorough, second graph): one contract, THREE snapshot levels, <= 3 log entries in total
SPECIFICATION Spec
CONSTANTS
  Accts = {}
  Ctrs = {"c1"}
  Keys = {"k1"}
  Vals = {"v1", "v2"}
  InitTries <- Tries1
  MaxABuf = 1
  MaxSBuf = 2
  MaxEnt = 3
  MaxSnaps = 3
  MaxCommits = 1
VIEW mcView
CONSTRAINT StateConstraint
ACTION_CONSTRAINT GenLog
INVARIANT GenState
CHECK_DEADLOCK FALSE
