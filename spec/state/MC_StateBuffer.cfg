\* exhaustive design check (quick): 1 account + 2 contracts x 1 key, 2 values, <= 2 log entries in total (<= 1 account entry),
\* 2 snapshot levels (block and handle snapshots in any nesting), one commit cycle then reopen
SPECIFICATION Spec
CONSTANTS
  Accts = {"a1"}
  Ctrs = {"c1", "c2"}
  Keys = {"k1"}
  Vals = {"v1", "v2"}
  InitTries <- Tries1
  MaxABuf = 1
  MaxSBuf = 2
  MaxEnt = 2
  MaxSnaps = 2
  MaxCommits = 1
VIEW mcView
CONSTRAINT StateConstraint
INVARIANTS TypeOK IdxConsistent Refines SrSync CommittedIsRef SnapsValid
PROPERTIES RevertRestores ReadsSeeLastWrite UpdateCommitTransparent
CHECK_DEADLOCK FALSE
