SPECIFICATION TraceSpec
CONSTANTS
  H = 3
  Keys <- TPK4
  Vals <- TPV2
  MaxBatch = 4
  MaxCommits = 1000000
INVARIANTS TypeOK Complete EncodingsAgree ProofLenIsDepth
POSTCONDITION TraceAccepted
CHECK_DEADLOCK FALSE
