\* exhaustive design check (quick): 4 stored keys over 3 bits, every trie over them (one block of <= 4 keys on the
\* empty trie), 2 values, all 8 query keys, both roots, both encodings, every forgery
SPECIFICATION Spec
CONSTANTS
  H = 3
  Keys <- PK4
  Vals <- PV2
  MaxBatch = 4
  MaxCommits = 1
VIEW view
INVARIANTS TypeOK Complete Sound CodeDeviatesOnlyAsNamed EncodingsAgree ProofLenIsDepth RootInjective
PROPERTIES HistoryStable
CHECK_DEADLOCK FALSE
