------------------------------ MODULE MC_Proof ------------------------------
EXTENDS Proof

\* stored keys over 3 bits: two share the prefix 00 (depth 3), one more shares 0, one alone on the right
PK4 == { <<0,0,0>>, <<0,0,1>>, <<0,1,0>>, <<1,0,0>> }
\* 5 keys over 3 bits (C10's K5): deep pairs on both sides
PK5 == { <<0,0,0>>, <<0,0,1>>, <<0,1,0>>, <<1,1,0>>, <<1,1,1>> }
\* 5 keys over 4 bits with a depth-4 pair
PK5x4 == { <<0,0,0,0>>, <<0,0,0,1>>, <<0,0,1,0>>, <<0,1,0,0>>, <<1,0,0,0>> }
PV2 == {"v1", "v2"}

\* ---- generation configs: Forge steps are not taken; every Prove step prints the honest message's shape,
\* its verdicts and the table of ALL its Forge successors with their verdicts (design, as coded, claim true)
viewGen == hist
GenLog ==
  IF lastAct'.name = "Forge" THEN FALSE
  ELSE IF lastAct'.name = "Prove"
    THEN LogTransition(hist, lastAct', [shape |-> Shape(msg'), out |-> Outcome(msg'), forg |-> ForgeTable(msg')])
  ELSE TRUE

\* quick generation: the first block stores only v1 (v2 still exists for forged values); a second block (one key:
\* set to v1 or v2, or deleted) is built only on the trie holding the deep pair {000, 001}
GenLogQuick ==
  /\ GenLog
  /\ (lastAct'.name = "Batch" /\ Len(hist) = 1) => \A k \in DOMAIN lastAct'.upd : lastAct'.upd[k] # "v2"
  /\ (lastAct'.name = "Batch" /\ Len(hist) = 2) =>
        /\ DOMAIN hist[2] = {<<0,0,0>>, <<0,0,1>>}
        /\ Cardinality(DOMAIN lastAct'.upd) = 1

\* thorough generation: a second block is built only on tries whose values are all v1, and changes one key
\* (neighbouring roots: the typical current/historical pair)
GenLogBig ==
  /\ GenLog
  /\ (lastAct'.name = "Batch" /\ Len(hist) = 2) =>
        /\ \A k \in DOMAIN hist[2] : hist[2][k] = "v1"
        /\ Cardinality(DOMAIN lastAct'.upd) = 1
=============================================================================
