\* thorough design check, histories: 4 stored keys over 3 bits, 2 blocks of <= 2 keys (three committed roots,
\* transplants between non-empty current and historical roots)
SPECIFICATION Spec
CONSTANTS
  H = 3
  Keys <- PK4
  Vals <- PV2
  MaxBatch = 2
  MaxCommits = 2
VIEW view
INVARIANTS TypeOK Complete Sound CodeDeviatesOnlyAsNamed EncodingsAgree ProofLenIsDepth RootInjective
PROPERTIES HistoryStable
CHECK_DEADLOCK FALSE
