\* generation (thorough): as Gen_Proof plus a second block of one key on every all-v1 trie (three roots)
SPECIFICATION Spec
CONSTANTS
  H = 3
  Keys <- PK4
  Vals <- PV2
  MaxBatch = 4
  MaxCommits = 2
VIEW viewGen
ACTION_CONSTRAINT GenLogBig
CHECK_DEADLOCK FALSE
