\* thorough design check: 6 keys over 4 bits, 2 values, batches <= 3 keys, <= 3 commits
SPECIFICATION Spec
CONSTANTS
  H = 4
  Keys <- K6
  Vals <- V2
  MaxBatch = 3
  MaxCommits = 3
VIEW view
INVARIANTS TypeOK RootInjective HistRoots ShapeCanonical
PROPERTIES ReadsLastWrite DeleteAbsentNoop HistoryStable
CHECK_DEADLOCK FALSE
