\* generation for the StateDB level (thorough): blocks (Update; Commit) of canonical single-key updates over three keys, 3 blocks,
\* at most two of SetRoot/LoadCache/Reopen
SPECIFICATION RSpec
CONSTANTS
  H = 3
  Keys <- RK3
  Vals <- RV2
  MaxBatch = 1
  MaxCommits = 0
  MaxRoots = 3
  MaxLife = 5
  CopyOnAtomic = TRUE
  Proving = FALSE
VIEW viewRootsGen
ACTION_CONSTRAINT RootsGenSdbBig
CHECK_DEADLOCK FALSE
