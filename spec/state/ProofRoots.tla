----------------------------- MODULE ProofRoots ------------------------------
(***************************************************************************)
(* C11, part 2 — a proof requested for root r is a proof about r.          *)
(*                                                                         *)
(* Proof.tla answers Prove(ri,..) out of a list of committed maps.  The    *)
(* real trie (pkg/trie) does not hold maps: it holds batches of nodes in   *)
(* three places (live cache, updatedNodes, the store) and its life cycle   *)
(* decides which roots still resolve to their own contents:                *)
(*   Update        new root, uncommitted; a second Update before a Commit  *)
(*                 rewrites the uncommitted batches in place and deletes   *)
(*                 the superseded nodes: "only the state after the last    *)
(*                 update is committed" (trie.go)                          *)
(*   AtomicUpdate  new root, uncommitted; works on COPIES of the batches   *)
(*                 it loads, deletes nothing: every earlier uncommitted    *)
(*                 root stays provable and is committed later              *)
(*   Commit        every uncommitted retained root becomes durable         *)
(*   Stash         back to the root of the last Commit, uncommitted roots  *)
(*                 are gone                                                *)
(*   SetRoot       Trie.Root := a committed root (statedb SetRoot/Revert)  *)
(*   LoadCache     the same and the live cache is rebuilt from the store   *)
(*   Reopen        a new instance on the same store (node restart,         *)
(*                 OpenNewStateDB): only committed roots survive           *)
(*   ProveAt       MerkleProofR / MerkleProofCompressedR for ANY retained  *)
(*                 root: committed or not, current or not                  *)
(* hist is now the list of ALL roots ever produced (append-only), st says  *)
(* which of them the trie still retains ("c" committed, "u" uncommitted,   *)
(* "x" given up), den[i] is the contents the node store resolves root i    *)
(* to — the generator walks den[ri], the client trusts Root(hist[ri]).     *)
(* ProofMatchesRequestedRoot: the answer for a retained root verifies      *)
(* against that root and states the value the key had there.               *)
(*                                                                         *)
(* CopyOnAtomic = TRUE is the design and the code.  FALSE is the sanity    *)
(* configuration (a loadBatch that hands out the uncommitted batch itself  *)
(* during an AtomicUpdate): TLC must then find the property violated.      *)
(*                                                                         *)
(* Named oddities of the code (modelled as they are, see docs/notes/C11):  *)
(*  O4  an AtomicUpdate that deletes may move a shortcut up across a batch *)
(*      boundary; deleteOldNode(.., movingUp) then removes the old batch   *)
(*      from updatedNodes although the update is atomic ("we dont record   *)
(*      every single move"): earlier UNCOMMITTED roots may lose a node.    *)
(*      The model gives them up ("x") on every AtomicUpdate that deletes.  *)
(*  O5  NewTrie does not set prevRoot: Stash on an instance that has not   *)
(*      committed yet returns to the nil root.  Stash is enabled only      *)
(*      after a Commit of this instance (prev # 0).                        *)
(***************************************************************************)
EXTENDS Proof

CONSTANTS MaxRoots,      \* roots produced after the initial one
          MaxLife,       \* life-cycle steps (Commit, Stash, SetRoot, LoadCache, Reopen) in one behaviour
          CopyOnAtomic,  \* TRUE: design = code; FALSE: sanity configuration (seeded defect)
          Proving        \* FALSE in generation configurations: ProveAt steps are enumerated by the harness in every state

VARIABLES st,      \* st[i] \in {"c", "u", "x"}: status of root i
          cur,     \* index of the trie's current root
          prev,    \* index of the root Stash returns to; 0: this instance has not committed yet (O5)
          den,     \* den[i]: the contents the node store resolves root i to
          nlife,   \* life-cycle steps taken
          trail    \* history variable: the actions taken (generation: one replay per state)

rvars == <<vars, st, cur, prev, den, nlife, trail>>
rview == <<hist, msg, st, cur, prev, den>>

Retained(i) == st[i] \in {"c", "u"}
HasDel(upd) == \E k \in DOMAIN upd : upd[k] = Del
GiveUp(s)   == [i \in DOMAIN s |-> IF s[i] = "u" THEN "x" ELSE s[i]]
Pending     == {i \in DOMAIN st : st[i] = "u"} # {}       \* (a set comparison: TLC must not split the guard)

RInit == /\ Init
         /\ st = <<"c">> /\ cur = 1 /\ prev = 1
         /\ den = <<EmptyMap>> /\ nlife = 0 /\ trail = <<>>

Step(a) == /\ lastAct' = a
           /\ trail' = Append(trail, a)

\* Trie.Update: the uncommitted roots are superseded
Upd(upd) == /\ msg = NoMsg /\ Len(hist) <= MaxRoots
            /\ hist' = Append(hist, Apply(hist[cur], upd))
            /\ den'  = Append(den, Apply(den[cur], upd))
            /\ st'   = Append(GiveUp(st), "u")
            /\ cur'  = Len(hist) + 1
            /\ UNCHANGED <<msg, prev, nlife>>
            /\ Step([name |-> "Update", upd |-> upd])

\* Trie.AtomicUpdate: earlier uncommitted roots stay (O4: unless the update deletes)
Atomic(upd) == /\ msg = NoMsg /\ Len(hist) <= MaxRoots
               /\ hist' = Append(hist, Apply(hist[cur], upd))
               /\ LET new == Apply(den[cur], upd) IN
                    den' = IF CopyOnAtomic THEN Append(den, new)
                           ELSE Append([i \in DOMAIN den |-> IF st[i] = "u" THEN new ELSE den[i]], new)
               /\ st'   = Append(IF HasDel(upd) THEN GiveUp(st) ELSE st, "u")
               /\ cur'  = Len(hist) + 1
               /\ UNCHANGED <<msg, prev, nlife>>
               /\ Step([name |-> "AtomicUpdate", upd |-> upd])

Life == msg = NoMsg /\ nlife < MaxLife /\ nlife' = nlife + 1

\* Trie.Commit: updatedNodes are flushed to the store
Commit == /\ Life /\ Pending
          /\ st' = [i \in DOMAIN st |-> IF st[i] = "u" THEN "c" ELSE st[i]]
          /\ prev' = cur
          /\ UNCHANGED <<hist, msg, cur, den>>
          /\ Step([name |-> "Commit"])

\* Trie.Stash(rollbackCache)
Stash(rb) == /\ Life /\ prev # 0 /\ (IF cur # prev THEN TRUE ELSE Pending)
             /\ st' = GiveUp(st)
             /\ cur' = prev
             /\ UNCHANGED <<hist, msg, prev, den>>
             /\ Step([name |-> "Stash", rb |-> rb])

\* Trie.Root := a committed root (what StateDB.SetRoot / StateDB.Revert do)
SetRoot(ri) == /\ Life /\ st[ri] = "c" /\ ri # cur
               /\ cur' = ri
               /\ UNCHANGED <<hist, msg, st, prev, den>>
               /\ Step([name |-> "SetRoot", ri |-> ri])

\* Trie.LoadCache(root)
LoadCache(ri) == /\ Life /\ st[ri] = "c"
                 /\ cur' = ri
                 /\ UNCHANGED <<hist, msg, st, prev, den>>
                 /\ Step([name |-> "LoadCache", ri |-> ri])

\* a new instance on the same store
Reopen(ri) == /\ Life /\ st[ri] = "c"
              /\ st' = GiveUp(st)
              /\ cur' = ri /\ prev' = 0
              /\ UNCHANGED <<hist, msg, den>>
              /\ Step([name |-> "Reopen", ri |-> ri])

\* MerkleProofR / MerkleProofCompressedR(key, root) for any retained root
ProveAt(ri, q, enc) == /\ msg = NoMsg /\ Retained(ri)
                       /\ msg' = HonestOf(den[ri], ri, q, enc)
                       /\ UNCHANGED <<hist, st, cur, prev, den, nlife, trail>>
                       /\ lastAct' = [name |-> "ProveAt", ri |-> ri, key |-> q, enc |-> enc]

\* the light client evaluates the verifier and consumes the message
RVerify == /\ Verify
           /\ UNCHANGED <<st, cur, prev, den, nlife, trail>>

RNext == \/ \E upd \in Updates : Upd(upd) \/ Atomic(upd)
         \/ Commit
         \/ \E rb \in BOOLEAN : Stash(rb)
         \/ \E ri \in DOMAIN hist : SetRoot(ri) \/ LoadCache(ri) \/ Reopen(ri)
         \/ (Proving /\ \E ri \in DOMAIN hist, q \in AllKeys, enc \in Encs : ProveAt(ri, q, enc))
         \/ (Proving /\ RVerify)

RSpec == RInit /\ [][RNext]_rvars

\* ------------------------------------------------------------------ properties
RTypeOK == /\ DOMAIN st = DOMAIN hist /\ DOMAIN den = DOMAIN hist
           /\ \A i \in DOMAIN st : st[i] \in {"c", "u", "x"}
           /\ cur \in DOMAIN hist /\ Retained(cur)
           /\ prev \in 0..Len(hist) /\ (prev # 0 => st[prev] = "c")
           /\ \A i \in DOMAIN hist : hist[i] \in AllMaps /\ den[i] \in AllMaps

\* THE property: the answer for a retained root verifies against that root and tells the truth about it
ProofMatchesRequestedRoot ==
  IsHonest => /\ Accept(msg, FALSE)
              /\ ClaimTrue(msg)
              /\ msg.incl = (msg.key \in DOMAIN hist[msg.ri])
              /\ (msg.incl => msg.val = hist[msg.ri][msg.key])

\* ... because every retained root still resolves to its own contents
RetainedRootsResolve == \A i \in DOMAIN hist : Retained(i) => den[i] = hist[i]

\* a committed root is never given up, a given-up root never comes back
StatusMonotone == [][\A i \in DOMAIN st : /\ (st[i] = "c" => st'[i] = "c")
                                          /\ (st[i] = "x" => st'[i] = "x")]_rvars
=============================================================================
