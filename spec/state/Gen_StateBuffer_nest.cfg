\* generation (quick, second graph): one contract, TWO snapshot levels (block and handle snapshots nested
\* in every order), <= 2 log entries in total
SPECIFICATION Spec
CONSTANTS
  Accts = {}
  Ctrs = {"c1"}
  Keys = {"k1"}
  Vals = {"v1", "v2"}
  InitTries <- Tries1
  MaxABuf = 1
  MaxSBuf = 2
  MaxEnt = 2
  MaxSnaps = 2
  MaxCommits = 1
VIEW mcView
CONSTRAINT StateConstraint
ACTION_CONSTRAINT GenLog
INVARIANT GenState
CHECK_DEADLOCK FALSE
