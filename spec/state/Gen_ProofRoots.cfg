\* generation (quick): the tree of life-cycle behaviours over the deep pair {000,001}: canonical single-key updates
\* (Update / AtomicUpdate), 3 new roots, Commits anywhere, at most one of Stash/SetRoot/LoadCache/Reopen (3 life-cycle steps)
SPECIFICATION RSpec
CONSTANTS
  H = 3
  Keys <- RK2
  Vals <- RV2
  MaxBatch = 1
  MaxCommits = 0
  MaxRoots = 3
  MaxLife = 3
  CopyOnAtomic = TRUE
  Proving = FALSE
VIEW viewRootsGen
ACTION_CONSTRAINT RootsGenQuick
CHECK_DEADLOCK FALSE
