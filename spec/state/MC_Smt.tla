------------------------------ MODULE MC_Smt -------------------------------
EXTENDS Smt

\* 5 abstract keys over 3 bits: two share the prefix 00, one more shares 0, two share 11
K5 == { <<0,0,0>>, <<0,0,1>>, <<0,1,0>>, <<1,1,0>>, <<1,1,1>> }
\* 6 keys over 4 bits with deep collisions
K6 == { <<0,0,0,0>>, <<0,0,0,1>>, <<0,0,1,0>>, <<0,1,0,0>>, <<1,0,0,0>>, <<1,0,0,1>> }
\* 4 keys (generation config)
K4 == { <<0,0,0>>, <<0,0,1>>, <<0,1,0>>, <<1,0,0>> }
V2 == {"v1", "v2"}

viewMap == map

\* ACTION_CONSTRAINT printing every transition (generation configs only)
GenLog == LogTransition(map, lastAct', map')
=============================================================================
