\* exhaustive design check of the root life cycle (thorough): 3 stored keys over 3 bits, single-key updates, 3 new roots,
\* 2 life-cycle steps, every retained root x 8 query keys x 2 encodings
SPECIFICATION RSpec
CONSTANTS
  H = 3
  Keys <- RK3
  Vals <- RV2
  MaxBatch = 1
  MaxCommits = 0
  MaxRoots = 3
  MaxLife = 2
  CopyOnAtomic = TRUE
  Proving = TRUE
VIEW rview
INVARIANTS RTypeOK ProofMatchesRequestedRoot RetainedRootsResolve Sound
PROPERTIES StatusMonotone
CHECK_DEADLOCK FALSE
