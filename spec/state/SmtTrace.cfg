SPECIFICATION TraceSpec
CONSTANTS
  H = 3
  Keys <- TK4
  Vals <- TV2
  MaxBatch = 3
  MaxCommits = 1000000
INVARIANTS TypeOK ShapeCanonical
POSTCONDITION TraceAccepted
CHECK_DEADLOCK FALSE
