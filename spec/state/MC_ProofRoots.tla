---------------------------- MODULE MC_ProofRoots ----------------------------
EXTENDS ProofRoots, Json

\* three stored keys over 3 bits: a deep pair (they share every batch down to their leaves) and a lone key
RK3 == { <<0,0,0>>, <<0,0,1>>, <<1,0,0>> }
RK2 == { <<0,0,0>>, <<0,0,1>> }
RV2 == {"v1", "v2"}

\* ---- generation: every state-changing transition is printed once as JSON <<trail', status', hist'>>; the view
\* contains the trail, so the states form a tree and every state is one replay.  ProveAt/Verify steps are not
\* taken here: the harness asks, in EVERY state, for every retained root (st), every key of AllKeys and both
\* encodings, and expects the message of the shape table (contents of that root, key).
viewRootsGen == <<hist, st, cur, prev, trail>>
JMap(m) == {<<k, m[k]>> : k \in DOMAIN m}
JAct(a) == IF "upd" \in DOMAIN a THEN [a EXCEPT !.upd = JMap(a.upd)] ELSE a
Effective(upd) == \A k \in DOMAIN upd : IF upd[k] = Del THEN k \in DOMAIN hist[cur]
                                        ELSE (k \notin DOMAIN hist[cur] \/ hist[cur][k] # upd[k])
RootsGenLog ==
  IF lastAct'.name \in {"ProveAt", "Verify"} THEN FALSE
  ELSE PrintT("TJ|" \o ToJson(<<[i \in DOMAIN trail' |-> JAct(trail'[i])],
                                [st |-> st', cur |-> cur', prev |-> prev'],
                                [i \in DOMAIN hist' |-> JMap(hist'[i])]>>))
\* ---- bounding the generated tree
IsUpd(a)  == a.name \in {"Update", "AtomicUpdate"}
NOther(t) == Cardinality({i \in DOMAIN t : t[i].name \notin {"Update", "AtomicUpdate", "Commit"}})
NUpd(t)   == Cardinality({i \in DOMAIN t : IsUpd(t[i])})
\* canonical updates: an absent key is inserted with v1, a present key is given its other value or deleted
Canon(upd) == \A k \in DOMAIN upd : IF k \in DOMAIN hist[cur] THEN upd[k] # hist[cur][k] ELSE upd[k] = "v1"
\* quick/thorough: canonical updates, Commits anywhere, at most one other life-cycle step and only once two roots were produced
\* (the keys 000 and 001 are mirror images of each other: the first update never touches 001)
ShapeQuick ==
  /\ (IsUpd(lastAct') => Canon(lastAct'.upd))
  /\ (IsUpd(lastAct') /\ NUpd(trail') = 1) => <<0,0,1>> \notin DOMAIN lastAct'.upd
  /\ NOther(trail') <= 1
  /\ (~IsUpd(lastAct') /\ lastAct'.name # "Commit") => NUpd(trail') >= 2
\* (by hand) every update that changes the contents, at most two other life-cycle steps
ShapeBig ==
  /\ (IsUpd(lastAct') => Effective(lastAct'.upd))
  /\ NOther(trail') <= 2
\* StateDB level: what StateDB offers — blocks (an Update is immediately followed by its Commit), SetRoot, LoadCache, a new
\* instance; at most MaxOther of the latter
ShapeSdb(maxOther) ==
  /\ lastAct'.name \notin {"AtomicUpdate", "Stash"}
  /\ (IsUpd(lastAct') => Canon(lastAct'.upd))
  /\ (IsUpd(lastAct') /\ NUpd(trail') = 1) => <<0,0,1>> \notin DOMAIN lastAct'.upd
  /\ (Len(trail) > 0 /\ trail[Len(trail)].name = "Update") => lastAct'.name = "Commit"
  /\ NOther(trail') <= maxOther
RootsGenSdb    == ShapeSdb(1) /\ RootsGenLog
RootsGenSdbBig == ShapeSdb(2) /\ RootsGenLog
RootsGenQuick == ShapeQuick /\ RootsGenLog
RootsGenBig   == ShapeBig /\ RootsGenLog

\* the expected honest message for every (contents, key): printed once
ShapeRow(m, q) == LET p == HonestOf(m, 1, q, "plain") IN
                  [key |-> q, incl |-> p.incl, val |-> p.val, pk |-> p.pk, pv |-> p.pv, len |-> Len(p.ap),
                   nd |-> {i \in BitIdx : i < Len(p.ap) /\ p.ap[i + 1] # Default}]
ASSUME PrintT("SH|" \o ToJson({[m |-> JMap(m), rows |-> {ShapeRow(m, q) : q \in AllKeys}] : m \in AllMaps}))
=============================================================================
