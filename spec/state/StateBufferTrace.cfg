SPECIFICATION TraceSpec
CONSTANTS
  Accts <- TAccts
  Ctrs <- TCtrs
  Keys <- TKeys
  Vals <- TVals
  InitTries <- TInit
  MaxABuf = 1000000
  MaxSBuf = 1000000
  MaxEnt = 1000000
  MaxSnaps = 6
  MaxCommits = 1000000
INVARIANTS TypeOK IdxConsistent Refines SrSync CommittedIsRef SnapsValid
POSTCONDITION TraceAccepted
CHECK_DEADLOCK FALSE
