-------------------------- MODULE StateBufferTrace --------------------------
(***************************************************************************)
(* Trace validation for C12: executions of the real StateDB / BlockState / *)
(* ContractState driven by the seeded random driver of                     *)
(* harness/state/verif_statebuffer_test.go are checked against             *)
(* StateBuffer.tla.  One ndjson line per call:                             *)
(*   {"ev":"PutAcct"|"Open"|"Write"|"Stage"|"Drop"|"SnapBlock"|"SnapHandle"*)
(*         |"Rollback"|"Release"|"Update"|"Commit"|"Reopen",               *)
(*    "a":..,"c":..,"k":..,"v":..,"i":..,        arguments (unused: "" / 0)*)
(*    "seen":{"acct":{a:d..},                    what was READ BACK from   *)
(*            "store":{c:{k:v..}..},             the real code after the   *)
(*            "hv":{c:{k:v..}..}, "live":[c..]}} call, abstracted          *)
(*   {"ev":"Reset"}   a new walk: fresh store, empty state                 *)
(* Every event must be an enabled step of the specification with exactly   *)
(* these arguments, and the values read back must be the reference layer   *)
(* of the successor state.  The invariants of the specification (Refines:  *)
(* mechanism = reference, IdxConsistent, ...) are checked along the way on  *)
(* these larger instances.                                                 *)
(***************************************************************************)
EXTENDS StateBuffer, Json

TraceLog == ndJsonDeserialize("trace.ndjson")

VARIABLE l      \* next line of the trace
tvars == <<vars, l>>

TAccts == {"a1", "a2", "a3"}
TCtrs  == {"c1", "c2", "c3"}
TKeys  == {"k1", "k2", "k3", "k4"}
TVals  == {"v1", "v2", "v3", "v4", "v5"}
TInit  == {[a \in TAccts \cup TCtrs |-> [d |-> None, sr |-> [k \in TKeys |-> None]]]}

ToSet(s) == {s[i] : i \in DOMAIN s}

TraceInit == Init /\ l = 1

\* a deterministic visiting order for Update (what is visible does not depend on it: Refines is
\* model-checked for every order)
SomeOrder(S) == CHOOSE o \in Orders(S) : TRUE

SeenOK(e) ==
  /\ \A a \in AllAccts : e.seen.acct[a] = refA'[a].d
  /\ \A c \in Ctrs, k \in Keys : e.seen.store[c][k] = refS'[c][k]
  /\ ToSet(e.seen.live) = {c \in Ctrs : hd'[c].live}
  /\ \A c \in ToSet(e.seen.live), k \in Keys : e.seen.hv[c][k] = hd'[c].view[k]

Reset ==
  /\ atrie' \in InitTries
  /\ committed' = atrie'
  /\ abuf' = EmptyBuf(AllAccts)
  /\ cache' = [c \in Ctrs |-> NoStorage]
  /\ hd' = [c \in Ctrs |-> DeadHandle]
  /\ snaps' = <<>>
  /\ phase' = "committed"
  /\ ncommit' = 0
  /\ refA' = atrie' /\ refCA' = atrie'
  /\ refS' = [c \in Ctrs |-> atrie'[c].sr] /\ refCS' = refS'
  /\ lastAct' = [name |-> "Reset"]

TraceNext ==
  /\ l <= Len(TraceLog)
  /\ LET e == TraceLog[l] IN
       /\ CASE e.ev = "PutAcct"    -> e.a \in AllAccts /\ e.v \in Vals /\ PutAcct(e.a, e.v)
            [] e.ev = "Open"       -> e.c \in Ctrs /\ Open(e.c)
            [] e.ev = "Write"      -> e.c \in Ctrs /\ e.k \in Keys /\ e.v \in Vals \cup {None} /\ Write(e.c, e.k, e.v)
            [] e.ev = "Stage"      -> e.c \in Ctrs /\ Stage(e.c)
            [] e.ev = "Drop"       -> e.c \in Ctrs /\ Drop(e.c)
            [] e.ev = "SnapBlock"  -> SnapBlock
            [] e.ev = "SnapHandle" -> e.c \in Ctrs /\ SnapHandle(e.c)
            [] e.ev = "Rollback"   -> e.i \in 1..Len(snaps) /\ Rollback(e.i)
            [] e.ev = "Release"    -> Release(e.i)
            [] e.ev = "Update"     -> UpdateWith(SomeOrder({c \in Ctrs : cache[c].in}))
            [] e.ev = "Commit"     -> Commit
            [] e.ev = "Reopen"     -> Reopen
            [] e.ev = "Reset"      -> Reset
            [] OTHER               -> FALSE
       /\ e.ev # "Reset" => SeenOK(e)
  /\ l' = l + 1

TraceSpec == TraceInit /\ [][TraceNext]_tvars

TraceAccepted == TLCGet("stats").diameter - 1 = Len(TraceLog)
=============================================================================
