----------------------------- MODULE ProofTrace -----------------------------
(***************************************************************************)
(* Trace validation for C11: executions of the real trie, proof generator  *)
(* and verifier functions (long walks on one long-lived instance, many     *)
(* historical roots; recorded by harness/pkg/trie/verif_proof_test.go) are *)
(* checked against Proof.tla.  One ndjson line per spec action:            *)
(*  {"ev":"Reset"}                      a new node on an empty store       *)
(*  {"ev":"Batch","upd":[{"k":[0,0,1],"v":"v1"|"DEL"}..]}   one block     *)
(*  {"ev":"Prove","ri":n,"key":[..],"enc":"plain"|"comp",                  *)
(*      what the REAL generator returned, mapped back to abstract terms:   *)
(*      "incl":b,"val":v|"none","pk":[..]|[],"pv":v|"none",                *)
(*      "len":path length,"nd":[positions of non-default siblings]}        *)
(*  {"ev":"Forge","f":{"t":..,..}}      the forgery applied to the proof   *)
(*  {"ev":"Verify","acc":b}             verdict of the REAL verifier       *)
(* Accepted iff every Prove answer is exactly the spec's honest message,   *)
(* every honest message was accepted by the real verifier (unless the      *)
(* as-coded model itself rejects it: oddity O2) and every forged message   *)
(* the real verifier accepted is accepted by the design verifier or falls  *)
(* under a named oddity of the as-coded model (O1).  The oddities are      *)
(* reported as violations by the direct replay, not here.                  *)
(***************************************************************************)
EXTENDS Proof, Json

TraceLog == ndJsonDeserialize("trace.ndjson")

VARIABLES l      \* next line of the trace

tvars == <<vars, l>>

ToSet(s) == {s[i] : i \in DOMAIN s}
FromPairs(ps) == LET S == ToSet(ps) IN [k \in {p.k : p \in S} |-> (CHOOSE p \in S : p.k = k).v]

TPK4 == { <<0,0,0>>, <<0,0,1>>, <<0,1,0>>, <<1,0,0>> }
TPV2 == {"v1", "v2"}

TraceInit == Init /\ l = 1

IsEv(name) == l <= Len(TraceLog) /\ TraceLog[l].ev = name

TraceReset ==
  /\ IsEv("Reset")
  /\ hist' = <<EmptyMap>> /\ msg' = NoMsg /\ lastAct' = [name |-> "Reset"]
  /\ l' = l + 1

TraceBatch ==
  /\ IsEv("Batch")
  /\ LET upd == FromPairs(TraceLog[l].upd) IN upd \in Updates /\ Batch(upd)
  /\ l' = l + 1

TraceProve ==
  /\ IsEv("Prove")
  /\ LET e == TraceLog[l] IN
       /\ e.ri \in DOMAIN hist /\ e.key \in AllKeys /\ e.enc \in Encs
       /\ Prove(e.ri, e.key, e.enc)
       /\ LET s == Shape(msg') IN                      \* the real answer IS the honest message
            /\ e.incl = s.incl /\ e.val = s.val /\ e.pk = s.pk /\ e.pv = s.pv
            /\ e.len = s.len /\ ToSet(e.nd) = s.nd
  /\ l' = l + 1

TraceForge ==
  /\ IsEv("Forge")
  /\ Forge(TraceLog[l].f)
  /\ l' = l + 1

TraceVerify ==
  /\ IsEv("Verify")
  /\ msg.kind = "proof"
  /\ LET acc == TraceLog[l].acc IN
       IF msg.forged = NoForge
         THEN acc \/ ~Accept(msg, TRUE)                              \* completeness (modulo O2)
         ELSE acc => (Accept(msg, FALSE) \/ Accept(msg, TRUE))       \* soundness (modulo O1)
  /\ Verify
  /\ l' = l + 1

TraceNext == TraceReset \/ TraceBatch \/ TraceProve \/ TraceForge \/ TraceVerify
TraceSpec == TraceInit /\ [][TraceNext]_tvars

TraceAccepted == TLCGet("stats").diameter - 1 = Len(TraceLog)
=============================================================================
