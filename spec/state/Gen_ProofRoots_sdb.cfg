\* generation for the StateDB level (quick): blocks (Update; Commit) of canonical single-key updates over three keys, 3 blocks,
\* at most one of SetRoot/LoadCache/Reopen
SPECIFICATION RSpec
CONSTANTS
  H = 3
  Keys <- RK3
  Vals <- RV2
  MaxBatch = 1
  MaxCommits = 0
  MaxRoots = 3
  MaxLife = 4
  CopyOnAtomic = TRUE
  Proving = FALSE
VIEW viewRootsGen
ACTION_CONSTRAINT RootsGenSdb
CHECK_DEADLOCK FALSE
