\* thorough design check 3: 3 snapshot levels (block and handle snapshots in any nesting), <= 1 entry per storage log
SPECIFICATION Spec
CONSTANTS
  Accts = {}
  Ctrs = {"c1", "c2"}
  Keys = {"k1"}
  Vals = {"v1", "v2"}
  InitTries <- Tries1
  MaxABuf = 1
  MaxSBuf = 1
  MaxEnt = 2
  MaxSnaps = 3
  MaxCommits = 1
VIEW mcView
CONSTRAINT StateConstraint
INVARIANTS TypeOK IdxConsistent Refines SrSync CommittedIsRef SnapsValid
PROPERTIES RevertRestores ReadsSeeLastWrite UpdateCommitTransparent
CHECK_DEADLOCK FALSE
