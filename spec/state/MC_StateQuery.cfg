\* exhaustive design check (quick): 2 variables + 1 never written, transactions writing one variable, 4 blocks, every query
\* (block 0..4 or none, 4 key lists, plain/compressed) and every account query
SPECIFICATION Spec
CONSTANTS
  Vars <- SV2
  Ghost = "w"
  Vals <- SVals
  MaxBatch = 1
  MaxBlocks = 4
  KeyLists <- KL2
  FromProven = TRUE
VIEW view
INVARIANTS TypeOK AnswersTheRequestedBlock
PROPERTIES ChainStable
CHECK_DEADLOCK FALSE
