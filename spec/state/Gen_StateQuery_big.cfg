\* generation (thorough): 3 variables, transactions writing <= 2 variables, 5 blocks
SPECIFICATION Spec
CONSTANTS
  Vars <- SV3
  Ghost = "w"
  Vals <- SVals
  MaxBatch = 2
  MaxBlocks = 5
  KeyLists <- KL3
  FromProven = TRUE
VIEW viewQGen
ACTION_CONSTRAINT QGenLog
CHECK_DEADLOCK FALSE
