\* generation (thorough): 3 variables, transactions writing one variable, 4 blocks
SPECIFICATION Spec
CONSTANTS
  Vars <- SV3
  Ghost = "w"
  Vals <- SVals
  MaxBatch = 1
  MaxBlocks = 4
  KeyLists <- KL3
  FromProven = TRUE
VIEW viewQGen
ACTION_CONSTRAINT QGenLog
CHECK_DEADLOCK FALSE
