\* generation (quick): every key set over 4 keys (value v1) reached in one block, both roots (empty, current), plus
\* every one-key second block on the trie {000,001} (three roots: value change, deletion with move-up, insertion);
\* all 8 query keys, both encodings; one line per Prove step with the table of its forgeries
SPECIFICATION Spec
CONSTANTS
  H = 3
  Keys <- PK4
  Vals <- PV2
  MaxBatch = 4
  MaxCommits = 2
VIEW viewGen
ACTION_CONSTRAINT GenLogQuick
CHECK_DEADLOCK FALSE
