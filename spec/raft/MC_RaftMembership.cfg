\* exhaustive design check: clusters of 1..5 members, every health vector, behaviours of <= 3 accepted changes
SPECIFICATION Spec
CONSTANTS
  MaxMembers = 5
  MaxChanges = 3
  InitSizes <- S15
VIEW viewM
INVARIANTS TypeOK MembersDistinct RemovedStayOut
PROPERTIES RemovedForGood RefusalsOfTheProperty RemoveHealthyKeepsQuorum RemovePermitted
CHECK_DEADLOCK FALSE
