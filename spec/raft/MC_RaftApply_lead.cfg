\* exhaustive design check (both tiers, second configuration): leadership can be lost and regained (StepDown needs a
\* third term): indices 1..4, terms 1..3, at most 2 blocks, snapshot when 2 indices lie behind, one crash/restart
SPECIFICATION Spec
CONSTANTS
  MaxIdx = 4
  MaxTerm = 3
  MaxBlk = 2
  SnapFreq = 1
  MaxCrash = 1
VIEW viewA
INVARIANTS TypeOK AppliedIsPrefixOfCommitted BestBlockIsLastAppliedBlockEntry NoCommittedBlockSkipped NoBlockAppliedTwice
  OnlyCommittedBlocksConnected BlocksOfEntriesAreStored ChainBlocksAreStored ChainLinked LogChained ConvergesAfterRestart
  SnapshotCoversConnectedOnly NeverFatal GateImpliesNoInflight ProposalOnTopOfLog
PROPERTIES CommittedStable RestartFromSnapshot DupFilterNeverFires
CHECK_DEADLOCK FALSE
