\* generation (quick): the whole state graph of a tiny model is dumped (-dump dot,actionlabels) and covered edge by
\* edge: indices 1..3, terms 1..2, 2 blocks, snapshot as soon as one index lies behind, one crash/restart
SPECIFICATION Spec
CONSTANTS
  MaxIdx = 3
  MaxTerm = 2
  MaxBlk = 2
  SnapFreq = 0
  MaxCrash = 1
CHECK_DEADLOCK FALSE
