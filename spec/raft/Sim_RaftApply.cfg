\* random behaviours of a larger model (tlc -simulate): indices 1..6, terms 1..3, 4 blocks, snapshot when 2 indices
\* lie behind, up to two crash/restarts
SPECIFICATION Spec
CONSTANTS
  MaxIdx = 6
  MaxTerm = 3
  MaxBlk = 4
  SnapFreq = 1
  MaxCrash = 2
INVARIANTS TypeOK AppliedIsPrefixOfCommitted BestBlockIsLastAppliedBlockEntry NeverFatal
CHECK_DEADLOCK FALSE
