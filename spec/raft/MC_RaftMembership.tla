-------------------------- MODULE MC_RaftMembership --------------------------
EXTENDS RaftMembership, Json

S15 == 1..5
S13 == 1..3
viewM == <<applied, removed, next, alive, nchg>>

\* one JSON line per transition (generation configs): source state, request + decision, destination state
GenLog == PrintT("TJ|" \o ToJson(<<[applied |-> applied, removed |-> removed, next |-> next, alive |-> alive],
                                     lastAct',
                                     [applied |-> applied', removed |-> removed', next |-> next', alive |-> alive']>>))
=============================================================================
