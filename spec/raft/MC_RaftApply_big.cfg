\* exhaustive design check (thorough): indices 1..5, terms 1..3, at most 3 blocks, snapshot when 2 indices lie behind,
\* up to two crash/restarts at any point
SPECIFICATION Spec
CONSTANTS
  MaxIdx = 5
  MaxTerm = 3
  MaxBlk = 3
  SnapFreq = 1
  MaxCrash = 2
VIEW viewA
INVARIANTS TypeOK AppliedIsPrefixOfCommitted BestBlockIsLastAppliedBlockEntry NoCommittedBlockSkipped NoBlockAppliedTwice
  OnlyCommittedBlocksConnected BlocksOfEntriesAreStored ChainBlocksAreStored ChainLinked LogChained ConvergesAfterRestart
  SnapshotCoversConnectedOnly NeverFatal GateImpliesNoInflight ProposalOnTopOfLog
PROPERTIES CommittedStable RestartFromSnapshot DupFilterNeverFires
CHECK_DEADLOCK FALSE
