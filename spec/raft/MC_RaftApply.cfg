\* exhaustive design check (quick): indices 1..4, terms 1..2, at most 3 blocks, snapshot every 2nd applied index,
\* one crash/restart at any point
SPECIFICATION Spec
CONSTANTS
  MaxIdx = 4
  MaxTerm = 2
  MaxBlk = 3
  SnapFreq = 1
  MaxCrash = 1
VIEW viewA
INVARIANTS TypeOK AppliedIsPrefixOfCommitted BestBlockIsLastAppliedBlockEntry NoCommittedBlockSkipped NoBlockAppliedTwice
  OnlyCommittedBlocksConnected BlocksOfEntriesAreStored ChainBlocksAreStored ChainLinked LogChained ConvergesAfterRestart
  SnapshotCoversConnectedOnly NeverFatal GateImpliesNoInflight ProposalOnTopOfLog
PROPERTIES CommittedStable RestartFromSnapshot DupFilterNeverFires
CHECK_DEADLOCK FALSE
