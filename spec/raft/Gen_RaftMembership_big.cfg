\* generation (thorough): every transition of clusters of 1..5 members and <= 3 accepted changes
SPECIFICATION Spec
CONSTANTS
  MaxMembers = 5
  MaxChanges = 3
  InitSizes <- S15
VIEW viewM
ACTION_CONSTRAINT GenLog
CHECK_DEADLOCK FALSE
