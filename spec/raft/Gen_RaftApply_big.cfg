\* generation (thorough): indices 1..3, terms 1..3, 2 blocks, snapshot as soon as one index lies behind, one
\* crash/restart (19 251 states, 68 132 transitions, 28 012 behaviours cover every transition)
SPECIFICATION Spec
CONSTANTS
  MaxIdx = 3
  MaxTerm = 3
  MaxBlk = 2
  SnapFreq = 0
  MaxCrash = 1
CHECK_DEADLOCK FALSE
