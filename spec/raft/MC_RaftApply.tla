---------------------------- MODULE MC_RaftApply ----------------------------
EXTENDS RaftApply

\* everything but the label of the last action
viewA == <<ent, commit, term, snap, stored, chain, applied, req, conn, proposed, inflight, prevWork, ready, role,
           lterm, fatal, blks, hiApplied, ncrash>>

\* what the harness compares with the real node after every step (Gen / simulation output is the full state)
=============================================================================
