SPECIFICATION TraceSpec
CONSTANTS
  MaxIdx = 6
  Terms <- TT3
  Blks <- TB3
  Ccs <- TC2
  MaxBatch = 3
  Idents <- TI3
  MaxOps = 1000000
  LookupChecked = FALSE
INVARIANTS TypeOK LogMatchesLastWrite TruncatedAbsent ByBlockSound
POSTCONDITION TraceAccepted
CHECK_DEADLOCK FALSE
