\* generation (quick, second graph): leadership lost and regained (a StepDown needs a third term), no crash:
\* indices 1..3, terms 1..3, 2 blocks, snapshot as soon as one index lies behind
SPECIFICATION Spec
CONSTANTS
  MaxIdx = 3
  MaxTerm = 3
  MaxBlk = 2
  SnapFreq = 0
  MaxCrash = 0
CHECK_DEADLOCK FALSE
