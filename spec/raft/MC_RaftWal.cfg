\* exhaustive design check (quick): indices 1..3, terms 1..2, two blocks (+ empty entries), batches <= 2
\* entries, 2 identities, behaviours of <= 3 operations (a crash after every store commit included)
SPECIFICATION Spec
CONSTANTS
  MaxIdx = 3
  Terms <- T2
  Blks <- B2
  Ccs <- C0
  MaxBatch = 2
  Idents <- I2
  MaxOps = 3
VIEW viewWN
INVARIANTS TypeOK LogMatchesLastWrite TruncatedAbsent ByBlockSound ByBlockComplete ReadAllHandsTheLog
PROPERTIES AppendSemantics DurableUnlessRewritten RestartIdempotent ResetResult
CHECK_DEADLOCK FALSE
