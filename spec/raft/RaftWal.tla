------------------------------ MODULE RaftWal -------------------------------
(***************************************************************************)
(* C16(a) -- the write-ahead log the raft consensus keeps in the chain DB  *)
(* (chain/chaindbForRaft.go, consensus/impl/raftv2/waldb.go).              *)
(*                                                                         *)
(* Durable state `w` (a record of abstract components, one per key family  *)
(* of the store):                                                          *)
(*   ent   : index -> [term, kind, pl]   the stored raft entries           *)
(*   last  : the stored "last index"                                       *)
(*   inv   : block -> index              inverse map (never pruned, as in  *)
(*                                       the code)                         *)
(*   hs    : <<>> or <<[term, commit]>>  hard state                        *)
(*   snap  : <<>> or <<[idx, term]>>     snapshot                          *)
(*   ident : <<>> or <<[name, peer]>>    node identity                     *)
(*   ref   : index -> entry   HISTORY: the log as the consensus library    *)
(*           defines it (entry most recently stored at an index and not    *)
(*           since removed by a conflicting overwrite / clear).  `ent` is  *)
(*           updated the way the code does it (delete first..last using    *)
(*           the STORED last index, then write), `ref` the way raft        *)
(*           defines it; the design claim is ent = ref.                    *)
(*                                                                         *)
(* Every store commit (Tx.Commit / Bulk.Flush) is one ATOM: a function     *)
(* from w to w.  A public WAL call is a sequence of atoms; action          *)
(* Do(op, k) performs the first k atoms of op: k = number of atoms is the  *)
(* completed call, k smaller is a crash after the k-th commit followed by  *)
(* a restart.  All state is durable, so Restart is the identity.           *)
(***************************************************************************)
EXTENDS Integers, Sequences, FiniteSets, TLC, Util

CONSTANTS MaxIdx,     \* raft indices are 1..MaxIdx
          Terms,      \* set of terms (positive integers)
          Blks,       \* block ids carried by block entries
          Ccs,        \* payload ids of configuration-change entries
          MaxBatch,   \* max entries per append batch
          Idents,     \* set of identities [name, peer]
          MaxOps      \* bound on the number of operations of a behaviour

VARIABLES w,          \* durable state (see above)
          nops,       \* operations so far
          lastAct     \* last operation: [op, ..args.., k, n, crash]

vars == <<w, nops, lastAct>>

Idx == 1..MaxIdx
Entry == [term : Terms, kind : {"block"}, pl : Blks]
           \cup [term : Terms, kind : {"empty"}, pl : {"none"}]
           \cup [term : Terms, kind : {"cc"}, pl : Ccs]
HardStates == [term : Terms, commit : 0..MaxIdx]
Snaps == [idx : Idx, term : Terms]

EmptyFun == [i \in {} |-> 0]

W0 == [ent |-> EmptyFun, last |-> 0, inv |-> EmptyFun, hs |-> <<>>, snap |-> <<>>, ident |-> <<>>,
       ref |-> EmptyFun]

\* durable part compared with the implementation (ref is a history variable)
Proj(x) == [ent |-> x.ent, last |-> x.last, inv |-> x.inv, hs |-> x.hs, snap |-> x.snap, ident |-> x.ident]

-----------------------------------------------------------------------------
(* Atoms: what one store commit changes                                    *)

\* WriteRaftEntry: ONE transaction = delete first..last (if first <= last), write the entries,
\* the inverse keys of block entries, and the last index.
AppendA(x, first, es) ==
  LET n    == Len(es)
      newI == first..(first + n - 1)
      del  == IF first <= x.last THEN first..x.last ELSE {}
      kept == DOMAIN x.ent \ del
      bl   == {es[j].pl : j \in {jj \in 1..n : es[jj].kind = "block"}}
      lastOf(b) == first - 1 + Max({j \in 1..n : es[j].kind = "block" /\ es[j].pl = b})
  IN [x EXCEPT !.ent  = [i \in kept \cup newI |-> IF i \in newI THEN es[i - first + 1] ELSE x.ent[i]],
               !.last = first + n - 1,
               !.inv  = [b \in DOMAIN x.inv \cup bl |-> IF b \in bl THEN lastOf(b) ELSE x.inv[b]],
               \* raft: entries from `first` on are replaced by the batch
               !.ref  = [i \in {j \in DOMAIN x.ref : j < first} \cup newI |->
                            IF i \in newI THEN es[i - first + 1] ELSE x.ref[i]]]

HsA(x, h)     == [x EXCEPT !.hs = <<h>>]
SnapA(x, s)   == [x EXCEPT !.snap = <<s>>]
IdentA(x, id) == [x EXCEPT !.ident = <<id>>]
\* ClearWAL, first commit: identity, hard state, snapshot
ClearTxA(x)   == [x EXCEPT !.ident = <<>>, !.hs = <<>>, !.snap = <<>>]
\* ClearWAL, second commit: entries 1..last and the last index (the inverse keys stay)
ClearBulkA(x) == [x EXCEPT !.ent = [i \in DOMAIN x.ent \ (1..x.last) |-> x.ent[i]], !.last = 0,
                           !.ref = EmptyFun]
\* ResetWAL, final commit: last index := commit
SetLastA(x, c) == [x EXCEPT !.last = c]

-----------------------------------------------------------------------------
(* Public calls as sequences of atoms.  An atom is [a |-> name, ...args].  *)

ApplyAtom(x, at) ==
  CASE at.a = "append"    -> AppendA(x, at.first, at.es)
    [] at.a = "hs"        -> HsA(x, at.h)
    [] at.a = "snap"      -> SnapA(x, at.s)
    [] at.a = "ident"     -> IdentA(x, at.id)
    [] at.a = "cleartx"   -> ClearTxA(x)
    [] at.a = "clearbulk" -> ClearBulkA(x)
    [] at.a = "setlast"   -> SetLastA(x, at.c)

RECURSIVE ApplyAtoms(_, _, _)
ApplyAtoms(x, ats, k) == IF k = 0 THEN x ELSE ApplyAtom(ApplyAtoms(x, ats, k - 1), ats[k])

\* WalDB.SaveEntry(hardstate, entries): entries first (if any), then the hard state (if not empty).
\* hsopt is <<>> (empty hard state) or <<h>>; es may be <<>>.
SaveEntryAtoms(hsopt, first, es) ==
  (IF es = <<>> THEN <<>> ELSE <<[a |-> "append", first |-> first, es |-> es]>>)
    \o (IF hsopt = <<>> THEN <<>> ELSE <<[a |-> "hs", h |-> hsopt[1]]>>)

ClearAtoms == <<[a |-> "cleartx"], [a |-> "clearbulk"]>>

\* ResetWAL(term, commit): ClearWAL, hard state {term, commit}, snapshot {commit, term} of the best
\* block, last index := commit.
ResetAtoms(t, c) == ClearAtoms \o <<[a |-> "hs", h |-> [term |-> t, commit |-> c]],
                                    [a |-> "snap", s |-> [idx |-> c, term |-> t]],
                                    [a |-> "setlast", c |-> c]>>

-----------------------------------------------------------------------------
(* Reads                                                                   *)

GetEntry(x, i) == IF i \in DOMAIN x.ent THEN <<x.ent[i]>> ELSE <<>>

\* "the raft entry of block b": through the inverse map; an answer must carry b (INTENDED design)
EntryOfBlock(x, b) ==
  IF b \in DOMAIN x.inv /\ x.inv[b] \in DOMAIN x.ent
       /\ x.ent[x.inv[b]].kind = "block" /\ x.ent[x.inv[b]].pl = b
  THEN <<[idx |-> x.inv[b], e |-> x.ent[x.inv[b]]]>> ELSE <<>>
\* what chaindbForRaft.go:GetRaftEntryOfBlock computes: whatever entry now sits at the recorded index
\* (deliberately named oddity: the inverse keys are neither pruned on truncation nor checked on read)
EntryOfBlockAsCoded(x, b) ==
  IF b \in DOMAIN x.inv /\ x.inv[b] \in DOMAIN x.ent
  THEN <<[idx |-> x.inv[b], e |-> x.ent[x.inv[b]]]>> ELSE <<>>

SnapIdx(x)  == IF x.snap = <<>> THEN 0 ELSE x.snap[1].idx
SnapTerm(x) == IF x.snap = <<>> THEN 0 ELSE x.snap[1].term

\* WalDB.ReadAll(stored snapshot): needs a hard state; entries snapIdx+1..last must all be present
\* with a term >= the snapshot term; returns identity, hard state and those entries.
ReadAllOk(x) == /\ x.hs # <<>>
                /\ \A i \in (SnapIdx(x) + 1)..x.last : i \in DOMAIN x.ent /\ x.ent[i].term >= SnapTerm(x)
ReadAll(x) == IF ReadAllOk(x)
              THEN <<[ident |-> x.ident, hs |-> x.hs[1],
                      first |-> SnapIdx(x) + 1,
                      ents  |-> [j \in 1..(IF x.last > SnapIdx(x) THEN x.last - SnapIdx(x) ELSE 0) |-> x.ent[SnapIdx(x) + j]]]>>
              ELSE <<>>

\* ChainDB.HasWal(identity q): stored identity with q's name and peer id, and a hard state
HasWal(x, q) == x.ident # <<>> /\ x.ident[1].name = q.name /\ x.ident[1].peer = q.peer /\ x.hs # <<>>

\* everything the harness reads back, evaluated by TLC (printed by the Gen configuration)
Obs(x) == [readall   |-> ReadAll(x),
           byblk     |-> [b \in Blks |-> EntryOfBlock(x, b)],
           byblkcode |-> [b \in Blks |-> EntryOfBlockAsCoded(x, b)],
           haswal    |-> {q \in Idents : HasWal(x, q)}]

-----------------------------------------------------------------------------
(* Operations the consensus layer can issue (environment assumptions:      *)
(* batches are contiguous, start at most one past the stored last index -- *)
(* or right after an installed snapshot that is ahead of the log --, terms *)
(* do not decrease inside a batch or against the preceding entry; snapshot *)
(* indices grow)                                                           *)

NonDecr(es) == \A j \in 1..(Len(es) - 1) : es[j].term <= es[j + 1].term
BatchesUpTo(m) == UNION {{es \in [1..n -> Entry] : NonDecr(es)} : n \in 1..(IF m < MaxBatch THEN m ELSE MaxBatch)}

\* where a batch may start: anywhere up to one past the stored last index, or right after an
\* installed snapshot that is ahead of the log
Firsts(x) == {f \in 1..(x.last + 1) : f <= MaxIdx}
               \cup (IF x.snap # <<>> /\ x.snap[1].idx + 1 > x.last + 1 /\ x.snap[1].idx + 1 <= MaxIdx
                     THEN {x.snap[1].idx + 1} ELSE {})

FirstOK(x, first, es) ==
  /\ first \in Firsts(x)
  /\ first + Len(es) - 1 <= MaxIdx
  /\ NonDecr(es)
  /\ (first - 1) \in DOMAIN x.ent => x.ent[first - 1].term <= es[1].term

\* hard states the library may hand over together with a batch: the term of the newest entry and a
\* commit index in front of or at the end of the batch (the store treats the hard state as opaque)
HsWith(first, es) == {<<>>} \cup {<<[term |-> es[Len(es)].term, commit |-> c]>> : c \in {first - 1, first + Len(es) - 1}}
\* ... or alone: any term, commit = stored last index or 0
HsAlone(x) == {[term |-> t, commit |-> c] : t \in Terms, c \in {0, x.last}}

Step(op, ats, k) ==
  /\ nops < MaxOps
  /\ k \in 0..Len(ats)
  /\ k = 0 => Len(ats) = 0             \* a crash before the first commit changes nothing
  /\ w' = ApplyAtoms(w, ats, k)
  /\ nops' = nops + 1
  /\ lastAct' = op @@ [k |-> k, n |-> Len(ats), crash |-> k < Len(ats)]

SaveEntry(hsopt, first, es, k) ==
  /\ es # <<>> \/ hsopt # <<>>
  /\ es # <<>> => FirstOK(w, first, es)
  /\ es = <<>> => first = 0
  /\ Step([op |-> "SaveEntry", hs |-> hsopt, first |-> first, es |-> es], SaveEntryAtoms(hsopt, first, es), k)

WriteSnapshot(s, k) ==
  /\ s.idx > SnapIdx(w)
  /\ Step([op |-> "WriteSnapshot", s |-> s], <<[a |-> "snap", s |-> s]>>, k)

WriteIdentity(id, k) == Step([op |-> "WriteIdentity", id |-> id], <<[a |-> "ident", id |-> id]>>, k)

Clear(k) == Step([op |-> "Clear"], ClearAtoms, k)

Reset(t, c, k) == Step([op |-> "Reset", term |-> t, commit |-> c], ResetAtoms(t, c), k)

Restart == /\ nops < MaxOps
           /\ UNCHANGED w
           /\ nops' = nops + 1
           /\ lastAct' = [op |-> "Restart", k |-> 0, n |-> 0, crash |-> FALSE]

Init == /\ w = W0
        /\ nops = 0
        /\ lastAct = [op |-> "Init", k |-> 0, n |-> 0, crash |-> FALSE]

NextOp ==
  \/ \E first \in Firsts(w) : \E es \in BatchesUpTo(MaxIdx - first + 1) : \E hsopt \in HsWith(first, es) :
        \E k \in 1..2 : SaveEntry(hsopt, first, es, k)
  \/ \E h \in HsAlone(w) : SaveEntry(<<h>>, 0, <<>>, 1)
  \/ \E s \in Snaps : WriteSnapshot(s, 1)
  \/ \E id \in Idents : WriteIdentity(id, 1)
  \/ \E k \in 1..2 : Clear(k)
  \/ \E t \in Terms, c \in Idx, k \in 1..5 : Reset(t, c, k)
  \/ Restart

\* (the bound is repeated from Step: it spares TLC the enumeration of NextOp at the last level)
Next == nops < MaxOps /\ NextOp

Spec == Init /\ [][Next]_vars

-----------------------------------------------------------------------------
(* Properties                                                              *)

TypeOK == /\ DOMAIN w.ent \subseteq Idx /\ \A i \in DOMAIN w.ent : w.ent[i] \in Entry
          /\ w.last \in 0..MaxIdx
          /\ DOMAIN w.inv \subseteq Blks /\ \A b \in DOMAIN w.inv : w.inv[b] \in Idx
          /\ w.hs = <<>> \/ (Len(w.hs) = 1 /\ w.hs[1] \in HardStates)
          /\ w.snap = <<>> \/ (Len(w.snap) = 1 /\ w.snap[1] \in Snaps)
          /\ w.ident = <<>> \/ (Len(w.ident) = 1 /\ w.ident[1] \in Idents)

\* every index returns exactly the entry most recently stored there (and not since removed)
LogMatchesLastWrite == w.ent = w.ref

\* nothing is stored above the last index: what a conflicting overwrite removed is absent
TruncatedAbsent == \A i \in Idx : i > w.last => GetEntry(w, i) = <<>>

\* a by-block lookup never answers with an entry that does not carry the block
ByBlockSound == \A b \in Blks : LET r == EntryOfBlock(w, b) IN
                   r # <<>> => r[1].e.kind = "block" /\ r[1].e.pl = b /\ GetEntry(w, r[1].idx) = <<r[1].e>>
\* ... and finds the block whenever its most recently written entry is still in the log
ByBlockComplete == \A b \in Blks : \A i \in DOMAIN w.ref :
                     (w.ref[i].kind = "block" /\ w.ref[i].pl = b /\ b \in DOMAIN w.inv /\ w.inv[b] = i)
                        => EntryOfBlock(w, b) = <<[idx |-> i, e |-> w.ref[i]]>>

\* NOT an invariant of the design (violated; kept to document the deviation of the code)
AsCodedLookupIsSound == \A b \in Blks : EntryOfBlockAsCoded(w, b) = EntryOfBlock(w, b)

\* a successful ReadAll hands over exactly the reference log above the snapshot, contiguous up to last
ReadAllHandsTheLog ==
  LET r == ReadAll(w) IN
    r # <<>> => /\ Len(r[1].ents) = (IF w.last > SnapIdx(w) THEN w.last - SnapIdx(w) ELSE 0)
                /\ \A j \in 1..Len(r[1].ents) : (SnapIdx(w) + j) \in DOMAIN w.ref /\ r[1].ents[j] = w.ref[SnapIdx(w) + j]
                /\ r[1].hs = w.hs[1] /\ r[1].ident = w.ident

\* the effect of a completed append on the log (conflict truncation shorter/equal/longer than the suffix)
AppendSemantics ==
  [][(lastAct'.op = "SaveEntry" /\ lastAct'.es # <<>> /\ lastAct'.k >= 1) =>
       LET f == lastAct'.first
           n == Len(lastAct'.es) IN
         /\ \A i \in f..(f + n - 1) : GetEntry(w', i) = <<lastAct'.es[i - f + 1]>>
         /\ \A i \in Idx : i < f => GetEntry(w', i) = GetEntry(w, i)
         /\ \A i \in Idx : i > f + n - 1 => GetEntry(w', i) = <<>>
         /\ w'.last = f + n - 1
         /\ w'.snap = w.snap /\ w'.ident = w.ident
         /\ w'.hs = (IF lastAct'.k = 2 THEN lastAct'.hs ELSE w.hs)]_vars

\* hard state, snapshot and identity change only by their own writers, Clear and Reset
DurableUnlessRewritten ==
  [][/\ w'.hs # w.hs => lastAct'.op \in {"SaveEntry", "Clear", "Reset"}
     /\ w'.snap # w.snap => lastAct'.op \in {"WriteSnapshot", "Clear", "Reset"}
     /\ w'.ident # w.ident => lastAct'.op \in {"WriteIdentity", "Clear", "Reset"}
     /\ w'.ent # w.ent => lastAct'.op \in {"SaveEntry", "Clear", "Reset"}]_vars

RestartIdempotent == [][lastAct'.op = "Restart" => (w' = w /\ Obs(w') = Obs(w))]_vars

\* a completed Reset leaves an empty log whose last index is the given commit, readable from its snapshot
ResetResult ==
  [][(lastAct'.op = "Reset" /\ ~lastAct'.crash) =>
       /\ w'.ent = EmptyFun /\ w'.last = lastAct'.commit
       /\ w'.hs = <<[term |-> lastAct'.term, commit |-> lastAct'.commit]>>
       /\ w'.snap = <<[idx |-> lastAct'.commit, term |-> lastAct'.term]>>
       /\ w'.ident = <<>>
       /\ ReadAll(w') # <<>> /\ ReadAll(w')[1].ents = <<>>]_vars
=============================================================================
