----------------------------- MODULE MC_RaftWal -----------------------------
EXTENDS RaftWal, Json

T2 == {1, 2}
T3 == {1, 2, 3}
B1 == {"b1"}
B2 == {"b1", "b2"}
B3 == {"b1", "b2", "b3"}
C0 == {}
C1 == {"c1"}
C2 == {"c1", "c2"}
\* identities: same name / different peer id, different name / same peer id (HasWal compares both)
I2 == {[name |-> "n1", peer |-> "p1"], [name |-> "n1", peer |-> "p2"]}
I3 == {[name |-> "n1", peer |-> "p1"], [name |-> "n1", peer |-> "p2"], [name |-> "n2", peer |-> "p1"]}

viewW == w
viewWN == <<w, nops>>

\* ACTION_CONSTRAINT printing every transition as one JSON line (generation / simulation configs only):
\* source state, depth, operation, destination state and everything that can be read back from it
GenLog == PrintT("TJ|" \o ToJson(<<Proj(w), nops, lastAct', Proj(w'), Obs(w')>>))

\* Generation uses a sub-relation of Next (every GenNext step is a Next step): per batch one hard
\* state (term of the newest entry, commit = end of the batch) in the three variants "entries only",
\* "entries + hard state", "crash between the two commits"; Restart is left out (the harness restarts
\* the store after every operation anyway).
GenNextOp ==
  \/ \E first \in Firsts(w) : \E es \in BatchesUpTo(MaxIdx - first + 1) :
        LET h == [term |-> es[Len(es)].term, commit |-> first + Len(es) - 1] IN
          \/ SaveEntry(<<>>, first, es, 1)
          \/ \E k \in 1..2 : SaveEntry(<<h>>, first, es, k)
  \/ \E t \in Terms : SaveEntry(<<[term |-> t, commit |-> w.last]>>, 0, <<>>, 1)
  \/ \E s \in Snaps : WriteSnapshot(s, 1)
  \/ \E id \in Idents : WriteIdentity(id, 1)
  \/ \E k \in 1..2 : Clear(k)
  \/ \E t \in Terms, c \in Idx, k \in 1..5 : Reset(t, c, k)
GenNext == nops < MaxOps /\ GenNextOp
GenSpec == Init /\ [][GenNext]_vars
=============================================================================
