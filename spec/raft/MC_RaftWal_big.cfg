\* exhaustive design check (thorough): indices 1..3, terms 1..2, two blocks, one conf-change payload, batches <= 2
\* entries, 3 identities, behaviours of <= 3 operations (a crash after every store commit included)
SPECIFICATION Spec
CONSTANTS
  MaxIdx = 3
  Terms <- T2
  Blks <- B2
  Ccs <- C1
  MaxBatch = 2
  Idents <- I3
  MaxOps = 3
VIEW viewWN
INVARIANTS TypeOK LogMatchesLastWrite TruncatedAbsent ByBlockSound ByBlockComplete ReadAllHandsTheLog
PROPERTIES AppendSemantics DurableUnlessRewritten RestartIdempotent ResetResult
CHECK_DEADLOCK FALSE
