---------------------------- MODULE RaftWalTrace ----------------------------
(***************************************************************************)
(* Trace validation for C16(a): random histories executed on the real      *)
(* ChainDB/WalDB (store really closed and reopened after every operation;  *)
(* recorded by harness/consensus/impl/raftv2) are checked against          *)
(* RaftWal.tla.  One ndjson line per operation:                            *)
(*   {"ev":"NewWalk"}                       fresh, empty store             *)
(*   {"ev":"Op","op":..,"hs":[]|[h],"first":f,"es":[..],"s":[]|[s],        *)
(*    "id":[]|[id],"term":t,"commit":c,"k":commits performed,              *)
(*    -- everything read back after the reopen:                            *)
(*    "ent":[{"i":idx,"e":entry}..],"last":n,"inv":[{"b":blk,"i":idx}..],  *)
(*    "rhs":[]|[h],"rsnap":[]|[s],"rident":[]|[id],                        *)
(*    "readall":[]|[{ident,hs,first,ents}],"byblk":[{"b":blk,"r":[]|[x]}], *)
(*    "haswal":[id..]}                                                     *)
(* The driver keeps no model; the environment assumptions of Next are not  *)
(* imposed here (the atoms are total), only the meaning of the operations. *)
(* LookupChecked = TRUE: by-block lookups are compared with the intended   *)
(* design (EntryOfBlock); FALSE: with what the code computes               *)
(* (EntryOfBlockAsCoded) -- used by the check to attribute a rejection to  *)
(* exactly that deviation.                                                 *)
(***************************************************************************)
EXTENDS RaftWal, Json

CONSTANT LookupChecked

TraceLog == ndJsonDeserialize("trace.ndjson")

VARIABLE l      \* next line of the trace

tvars == <<vars, l>>

ToSet(s) == {s[i] : i \in DOMAIN s}

TT3 == {1, 2, 3}
TB3 == {"b1", "b2", "b3"}
TC2 == {"c1", "c2"}
TI3 == {[name |-> "n1", peer |-> "p1"], [name |-> "n1", peer |-> "p2"], [name |-> "n2", peer |-> "p1"]}

AtomsOf(e) ==
  CASE e.op = "SaveEntry"     -> SaveEntryAtoms(e.hs, e.first, e.es)
    [] e.op = "WriteSnapshot" -> <<[a |-> "snap", s |-> e.s[1]]>>
    [] e.op = "WriteIdentity" -> <<[a |-> "ident", id |-> e.id[1]]>>
    [] e.op = "Clear"         -> ClearAtoms
    [] e.op = "Reset"         -> ResetAtoms(e.term, e.commit)
    [] e.op = "Restart"       -> <<>>

Lookup(x, b) == IF LookupChecked THEN EntryOfBlock(x, b) ELSE EntryOfBlockAsCoded(x, b)

\* the answers of the real store are the answers of the model state
Matches(x, e) ==
  /\ {<<p.i, p.e>> : p \in ToSet(e.ent)} = {<<i, x.ent[i]>> : i \in DOMAIN x.ent}
  /\ e.last = x.last
  /\ {<<p.b, p.i>> : p \in ToSet(e.inv)} = {<<b, x.inv[b]>> : b \in DOMAIN x.inv}
  /\ e.rhs = x.hs /\ e.rsnap = x.snap /\ e.rident = x.ident
  /\ e.readall = ReadAll(x)
  /\ {p.b : p \in ToSet(e.byblk)} = Blks
  /\ \A p \in ToSet(e.byblk) : p.r = Lookup(x, p.b)
  /\ ToSet(e.haswal) = {q \in Idents : HasWal(x, q)}

TraceInit == Init /\ l = 1

TraceNewWalk ==
  /\ l <= Len(TraceLog) /\ TraceLog[l].ev = "NewWalk"
  /\ w' = W0 /\ nops' = 0
  /\ lastAct' = [op |-> "NewWalk", k |-> 0, n |-> 0, crash |-> FALSE]
  /\ l' = l + 1

TraceOp ==
  /\ l <= Len(TraceLog) /\ TraceLog[l].ev = "Op"
  /\ LET e   == TraceLog[l]
         ats == AtomsOf(e)
     IN /\ e.k \in 0..Len(ats)
        /\ w' = ApplyAtoms(w, ats, e.k)
        /\ Matches(w', e)
        /\ lastAct' = [op |-> e.op, k |-> e.k, n |-> Len(ats), crash |-> e.k < Len(ats)]
  /\ nops' = nops
  /\ l' = l + 1

TraceNext == TraceNewWalk \/ TraceOp
TraceSpec == TraceInit /\ [][TraceNext]_tvars

TraceAccepted == TLCGet("stats").diameter - 1 = Len(TraceLog)
=============================================================================
