--------------------------- MODULE RaftMembership ---------------------------
(***************************************************************************)
(* C16(b) -- raft cluster membership changes                               *)
(* (consensus/impl/raftv2/cluster.go: validateChangeMembership,            *)
(* hasDuplicatedMember, isEnableChangeMembership; raftserver.go:           *)
(* applyConfChange, GetClusterProgress).                                   *)
(*                                                                         *)
(* State: the applied members and the removed members of the cluster as    *)
(* the node sees them.  A member is [id, name, addr, peer] over small       *)
(* integers; `next` is the next unused value (fresh attributes).           *)
(*                                                                         *)
(* Two routes reach the validation:                                        *)
(*  "propose": the leader is asked to change the membership                *)
(*     (BlockFactory.MakeConfChangeProposal = makeProposal +               *)
(*     isEnableChangeMembership).  The id of a new member is made up by    *)
(*     the node (fresh), the health vector `hv` is what the leader's raft  *)
(*     progress tracker shows.  A proposal does not change the cluster.    *)
(*  "apply": a committed configuration-change entry is applied             *)
(*     (raftServer.applyConfChange); the entry carries the whole member,   *)
(*     so any id can arrive.  An accepted entry changes the cluster, a     *)
(*     refused one is applied to raft as a no-op.                          *)
(***************************************************************************)
EXTENDS Integers, Sequences, FiniteSets, TLC, Util

CONSTANTS MaxMembers,   \* cluster sizes 1..MaxMembers
          MaxChanges,   \* accepted changes per behaviour
          InitSizes     \* sizes of the initial clusters

VARIABLES applied,      \* set of members
          removed,      \* set of members removed so far
          next,         \* next fresh attribute value
          alive,        \* FALSE once this node has been removed from the cluster
          nchg,         \* accepted changes so far
          lastAct

vars == <<applied, removed, next, alive, nchg, lastAct>>

Mk(i, n, a, p) == [id |-> i, name |-> n, addr |-> a, peer |-> p]
Ids(S) == {m.id : m \in S}
Self == 1               \* this node (the leader of the "propose" route) is the member with id 1

Statuses == {"healthy", "slow", "syncing"}
\* what the leader's progress tracker can show: the leader itself always counts as healthy
HVs == {h \in [Ids(applied) -> Statuses] : Self \in Ids(applied) => h[Self] = "healthy"}
AllHealthy == [i \in Ids(applied) |-> "healthy"]
OneSlow == LET v == Max(Ids(applied)) IN [i \in Ids(applied) |-> IF i = v /\ i # Self THEN "slow" ELSE "healthy"]

-----------------------------------------------------------------------------
(* The decision procedure                                                  *)

Dup(m, p) == p.name = m.name \/ p.id = m.id \/ p.addr = m.addr \/ p.peer = m.peer

\* validateChangeMembership, add: not the invalid id, never removed, id unused, no attribute in use
ValidAdd(m) == /\ m.id # 0
               /\ m.id \notin Ids(removed)
               /\ m.id \notin Ids(applied)
               /\ \A p \in applied : ~Dup(m, p)
\* validateChangeMembership, remove: a current member (never a removed or unknown one)
ValidRemove(i) == i # 0 /\ i \notin Ids(removed) /\ i \in Ids(applied)

NHealthy(hv) == Cardinality({i \in DOMAIN hv : hv[i] = "healthy"})
Quorum(n) == n \div 2 + 1
\* isEnableChangeMembership: nothing is added while a member is unhealthy; an unhealthy member can always
\* be removed; a healthy one only if the healthy rest still is a quorum of the smaller cluster
EnableAdd(hv) == \A i \in DOMAIN hv : hv[i] = "healthy"
EnableRemove(hv, i) == hv[i] # "healthy" \/ NHealthy(hv) - 1 >= Quorum(Cardinality(DOMAIN hv) - 1)

-----------------------------------------------------------------------------
(* Requests worth asking in a state                                        *)

Fresh == Mk(next, next, next, next)
\* a fresh member with one attribute taken from p
With(p, a) == CASE a = "id"   -> [Fresh EXCEPT !.id = p.id]
                [] a = "name" -> [Fresh EXCEPT !.name = p.name]
                [] a = "addr" -> [Fresh EXCEPT !.addr = p.addr]
                [] a = "peer" -> [Fresh EXCEPT !.peer = p.peer]
\* a node that was removed comes back under a new id (permitted: only the id of a removed member is banned)
Rejoin(r) == [r EXCEPT !.id = next]

AddCandidates ==
  {Fresh} \cup {With(p, a) : p \in applied, a \in {"id", "name", "addr", "peer"}} \cup applied
    \cup removed \cup {With(r, "id") : r \in removed} \cup {Rejoin(r) : r \in removed} \cup {[Fresh EXCEPT !.id = 0]}
RemoveCandidates == Ids(applied) \cup Ids(removed) \cup {0, next}

-----------------------------------------------------------------------------
(* Actions                                                                 *)

\* the leader is asked to add a member with these attributes (the id is made up by the node: fresh)
ProposeAdd(m, hv) ==
  /\ alive /\ m.id = next
  /\ UNCHANGED <<applied, removed, next, alive, nchg>>
  /\ lastAct' = [route |-> "propose", type |-> "add", m |-> m, hv |-> hv,
                 accept |-> ValidAdd(m) /\ EnableAdd(hv)]

ProposeRemove(i, hv) ==
  /\ alive
  /\ UNCHANGED <<applied, removed, next, alive, nchg>>
  /\ lastAct' = [route |-> "propose", type |-> "remove", id |-> i, hv |-> hv,
                 accept |-> ValidRemove(i) /\ EnableRemove(hv, i)]

ApplyAdd(m) ==
  /\ alive
  /\ LET ok == ValidAdd(m) /\ Cardinality(applied) < MaxMembers /\ nchg < MaxChanges IN
       /\ lastAct' = [route |-> "apply", type |-> "add", m |-> m, accept |-> ValidAdd(m)]
       /\ ValidAdd(m) => ok                 \* accepted additions stay inside the bounds of the model
       /\ applied' = IF ok THEN applied \cup {m} ELSE applied
       /\ next' = IF ok THEN next + 1 ELSE next
       /\ nchg' = IF ok THEN nchg + 1 ELSE nchg
       /\ UNCHANGED <<removed, alive>>

ApplyRemove(i) ==
  /\ alive
  /\ LET ok == ValidRemove(i) /\ nchg < MaxChanges
         m  == CHOOSE p \in applied : p.id = i IN
       /\ lastAct' = [route |-> "apply", type |-> "remove", id |-> i, accept |-> ValidRemove(i)]
       /\ ValidRemove(i) => ok
       /\ applied' = IF ok THEN applied \ {m} ELSE applied
       /\ removed' = IF ok THEN removed \cup {m} ELSE removed
       /\ alive' = IF ok /\ i = Self THEN FALSE ELSE alive
       /\ nchg' = IF ok THEN nchg + 1 ELSE nchg
       /\ UNCHANGED next

Init == /\ \E n \in InitSizes : applied = {Mk(i, i, i, i) : i \in 1..n} /\ next = n + 1
        /\ removed = {}
        /\ alive = TRUE
        /\ nchg = 0
        /\ lastAct = [route |-> "init"]

\* every candidate is proposed under the all-healthy and one-slow vectors; the plain requests (a fresh
\* member, the removal of each id) under every health vector
Next ==
  \/ \E m \in {c \in AddCandidates : c.id = next}, hv \in {AllHealthy, OneSlow} : ProposeAdd(m, hv)
  \/ \E hv \in HVs : ProposeAdd(Fresh, hv)
  \/ \E i \in RemoveCandidates, hv \in HVs : i \in DOMAIN hv /\ ProposeRemove(i, hv)
  \/ \E i \in RemoveCandidates, hv \in {AllHealthy, OneSlow} : i \notin DOMAIN hv /\ ProposeRemove(i, hv)
  \/ \E m \in AddCandidates : ApplyAdd(m)
  \/ \E i \in RemoveCandidates : ApplyRemove(i)

Spec == Init /\ [][Next]_vars

\* EnableRemove of an id without progress entry: the code answers "no progress" (refused); never reached with
\* an accepted validation because a valid id is a member and every member has a progress entry
ASSUME TRUE

-----------------------------------------------------------------------------
(* Properties                                                              *)

TypeOK == /\ \A m \in applied \cup removed : m.id > 0 /\ m.name > 0 /\ m.addr > 0 /\ m.peer > 0
          /\ Cardinality(applied) <= MaxMembers

\* no two members share a name, id, address or peer id
MembersDistinct == \A p, q \in applied : p # q => ~Dup(p, q)
\* a removed id is never a member again, and is remembered for good
RemovedStayOut == Ids(applied) \cap Ids(removed) = {}
RemovedForGood == [][Ids(removed) \subseteq Ids(removed')]_vars

\* the refusals of the property, stated on the outcome and independently of the decision procedure
Accepted == lastAct'.route \in {"propose", "apply"} /\ lastAct'.accept
RefusalsOfTheProperty ==
  [][Accepted =>
       /\ lastAct'.type = "add" =>
            /\ \A p \in applied : p.name # lastAct'.m.name /\ p.id # lastAct'.m.id
                                   /\ p.addr # lastAct'.m.addr /\ p.peer # lastAct'.m.peer
            /\ lastAct'.m.id \notin Ids(removed)
       /\ lastAct'.type = "remove" => lastAct'.id \in Ids(applied)]_vars

\* a healthy node is not removed unless the healthy rest is a strict majority of the remaining cluster
RemoveHealthyKeepsQuorum ==
  [][(Accepted /\ lastAct'.route = "propose" /\ lastAct'.type = "remove" /\ lastAct'.hv[lastAct'.id] = "healthy") =>
       LET rest == Ids(applied) \ {lastAct'.id}
           h    == {i \in rest : lastAct'.hv[i] = "healthy"} IN
         2 * Cardinality(h) > Cardinality(rest)]_vars
\* ... and conversely that is the only reason to keep a valid removal from happening
RemovePermitted ==
  [][(lastAct'.route = "propose" /\ lastAct'.type = "remove" /\ lastAct'.id \in Ids(applied) /\ ~lastAct'.accept) =>
       LET rest == Ids(applied) \ {lastAct'.id}
           h    == {i \in rest : lastAct'.hv[i] = "healthy"} IN
         lastAct'.hv[lastAct'.id] = "healthy" /\ 2 * Cardinality(h) <= Cardinality(rest)]_vars
=============================================================================
