----------------------------- MODULE RaftApply ------------------------------
(***************************************************************************)
(* EXTENSION of C16 -- from a raft-committed block entry to the chain tip   *)
(* of ONE aergo raft node, including crash/restart.                         *)
(*   consensus/impl/raftv2/raftserver.go  serveChannels (one Ready: WAL     *)
(*        SaveEntry(hard state, entries) -> publishEntries(entriesToApply)  *)
(*        -> triggerSnapshot), replayWAL / restartNode                      *)
(*   consensus/impl/raftv2/blockfactory.go QueueJob (when a leader may      *)
(*        build a block), RaftOperator.propose, worker (commitC consumer:   *)
(*        ready marker / connect), connect, reset                           *)
(*   chain/chaindbForRaft.go  WriteRaftEntry (the block of a block entry is *)
(*        stored in the same transaction as the entry)                      *)
(*   chain/chainhandle.go  addBlock -> IsConnectedBlock / addBlockInternal  *)
(*        -> connectToChain(skipAdd = isByBP /\ HasWAL)                      *)
(*                                                                         *)
(* One node's view; etcd/raft and the other members are the ENVIRONMENT.    *)
(* Environment assumptions (each is a conjunct of an action, named E1..E4): *)
(*  E1 entries at or below the commit index are never replaced; a           *)
(*     conflicting overwrite carries another term than the entry it         *)
(*     replaces (raft Log Matching / Leader Completeness);                  *)
(*  E2 the block of a block entry is the child of the block of the nearest  *)
(*     block entry in front of it in the same log (genesis if none): every  *)
(*     aergo leader builds on its tip after all earlier entries of its log  *)
(*     are connected.  For blocks this node proposes E2 is NOT assumed: it  *)
(*     is the invariant LogChained;                                         *)
(*  E3 the first entry of a term in a log is the empty entry of that term's *)
(*     leader;                                                              *)
(*  E4 terms do not decrease along a log.                                   *)
(*                                                                         *)
(* DURABLE state (chain DB = WAL + blocks + height index, one store):       *)
(*   ent     sequence of [term, kind \in {"nop","blk"}, b]  the WAL (and,   *)
(*           while the node runs, raft's MemoryStorage -- appended right    *)
(*           after the WAL write in the same Ready)                         *)
(*   commit  commit index of the stored hard state                          *)
(*   term    term of the stored hard state                                  *)
(*   snap    index of the stored raft snapshot (0 = none)                   *)
(*   stored  blocks stored by hash                                          *)
(*   chain   main chain above genesis: height index, best block = last      *)
(* VOLATILE state (lost by CrashRestart):                                   *)
(*   applied   raftServer.appliedIndex                                      *)
(*   req, conn commitProgress.request / .connect  as [idx, no]              *)
(*   proposed  RaftOperator.proposed (block id, 0 = nil)                    *)
(*   inflight  proposal accepted by raft, not yet handed back in a Ready:   *)
(*             <<>> or <<[b, term]>>                                        *)
(*   prevWork  BlockFactory.prevBlock as a block number (-1 = nil)          *)
(*   ready     term of BlockFactory.ready.ce (0 = none)                     *)
(*   role, lterm   leaderStatus.IsLeader / leaderStatus.Term                *)
(*   fatal     the process ended in logger.Fatal                            *)
(* HISTORY: blks (universe: id -> [no, prev], prev 0 = genesis), hiApplied  *)
(*   (highest index ever applied, survives crashes).                        *)
(***************************************************************************)
EXTENDS Integers, Sequences, FiniteSets, TLC, Util

CONSTANTS MaxIdx,    \* raft indices 1..MaxIdx
          MaxTerm,   \* terms 1..MaxTerm
          MaxBlk,    \* at most MaxBlk distinct blocks are ever built
          SnapFreq,  \* raftServer.snapFrequency
          MaxCrash   \* bound on the number of CrashRestart steps of a behaviour

VARIABLES ent, commit, term, snap, stored, chain,
          applied, req, conn, proposed, inflight, prevWork, ready, role, lterm, fatal,
          blks, hiApplied, ncrash, lastAct

durable  == <<ent, commit, term, snap, stored, chain>>
volatile == <<applied, req, conn, proposed, inflight, prevWork, ready, role, lterm, fatal>>
vars     == <<ent, commit, term, snap, stored, chain, applied, req, conn, proposed, inflight, prevWork, ready, role,
              lterm, fatal, blks, hiApplied, ncrash, lastAct>>

Terms == 1..MaxTerm
None  == [idx |-> 0, no |-> 0]
Last  == Len(ent)
Best  == IF chain = <<>> THEN 0 ELSE chain[Len(chain)]
BestNo == Len(chain)

NoOf(b)   == IF b = 0 THEN 0 ELSE blks[b].no
PrevOf(b) == blks[b].prev

\* the block of the nearest block entry in front of index i in log e (0 = genesis)
RECURSIVE TipBefore(_, _)
TipBefore(e, i) == IF i <= 1 THEN 0
                   ELSE IF e[i - 1].kind = "blk" THEN e[i - 1].b ELSE TipBefore(e, i - 1)

\* blocks of the block entries 1..n of log e, in log order
RECURSIVE BlockSeq(_, _)
BlockSeq(e, n) == IF n = 0 THEN <<>>
                  ELSE IF e[n].kind = "blk" THEN Append(BlockSeq(e, n - 1), e[n].b) ELSE BlockSeq(e, n - 1)

LogBlocks(e) == {e[i].b : i \in {j \in 1..Len(e) : e[j].kind = "blk"}}
ChainSet == Range(chain)

-----------------------------------------------------------------------------
Init ==
  /\ ent = <<>> /\ commit = 0 /\ term = 1 /\ snap = 0 /\ stored = {} /\ chain = <<>>
  /\ applied = 0 /\ req = None /\ conn = None /\ proposed = 0 /\ inflight = <<>> /\ prevWork = -1
  /\ ready = 0 /\ role = "F" /\ lterm = 0 /\ fatal = FALSE
  /\ blks = <<>> /\ hiApplied = 0 /\ ncrash = 0
  /\ lastAct = [name |-> "Init"]

Alive == ~fatal

(* ---- WAL append: WalDB.SaveEntry(entries) = ChainDB.WriteRaftEntry -- ONE transaction: entries first..last
   deleted, the blocks of block entries stored by hash, the entries, the last index -------------------------- *)
WalAppend(first, e) ==
  /\ ent' = Append(SubSeq(ent, 1, first - 1), e)
  /\ stored' = IF e.kind = "blk" THEN stored \cup {e.b} ELSE stored

(* ---- environment: this node, as a follower, is sent one entry (a batch is a run of these steps) ------------ *)
FollowerAppend(i, t, kind, fresh) ==
  /\ Alive /\ role = "F" /\ inflight = <<>>
  /\ i \in (commit + 1)..(Last + 1) /\ i <= MaxIdx                      \* E1
  /\ i <= Last => ent[i].term # t                                       \* E1 (conflict = other term)
  /\ i > 1 => ent[i - 1].term <= t                                      \* E4
  /\ (i = 1 \/ ent[i - 1].term < t) => kind = "nop"                     \* E3
  /\ LET par == TipBefore(ent, i)
         \* a block already known that fits here and is not in the log any more ("comes back" with the log of
         \* another leader), or a fresh one
         back == {b \in 1..Len(blks) : /\ blks[b] = [no |-> NoOf(par) + 1, prev |-> par]
                                        /\ b \notin LogBlocks(SubSeq(ent, 1, i - 1))
                                        /\ b \notin ChainSet}
     IN \/ /\ kind = "nop" /\ fresh = 0
           /\ WalAppend(i, [term |-> t, kind |-> "nop", b |-> 0])
           /\ lastAct' = [name |-> "FollowerAppend", i |-> i, term |-> t, kind |-> kind, b |-> 0]
           /\ UNCHANGED blks
        \/ /\ kind = "blk" /\ fresh = 0
           /\ \E b \in back :
                /\ WalAppend(i, [term |-> t, kind |-> "blk", b |-> b])
                /\ lastAct' = [name |-> "FollowerAppend", i |-> i, term |-> t, kind |-> kind, b |-> b]
           /\ UNCHANGED blks
        \/ /\ kind = "blk" /\ fresh = 1
           /\ Len(blks) < MaxBlk
           /\ blks' = Append(blks, [no |-> NoOf(par) + 1, prev |-> par])                    \* E2
           /\ WalAppend(i, [term |-> t, kind |-> "blk", b |-> Len(blks) + 1])
           /\ lastAct' = [name |-> "FollowerAppend", i |-> i, term |-> t, kind |-> kind, b |-> Len(blks) + 1]
  /\ term' = IF t > term THEN t ELSE term
  /\ UNCHANGED <<commit, snap, chain, hiApplied, ncrash>>
  /\ UNCHANGED volatile

(* ---- a Ready whose hard state carries a higher commit index (WalDB.SaveEntry -> WriteHardState) ------------ *)
AdvanceCommit(c) ==
  /\ Alive
  /\ c \in (commit + 1)..Last
  /\ commit' = c
  /\ lastAct' = [name |-> "AdvanceCommit", c |-> c]
  /\ UNCHANGED <<ent, term, snap, stored, chain, blks, hiApplied, ncrash>>
  /\ UNCHANGED volatile

(* ---- leadership (updateTerm / updateLeader from the Ready's hard and soft state) --------------------------- *)
\* this node wins an election: new term, its empty entry goes to the end of its log
BecomeLeader ==
  /\ Alive /\ role = "F" /\ inflight = <<>>
  /\ term < MaxTerm /\ Last < MaxIdx
  /\ term' = term + 1
  /\ role' = "L" /\ lterm' = term + 1
  /\ WalAppend(Last + 1, [term |-> term + 1, kind |-> "nop", b |-> 0])
  /\ lastAct' = [name |-> "BecomeLeader", term |-> term + 1]
  /\ UNCHANGED <<commit, snap, chain, blks, hiApplied, ncrash>>
  /\ UNCHANGED <<applied, req, conn, proposed, inflight, prevWork, ready, fatal>>

\* another node is leader now; a proposal raft had accepted but not yet handed back may or may not survive
StepDown(t, keep) ==
  /\ Alive /\ role = "L"
  /\ t \in Terms /\ t > term
  /\ term' = t
  /\ role' = "F"
  /\ keep \in BOOLEAN /\ (inflight = <<>> => keep)
  /\ inflight' = IF keep THEN inflight ELSE <<>>
  /\ lastAct' = [name |-> "StepDown", term |-> t, keep |-> keep]
  /\ UNCHANGED <<ent, commit, snap, stored, chain, blks, hiApplied, ncrash>>
  /\ UNCHANGED <<applied, req, conn, proposed, prevWork, ready, lterm, fatal>>

(* ---- block production: BlockFactory.QueueJob gates, worker: generateBlock + RaftOperator.propose ----------- *)
\* the gates of QueueJob as coded
QueueJobGate ==
  /\ role = "L" /\ ready = lterm               \* isLeaderReady: leader, ready marker of the leader's term seen
  /\ prevWork # BestNo                         \* the best block moved since the last job (or reset)
  /\ req.no <= conn.no                         \* commitProgress.IsReadyToPropose

Propose ==
  /\ Alive
  /\ QueueJobGate
  /\ inflight = <<>>
  /\ Len(blks) < MaxBlk
  /\ blks' = Append(blks, [no |-> BestNo + 1, prev |-> Best])
  /\ prevWork' = BestNo
  /\ proposed' = Len(blks) + 1
  /\ inflight' = <<[b |-> Len(blks) + 1, term |-> lterm]>>
  /\ lastAct' = [name |-> "Propose", b |-> Len(blks) + 1]
  /\ UNCHANGED durable
  /\ UNCHANGED <<applied, req, conn, ready, role, lterm, fatal, hiApplied, ncrash>>

\* the accepted proposal comes back in Ready.Entries and is written to the WAL
AppendOwn ==
  /\ Alive /\ inflight # <<>>
  /\ Last < MaxIdx
  /\ WalAppend(Last + 1, [term |-> inflight[1].term, kind |-> "blk", b |-> inflight[1].b])
  /\ inflight' = <<>>
  /\ lastAct' = [name |-> "AppendOwn", b |-> inflight[1].b]
  /\ UNCHANGED <<commit, term, snap, chain, blks, hiApplied, ncrash>>
  /\ UNCHANGED <<applied, req, conn, proposed, prevWork, ready, role, lterm, fatal>>

(* ---- publishEntries + the block factory's commitC consumer, one entry -------------------------------------- *)
Connected(b) == NoOf(b) <= Len(chain) /\ chain[NoOf(b)] = b      \* BlockFactory.IsConnectedBlock
Extends(b)   == NoOf(b) = Len(chain) + 1 /\ PrevOf(b) = Best

Apply ==
  /\ Alive
  /\ applied < commit
  /\ LET i == applied + 1
         e == ent[i]
     IN
       /\ applied' = i
       /\ hiApplied' = IF i > hiApplied THEN i ELSE hiApplied
       /\ IF e.kind = "nop"
          THEN \* ready marker: handleReadyMarker = ready.set + reset()
               /\ ready' = e.term
               /\ prevWork' = -1
               /\ lastAct' = [name |-> "Apply", i |-> i, what |-> "marker"]
               /\ UNCHANGED <<req, conn, proposed, stored, chain, fatal>>
          ELSE IF req.no >= NoOf(e.b)
          THEN \* isDuplicateCommit: the entry is dropped, only appliedIndex moves
               /\ lastAct' = [name |-> "Apply", i |-> i, what |-> "dup"]
               /\ UNCHANGED <<req, conn, proposed, stored, chain, fatal, ready, prevWork>>
          ELSE LET b == e.b
                   mine == proposed = b                  \* connect: the block state of the proposal is used
               IN
               /\ req' = [idx |-> i, no |-> NoOf(b)]
               /\ proposed' = IF proposed # 0 /\ proposed # b THEN 0 ELSE proposed
               /\ UNCHANGED <<ready, prevWork>>
               /\ IF Connected(b)
                  THEN \* addBlock: "block is already connected" (replay after a restart)
                       /\ conn' = [idx |-> i, no |-> NoOf(b)]
                       /\ lastAct' = [name |-> "Apply", i |-> i, what |-> "replay"]
                       /\ UNCHANGED <<stored, chain, fatal>>
                  ELSE IF Extends(b) /\ (PrevOf(b) = 0 \/ PrevOf(b) \in stored)
                  THEN /\ chain' = Append(chain, b)
                       \* connectToChain: with the proposal's block state and HasWAL the block is NOT stored again
                       /\ stored' = IF mine THEN stored ELSE stored \cup {b}
                       /\ conn' = [idx |-> i, no |-> NoOf(b)]
                       /\ lastAct' = [name |-> "Apply", i |-> i, what |-> IF mine THEN "connect-own" ELSE "connect"]
                       /\ UNCHANGED fatal
                  ELSE \* stale own block / fork at a connected height / orphan / side branch: BlockFactory.connect
                       \* ends the process (logger.Fatal), or the block is parked without being connected
                       /\ fatal' = TRUE
                       /\ lastAct' = [name |-> "Apply", i |-> i, what |-> "fatal"]
                       /\ UNCHANGED <<conn, stored, chain>>
  /\ UNCHANGED <<ent, commit, term, snap, blks, inflight, role, lterm, ncrash>>

(* ---- triggerSnapshot (called at the end of every Ready; uint64 arithmetic as coded) ------------------------ *)
Snapshot ==
  /\ Alive
  /\ conn.idx # 0
  /\ ~(conn.idx >= snap /\ conn.idx - snap <= SnapFreq)
  /\ IF conn.idx > snap /\ conn.idx <= Last
     THEN snap' = conn.idx /\ UNCHANGED fatal
     ELSE fatal' = TRUE /\ UNCHANGED snap          \* MemoryStorage.CreateSnapshot refuses -> logger.Fatal
  /\ lastAct' = [name |-> "Snapshot", idx |-> conn.idx]
  /\ UNCHANGED <<ent, commit, term, stored, chain, blks, hiApplied, ncrash>>
  /\ UNCHANGED <<applied, req, conn, proposed, inflight, prevWork, ready, role, lterm>>

(* ---- crash + restart: restartNode (loadSnapshot, replayWAL), serveChannels starts from the snapshot -------- *)
CrashRestart ==
  /\ ncrash < MaxCrash
  /\ ncrash' = ncrash + 1
  /\ applied' = snap
  /\ req' = None /\ conn' = None /\ proposed' = 0 /\ inflight' = <<>> /\ prevWork' = -1 /\ ready' = 0
  /\ role' = "F" /\ lterm' = 0 /\ fatal' = FALSE
  /\ lastAct' = [name |-> "CrashRestart"]
  /\ UNCHANGED durable
  /\ UNCHANGED <<blks, hiApplied>>

Next ==
  \/ \E i \in 1..MaxIdx, t \in Terms, kind \in {"nop", "blk"}, fresh \in {0, 1} : FollowerAppend(i, t, kind, fresh)
  \/ \E c \in 1..MaxIdx : AdvanceCommit(c)
  \/ BecomeLeader
  \/ \E t \in Terms, keep \in BOOLEAN : StepDown(t, keep)
  \/ Propose
  \/ AppendOwn
  \/ Apply
  \/ Snapshot
  \/ CrashRestart

Spec == Init /\ [][Next]_vars

-----------------------------------------------------------------------------
(* Properties                                                              *)

TypeOK ==
  /\ \A i \in 1..Len(ent) : /\ ent[i].term \in Terms /\ ent[i].kind \in {"nop", "blk"}
                            /\ (ent[i].kind = "blk" => ent[i].b \in 1..Len(blks)) /\ (ent[i].kind = "nop" => ent[i].b = 0)
  /\ Len(ent) <= MaxIdx /\ commit \in 0..MaxIdx /\ term \in Terms /\ snap \in 0..MaxIdx
  /\ stored \subseteq 1..Len(blks) /\ ChainSet \subseteq 1..Len(blks)
  /\ applied \in 0..MaxIdx /\ proposed \in 0..Len(blks) /\ prevWork \in -1..MaxBlk /\ ready \in 0..MaxTerm
  /\ role \in {"F", "L"} /\ lterm \in 0..MaxTerm /\ fatal \in BOOLEAN
  /\ Len(blks) <= MaxBlk

\* what the node has applied is a prefix of what raft has committed; the snapshot is inside it
AppliedIsPrefixOfCommitted ==
  /\ applied <= commit /\ commit <= Last /\ snap <= commit
  /\ applied <= hiApplied /\ hiApplied <= commit /\ snap <= hiApplied

\* the chain is EXACTLY the blocks of the block entries applied so far, in log order: the tip is the block of the
\* highest applied block entry, no committed block is skipped, none is connected twice, nothing else is connected
BestBlockIsLastAppliedBlockEntry == chain = BlockSeq(ent, hiApplied)

NoCommittedBlockSkipped ==
  \A i \in 1..applied : ent[i].kind = "blk" => ent[i].b \in ChainSet

NoBlockAppliedTwice == \A h1, h2 \in 1..Len(chain) : chain[h1] = chain[h2] => h1 = h2

\* a block that was proposed (by anybody) but whose entry is not committed is not connected
OnlyCommittedBlocksConnected ==
  \A b \in ChainSet : \E i \in 1..commit : ent[i].kind = "blk" /\ ent[i].b = b

\* what the HasWAL skip of connectToChain relies on: the block of every entry of the log is stored by hash,
\* and so is every block the height index points to
BlocksOfEntriesAreStored == LogBlocks(ent) \subseteq stored
ChainBlocksAreStored == ChainSet \subseteq stored

\* the chain is a parent-linked path from genesis
ChainLinked == \A h \in 1..Len(chain) : blks[chain[h]] = [no |-> h, prev |-> IF h = 1 THEN 0 ELSE chain[h - 1]]

\* E2 holds for the whole log, ALSO for the blocks this node proposed (this is why no fork can be committed)
LogChained ==
  \A i \in 1..Len(ent) : ent[i].kind = "blk" =>
     LET par == TipBefore(ent, i) IN blks[ent[i].b] = [no |-> NoOf(par) + 1, prev |-> par]

\* once everything committed is (re)applied the tip is the one of a node that never crashed
ConvergesAfterRestart == applied = commit => chain = BlockSeq(ent, commit)

\* a snapshot never covers an entry whose block is not connected (replay starts behind the snapshot)
SnapshotCoversConnectedOnly == \A i \in 1..snap : ent[i].kind = "blk" => ent[i].b \in ChainSet

\* the node never runs into one of its logger.Fatal exits on this path
NeverFatal == ~fatal

\* the duplicate-commit filter of publishEntries never drops anything (under E2 it is dead code)
DupFilterNeverFires == [][lastAct'.name = "Apply" => lastAct'.what # "dup"]_vars

\* the gates of QueueJob alone keep a second proposal out while one is in flight
GateImpliesNoInflight == (Alive /\ QueueJobGate) => inflight = <<>>

\* the leader proposes only on top of a fully applied log of its own
ProposalOnTopOfLog == inflight # <<>> => /\ PrevOf(inflight[1].b) = TipBefore(ent, Last + 1)
                                          /\ PrevOf(inflight[1].b) = Best

\* committed entries are never rewritten, commit/applied history only grows, the chain only grows
CommittedStable ==
  [][/\ commit' >= commit /\ hiApplied' >= hiApplied /\ snap' >= snap
     /\ \A i \in 1..commit : i <= Len(ent') /\ ent'[i] = ent[i]
     /\ Len(chain') >= Len(chain) /\ SubSeq(chain', 1, Len(chain)) = chain
     /\ stored \subseteq stored']_vars

\* a restart changes nothing durable and re-delivers from the snapshot
RestartFromSnapshot ==
  [][lastAct'.name = "CrashRestart" => (durable' = durable /\ applied' = snap)]_vars
=============================================================================
