\* generation (thorough): every transition (state, operation [+crash point], state', observations') of the small
\* model printed once: indices 1..3, terms 1..2, two blocks, one conf-change payload, empty entries, batches <= 2,
\* 2 identities, behaviours of <= 2 operations
SPECIFICATION GenSpec
CONSTANTS
  MaxIdx = 3
  Terms <- T2
  Blks <- B2
  Ccs <- C1
  MaxBatch = 2
  Idents <- I2
  MaxOps = 2
VIEW viewWN
ACTION_CONSTRAINT GenLog
CHECK_DEADLOCK FALSE
