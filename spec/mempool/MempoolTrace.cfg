SPECIFICATION TraceSpec
CONSTANTS
  Accounts <- TAccounts
  Txs <- TTxs
  States <- TStates
  Threads <- TIds
  MaxOps = 1000000000
VIEW tview
CONSTRAINT Progress
POSTCONDITION TraceAccepted
CHECK_DEADLOCK FALSE
