\* design check, thorough: same constants, <= 6 calls
SPECIFICATION Spec
CONSTANTS
  Accounts <- A2
  Txs <- TxsMC
  States <- StatesMC
  Threads <- T2
  MaxOps = 6
VIEW view
INVARIANTS TypeOK NoDupNonce NoDupHash ReadyIsGapFree CountersExact NoStaleAfterBlock BaseNonceSynced
PROPERTIES ScanSyncs FullScanSyncsAll PutOutcome
CHECK_DEADLOCK FALSE
