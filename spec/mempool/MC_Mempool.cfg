\* design check, quick: 2 accounts, 6 transactions, 2 submitting threads, <= 4 calls
SPECIFICATION Spec
CONSTANTS
  Accounts <- A2
  Txs <- TxsMC
  States <- StatesMC
  Threads <- T2
  MaxOps = 4
VIEW view
INVARIANTS TypeOK NoDupNonce NoDupHash ReadyIsGapFree CountersExact NoStaleAfterBlock BaseNonceSynced
PROPERTIES ScanSyncs FullScanSyncsAll PutOutcome
CHECK_DEADLOCK FALSE
