---------------------------- MODULE MempoolTrace ----------------------------
(***************************************************************************)
(* Trace validation for C13: concurrent executions of the real MemPool     *)
(* (harness/mempool, goroutines "c" = chain/actor, "p1.." = submitters,    *)
(* "e" = evictor, "r1.." = free readers/writers) are checked against       *)
(* Mempool.tla.  The harness stamps the start and the end of every call    *)
(* with a global atomic sequence number; the log is ordered by it.         *)
(*   {"ev":"reset","chain":[{"acc","st"}..],"backend":..}   a fresh pool   *)
(*   {"ev":"call","t":thread,"op":..,args..,result..}       call started   *)
(*   {"ev":"ret","t":thread}                                call returned  *)
(*   {"ev":"quiesce","pool":[{"acc","base","list","ready"}..],"cache":[..],*)
(*    "length":n,"orphan":n}              all goroutines joined: projection*)
(* (the result of a call is copied into its call event by the driver: the  *)
(* internal step that decides the result must produce exactly it).         *)
(* Between the call and the ret event of a thread TLC places the internal  *)
(* steps of Mempool.tla (the critical sections and lock-free reads of that *)
(* call) anywhere: a linearizability search at the grain of the code's     *)
(* atomicity.  The trace is accepted iff some placement explains every     *)
(* result and every quiescent projection.                                  *)
(***************************************************************************)
EXTENDS Mempool, Json

TraceLog == ndJsonDeserialize("trace.ndjson")
NLog == Len(TraceLog)

VARIABLES l,      \* next event of the log
          th      \* thread -> [ev: index of its open call (0 = none), stage]

tvars == <<vars, l, th>>
tview == <<chain, pool, cache, length, orphan, pend, lock, cdel, notified, l, th>>

TIds == {"c", "e", "p1", "p2", "p3", "r1", "r2"}
TAccounts == {"a1", "a2", "a3"}
TTxs == [acc : TAccounts, nonce : 1..4, amt : 1..2]
TStates == [a \in TAccounts |-> [nonce : 0..4, bal : 1..2]]

ToSet(s) == {s[i] : i \in DOMAIN s}
\* sequence of [k.., v..] records -> function
FromRecs(ps, kf, vf) == LET S == ToSet(ps) IN [k \in {p[kf] : p \in S} |-> (CHOOSE p \in S : p[kf] = k)[vf]]

NoCall == [ev |-> 0, stage |-> "idle"]
AllIdle == \A t \in TIds : th[t] = NoCall

FreshPool(e) ==
  /\ chain = FromRecs(e.chain, "acc", "st")
  /\ pool = [a \in {} |-> 0]
  /\ cache = {} /\ length = 0 /\ orphan = 0
  /\ pend = [t \in Threads |-> Idle]
  /\ lock = "free" /\ cdel = {}
  /\ notified = TRUE /\ nops = 0

TraceInit == /\ l = 2 /\ NLog >= 1 /\ TraceLog[1].ev = "reset"
             /\ FreshPool(TraceLog[1])
             /\ lastAct = [name |-> "Init"]
             /\ th = [t \in TIds |-> NoCall]
             /\ TLCSet(1, 0)

\* ---------------------------------------------------------------- log events
Call == /\ l <= NLog /\ TraceLog[l].ev = "call"
        /\ th[TraceLog[l].t] = NoCall
        /\ th' = [th EXCEPT ![TraceLog[l].t] = [ev |-> l, stage |-> "start"]]
        /\ l' = l + 1
        /\ UNCHANGED vars

Ret == /\ l <= NLog /\ TraceLog[l].ev = "ret"
       /\ th[TraceLog[l].t].stage = "done"
       /\ th' = [th EXCEPT ![TraceLog[l].t] = NoCall]
       /\ l' = l + 1
       /\ UNCHANGED vars

Quiesce ==
  /\ l <= NLog /\ TraceLog[l].ev = "quiesce"
  /\ AllIdle /\ lock = "free"
  /\ LET e == TraceLog[l]
         P == ToSet(e.pool)
     IN /\ DOMAIN pool = {p.acc : p \in P}
        /\ \A p \in P : pool[p.acc] = [base |-> p.base, list |-> p.list, ready |-> p.ready]
        /\ cache = ToSet(e.cache)
        /\ length = e.length /\ orphan = e.orphan
  /\ l' = l + 1
  /\ UNCHANGED <<vars, th>>

Reset ==
  /\ l <= NLog /\ TraceLog[l].ev = "reset"
  /\ AllIdle
  /\ LET e == TraceLog[l]
     IN /\ chain' = FromRecs(e.chain, "acc", "st")
        /\ pool' = [a \in {} |-> 0]
        /\ cache' = {} /\ length' = 0 /\ orphan' = 0
        /\ pend' = [t \in Threads |-> Idle]
        /\ lock' = "free" /\ cdel' = {}
        /\ notified' = TRUE /\ nops' = 0
        /\ lastAct' = [name |-> "Reset"]
  /\ l' = l + 1
  /\ UNCHANGED th

\* ---------------------------------------------------------------- internal steps of an open call
Stage(t, s) == th' = [th EXCEPT ![t].stage = s]

PutStep(t, e) ==
  /\ e.op = "put"
  /\ \/ th[t].stage = "start" /\ PutCache(t, e.tx)
     \/ th[t].stage = "run" /\ (PutValidate(t) \/ PutLocked(t))
  /\ lastAct'.res \in {"cont", e.res}
  /\ Stage(t, IF lastAct'.res = "cont" THEN "run" ELSE "done")

\* block notification.  test back end: the mock state is set first (one account), then removeOnBlockArrival
\* scans every list; real back end: the state view changes inside the critical section (e.full: the block is not
\* a child of the pool's best block = every list scanned; else only the named accounts).
BlockStep(t, e) ==
  /\ e.op = "block"
  /\ \/ /\ e.backend = "test" /\ th[t].stage = "start"
        /\ SetChain(e.acc, e.st) /\ Stage(t, "set")
     \/ /\ e.backend = "test" /\ th[t].stage = "set"
        /\ BlockLock(t, <<>>, TRUE, {}) /\ Stage(t, "locked")
     \/ /\ e.backend = "real" /\ th[t].stage = "start"
        /\ BlockLock(t, <<e.acc, e.st>>, e.full, IF e.full THEN {} ELSE ToSet(e.dirty) \cap DOMAIN pool)
        /\ Stage(t, "locked")

EvictStep(t, e) ==
  /\ e.op = "evict" /\ th[t].stage = "start"
  /\ EvictLock(t, DOMAIN pool)          \* (evictPeriod = 0: every list is old enough)
  /\ Stage(t, "locked")

\* the lock holder deletes its cache entries one by one, then unlocks
HolderStep(t) ==
  /\ th[t].stage = "locked" /\ lock = t
  /\ \/ (\E x \in cdel : CacheDel(x)) /\ UNCHANGED th
     \/ Unlock /\ Stage(t, "done")

RemoveStep(t, e) ==
  /\ e.op = "remove" /\ th[t].stage = "start"
  /\ Remove(e.tx) /\ lastAct'.res = e.res
  /\ Stage(t, "done")

UnconfStep(t, e) ==
  /\ e.op = "unconf" /\ th[t].stage = "start"
  /\ Unconfirmed(e.acc)
  /\ e.unknown = 0
  /\ LET L == pool'[e.acc] IN e.pooled = SubSeq(L.list, 1, L.ready) /\ e.orphaned = SubSeq(L.list, L.ready + 1, Len(L.list))
  /\ Stage(t, "done")

\* get: read lock (no writer inside); per account exactly the ready prefix
GetStep(t, e) ==
  /\ e.op = "get" /\ th[t].stage = "start"
  /\ lock = "free"
  /\ e.unknown = 0
  /\ LET R == FromRecs(e.res, "acc", "txs")
     IN /\ DOMAIN R = {a \in DOMAIN pool : pool[a].ready > 0}
        /\ \A a \in DOMAIN R : R[a] = SubSeq(pool[a].list, 1, pool[a].ready)
  /\ lastAct' = [name |-> "Get"]
  /\ Stage(t, "done")
  /\ UNCHANGED <<chain, pool, cache, length, orphan, pend, lock, cdel, notified, nops>>

\* exist: a lock-free read of the cache
ExistStep(t, e) ==
  /\ e.op = "exist" /\ th[t].stage = "start"
  /\ e.res = (e.tx \in cache)
  /\ lastAct' = [name |-> "Exist"]
  /\ Stage(t, "done")
  /\ UNCHANGED <<chain, pool, cache, length, orphan, pend, lock, cdel, notified, nops>>

Internal ==
  /\ UNCHANGED l
  /\ \E t \in TIds :
       /\ th[t].ev > 0
       /\ LET e == TraceLog[th[t].ev]
          IN PutStep(t, e) \/ BlockStep(t, e) \/ EvictStep(t, e) \/ HolderStep(t)
             \/ RemoveStep(t, e) \/ UnconfStep(t, e) \/ GetStep(t, e) \/ ExistStep(t, e)

TraceNext == Call \/ Ret \/ Quiesce \/ Reset \/ Internal
TraceSpec == TraceInit /\ [][TraceNext]_tvars

\* ---------------------------------------------------------------- acceptance
\* State constraint evaluated on every new state: remembers the furthest log position reached (TLC register 1)
\* and stops TLC as soon as one behaviour has consumed the whole log (one witness is enough; the driver runs TLC
\* with the LIFO state queue, so a valid log is explained in roughly linear time, an invalid one exhaustively).
Progress == IF l = NLog + 1 THEN PrintT(<<"TRACE-ACCEPTED", NLog>>) /\ TLCSet(1, l) /\ TLCSet("exit", TRUE)
            ELSE IF TLCGet(1) < l THEN TLCSet(1, l) ELSE TRUE
TraceAccepted == /\ PrintT(<<"TRACE-PROGRESS", TLCGet(1) - 1, NLog>>)
                 /\ TLCGet(1) = NLog + 1
=============================================================================
