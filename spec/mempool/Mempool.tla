------------------------------ MODULE Mempool -------------------------------
(***************************************************************************)
(* C13 -- the transaction pool (mempool/mempool.go, mempool/txlist.go).     *)
(*                                                                         *)
(* State: the account states the pool reads (`chain`: the mock state of    *)
(* the test configuration, the pool's StateDB otherwise), one list per     *)
(* account that has one in mp.pool (base = the account state the list was  *)
(* last filtered with, nonce-ordered transactions, length of the ready     *)
(* prefix), the hash cache (a sync.Map read WITHOUT the pool lock), the    *)
(* two counters.                                                           *)
(*                                                                         *)
(* A transaction is the record [acc, nonce, amt]; the record is its hash   *)
(* (two transactions of one account with the same nonce differ in amt).    *)
(*                                                                         *)
(* Actions = critical sections / lock-free reads of the code:              *)
(*   put            = PutCache (cache.Load, no lock) ; PutValidate (reads  *)
(*                    the account state, no lock) ; PutLocked (mp.Lock)    *)
(*   removeOnBlockArrival = BlockLock (mp.Lock: new state view, every      *)
(*                    scanned list filtered) ; CacheDel* (cache.Delete per *)
(*                    removed tx, visible to lock-free readers one by one) *)
(*                    ; Unlock                                             *)
(*   evictTransactions    = EvictLock ; CacheDel* ; Unlock                 *)
(*   removeTx, getUnconfirmed (inserts an empty list!), get, exist         *)
(* SeqNext uses the same effects as single atomic steps (one call = one    *)
(* step): the graph replayed on the real pool by the sequential harness.   *)
(*                                                                         *)
(* Block notification (setStateDB + removeOnBlockArrival, as repaired by   *)
(* /repo f307abce): a block that is a child of the pool's best block (or   *)
(* that very block again) scans only the lists of the accounts named in    *)
(* the block (dirty); a block that is NOT a child of the pool's best block *)
(* (branch switch, corrective announcement after a failed roll-forward)    *)
(* scans every list (full).  The mock-state test configuration always      *)
(* scans every list.                                                       *)
(* Deliberate oddities of the code that are modelled as they are:          *)
(*  - FilterByState returns early when the nonce did not change (a lower   *)
(*    balance is then not looked at) and stops at the first too-high nonce *)
(*    unless the balance decreased;                                        *)
(*  - getUnconfirmed for an account without a list leaves an empty list    *)
(*    (with the base of that moment) in mp.pool;                           *)
(*  - a failed put releases (deletes) an empty list.                       *)
(***************************************************************************)
EXTENDS Integers, Sequences, FiniteSets, TLC, Util

CONSTANTS Accounts,   \* account names (strings)
          Txs,        \* universe of transactions [acc, nonce, amt]
          States,     \* States[a]: account states [nonce, bal] the chain may show for a
          Threads,    \* goroutines submitting through the split put
          MaxOps      \* bound on the number of calls (design check); large elsewhere

VARIABLES chain,      \* [Accounts -> [nonce, bal]]   the state view the pool reads
          pool,       \* [subset of Accounts -> [base, list, ready]]   mp.pool
          cache,      \* set of transactions           mp.cache
          length,     \* mp.length
          orphan,     \* mp.orphan
          pend,       \* [Threads -> [pc, tx]]         progress of a split put
          lock,       \* "free" or the name of the holder of mp.Lock across CacheDel steps
          cdel,       \* cache deletions the lock holder has still to do
          notified,   \* history: FALSE between a bare state change and the next full scan
          nops,       \* number of calls started
          lastAct

vars  == <<chain, pool, cache, length, orphan, pend, lock, cdel, notified, nops, lastAct>>
svars == <<chain, pool, cache, length, orphan, notified>>          \* what a sequential step can change
view  == <<chain, pool, cache, length, orphan, pend, lock, cdel, notified, nops>>
sview == svars

NoTx == [acc |-> "", nonce |-> 0, amt |-> 0]
Idle == [pc |-> "idle", tx |-> NoTx]

\* ------------------------------------------------------------------ types.ValidateWithSenderState
Validate(tx, st) == IF tx.nonce <= st.nonce THEN "low"
                    ELSE IF tx.amt > st.bal THEN "bal"
                    ELSE IF tx.nonce > st.nonce + 1 THEN "high"
                    ELSE "ok"

\* ------------------------------------------------------------------ txList
\* continuous(index): the tx at idx continues the ready run (or the base nonce)
ContinuousAt(lst, rdy, bn, idx) == (IF rdy > 0 THEN lst[rdy].nonce ELSE bn) + 1 = lst[idx].nonce

\* the loop of Put / updateReady: extend `rdy` from idx while continuous
RECURSIVE ExtendReady(_, _, _, _)
ExtendReady(lst, rdy, bn, idx) ==
  IF idx > Len(lst) THEN rdy
  ELSE IF ~ContinuousAt(lst, rdy, bn, idx) THEN rdy
  ELSE ExtendReady(lst, rdy + 1, bn, idx + 1)

UpdateReady(lst, bn) == ExtendReady(lst, 0, bn, 1)

\* sort.Search: first position whose nonce is >= n (Len+1 when none)
SearchPos(lst, n) == IF \E i \in 1..Len(lst) : lst[i].nonce >= n
                     THEN Min({i \in 1..Len(lst) : lst[i].nonce >= n})
                     ELSE Len(lst) + 1

InsertAt(lst, idx, x) == SubSeq(lst, 1, idx - 1) \o <<x>> \o SubSeq(lst, idx, Len(lst))
RemoveAt(lst, idx)    == SubSeq(lst, 1, idx - 1) \o SubSeq(lst, idx + 1, Len(lst))
Orphans(L) == Len(L.list) - L.ready

\* txList.Put: [err, L, diff]
ListPut(L, tx) ==
  IF tx.nonce <= L.base.nonce THEN [err |-> "low", L |-> L, diff |-> 0]
  ELSE LET idx == SearchPos(L.list, tx.nonce) IN
       IF idx <= Len(L.list) /\ L.list[idx].nonce = tx.nonce THEN [err |-> "samenonce", L |-> L, diff |-> 0]
       ELSE LET nl == InsertAt(L.list, idx, tx)
                nr == ExtendReady(nl, L.ready, L.base.nonce, idx)
                NL == [L EXCEPT !.list = nl, !.ready = nr]
            IN [err |-> "none", L |-> NL, diff |-> Orphans(L) - Orphans(NL)]

\* the scan of FilterByState: <<left, removed>>
RECURSIVE FilterScan(_, _, _, _, _, _)
FilterScan(lst, st, balCheck, i, left, removed) ==
  IF i > Len(lst) THEN <<left, removed>>
  ELSE LET v == Validate(lst[i], st) IN
       IF v \in {"ok", "high"}
         THEN IF v = "high" /\ ~balCheck THEN <<left \o SubSeq(lst, i, Len(lst)), removed>>
              ELSE FilterScan(lst, st, balCheck, i + 1, Append(left, lst[i]), removed)
         ELSE FilterScan(lst, st, balCheck, i + 1, left, Append(removed, lst[i]))

\* txList.FilterByState: [L, removed (sequence), diff]
ListFilter(L, st) ==
  IF L.base.nonce = st.nonce THEN [L |-> [L EXCEPT !.base = st], removed |-> <<>>, diff |-> 0]
  ELSE LET r  == FilterScan(L.list, st, L.base.bal > st.bal, 1, <<>>, <<>>)
           NL == [base |-> st, list |-> r[1], ready |-> UpdateReady(r[1], st.nonce)]
       IN [L |-> NL, removed |-> r[2], diff |-> Orphans(L) - Orphans(NL)]

\* txList.RemoveTx: [L, found, delta]  (delta is ADDED to mp.orphan)
ListRemove(L, tx) ==
  IF \E i \in 1..Len(L.list) : L.list[i] = tx
    THEN LET i  == CHOOSE j \in 1..Len(L.list) : L.list[j] = tx
             nl == RemoveAt(L.list, i)
             nr == UpdateReady(nl, L.base.nonce)
         IN [L |-> [L EXCEPT !.list = nl, !.ready = nr], found |-> TRUE, delta |-> L.ready - nr - 1]
    ELSE [L |-> L, found |-> FALSE, delta |-> 0]

\* ------------------------------------------------------------------ mp.pool
\* acquireMemPoolList: the existing list or a new one based on the current state view
Acquire(p, ch, a) == IF a \in DOMAIN p THEN p[a] ELSE [base |-> ch[a], list |-> <<>>, ready |-> 0]
\* store the list; releaseMemPoolList: an empty list is deleted
Release(p, a, L) == IF Len(L.list) = 0 THEN Restrict(p, DOMAIN p \ {a})
                    ELSE [x \in DOMAIN p \cup {a} |-> IF x = a THEN L ELSE p[x]]

SeqToSet(s) == {s[i] : i \in 1..Len(s)}
ListTxs(p) == UNION {SeqToSet(p[a].list) : a \in DOMAIN p}

\* ------------------------------------------------------------------ effects of the critical sections
\* put, locked part: [err, pool, cache, length, orphan]
PutEffect(tx) ==
  LET a == tx.acc
      L == Acquire(pool, chain, a)
      r == ListPut(L, tx)
  IN IF r.err = "none"
       THEN [err |-> "none", pool |-> Release(pool, a, r.L), cache |-> cache \cup {tx},
             length |-> length + 1, orphan |-> orphan - r.diff]
       ELSE [err |-> r.err, pool |-> Release(pool, a, L), cache |-> cache, length |-> length, orphan |-> orphan]

\* removeOnBlockArrival after the state view became ch: [pool, removed (set), length, orphan]
Scanned(full, dirty) == {a \in DOMAIN pool : full \/ a \in dirty}
BlockEffect(ch, full, dirty) ==
  LET S  == Scanned(full, dirty)
      F  == [a \in S |-> ListFilter(pool[a], ch[a])]
      np == [a \in DOMAIN pool |-> IF a \in S THEN F[a].L ELSE pool[a]]
      keep == {a \in DOMAIN pool : a \notin S \/ Len(F[a].L.list) > 0}
  IN [pool    |-> Restrict(np, keep),
      removed |-> UNION {SeqToSet(F[a].removed) : a \in S},
      length  |-> length - SumSet([a \in S |-> Len(F[a].removed)], S),
      orphan  |-> orphan - SumSet([a \in S |-> F[a].diff], S)]

\* evictTransactions for the lists S
EvictEffect(S) ==
  [pool    |-> Restrict(pool, DOMAIN pool \ S),
   removed |-> UNION {SeqToSet(pool[a].list) : a \in S},
   length  |-> length - SumSet([a \in S |-> Len(pool[a].list)], S),
   orphan  |-> orphan - SumSet([a \in S |-> Orphans(pool[a])], S)]

NewChain(a, st) == [chain EXCEPT ![a] = st]

\* environment: what a block notification may carry.  chg = <<>> (no modelled account changes) or <<a, st>>.
\* f = TRUE: the block is not a child of the pool's best block (or the mock configuration): anything may have
\* changed, every list is scanned.  f = FALSE: a child of the pool's best block (or the same block again): the
\* state differs from the parent's by the block's own transactions only, so no nonce goes back, every account
\* whose nonce advances is named in the block (its sender), and no un-notified state change precedes it; a
\* balance may change without the account being named (reward, contract transfer).
BlockOK(c, f, d) == /\ c # <<>> => c[2] \in States[c[1]] /\ c[2] # chain[c[1]]
                    /\ f => d = {}
                    /\ ~f => /\ notified
                             /\ d \subseteq DOMAIN pool        \* (naming an account without a list has no effect)
                             /\ c # <<>> => /\ c[2].nonce >= chain[c[1]].nonce
                                            /\ (c[2].nonce > chain[c[1]].nonce /\ c[1] \in DOMAIN pool) => c[1] \in d
ChainAfter(c) == IF c = <<>> THEN chain ELSE NewChain(c[1], c[2])

\* ------------------------------------------------------------------ actions
Init == /\ chain = [a \in Accounts |-> CHOOSE s \in States[a] : s.nonce = 0 /\ \A s2 \in States[a] : s2.bal <= s.bal]
        /\ pool = [a \in {} |-> 0]
        /\ cache = {}
        /\ length = 0 /\ orphan = 0
        /\ pend = [t \in Threads |-> Idle]
        /\ lock = "free" /\ cdel = {}
        /\ notified = TRUE
        /\ nops = 0
        /\ lastAct = [name |-> "Init"]

Op == nops < MaxOps /\ nops' = nops + 1

\* --- split put (concurrent)
PutCache(t, tx) ==
  /\ pend[t].pc = "idle" /\ Op
  /\ IF tx \in cache
       THEN /\ pend' = pend
            /\ lastAct' = [name |-> "PutCache", t |-> t, tx |-> tx, res |-> "rej", why |-> "incache"]
       ELSE /\ pend' = [pend EXCEPT ![t] = [pc |-> "cached", tx |-> tx]]
            /\ lastAct' = [name |-> "PutCache", t |-> t, tx |-> tx, res |-> "cont", why |-> ""]
  /\ UNCHANGED <<svars, lock, cdel>>

PutValidate(t) ==
  /\ pend[t].pc = "cached"
  /\ LET tx == pend[t].tx
         v  == Validate(tx, chain[tx.acc])
     IN IF v \in {"ok", "high"}
          THEN /\ pend' = [pend EXCEPT ![t].pc = "validated"]
               /\ lastAct' = [name |-> "PutValidate", t |-> t, tx |-> tx, res |-> "cont", why |-> v]
          ELSE /\ pend' = [pend EXCEPT ![t] = Idle]
               /\ lastAct' = [name |-> "PutValidate", t |-> t, tx |-> tx, res |-> "rej", why |-> v]
  /\ UNCHANGED <<svars, lock, cdel, nops>>

PutLocked(t) ==
  /\ pend[t].pc = "validated" /\ lock = "free"
  /\ LET tx == pend[t].tx
         e  == PutEffect(tx)
     IN /\ pool' = e.pool /\ cache' = e.cache /\ length' = e.length /\ orphan' = e.orphan
        /\ lastAct' = [name |-> "PutLocked", t |-> t, tx |-> tx, res |-> IF e.err = "none" THEN "ok" ELSE "rej", why |-> e.err]
  /\ pend' = [pend EXCEPT ![t] = Idle]
  /\ UNCHANGED <<chain, notified, lock, cdel, nops>>

\* --- the pool's state view changes without a notification (test configuration: the mock is set first)
SetChain(a, st) ==
  /\ st \in States[a] /\ st # chain[a] /\ Op
  /\ chain' = NewChain(a, st)
  /\ notified' = FALSE
  /\ lastAct' = [name |-> "SetChain", acc |-> a, st |-> st]
  /\ UNCHANGED <<pool, cache, length, orphan, pend, lock, cdel>>

BlockAct(c, f, d, atomic) == [name |-> IF atomic THEN "Block" ELSE "BlockLock", chg |-> c, full |-> f, dirty |-> d]

\* --- removeOnBlockArrival, lock taken: new state view, lists filtered, counters adjusted
BlockLock(h, c, f, d) ==
  /\ lock = "free" /\ Op
  /\ BlockOK(c, f, d)
  /\ LET e == BlockEffect(ChainAfter(c), f, d)
     IN /\ chain' = ChainAfter(c)
        /\ pool' = e.pool /\ length' = e.length /\ orphan' = e.orphan
        /\ cdel' = e.removed
  /\ lock' = h
  /\ notified' = (notified \/ f)
  /\ lastAct' = BlockAct(c, f, d, FALSE)
  /\ UNCHANGED <<cache, pend>>

EvictLock(h, S) ==
  /\ lock = "free" /\ Op
  /\ S \subseteq DOMAIN pool
  /\ LET e == EvictEffect(S)
     IN /\ pool' = e.pool /\ length' = e.length /\ orphan' = e.orphan
        /\ cdel' = e.removed
  /\ lock' = h
  /\ lastAct' = [name |-> "EvictLock", accs |-> S]
  /\ UNCHANGED <<chain, cache, pend, notified>>

CacheDel(x) ==
  /\ x \in cdel
  /\ cache' = cache \ {x} /\ cdel' = cdel \ {x}
  /\ lastAct' = [name |-> "CacheDel", tx |-> x]
  /\ UNCHANGED <<chain, pool, length, orphan, pend, lock, notified, nops>>

Unlock ==
  /\ lock # "free" /\ cdel = {}
  /\ lock' = "free"
  /\ lastAct' = [name |-> "Unlock"]
  /\ UNCHANGED <<svars, pend, cdel, nops>>

\* --- removeTx (one critical section, one cache operation)
Remove(tx) ==
  /\ lock = "free" /\ Op
  /\ IF tx \notin cache
       THEN /\ UNCHANGED svars
            /\ lastAct' = [name |-> "Remove", tx |-> tx, res |-> "rej"]
       ELSE LET a == tx.acc
                L == Acquire(pool, chain, a)
                r == ListRemove(L, tx)
            IN /\ pool' = Release(pool, a, r.L)
               /\ orphan' = orphan + r.delta
               /\ cache' = cache \ {tx}
               /\ length' = length - 1
               /\ UNCHANGED <<chain, notified>>
               /\ lastAct' = [name |-> "Remove", tx |-> tx, res |-> "ok"]
  /\ UNCHANGED <<pend, lock, cdel>>

\* --- getUnconfirmed(a): read lock; leaves an empty list behind when a has none
Unconfirmed(a) ==
  /\ lock = "free" /\ Op
  /\ pool' = IF a \in DOMAIN pool THEN pool
             ELSE [x \in DOMAIN pool \cup {a} |-> IF x = a THEN Acquire(pool, chain, a) ELSE pool[x]]
  /\ lastAct' = [name |-> "Unconfirmed", acc |-> a]
  /\ UNCHANGED <<chain, cache, length, orphan, pend, lock, cdel, notified>>

\* --- the same calls as single steps (sequential use)
PutSeq(tx) ==
  /\ Op
  /\ IF tx \in cache
       THEN /\ UNCHANGED svars
            /\ lastAct' = [name |-> "Put", tx |-> tx, res |-> "rej", why |-> "incache"]
       ELSE LET v == Validate(tx, chain[tx.acc]) IN
            IF v \notin {"ok", "high"}
              THEN /\ UNCHANGED svars
                   /\ lastAct' = [name |-> "Put", tx |-> tx, res |-> "rej", why |-> v]
              ELSE LET e == PutEffect(tx)
                   IN /\ pool' = e.pool /\ cache' = e.cache /\ length' = e.length /\ orphan' = e.orphan
                      /\ UNCHANGED <<chain, notified>>
                      /\ lastAct' = [name |-> "Put", tx |-> tx, res |-> IF e.err = "none" THEN "ok" ELSE "rej", why |-> e.err]
  /\ UNCHANGED <<pend, lock, cdel>>

BlockSeq(c, f, d) ==
  /\ lock = "free" /\ Op
  /\ BlockOK(c, f, d)
  /\ LET e == BlockEffect(ChainAfter(c), f, d)
     IN /\ chain' = ChainAfter(c)
        /\ pool' = e.pool /\ length' = e.length /\ orphan' = e.orphan
        /\ cache' = cache \ e.removed
  /\ notified' = (notified \/ f)
  /\ lastAct' = BlockAct(c, f, d, TRUE)
  /\ UNCHANGED <<pend, lock, cdel>>

EvictSeq(S) ==
  /\ lock = "free" /\ Op
  /\ S \subseteq DOMAIN pool /\ S # {}
  /\ LET e == EvictEffect(S)
     IN /\ pool' = e.pool /\ length' = e.length /\ orphan' = e.orphan
        /\ cache' = cache \ e.removed
  /\ lastAct' = [name |-> "Evict", accs |-> S]
  /\ UNCHANGED <<chain, pend, lock, cdel, notified>>

\* --- get(maxBlockBodySize): what the pool offers a block producer within a body-size budget.
\* Size classes: the second variant of a transaction (amt = 2) is the LARGE one (3 units, a payload in the harness),
\* the first the small one (1 unit); budgets in the same unit (100 = no limit in reach).
\* The code walks the lists in Go map order (ANY order), adds every ready transaction's size to a running total and
\* ends the WHOLE gathering at the first transaction that takes the total over the budget (`break Gather`).  What
\* the property fixes is per account: a gap-free prefix base+1, base+2, .. of the ready run, nothing after a
\* transaction that did not fit (GetOffersRuns); which accounts are served before the budget is hit depends on the
\* map order, so the step records the SET of possible answers (one per order) and the binding demands membership.
TxSize(tx) == IF tx.amt = 2 THEN 3 ELSE 1
Budgets == {2, 4, 5, 100}
ReadyRun(a) == SubSeq(pool[a].list, 1, pool[a].ready)
RunSize(run, k) == SumSet([i \in 1..k |-> TxSize(run[i])], 1..k)
PrefixFit(run, room) == Max({k \in 0..Len(run) : RunSize(run, k) <= room})
RECURSIVE Gather(_, _, _, _)
Gather(order, i, room, got) ==
  IF i > Len(order) THEN got
  ELSE LET a == order[i]
           k == PrefixFit(ReadyRun(a), room)
           g == [got EXCEPT ![a] = SubSeq(ReadyRun(a), 1, k)]
       IN IF k < Len(ReadyRun(a)) THEN g                      \* break Gather: nothing more, of any account
          ELSE Gather(order, i + 1, room - RunSize(ReadyRun(a), k), g)
Orders(S) == {o \in [1..Cardinality(S) -> S] : \A i, j \in 1..Cardinality(S) : i # j => o[i] # o[j]}
GetAnswers(b) == LET S == {a \in DOMAIN pool : pool[a].ready > 0}
                 IN {Gather(o, 1, b, [a \in S |-> <<>>]) : o \in Orders(S)}
GetSeq(b) ==
  /\ lock = "free" /\ Op
  /\ lastAct' = [name |-> "Get", budget |-> b, alts |-> GetAnswers(b)]
  /\ UNCHANGED <<svars, pend, lock, cdel>>

BlockChoices == {<<>>} \cup {<<a, st>> : a \in Accounts, st \in UNION {States[x] : x \in Accounts}}

Next == \/ \E t \in Threads : (\E tx \in Txs : PutCache(t, tx)) \/ PutValidate(t) \/ PutLocked(t)
        \/ \E a \in Accounts : \E st \in States[a] : SetChain(a, st)
        \/ \E c \in BlockChoices : \E f \in BOOLEAN : \E d \in SUBSET Accounts : BlockLock("env", c, f, d)
        \/ \E S \in SUBSET Accounts : S # {} /\ EvictLock("env", S)
        \/ \E x \in Txs : CacheDel(x)
        \/ Unlock
        \/ \E tx \in Txs : Remove(tx)
        \/ \E a \in Accounts : Unconfirmed(a)

SeqNext == \/ \E tx \in Txs : PutSeq(tx)
           \/ \E a \in Accounts : \E st \in States[a] : SetChain(a, st)
           \/ \E c \in BlockChoices : \E f \in BOOLEAN : \E d \in SUBSET Accounts : BlockSeq(c, f, d)
           \/ \E S \in SUBSET Accounts : EvictSeq(S)
           \/ \E tx \in Txs : Remove(tx)
           \/ \E a \in Accounts : Unconfirmed(a)
           \/ \E b \in Budgets : GetSeq(b)

\* --- the locked part of a put whose lock-free part (cache lookup, validation) passed EARLIER, in another state,
\* taken in a state where a put started now would be turned away before the lock (where it would not, PutSeq(tx)
\* is the same step).  Only the lock-gated pair schedules of the harness use it: there both calls do their lock-free
\* parts in the source state and then enter their critical sections one after the other, so the second critical
\* section of a pair (put, X) is PutLocked in the state X left behind.  The generation configurations print these
\* steps ("TF|" lines) and do not follow them (the successor is cut by the action constraint).
PutForced(tx) ==
  /\ (tx \in cache \/ Validate(tx, chain[tx.acc]) \notin {"ok", "high"})
  /\ LET e == PutEffect(tx)
     IN /\ pool' = e.pool /\ cache' = e.cache /\ length' = e.length /\ orphan' = e.orphan
        /\ lastAct' = [name |-> "PutLocked", t |-> "", tx |-> tx, res |-> IF e.err = "none" THEN "ok" ELSE "rej", why |-> e.err]
  /\ UNCHANGED <<chain, notified, pend, lock, cdel, nops>>

PairNext == SeqNext \/ \E tx \in Txs : PutForced(tx)

Spec     == Init /\ [][Next]_vars
SeqSpec  == Init /\ [][SeqNext]_vars
PairSpec == Init /\ [][PairNext]_vars     \* SeqSpec + the forced steps (same reachable states: they are never followed)

\* ------------------------------------------------------------------ properties
AcctStates == UNION {States[a] : a \in Accounts}
TypeOK == /\ \A a \in Accounts : chain[a] \in States[a]
          /\ DOMAIN pool \subseteq Accounts
          /\ \A a \in DOMAIN pool : /\ pool[a].base \in AcctStates
                                    /\ \A i \in 1..Len(pool[a].list) : pool[a].list[i] \in Txs /\ pool[a].list[i].acc = a
                                    /\ pool[a].ready \in 0..Len(pool[a].list)
          /\ cache \subseteq Txs /\ cdel \subseteq cache
          /\ \A t \in Threads : pend[t].pc \in {"idle", "cached", "validated"}

\* never two transactions with the same account and nonce (lists strictly ascending) ...
NoDupNonce == \A a \in DOMAIN pool : \A i, j \in 1..Len(pool[a].list) : i < j => pool[a].list[i].nonce < pool[a].list[j].nonce
\* ... nor the same hash
NoDupHash == \A a \in DOMAIN pool : \A i, j \in 1..Len(pool[a].list) : i # j => pool[a].list[i] # pool[a].list[j]

\* the ready prefix is exactly the maximal run base+1, base+2, ..; everything else waits behind a gap
ReadyIsGapFree ==
  \A a \in DOMAIN pool :
    LET L == pool[a] IN
      /\ \A i \in 1..Len(L.list) : L.list[i].nonce > L.base.nonce
      /\ \A i \in 1..L.ready : L.list[i].nonce = L.base.nonce + i
      /\ L.ready < Len(L.list) => L.list[L.ready + 1].nonce # L.base.nonce + L.ready + 1

\* the totals are what is held
CountersExact ==
  /\ length = SumSet([a \in DOMAIN pool |-> Len(pool[a].list)], DOMAIN pool)
  /\ orphan = SumSet([a \in DOMAIN pool |-> Orphans(pool[a])], DOMAIN pool)
  /\ cache = ListTxs(pool) \cup cdel
  /\ cdel \cap ListTxs(pool) = {}
  /\ lock = "free" => cdel = {}

\* once the pool has processed the notification nothing at or below the account nonce is left
NoStaleAfterBlock == notified => \A a \in DOMAIN pool : \A i \in 1..Len(pool[a].list) : pool[a].list[i].nonce > chain[a].nonce

\* whenever the pool has been told about every state change, every list is based on the current account nonce:
\* the run get offers starts at state+1 and nothing that is due is held aside (balances may lag: FilterByState's
\* early return, unnamed balance changes).  Did NOT hold for the code before f307abce (first block of another
\* branch scanned only its own accounts: rewound accounts kept the old base).
BaseNonceSynced == notified => \A a \in DOMAIN pool : pool[a].base.nonce = chain[a].nonce

\* a scanned list is based on the new state: what is offered starts at state+1
ScanSyncs == [][(lastAct'.name \in {"Block", "BlockLock"}) =>
                  \A a \in DOMAIN pool' : (lastAct'.full \/ a \in lastAct'.dirty) => pool'[a].base = chain'[a]]_vars
\* after a full scan every list is based on the current state
FullScanSyncsAll == [][(lastAct'.name \in {"Block", "BlockLock"} /\ lastAct'.full) =>
                        \A a \in DOMAIN pool' : pool'[a].base = chain'[a] /\ Len(pool'[a].list) > 0]_vars

\* what get offers: per account a gap-free run base+1, base+2, .. in ascending order that is a prefix of the ready
\* run (so nothing follows a transaction that did not fit), within the budget; without a limit the whole ready runs
GetOffersRuns == [][(lastAct'.name = "Get") =>
                      \A r \in lastAct'.alts :
                        /\ DOMAIN r \subseteq DOMAIN pool
                        /\ \A a \in DOMAIN r : /\ Len(r[a]) <= pool[a].ready
                                                /\ \A i \in 1..Len(r[a]) : r[a][i] = pool[a].list[i] /\ r[a][i].nonce = pool[a].base.nonce + i
                        /\ SumSet([a \in DOMAIN r |-> RunSize(r[a], Len(r[a]))], DOMAIN r) <= lastAct'.budget
                        /\ lastAct'.budget = 100 => \A a \in DOMAIN r : Len(r[a]) = pool[a].ready]_vars

\* accepted means held afterwards, rejected means nothing changed
PutOutcome == [][(lastAct'.name \in {"Put", "PutLocked"}) =>
                   IF lastAct'.res = "ok" THEN lastAct'.tx \in cache' /\ lastAct'.tx \in ListTxs(pool') /\ length' = length + 1
                   ELSE cache' = cache /\ length' = length /\ orphan' = orphan /\ ListTxs(pool') = ListTxs(pool)]_vars
=============================================================================
