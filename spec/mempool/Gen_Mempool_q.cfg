\* generation: every transition of the sequential reduced two-account graph (quick tier) printed once (+ the forced put steps of the pair schedules, "TF|" lines, not followed)
SPECIFICATION PairSpec
CONSTANTS
  Accounts <- A2
  Txs <- TxsG2q
  States <- StatesG2q
  Threads <- T0
  MaxOps = 1000000000
VIEW sview
ACTION_CONSTRAINT GenLog
INVARIANTS TypeOK NoDupNonce NoDupHash ReadyIsGapFree CountersExact NoStaleAfterBlock BaseNonceSynced
PROPERTIES ScanSyncs FullScanSyncsAll PutOutcome GetOffersRuns
CHECK_DEADLOCK FALSE
