---------------------------- MODULE MC_Mempool -----------------------------
EXTENDS Mempool

Tx(a, n, m) == [acc |-> a, nonce |-> n, amt |-> m]
St(n, b)    == [nonce |-> n, bal |-> b]

A1 == {"a1"}
A2 == {"a1", "a2"}
T0 == {}
T2 == {"t1", "t2"}

\* ---- design check (split put, lock / cache micro steps), bounded number of calls
\* a1: nonces 1..2 in two variants (amounts 1, 2), balance 1 or 2; a2: nonces 1..2, one variant
TxsMC == {Tx("a1", n, m) : n \in 1..2, m \in 1..2} \cup {Tx("a2", n, 1) : n \in 1..2}
StatesMC == [a \in A2 |-> IF a = "a1" THEN {St(n, b) : n \in 0..2, b \in 1..2} ELSE {St(n, 2) : n \in 0..2}]

\* ---- sequential graphs replayed on the real pool
\* G2: two accounts (global counters, dirty sets, eviction of one of two lists)
TxsG2 == {Tx("a1", n, m) : n \in 1..2, m \in 1..2} \cup {Tx("a2", n, 1) : n \in 1..2}
StatesG2 == [a \in A2 |-> IF a = "a1" THEN {St(n, b) : n \in 0..2, b \in 1..2} ELSE {St(n, 2) : n \in 0..2}]
\* G2q (quick tier): a1 with nonces 1..2 (second variant for nonce 2), a2 with nonce 1
TxsG2q == {Tx("a1", 1, 1), Tx("a1", 2, 1), Tx("a1", 2, 2), Tx("a2", 1, 1)}
StatesG2q == [a \in A2 |-> IF a = "a1" THEN {St(n, b) : n \in 0..2, b \in 1..2} ELSE {St(n, 2) : n \in 0..1}]
\* G1: one account, nonces 1..4, second variant for nonces 2 and 3 (gaps, refills, rewinds, balance drops)
TxsG1 == {Tx("a1", n, 1) : n \in 1..4} \cup {Tx("a1", n, 2) : n \in 2..3}
StatesG1 == [a \in A1 |-> {St(n, b) : n \in 0..4, b \in 1..2}]

\* ACTION_CONSTRAINT printing every transition (generation configs only)
\* (three separately printed values, so that the driver can parse every distinct state only once)
\* A forced step (PutForced, see Mempool.tla) is printed with the prefix "TF|" and cut (constraint FALSE): its successor
\* is only an outcome to compare with, never a state to continue from.
GenLog == IF lastAct'.name = "PutLocked"
            THEN PrintT("TF|" \o ToString(sview) \o " ## " \o ToString(lastAct') \o " ## " \o ToString(sview')) /\ FALSE
            ELSE PrintT("TR|" \o ToString(sview) \o " ## " \o ToString(lastAct') \o " ## " \o ToString(sview'))
=============================================================================
