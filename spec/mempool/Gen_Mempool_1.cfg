\* generation: every transition of the sequential one-account graph (nonces 1..4) printed once (+ the forced put steps of the pair schedules, "TF|" lines, not followed)
SPECIFICATION PairSpec
CONSTANTS
  Accounts <- A1
  Txs <- TxsG1
  States <- StatesG1
  Threads <- T0
  MaxOps = 1000000000
VIEW sview
ACTION_CONSTRAINT GenLog
INVARIANTS TypeOK NoDupNonce NoDupHash ReadyIsGapFree CountersExact NoStaleAfterBlock BaseNonceSynced
PROPERTIES ScanSyncs FullScanSyncsAll PutOutcome GetOffersRuns
CHECK_DEADLOCK FALSE
