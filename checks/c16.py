"""C16 — raft log storage (WAL in the chain DB) and cluster membership changes.
spec/raft/RaftWal.tla (+RaftWalTrace.tla) and spec/raft/RaftMembership.tla; binding: every transition of the
TLC-enumerated models replayed on the real ChainDB/WalDB and the real Cluster/raftServer
(harness/consensus/impl/raftv2), recorded random WAL histories validated by TLC."""
import concurrent.futures, json, os, random
import vlib

LEVEL = "model_checking"
MANIFEST = dict(
    category=LEVEL, design_ref="DESIGN.md §5 C16",
    text="RaftWal.tla (log = entry most recently stored per index, conflict truncation, inverse block index, hard state/snapshot/identity, "
         "ClearWAL/ResetWAL, every public call as a sequence of store commits with a crash after each) and RaftMembership.tla (validation + "
         "quorum-availability decision for add/remove requests, proposal and apply routes) are model-checked exhaustively; every transition of "
         "the generated small models is replayed on the real ChainDB+WalDB (crash injected after the k-th store commit, everything read back "
         "before and after a restart, ReadAll result replayed into raft's MemoryStorage) and on a real Cluster/raftServer with a fake raft node; "
         "seeded random WAL histories on really reopened stores (memorydb files, badger) are validated by TLC against RaftWalTrace.tla.",
    note="store commits (Tx.Commit/Bulk.Flush) are taken as atomic; etcd/raft itself is not modelled (a fake raft.Node supplies the progress map); "
         "member ids of proposals come from the wall clock in the code, so duplicate/removed ids are driven through the apply route",
    technique="TLA+/TLC exhaustive models; replay of every TLC transition into the real code with crash-point injection; TLC trace validation")
SPEC_DIR = os.path.join(vlib.SPEC, "raft")

FINDING_STALE_INVERSE = {"kind": "by-block-lookup-returns-other-entry", "cause": "inverse-index-neither-pruned-nor-checked"}


# --------------------------------------------------------------------------- helpers (JSON transition logs)

def parse_json_transitions(out):
    """Lines printed by GenLog == PrintT("TJ|" \\o ToJson(<<...>>)) (PrintT quotes and escapes the string)."""
    trs = []
    for line in out.splitlines():
        if line.startswith('"TJ|'):
            trs.append(json.loads(json.loads(line)[3:]))
    return trs


def opt(v):
    """<<>> / <<x>>  ->  None / x"""
    if isinstance(v, list):
        return v[0] if v else None
    return v


def fun(v):
    """TLA+ function printed by ToJson: [] (empty), [a, b] (domain 1..n) or {"k": v}  ->  {str(k): v}"""
    if isinstance(v, list):
        return {str(i + 1): x for i, x in enumerate(v)}
    return {str(k): x for k, x in v.items()}


def wal_state(p):
    return {"ent": fun(p["ent"]), "last": p["last"], "inv": fun(p["inv"]), "hs": opt(p["hs"]), "snap": opt(p["snap"]),
            "ident": opt(p["ident"])}


def wal_obs(o):
    ra = opt(o["readall"])
    if ra is not None:
        ra = {"ident": opt(ra["ident"]), "hs": ra["hs"], "first": ra["first"], "ents": list(ra["ents"]) if isinstance(ra["ents"], list) else []}
    return {"readall": ra, "byblk": {b: opt(r) for b, r in fun(o["byblk"]).items()},
            "byblkcode": {b: opt(r) for b, r in fun(o["byblkcode"]).items()}, "haswal": list(o["haswal"])}


def wal_act(a):
    r = {"op": a["op"], "k": a["k"], "n": a["n"], "crash": a["crash"]}
    if a["op"] == "SaveEntry":
        r["hs"] = opt(a["hs"]); r["first"] = a["first"]; r["es"] = list(a["es"]) if isinstance(a["es"], list) else []
    elif a["op"] == "WriteSnapshot":
        r["s"] = a["s"]
    elif a["op"] == "WriteIdentity":
        r["id"] = a["id"]
    elif a["op"] == "Reset":
        r["term"] = a["term"]; r["commit"] = a["commit"]
    return r


def wal_input(c, gen):
    """Harness input of the WAL part from the Gen_RaftWal transition log."""
    quick = c.tier == "quick"
    raw = parse_json_transitions(gen.out)
    if len(raw) < 1000:
        raise vlib.Infra("too few WAL transitions generated: %d" % len(raw))
    states, index, T = [], {}, []

    def sid(st):
        k = json.dumps(st, sort_keys=True)
        if k not in index:
            index[k] = len(states)
            states.append(st)
        return index[k]
    sid({"ent": {}, "last": 0, "inv": {}, "hs": None, "snap": None, "ident": None})
    blks, ccs, idents = set(), set(), {}
    maxidx = 0
    for (src, nops, act, dst, obs) in raw:
        a = wal_act(act)
        for e in a.get("es", []):
            if e["kind"] == "block":
                blks.add(e["pl"])
            elif e["kind"] == "cc":
                ccs.add(e["pl"])
        if a["op"] == "WriteIdentity":
            idents[json.dumps(a["id"], sort_keys=True)] = a["id"]
        if a["op"] == "SaveEntry" and a["es"]:
            maxidx = max(maxidx, a["first"] + len(a["es"]) - 1)
        if a["op"] == "Reset":
            maxidx = max(maxidx, a["commit"])
        T.append({"src": sid(wal_state(src)), "act": a, "dst": sid(wal_state(dst)), "obs": wal_obs(obs)})
    walks = dict(n=24 if quick else 160, len=40 if quick else 80, maxidx=6, terms=3, blks=["b1", "b2", "b3"], ccs=["c1", "c2"], batch=3,
                 badger=0 if quick else 6, workdir=os.path.join(c.work, "waldbs"))
    os.makedirs(walks["workdir"], exist_ok=True)
    for i in [{"name": "n1", "peer": "p1"}, {"name": "n1", "peer": "p2"}, {"name": "n2", "peer": "p1"}]:   # identities of RaftWalTrace.cfg
        idents.setdefault(json.dumps(i, sort_keys=True), i)
    return {"maxidx": maxidx, "blks": sorted(blks), "ccs": sorted(ccs), "idents": [idents[k] for k in sorted(idents)],
            "states": states, "transitions": T, "walks": walks}


def validate_wal_trace(c, rng, r, tracepath, nwalks):
    """Direction B: recorded random histories (after a real close/reopen of the store) validated by TLC."""
    other = [v for v in (r.get("violations") or []) if v.get("sig", {}).get("kind") != FINDING_STALE_INVERSE["kind"]]
    if other:
        c.notes.append("trace validation skipped: the replay already found violations")
        return
    if not os.path.exists(tracepath):
        raise vlib.Infra("WAL harness wrote no trace")
    ok, matched, total, tres = vlib.validate_trace(SPEC_DIR, "RaftWalTrace", "RaftWalTrace.cfg", os.path.join(c.work, "tv"), tracepath, timeout=1700)
    c.add_tlc(tres, "trace validation of recorded WAL histories (RaftWalTrace, intended by-block lookup)")
    lines = [l for l in open(tracepath) if l.strip()]
    good_cfg = "RaftWalTrace.cfg"        # the variant that accepts the recorded history (used by the self-test)
    if not ok:
        # is the by-block lookup of the code the ONLY deviation?  Validate against the as-coded lookup.
        ok2, m2, t2, tres2 = vlib.validate_trace(SPEC_DIR, "RaftWalTrace", "RaftWalTrace_ascoded.cfg", os.path.join(c.work, "tv2"), tracepath, timeout=1700)
        c.add_tlc(tres2, "trace validation of recorded WAL histories (RaftWalTrace, by-block lookup as coded)")
        ev = lines[matched] if matched < len(lines) else ""
        if ok2:
            good_cfg = "RaftWalTrace_ascoded.cfg"
            c.violation(dict(FINDING_STALE_INVERSE, phase="trace"), {"event_index": matched, "event": ev, "context": lines[max(0, matched - 4):matched]},
                        "recorded WAL history rejected at event %d of %d by the intended by-block lookup and accepted in full with the lookup as coded: "
                        "GetRaftEntryOfBlock answered with an entry that does not carry the block: %s" % (matched, total, ev[:400]))
            c.traces_validated += nwalks
            c.notes.append("all %d recorded events accepted by RaftWalTrace with the as-coded by-block lookup" % t2)
        else:
            ev2 = lines[m2] if m2 < len(lines) else ""
            c.violation({"kind": "trace-rejected"}, {"event_index": m2, "event": ev2, "context": lines[max(0, m2 - 4):m2]},
                        "RaftWalTrace rejects the recorded WAL history at event %d of %d: %s" % (m2, t2, ev2[:600]))
            return
    else:
        c.traces_validated += nwalks
    # binding self-test: a history with one altered answer must be rejected by the variant that accepted the original
    idx = [i for i, l in enumerate(lines) if '"ev":"Op"' in l and json.loads(l)["ent"]]
    i = idx[rng.randrange(len(idx))]
    e = json.loads(lines[i])
    e["ent"][-1]["e"]["term"] = e["ent"][-1]["e"]["term"] % 3 + 1
    bad = os.path.join(c.work, "wal_trace_bad.ndjson")
    open(bad, "w").writelines(lines[:i] + [json.dumps(e) + "\n"] + lines[i + 1:])
    ok3, m3, t3, _ = vlib.validate_trace(SPEC_DIR, "RaftWalTrace", good_cfg, os.path.join(c.work, "tv3"), bad, timeout=1700)
    if ok3 or m3 != i:
        raise vlib.Infra("binding self-test failed: corrupted WAL trace (event %d) accepted or rejected elsewhere (%s, %d)" % (i, ok3, m3))
    c.notes.append("self-test: corrupted WAL trace rejected at event %d" % m3)


def member_state(p):
    key = lambda m: (m["id"], m["name"], m["addr"], m["peer"])
    return {"applied": sorted(p["applied"], key=key), "removed": sorted(p["removed"], key=key), "next": p["next"], "alive": p["alive"]}


def member_act(a):
    r = {"route": a["route"], "type": a["type"], "accept": a["accept"], "id": a.get("id", 0)}
    if "m" in a:
        r["m"] = a["m"]
    if "hv" in a:
        r["hv"] = fun(a["hv"])
    return r


def member_input(c, gen):
    """Harness input of the membership part from the Gen_RaftMembership transition log."""
    raw = parse_json_transitions(gen.out)
    if len(raw) < 1000:
        raise vlib.Infra("too few membership transitions generated: %d" % len(raw))
    states, index, T = [], {}, []

    def sid(st):
        k = json.dumps(st, sort_keys=True)
        if k not in index:
            index[k] = len(states)
            states.append(st)
        return index[k]
    for (src, act, dst) in raw:
        T.append({"src": sid(member_state(src)), "act": member_act(act), "dst": sid(member_state(dst))})
    # how to build each state: an initial cluster {1..n} and a shortest sequence of accepted apply-route changes
    recipes = [None] * len(states)
    queue = []
    for i, st in enumerate(states):
        n = len(st["applied"])
        if not st["removed"] and st["alive"] and st["next"] == n + 1 and \
                [m["id"] for m in st["applied"]] == list(range(1, n + 1)) and all(m["id"] == m["name"] == m["addr"] == m["peer"] for m in st["applied"]):
            recipes[i] = {"init": n, "acts": []}
            queue.append(i)
    outs = {}
    for t in T:
        if t["act"]["route"] == "apply" and t["act"]["accept"] and t["dst"] != t["src"]:
            outs.setdefault(t["src"], []).append(t)
    while queue:
        s = queue.pop(0)
        for t in outs.get(s, []):
            if recipes[t["dst"]] is None:
                recipes[t["dst"]] = {"init": recipes[s]["init"], "acts": recipes[s]["acts"] + [t["act"]]}
                queue.append(t["dst"])
    if any(r is None for r in recipes):
        raise vlib.Infra("membership states without a path from an initial cluster")
    return {"states": states, "recipes": recipes, "transitions": T}


def fatal_exit(c, output, inflight, wal, member):
    """The code under test calls logger.Fatal (os.Exit) in many places.  When the harness process dies that way it leaves no
    result file but (a) the fatal log line of the aergo logger and (b) the list of cases it was executing: an observation on
    the real code (the node exits while handling a request the model answers), reported as a violation."""
    fatal = []
    for l in output.splitlines():
        if l.startswith('{"level":"fatal"'):
            try:
                fatal.append(json.loads(l))
            except ValueError:
                pass
    if not fatal or not os.path.exists(inflight):
        return False
    cases = []
    try:
        keys = json.load(open(inflight))
    except ValueError:
        return False
    for k in keys:
        part, _, n = k.partition(":")
        n = int(n)
        if part == "wal":
            t = wal["transitions"][n]
            cases.append({"case": k, "src": wal["states"][t["src"]], "act": t["act"], "dst": wal["states"][t["dst"]]})
        elif part == "member":
            t = member["transitions"][n]
            cases.append({"case": k, "recipe": member["recipes"][t["src"]], "src": member["states"][t["src"]], "act": t["act"]})
        else:
            cases.append({"case": k})
    f = fatal[-1]
    acts = "; ".join(json.dumps(x["act"], sort_keys=True) for x in cases if "act" in x)[:900]
    c.violation({"kind": "fatal-exit", "module": f.get("module"), "message": f.get("message")},
                {"fatal": f, "in_flight": cases, "seed": c.seed, "tier": c.tier},
                "the node process exits through logger.Fatal (module %s: %r) while handling one of %d requests in flight: %s"
                % (f.get("module"), f.get("message"), len(cases), acts))
    return True


def run(c):
    rng = random.Random(c.seed)
    c.rule = ("a case is one transition (state, operation [+crash point], state') of the TLC-enumerated RaftWal / RaftMembership model replayed on "
              "the real code and read back in full (before and after a restart), or one operation of a recorded random WAL history; "
              "distinct = distinct transitions / (walk, step)")
    c.assumptions = ["store commits (Tx.Commit, Bulk.Flush) are atomic; a crash happens between commits",
                     "direction A runs on an in-memory map store behind the db.DB interface (restart = new ChainDB+WalDB on the store); direction B on "
                     "aergo-lib memorydb files and badger, closed and reopened after every operation",
                     "a fake raft.Node supplies the progress map for membership availability", "TLC 1.8.0"]
    quick = c.tier == "quick"
    sfx = "" if quick else "_big"
    w = lambda d: os.path.join(c.work, d)
    with concurrent.futures.ThreadPoolExecutor(max_workers=4) as pool:
        # exhaustive design checks and transition generation, concurrently (separate scratch dirs: TLC litters)
        f_wmc = pool.submit(vlib.tlc, SPEC_DIR, "MC_RaftWal", "MC_RaftWal%s.cfg" % sfx, w("wmc"), 8, 2400)
        f_mmc = pool.submit(vlib.tlc, SPEC_DIR, "MC_RaftMembership", "MC_RaftMembership%s.cfg" % sfx, w("mmc"), 4, 2400)
        f_wgen = pool.submit(vlib.tlc, SPEC_DIR, "MC_RaftWal", "Gen_RaftWal%s.cfg" % sfx, w("wgen"), 1, 2400)
        f_mgen = pool.submit(vlib.tlc, SPEC_DIR, "MC_RaftMembership", "Gen_RaftMembership%s.cfg" % sfx, w("mgen"), 1, 2400)
        mgen = f_mgen.result()
        c.require_ok(mgen, "RaftMembership transition enumeration")
        member = member_input(c, mgen)
        wgen = f_wgen.result()
        c.require_ok(wgen, "RaftWal transition enumeration")
        wal = wal_input(c, wgen)
        wgen.out = mgen.out = ""
        inpath, outpath, tracepath = w("c16_in.json"), w("c16_out.json"), w("wal_trace.ndjson")
        json.dump({"wal": wal, "member": member}, open(inpath, "w"))
        rc, output = vlib.go_test("./consensus/impl/raftv2/", "^TestVerifC16$",
                                  env={"VERIF_IN": inpath, "VERIF_OUT": outpath, "VERIF_TRACE": tracepath, "VERIF_SEED": c.seed,
                                       "VERIF_TIER": c.tier, "ARGLIB_LEVEL": "fatal"}, timeout=3000)
        if not os.path.exists(outpath) and fatal_exit(c, output, outpath + ".inflight", wal, member):
            return
        r = c.absorb_go(outpath, output)
        if rc != 0 and not r.get("violations"):
            raise vlib.Infra("harness failed:\n" + output[-3000:])
        c.extra.update(wal_transitions_replayed=len(wal["transitions"]), wal_states=len(wal["states"]),
                       membership_transitions_replayed=len(member["transitions"]), membership_states=len(member["states"]))
        c.require_ok(f_mmc.result(), "RaftMembership design: refusals of the property, quorum after removing a healthy node")
        c.require_ok(f_wmc.result(), "RaftWal design: log = last write per index, truncation, durable hard state/snapshot/identity, crash points")
    validate_wal_trace(c, rng, r, tracepath, wal["walks"]["n"])
    c.exhaustive = True
    c.extra["exhaustive_note"] = "exhaustive over the generated small models (all transitions replayed); random WAL histories are sampled"
    # extension beyond the listed statement: from a raft-committed block entry to the node's chain tip (Ready -> WAL ->
    # commit -> publishEntries -> block factory -> ChainService), restarts on every prefix of the write journal
    from checks import raftapply_common
    raftapply_common.run_raftapply(c)
