"""C09 — block producer legitimacy (DPoS): one producer per slot, signature over the complete header, not future.
spec/consensus/Slot.tla; binding: TLC's owner table and every transition of the decision model replayed on
consensus/impl/dpos/slot, bp.Cluster, types.Block.Sign/VerifySign and DPoS.VerifyTimestamp/VerifySign/IsBlockValid;
a recorded random run validated by TLC (SlotTrace.tla)."""
import json, os, random, threading, time
import vlib

LEVEL = "model_checking"
MANIFEST = dict(
    category=LEVEL, design_ref="DESIGN.md §5 C09",
    text="Slot.tla (Go slot arithmetic, producer index map, symbolic signatures over the header, the three consensus checks) is "
         "model-checked exhaustively for tiny intervals (every ms from before the epoch to the third producer round, every key, every single-field "
         "and neighbouring-field mutation): unique owner per instant, constancy inside a slot and rotation at boundaries, accepted <=> legitimate, "
         "every mutation detected, the entitled producer accepted.  TLC then evaluates the model for the real intervals (1/2/3 s): the owner table "
         "(all instants within 3 ms of a boundary over 300+ slots, producer-set sizes 1..100) and every transition of the decision model (lists of 1, 2, 3, 5, 23, "
         "100 producers; signer = owner / neighbour / far member / outsider; slot distances -101..+4 and the epoch; 12 header fields mutated) are replayed "
         "on the real slot functions, bp.Cluster, Block.Sign/VerifySign and DPoS.VerifyTimestamp/VerifySign/IsBlockValid; a dense Go sweep checks the rotation "
         "law at every ms of three rounds; a recorded random run (lists of 1..100 keys, arbitrary ms) is validated by TLC against SlotTrace.tla.",
    note="model-based test generation: exhaustive for the small model, boundary-dense for the real sizes; the wall clock is not controlled: clock-relative cases are "
         "moved next to time.Now() by whole slots and repeated if a slot boundary was crossed during the call; secp256k1 keys derived from the seed",
    technique="TLA+/TLC exhaustive model; TLC-evaluated decision tables replayed into the real code; TLC trace validation of a recorded random run")
SPEC_DIR = os.path.join(vlib.SPEC, "consensus")


def owner_tables(trs):
    """Transitions of Gen_SlotOwners -> [{iv, rows:[{ms,next,prev,owners}]}] (rows ascending)."""
    by = {}
    for (_s, _a, d) in trs:
        iv, v = d[0], d[1]
        by.setdefault(iv, []).append({"ms": v["ms"], "next": v["next"], "prev": v["prev"], "owners": v["owners"]})
    return [{"iv": iv, "rows": sorted(rows, key=lambda r: r["ms"])} for iv, rows in sorted(by.items())]


def decision_input(trs):
    lists, T = {}, []
    for line, (s, a, d) in enumerate(trs):
        iv, now, n, lib = s
        e = {"iv": iv, "now": now, "n": n, "lib": lib, "act": a["name"], "line": line}
        if a["name"] == "Elect":
            lists[str(d[2])] = a["l"]        # d[2] = Lid of the elected list (its length, +1000 for same-size variants)
            e["n2"] = d[2]
        elif a["name"] == "Submit":
            e["r"] = a["r"]
            e["res"] = d[4][0]
        elif a["name"] == "Produce":
            e["p"] = a["p"]
            e["res"] = d[4][0]
        else:
            continue            # Tick / Finalize change the model state only
        T.append(e)
    return lists, T


def run(c):
    rng = random.Random(c.seed)
    thorough = c.tier == "thorough"
    c.rule = ("a case is one replayed evaluation on the real code: (instant, sub-ms offset, producer-set size) of the TLC owner table, one (size) of the dense "
              "sweep, one (timestamp row, offset) of the wall-clock future check, one (transition of the decision model, mutation variant, time map), one event of "
              "the random run; distinct = distinct table rows / transitions x variants / events")
    c.assumptions = ["the local clock is the machine's wall clock: clock-relative expectations are computed from a reading before the call and discarded if a reading "
                     "after the call falls into another slot",
                     "signatures are modelled symbolically (unforgeable, digest injective in the tuple of header fields)",
                     "producer lists contain distinct ids (bp.Cluster.Update is fed from the vote ranking)",
                     "TLC 1.8.0"]

    # 1. exhaustive design-level check and the generation of the decision transitions run in the background
    #    (own scratch directories) while the owner table is generated and replayed
    mc = "MC_Slot_big.cfg" if thorough else "MC_Slot.cfg"
    gcfg = "Gen_Slot_big.cfg" if thorough else "Gen_Slot.cfg"
    box = {}

    def bg(key, fn):
        def w():
            try:
                box[key] = fn()
            except Exception as e:      # noqa
                box[key + "_err"] = e
        t = threading.Thread(target=w)
        t.start()
        return t

    def gen_decisions():
        g = vlib.tlc(SPEC_DIR, "MC_Slot", gcfg, os.path.join(c.work, "gen"), workers=1, timeout=1500)
        return g, (decision_input(vlib.parse_transitions(g.out)) if g.ok else None)
    th = [bg("mc", lambda: vlib.tlc(SPEC_DIR, "MC_Slot", mc, os.path.join(c.work, "mc"), workers=6, timeout=2400)),
          bg("gen", gen_decisions)]
    try:
        # 2. owner table of the real intervals -> slot harness
        gen = vlib.tlc(SPEC_DIR, "MC_Slot", "Gen_SlotOwners.cfg", c.work, workers=1, timeout=900)
        c.require_ok(gen, "owner table for intervals 1/2/3 s, sizes 1..100 (Gen_SlotOwners)")
        tables = owner_tables(vlib.parse_transitions(gen.out))
        nrows = sum(len(t["rows"]) for t in tables)
        if len(tables) != 3 or nrows < 7000:
            raise vlib.Infra("owner table incomplete: %d tables, %d rows" % (len(tables), nrows))
        inpath = os.path.join(c.work, "slot_in.json")
        json.dump({"tables": tables, "sweep_rounds": 3, "sweep_intervals": [1000, 2000, 3000] if thorough else [1000],
                   "future_reps": 6 if thorough else 2}, open(inpath, "w"))
        outpath = os.path.join(c.work, "slot_out.json")
        t0 = time.time()
        rc, output = vlib.go_test("./consensus/impl/dpos/slot/", "^TestVerifSlot$",
                                  env={"VERIF_IN": inpath, "VERIF_OUT": outpath, "VERIF_SEED": c.seed, "VERIF_TIER": c.tier}, timeout=1500)
        r1 = c.absorb_go(outpath, output)
        c.notes.append("slot harness wall %.1fs" % (time.time() - t0))
        if rc != 0 and not r1.get("violations"):
            raise vlib.Infra("slot harness failed:\n" + output[-3000:])

        # 3. every transition of the decision model -> dpos harness
        th[1].join()
        if "gen_err" in box:
            raise box["gen_err"]
        gen2, parsed = box["gen"]
        c.require_ok(gen2, "decision model transitions (%s)" % gcfg)
        lists, T = parsed
        nsub = sum(1 for e in T if e["act"] == "Submit")
        if len(lists) != 8 or nsub < 30000:
            raise vlib.Infra("decision transitions incomplete: %d lists, %d Submit" % (len(lists), nsub))
        inpath = os.path.join(c.work, "producer_in.json")
        json.dump({"lists": lists, "keys": 102, "trans": T, "random_events": 20000 if thorough else 3000,
                   "produce_reps": 6 if thorough else 2}, open(inpath, "w"))
        outpath = os.path.join(c.work, "producer_out.json")
        tracepath = os.path.join(c.work, "producer_trace.ndjson")
        t0 = time.time()
        rc, output = vlib.go_test("./consensus/impl/dpos/", "^TestVerifProducer$",
                                  env={"VERIF_IN": inpath, "VERIF_OUT": outpath, "VERIF_TRACE": tracepath,
                                       "VERIF_SEED": c.seed, "VERIF_TIER": c.tier}, timeout=2400)
        r2 = c.absorb_go(outpath, output)
        c.notes.append("producer harness wall %.1fs" % (time.time() - t0))
        if rc != 0 and not r2.get("violations"):
            raise vlib.Infra("producer harness failed:\n" + output[-3000:])
        c.extra["exhaustive_note"] = ("exhaustive over the abstract model (tiny intervals); for the real intervals: %d owner-table rows x 100 sizes x 4 sub-ms offsets, "
                                      "every ms of 3 rounds for every size, %d decision transitions x mutation variants x 3 time maps; the random run is sampled"
                                      % (nrows, len(T)))

        # 4. direction B: the recorded random run validated by TLC against SlotTrace.tla
        # (always: a violation found above concerns other inputs than the random run)
        lines = [l for l in open(tracepath) if l.strip()]
        if len(lines) < 1000:
            raise vlib.Infra("random run too short: %d events" % len(lines))
        ok, matched, total, tres = vlib.validate_trace(SPEC_DIR, "SlotTrace", "SlotTrace.cfg", c.work, tracepath, timeout=2400)
        c.add_tlc(tres, "trace validation of the recorded random run (SlotTrace)")
        if not ok:
            ev = lines[matched] if matched < len(lines) else ""
            sig = {"kind": "trace-rejected"}
            try:
                e = json.loads(ev)
                if e.get("ev") == "Submit":
                    m = e["r"]["mut"]
                    sig["mutation"] = m["kind"] if m["kind"] != "field" else m["f"]
            except Exception:
                pass
            c.violation(sig, {"event_index": matched, "event": ev, "context": lines[max(0, matched - 6):matched], "seed": c.seed},
                        "SlotTrace rejects the recorded execution at event %d of %d (the real verdicts differ from Slot.tla): %s" % (matched, total, ev[:400]))
        else:
            c.traces_validated = sum(1 for l in lines if '"Config"' in l)
            # binding self-test: one flipped verdict must be rejected, exactly there (a prefix of the trace is enough)
            idx = [i for i, l in enumerate(lines[:800]) if '"Submit"' in l]
            i = idx[rng.randrange(len(idx))]
            e = json.loads(lines[i])
            k = rng.choice(["ts", "sig", "bp"])
            e["res"][k] = not e["res"][k]
            bad = os.path.join(c.work, "producer_trace_bad.ndjson")
            open(bad, "w").writelines(lines[:i] + [json.dumps(e) + "\n"] + lines[i + 1:i + 4])
            ok2, m2, _t2, _ = vlib.validate_trace(SPEC_DIR, "SlotTrace", "SlotTrace.cfg", c.work, bad, timeout=2400)
            if ok2 or m2 != i:
                raise vlib.Infra("binding self-test failed: trace with verdict %s of event %d flipped: accepted=%s, stopped at %d" % (k, i, ok2, m2))
            c.notes.append("self-test: flipped verdict '%s' of event %d rejected" % (k, i))
    finally:
        for t in th:
            t.join()
    if "mc_err" in box:
        raise box["mc_err"]
    c.require_ok(box["mc"], "Slot design: unique owner, slot law, decision sound/exact, mutations detected, honest producer accepted (%s)" % mc)
    c.exhaustive = True
    # the node's acceptance path above the consensus checks: forged copies of genuine blocks (altered header under the genuine
    # identifier, signature no longer verifying) delivered before the genuine ones, in arrival orders with children before
    # parents - a block whose signature does not verify must not be connected through the orphan pool either
    # (thorough tier here; C18's quick tier runs the same deliveries on every change)
    if thorough:
        from checks import c18_chain
        c18_chain.run_chain_identity(c)
    # "the current producer set": which list is in force at which height (bp.Snapshots / Cluster under connects,
    # reorganisations, restarts, gc) - BpSnapshots.tla behaviours replayed on the real dpos.Status / bp.Snapshots
    from checks import bpsnap_common
    bpsnap_common.run_bpsnap(c)
