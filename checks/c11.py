"""C11 — Merkle proofs for accounts and contract variables are sound and complete.
spec/state/Proof.tla; binding: every Prove step of the TLC model and every forgery of its ForgeTable replayed on
pkg/trie (harness/pkg/trie/verif_proof_test.go) and on state/statedb (harness/state/statedb/verif_proof_test.go);
recorded walks validated by TLC against ProofTrace.tla.
spec/state/ProofRoots.tla (a proof requested for root r is a proof about r: the trie's life cycle — Update / AtomicUpdate
without Commit, Commit, Stash, SetRoot, LoadCache, Reopen — and ProveAt for every retained root): every state of the
generated tree rebuilt on the real trie (with and without live cache, verif_proofroots_test.go) and on StateDB.
spec/state/StateQuery.tla (the chain service's GetStateQuery / GetStateAndProof answer for the requested block):
every generated (behaviour, query) sent to the real ChainService of an in-process node through the hub
(harness/internal/verifnode/verif_statequery_test.go) and checked like a light client."""
import json, os, random, threading
import vlib

LEVEL = "model_checking"
MANIFEST = dict(
    category=LEVEL, design_ref="DESIGN.md §5 C11",
    text="Proof.tla (canonical trie over an injective symbolic hash, proof generation, plain and compressed verification, an adversary with "
         "single-field corruptions / transplants / claim flips) is model-checked exhaustively: Complete, Sound, and 'the verifier as coded "
         "deviates from the design verifier only in two named oddities'. Every Prove step of the generation model (trie history, root, key, "
         "encoding) is replayed on the real pkg/trie and on StateDB.GetAccountAndProof/GetVarAndProof over families of prefix-colliding "
         "256-bit keys: the real generator's answer must have the spec's shape and be accepted by the real verifier functions and by an "
         "independent verifier written from the spec; every forgery of the spec's table is applied to the real proof and nothing the design "
         "rejects may be accepted. Recorded walks (many historical roots) are validated by TLC against ProofTrace.tla. "
         "ProofRoots.tla adds the trie's life cycle (Update / AtomicUpdate producing roots WITHOUT commit, Commit, Stash, Trie.Root := committed "
         "root, LoadCache, a new instance on the store) with the property 'a proof requested for a retained root verifies against that root and "
         "states the value the key had there' (TLC finds it violated when AtomicUpdate is modelled without its batch copies): every state of the "
         "generated tree of behaviours is rebuilt on the real trie, without live cache and with one, and on StateDB (blocks = Update+Commit, "
         "SetRoot, LoadCache, a fresh StateDB), and MerkleProof(Compressed)R / GetAccountAndProof / GetVarAndProof are asked for EVERY retained "
         "root (uncommitted atomic roots included), every key, both encodings. StateQuery.tla models the chain service's state queries (a chain "
         "of blocks in which a contract is deployed and its variables are set, overwritten, deleted, created later; Query(block | none, storage "
         "keys, compressed), account queries): every generated (behaviour, query) is played on an in-process node (real ChainService, block "
         "production and execution) — the real *message.GetStateQuery / *message.GetStateAndProof go through the component hub as rpc sends "
         "them — and the answer is verified like a light client: account proof against the state root of the requested block, every variable "
         "proof against the storage root inside the proven account, inclusion and value as the model says for that block.",
    note="memorydb stands for the disk store; sha256 as trie hash at the trie level, common.Hasher at the statedb level; the repository has no "
         "AccountProof.ValidateProof: the client-side check is the natural composition of trie.Verify* over the proof fields",
    technique="TLA+/TLC exhaustive models (Proof, ProofRoots, StateQuery); replay of every generated Prove step and forgery into the real "
              "generator/verifier; replay of every generated life-cycle state on the real trie / StateDB with proofs for every retained root; "
              "replay of every generated (chain, query) on an in-process node through the real query handler; TLC trace validation")
SPEC_DIR = os.path.join(vlib.SPEC, "state")
ABS_KEYS = ["000", "001", "010", "100"]          # PK4 of MC_Proof.tla
VALS = ["v1", "v2"]


def bits(k):
    return "".join(str(b) for b in k)


def absmap(v):
    if v == []:
        return {}
    return {bits(k): x for k, x in vlib.fun_items(v)}


def forgery(f):
    g = {"t": f["t"]}
    if "k" in f:
        g["k"] = bits(f["k"])
    for fld in ("v", "ri", "i", "j", "s", "d"):
        if fld in f:
            g[fld] = f[fld]
    return g


def families(tier, rng, h):
    fams = [[0, 1, 2], [2, 3, 4], [3, 4, 5], [7, 8, 9], [253, 254, 255], [3, 4, 255]]
    if tier == "thorough":
        fams += [[0, 128, 255], [4, 8, 12], [251, 252, 253], [247, 248, 249], [1, 2, 3], [6, 7, 8], [15, 16, 17], [126, 127, 128]]
        n = 4
    else:
        n = 2
    for _ in range(n):
        fams.append(sorted(rng.sample(range(256), h)))
    return fams


def gen_walks(rng, n, blocks, proofs):
    walks = []
    for _ in range(n):
        steps = []
        for _ in range(blocks):
            ks = rng.sample(ABS_KEYS, rng.randint(1, len(ABS_KEYS)))
            steps.append({"upd": {k: rng.choice(VALS + ["DEL"]) for k in ks}, "proofs": proofs})
        walks.append({"steps": steps})
    return walks


def cases_from(trs):
    """group the Prove transitions by committed history"""
    by = {}
    order = []
    for (s, a, d) in trs:
        if a.get("name") != "Prove":
            continue
        hist = [absmap(m) for m in s]
        hk = json.dumps(hist, sort_keys=True)
        if hk not in by:
            by[hk] = {"hist": hist, "proofs": []}
            order.append(hk)
        sh = d["shape"]
        by[hk]["proofs"].append({
            "ri": a["ri"], "key": bits(a["key"]), "enc": a["enc"],
            "shape": {"incl": sh["incl"], "val": sh["val"], "pk": bits(sh["pk"]), "pv": sh["pv"], "len": sh["len"],
                      "nd": sorted(sh["nd"]), "naps": sh["naps"]},
            "out": d["out"],
            "forg": [{"f": forgery(f), "out": o} for f, o in d["forg"]]})
    return [by[k] for k in order]


def trace_sig(ev, prev):
    """signature of the event at which ProofTrace stopped (what the real code did that the spec does not allow)"""
    if ev.get("ev") == "Verify":
        forged = prev and prev.get("ev") == "Forge"
        if forged:
            return {"kind": "trace-forged-proof-accepted", "forgery": prev["f"]["t"]}
        return {"kind": "trace-honest-proof-rejected"}
    if ev.get("ev") == "Prove":
        return {"kind": "trace-proof-shape", "enc": ev.get("enc")}
    return {"kind": "trace-rejected", "ev": ev.get("ev")}


# ------------------------------------------------------------------ ProofRoots / StateQuery: JSON transition logs
def json_lines(out, prefix):
    """lines printed by PrintT(prefix \\o "|" \\o ToJson(..)) (a quoted, escaped string)"""
    head = '"%s|' % prefix
    for line in out.splitlines():
        if line.startswith(head):
            try:
                yield json.loads(line[len(head):-1].replace('\\"', '"').replace("\\\\", "\\"))
            except ValueError as e:
                raise vlib.Infra("unreadable %s line in the TLC output (%s): %s" % (prefix, e, line[:200]))


def jmap(pairs):
    return {bits(k): v for k, v in pairs}


def mapkey(m):
    return ",".join(sorted("%s=%s" % (k, v) for k, v in m.items()))


def roots_from(gen):
    """MC_ProofRoots generation output -> (shape table, states of the tree of life-cycle behaviours)"""
    shapes = {}
    for tab in json_lines(gen.out, "SH"):
        for ent in tab:
            rows = {}
            for r in ent["rows"]:
                rows[bits(r["key"])] = {"incl": r["incl"], "val": r["val"], "pk": bits(r["pk"]), "pv": r["pv"], "len": r["len"],
                                        "nd": sorted(r["nd"]), "naps": r["len"]}
            shapes[mapkey(jmap(ent["m"]))] = rows
    nodes, seen = [], set()
    for trail, status, hist in json_lines(gen.out, "TJ"):
        acts = []
        for a in trail:
            b = {"name": a["name"]}
            if "upd" in a:
                b["upd"] = jmap(a["upd"])
            if "ri" in a:
                b["ri"] = a["ri"]
            if "rb" in a:
                b["rb"] = a["rb"]
            acts.append(b)
        k = json.dumps(acts, sort_keys=True)
        if k in seen:
            continue
        seen.add(k)
        nodes.append({"trail": acts, "hist": [jmap(m) for m in hist], "st": status["st"], "cur": status["cur"], "prev": status["prev"]})
    nodes.sort(key=lambda n: json.dumps(n["trail"], sort_keys=True))
    return shapes, nodes


def statedb_reachable(node):
    """StateDB offers blocks (Update immediately followed by Commit), SetRoot, LoadCache and a fresh instance"""
    t = node["trail"]
    for i, a in enumerate(t):
        if a["name"] in ("AtomicUpdate", "Stash"):
            return False
        if a["name"] == "Update" and (i + 1 >= len(t) or t[i + 1]["name"] != "Commit"):
            return False
        if a["name"] == "Commit" and (i == 0 or t[i - 1]["name"] != "Update"):
            return False
    return all(x == "c" for x in node["st"])


def queries_from(gen, blocks):
    """MC_StateQuery generation output -> behaviours (one contract each) with their queries and expected answers"""
    by, order = {}, []
    for trail, chain, act, ans in json_lines(gen.out, "TJ"):
        k = json.dumps(trail, sort_keys=True)
        if k not in by:
            by[k] = {"trail": [dict(name=a["name"], **({"upd": dict(a["upd"])} if "upd" in a else {})) for a in trail],
                     "chain": [{"ctr": b["ctr"], "sv": dict(b["sv"]), "nonce": b["nonce"]} for b in chain], "queries": [], "_seen": set()}
            order.append(k)
        if ans["kind"] == "query":
            if ans["verifies"] is not True:
                raise vlib.Infra("StateQuery.tla generated an answer that does not verify: %r" % (ans,))
            q = {"kind": "query", "b": ans["b"], "comp": ans["comp"], "ks": ans["ks"], "incl": ans["acct"]["incl"],
                 "vars": [{"incl": v["incl"], "val": v["val"]} for v in ans["vars"]]}
        else:
            q = {"kind": "acct", "b": ans["b"], "comp": ans["comp"], "who": ans["who"], "incl": ans["incl"], "nonce": ans["nonce"]}
        qk = json.dumps(q, sort_keys=True)
        if qk not in by[k]["_seen"]:
            by[k]["_seen"].add(qk)
            by[k]["queries"].append(q)
    behs = []
    for k in sorted(order):
        b = by[k]
        del b["_seen"]
        if len(b["trail"]) != blocks or len(b["chain"]) != blocks + 1:
            raise vlib.Infra("StateQuery generation: a behaviour of %d steps for %d blocks" % (len(b["trail"]), blocks))
        b["queries"].sort(key=lambda q: json.dumps(q, sort_keys=True))
        behs.append(b)
    return behs


def tlc_thread(results, key, jobs):
    """run TLC jobs [(module, cfg, workdir, workers)] one after the other in a thread (own scratch dirs)"""
    def runit():
        out = []
        try:
            for module, cfg, work, workers in jobs:
                out.append(vlib.tlc(SPEC_DIR, module, cfg, work, workers=workers, timeout=3000))
        except BaseException as e:      # reported by the main thread
            out.append(e)
        results[key] = out
    t = threading.Thread(target=runit)
    t.start()
    return t


def run(c):
    try:
        run_all(c)
    except vlib.Infra as e:
        # violations of the real code observed before an infrastructure problem of a later stage remain the verdict
        if not c.violations:
            raise
        c.notes.append("stopped early, the violations observed before are the verdict: %s" % str(e)[:300])


def run_all(c):
    rng = random.Random(c.seed)
    quick = c.tier == "quick"
    c.rule = ("every Prove step (committed history, root index, query key, encoding) of the exhaustive TLC graph of Proof.tla (Gen_Proof*.cfg) is "
              "replayed on the real generator for every key family, and every forgery of its ForgeTable on the real verifier; a case is one "
              "honest proof or one forged message; distinct = distinct (family, history, root, key, encoding) resp. (level, walk, step, request). "
              "Life cycle (ProofRoots.tla): every state of the generated tree of behaviours is rebuilt and a proof is requested for every root the "
              "specification retains, every key, both encodings; a case is one proof (or one transplant of it to another retained root). Node level "
              "(StateQuery.tla): a case is one generated (chain behaviour, query) answered by the real chain service, resp. one variable proof of it")
    c.assumptions = ["in-memory key-value store (aergo-lib memorydb) stands for the disk store",
                     "the symbolic hash of Proof.tla is injective; the concrete hash is sha256 (collision resistance assumed)",
                     "independent verifier written in the harness from Proof.tla's Accept/Fold/FoldC with crypto/sha256",
                     "background keys come in prefix-sharing pairs so that the abstract proof shape maps 1:1 to the concrete one",
                     "node level: one in-process node per shard process (real ChainService, block production and execution; recording stand-ins for p2p/rpc/"
                     "syncer; the Lua VM is replaced by the op-list interpreter of the overlay: set/del write through the real ContractState)",
                     "ProofRoots.tla oddities O4 (an AtomicUpdate that deletes gives up earlier uncommitted roots) and O5 (Stash needs a Commit of the "
                     "same instance) are modelled as coded; trie.Revert (deletes shared nodes by design, not used by the node) is not modelled",
                     "TLC 1.8.0"]
    # 0. the models of part 2 (root life cycle) and part 3 (state queries of the chain service) run beside the others
    big = "" if quick else "_big"
    sq_blocks = 4
    side = {}
    threads = [tlc_thread(side, "roots", [("MC_ProofRoots", "MC_ProofRoots%s.cfg" % big, os.path.join(c.work, "tlc_roots"), 4),
                                          ("MC_ProofRoots", "Gen_ProofRoots%s.cfg" % big, os.path.join(c.work, "tlc_roots"), 4)]),
               tlc_thread(side, "sdb", [("MC_ProofRoots", "Gen_ProofRoots_sdb%s.cfg" % big, os.path.join(c.work, "tlc_sdb"), 4)]),
               tlc_thread(side, "sq", [("MC_StateQuery", "MC_StateQuery%s.cfg" % big, os.path.join(c.work, "tlc_sq"), 4),
                                       ("MC_StateQuery", "Gen_StateQuery%s.cfg" % big, os.path.join(c.work, "tlc_sq"), 4)])]
    # 1. exhaustive design-level checks
    mcs = [("MC_Proof.cfg", "Proof design: Complete, Sound, CodeDeviatesOnlyAsNamed (every trie over 4 keys, both roots)")] if quick else \
          [("MC_Proof_big.cfg", "Proof design, 4-bit keys with a depth-4 pair (height byte wraps), every trie over 5 keys"),
           ("MC_Proof_hist.cfg", "Proof design, three committed roots (transplants between current and historical roots)")]
    for cfg, what in mcs:
        res = vlib.tlc(SPEC_DIR, "MC_Proof", cfg, c.work, timeout=2400)
        c.require_ok(res, what)
    # 2. generation: every Prove step with the table of its forgeries
    gcfg = "Gen_Proof.cfg" if quick else "Gen_Proof_big.cfg"
    gen = vlib.tlc(SPEC_DIR, "MC_Proof", gcfg, c.work, workers=1, timeout=2400)
    c.require_ok(gen, "Proof generation: Prove steps and forgery tables (%s)" % gcfg)
    cases = cases_from(vlib.parse_transitions(gen.out))
    nproofs = sum(len(cs["proofs"]) for cs in cases)
    nforg = sum(len(p["forg"]) for cs in cases for p in cs["proofs"])
    if nproofs < 500 or nforg < 10000:
        raise vlib.Infra("too few cases generated: %d proofs, %d forgeries" % (nproofs, nforg))
    for t in threads:
        t.join()
    for key in ("roots", "sdb", "sq"):
        for r in side.get(key) or [vlib.Infra("TLC thread %s did not report" % key)]:
            if isinstance(r, BaseException):
                raise r if isinstance(r, vlib.Infra) else vlib.Infra("TLC thread %s: %r" % (key, r))
    mc_roots, gen_roots = side["roots"]
    mc_sq, gen_sq = side["sq"]
    gen_sdb = side["sdb"][0]
    c.require_ok(mc_roots, "ProofRoots design: ProofMatchesRequestedRoot, RetainedRootsResolve, Sound over the trie's life cycle (Update/AtomicUpdate "
                           "without Commit, Commit, Stash, SetRoot, LoadCache, Reopen; every retained root x 8 keys x 2 encodings)")
    c.require_ok(gen_roots, "ProofRoots generation: the tree of life-cycle behaviours (%s)" % gen_roots.cfg)
    c.require_ok(gen_sdb, "ProofRoots generation for the StateDB level: blocks (Update; Commit), SetRoot, LoadCache, Reopen (%s)" % gen_sdb.cfg)
    c.require_ok(mc_sq, "StateQuery design: AnswersTheRequestedBlock over every chain (deploy, set, overwrite, delete, create later) and every query")
    c.require_ok(gen_sq, "StateQuery generation: every (behaviour, query) with the expected answer (%s)" % gen_sq.cfg)
    shapes, rnodes = roots_from(gen_roots)
    if len(rnodes) != gen_roots.distinct - 1 or len(rnodes) < 2000 or not shapes:
        raise vlib.Infra("ProofRoots generation: %d states parsed, TLC found %d, %d shape rows" % (len(rnodes), gen_roots.distinct, len(shapes)))
    sshapes, sall = roots_from(gen_sdb)
    snodes = [n for n in sall if statedb_reachable(n)]
    if len(sall) != gen_sdb.distinct - 1 or len(snodes) < 400 or not sshapes:
        raise vlib.Infra("ProofRoots generation (StateDB level): %d states parsed, TLC found %d, %d usable" % (len(sall), gen_sdb.distinct, len(snodes)))
    behs = queries_from(gen_sq, sq_blocks)
    nq = sum(len(b["queries"]) for b in behs)
    if len(behs) < 100 or nq < 5000 or len(set(len(b["queries"]) for b in behs)) != 1:
        raise vlib.Infra("StateQuery generation: %d behaviours, %d queries" % (len(behs), nq))
    fams = families(c.tier, rng, 3)
    walks = gen_walks(rng, 3 if quick else 12, 8 if quick else 14, 5)
    inp = {"h": 3, "families": fams, "background": 2, "cases": cases, "walks": walks, "vals": VALS}
    inpath = os.path.join(c.work, "proof_in.json")
    json.dump(inp, open(inpath, "w"))
    c.exhaustive = True
    c.extra["exhaustive_note"] = ("exhaustive over the abstract generation model: %d committed histories, %d honest proofs (root x 8 query keys x 2 "
                                  "encodings), %d forged messages, each on %d key families at the trie level; walks are sampled" %
                                  (len(cases), nproofs, nforg, len(fams)))

    # 3. trie level
    outpath = os.path.join(c.work, "proof_out.json")
    tracepath = os.path.join(c.work, "proof_trace.ndjson")
    rfams = fams[:4] + fams[-1:] if quick else fams
    rinp = {"h": 3, "families": rfams, "background": 2, "vals": VALS, "shapes": shapes, "nodes": rnodes}
    rinpath = os.path.join(c.work, "roots_in.json")
    json.dump(rinp, open(rinpath, "w"))
    routpath = os.path.join(c.work, "roots_out.json")
    rc, output = vlib.go_test("./pkg/trie/", "^(TestVerifProof|TestVerifProofRoots)$", env={"VERIF_IN": inpath, "VERIF_OUT": outpath, "VERIF_TRACE": tracepath,
                              "VERIF_ROOTS_IN": rinpath, "VERIF_ROOTS_OUT": routpath, "VERIF_SEED": c.seed, "VERIF_TIER": c.tier}, timeout=3000)
    r = c.absorb_go(outpath, output)
    rr = c.absorb_go(routpath, output)
    if rc != 0:
        if not c.violations:
            raise vlib.Infra("trie harness failed:\n" + output[-3000:])
        return      # the harness process died after it had recorded violations of the real code: they are the verdict
    c.extra["trie_counts"] = (r.get("extra") or {}).get("counts", {})
    c.extra["trie_roots_counts"] = (rr.get("extra") or {}).get("counts", {})
    if int(rr.get("evaluations", 0)) < 32 * len(rnodes) and not c.violations:
        raise vlib.Infra("trie life-cycle harness evaluated only %s proofs for %d states" % (rr.get("evaluations"), len(rnodes)))

    # 4. statedb level: the same cases through StateDB.GetAccountAndProof / GetVarAndProof
    sfams = fams if not quick else fams[:4] + fams[-1:]
    sinp = dict(inp, families=sfams, walks=[])
    sinpath = os.path.join(c.work, "proof_sdb_in.json")
    json.dump(sinp, open(sinpath, "w"))
    soutpath = os.path.join(c.work, "proof_sdb_out.json")
    srinp = dict(rinp, nodes=snodes, shapes=sshapes)
    srinpath = os.path.join(c.work, "roots_sdb_in.json")
    json.dump(srinp, open(srinpath, "w"))
    sroutpath = os.path.join(c.work, "roots_sdb_out.json")
    rc, output = vlib.go_test("./state/statedb/", "^(TestVerifProofStateDB|TestVerifProofRootsStateDB)$", env={"VERIF_IN": sinpath, "VERIF_OUT": soutpath,
                              "VERIF_ROOTS_IN": srinpath, "VERIF_ROOTS_OUT": sroutpath, "VERIF_SEED": c.seed, "VERIF_TIER": c.tier}, timeout=3000)
    r2 = c.absorb_go(soutpath, output)
    rr2 = c.absorb_go(sroutpath, output)
    if rc != 0:
        if not c.violations:
            raise vlib.Infra("statedb harness failed:\n" + output[-3000:])
        return
    c.extra["statedb_counts"] = (r2.get("extra") or {}).get("counts", {})
    c.extra["statedb_roots_counts"] = (rr2.get("extra") or {}).get("counts", {})

    # 4b. node level: every generated (behaviour, query) on an in-process node, through the real query handler
    qinp = {"blocks": sq_blocks, "behaviours": behs}
    qinpath = os.path.join(c.work, "statequery_in.json")
    json.dump(qinp, open(qinpath, "w"))
    nsh = 6 if quick else 12
    qouts = [os.path.join(c.work, "statequery_out_%d.json" % i) for i in range(nsh)]
    rs = vlib.go_test_sharded("./internal/verifnode/", "^TestVerifStateQuery$", nsh,
                              lambda i: {"VERIF_IN": qinpath, "VERIF_OUT": qouts[i], "VERIF_SEED": c.seed, "VERIF_TIER": c.tier}, timeout=2400)
    nev = 0
    for i, (rc, out) in enumerate(rs):
        rq = c.absorb_go(qouts[i], out)
        nev += int(rq.get("evaluations", 0))
        if rc != 0 and not c.violations:
            raise vlib.Infra("state query harness shard %d failed:\n%s" % (i, "\n".join(l for l in out.splitlines() if not l.startswith('{"level'))[-3000:]))
    if nev < nq and not c.violations:
        raise vlib.Infra("state query harness evaluated %d of %d queries" % (nev, nq))
    c.extra["exhaustive_note"] += ("; life cycle: %d states of the generated tree (StateDB level: %d states of its own tree), every retained root x 8 keys x 2 encodings, "
                                   "each state without live cache and with one; node level: %d behaviours x %d queries" % (
                                       len(rnodes), len(snodes), len(behs), len(behs[0]["queries"])))

    # 5. direction B: the recorded walks validated by TLC against ProofTrace.tla
    lines = [l for l in open(tracepath) if l.strip()]
    ok, matched, total, tres = vlib.validate_trace(SPEC_DIR, "ProofTrace", "ProofTrace.cfg", c.work, tracepath, timeout=2400)
    c.add_tlc(tres, "trace validation of recorded proof walks (ProofTrace)")
    if not ok:
        ev = json.loads(lines[matched]) if matched < len(lines) else {}
        prev = json.loads(lines[matched - 1]) if 0 < matched <= len(lines) else None
        c.violation(trace_sig(ev, prev), {"event_index": matched, "event": lines[matched] if matched < len(lines) else None,
                                          "context": lines[max(0, matched - 6):matched]},
                    "ProofTrace rejects the recorded execution at event %d of %d: %s (after %s)" % (
                        matched, total, lines[matched].strip()[:300] if matched < len(lines) else "", lines[matched - 1].strip()[:200] if matched else ""))
    else:
        c.traces_validated = len(walks) * len(fams)
        # binding self-tests: (a) a Prove answer with an altered path length, (b) an honest proof reported as rejected — both must be refused
        idx = [i for i, l in enumerate(lines) if '"ev":"Prove"' in l]
        i = idx[rng.randrange(len(idx))]
        e = json.loads(lines[i]); e["len"] = e["len"] + 1
        bad = os.path.join(c.work, "proof_trace_bad1.ndjson")
        open(bad, "w").writelines(lines[:i] + [json.dumps(e) + "\n"] + lines[i + 1:i + 30])
        ok2, m2, _, _ = vlib.validate_trace(SPEC_DIR, "ProofTrace", "ProofTrace.cfg", c.work, bad, timeout=2400)
        if ok2 or m2 != i:
            raise vlib.Infra("binding self-test failed: altered Prove event %d not rejected there (accepted=%s, stopped at %d)" % (i, ok2, m2))
        hon = [k for k in idx if '"incl":true' in lines[k] and k + 1 < len(lines) and '"ev":"Verify"' in lines[k + 1] and '"acc":true' in lines[k + 1]]
        k = hon[rng.randrange(len(hon))]
        bad = os.path.join(c.work, "proof_trace_bad2.ndjson")
        open(bad, "w").writelines(lines[:k + 1] + ['{"ev":"Verify","acc":false}\n'] + lines[k + 2:k + 30])
        ok3, m3, _, _ = vlib.validate_trace(SPEC_DIR, "ProofTrace", "ProofTrace.cfg", c.work, bad, timeout=2400)
        if ok3 or m3 != k + 1:
            raise vlib.Infra("binding self-test failed: rejected honest proof at event %d not refused there (accepted=%s, stopped at %d)" % (k + 1, ok3, m3))
        c.notes.append("self-test: altered Prove answer rejected at event %d, honest proof reported as rejected refused at event %d" % (m2, m3))
    for lvl, key in (("trie life cycle", "trie_roots_counts"), ("statedb life cycle", "statedb_roots_counts")):
        n = {k: v for k, v in c.extra[key].items() if k.startswith("note:")}
        if n:
            c.notes.append("%s, informational counters: %s" % (lvl, json.dumps(n, sort_keys=True)))
    for lvl, cnt in (("trie", c.extra["trie_counts"]), ("statedb", c.extra["statedb_counts"])):
        vs_coded = sum(v for k, v in cnt.items() if k.startswith("note:real-vs-coded-model"))
        vs_design = sum(v for k, v in cnt.items() if k.startswith("note:real-vs-design-model"))
        c.notes.append("%s level: the real verifier's verdict on the forged messages differs from the as-coded model (oddities O1, O2) in %d cases, "
                       "from the design model in %d cases" % (lvl, vs_coded, vs_design))
        n = {k: v for k, v in cnt.items() if k.startswith("note:") and "-model:" not in k}
        if n:
            c.notes.append("%s level, informational counters: %s" % (lvl, json.dumps(n, sort_keys=True)))
