import random
import vlib
from checks import ledger_common as lc

PID = "C02"
LEVEL = "model_checking"
RULE = ("a case is one executed transaction or one block; every produced block is re-executed (a) transaction by transaction by the real executor on a "
        "parallel block state, (b) by verify-only runs and (c) by the connecting run of a fresh validator; the whole run is repeated in separate "
        "processes with GOMAXPROCS 1, 2 and 16 (fresh map seeds) and the per-block digests (block id, state root, receipts bytes) are compared")
MANIFEST = dict(category=LEVEL, design_ref="DESIGN.md §5 C02",
    text="Ledger.tla models both execution modes with one set of transaction actions: the producer skips a rejected transaction, the validator treats "
         "it as block failure; TLC checks the design exhaustively. On the real code every block produced by the real production path (pool -> "
         "GatherTXs -> executor in BlockFactory mode) must be reproduced byte-identically (state root, receipts root, stored receipts bytes, full "
         "world-state dump) by a transaction-by-transaction re-execution, by repeated verify-only executions and by the connecting execution of a "
         "fresh validator node (ChainService mode); the whole run is repeated in three OS processes with GOMAXPROCS 1/2/16 and the per-block digests "
         "are compared across processes. Blocks mix several governance transactions touching the same tallies and the voting-power ranking.",
    note="map-iteration and goroutine-schedule nondeterminism is SAMPLED by process repetition (Go offers no control over either); VM stub; in-memory store",
    technique="TLA+/TLC model of producer/validator execution + differential re-execution of every produced block across execution modes and processes")


def run(c):
    rng = random.Random(c.seed)
    c.rule = RULE
    c.assumptions = ["schedule/map-order nondeterminism sampled by repetition in 3 processes", "VM stub", "TLC 1.8.0"]
    lc.design_checks(c)
    n, depth = (24, 18) if c.tier == "quick" else (300, 26)
    behs = lc.handmade() + lc.simulate(c, n, depth, c.seed)
    nsh = 4 if c.tier == "quick" else 6
    all_digests = []
    # the producer run (GOMAXPROCS 1) ships its blocks; the other processes only re-execute exactly those blocks
    d, traces = lc.run_ledger(c, PID, behs, nshards=nsh, validators=2 if c.tier == "quick" else 4, gomaxprocs="1", tag="g1", blocks_out=True)
    all_digests.append(("1", d))
    for gmp in ("2", "16"):
        d, _ = lc.run_ledger(c, PID, behs, nshards=nsh, validators=2 if c.tier == "quick" else 4, gomaxprocs=gmp, tag="g" + gmp, blocks_in="g1")
        all_digests.append((gmp, d))
    base_g, base = all_digests[0]
    for g, d in all_digests[1:]:
        # a digest that only one side has is not a difference: the producing process ended that behaviour early (a violation of
        # another property's oracle, reported by that property's check) and shipped fewer blocks / no final state
        both = sorted(set(base) & set(d))
        only = sorted(set(base) ^ set(d))
        if only:
            c.notes.append("GOMAXPROCS %s vs %s: %d digests exist on one side only (behaviour ended early in the producing process), e.g. %s" % (base_g, g, len(only), only[0]))
        if len(both) < 0.7 * max(len(base), len(d), 1):
            raise vlib.Infra("too few digests to compare between processes: %d of %d" % (len(both), max(len(base), len(d))))
        for k in both:
            c.count("xproc|" + k + "|" + g)
            if base.get(k) != d.get(k):
                c.violation({"kind": "cross-process-digest"}, {"block": k, "gomaxprocs": [base_g, g], "digests": [base.get(k), d.get(k)]},
                            "block %s (behaviour/regime/height) executed in two processes (GOMAXPROCS %s vs %s) has different digests: %s vs %s" % (k, base_g, g, base.get(k), d.get(k)))
                break
    c.extra["cross_process_blocks_compared"] = len(base)
