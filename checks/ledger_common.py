"""Shared by C01 / C02 / C03 / C04: behaviours of Ledger.tla driven through the real pool, producer, executor, validator."""
import json, os, random, re, shutil
import vlib

SPEC_DIR = os.path.join(vlib.SPEC, "ledger")

KINDS = {
    "C01": {"supply-changed", "tx-effect-shape", "panic"},
    "C02": {"nondeterministic-root", "nondeterministic-receipts", "validator-rejects-produced-block", "receipts-differ",
            "state-differs-producer-validator", "own-block-rejected", "cross-process-digest", "panic"},
    "C03": {"tx-effect-shape", "no-receipt", "panic"},
    "C04": {"unauthorised-tx-executed", "tx-executed-twice", "nonce-not-sequential", "panic"},
}

BIG = 1 << 40
REGIMES = [
    dict(name="private-nocoinbase-v0", public=False, coinbase=False, hardfork=[BIG, BIG, BIG, BIG], voting=False),
    dict(name="public-coinbase-latest", public=True, coinbase=True, hardfork=[0, 0, 0, 0], voting=True),
    dict(name="public-nocoinbase-v3", public=True, coinbase=False, hardfork=[0, 0, BIG, BIG], voting=False),
    dict(name="private-coinbase-v2", public=False, coinbase=True, hardfork=[0, BIG, BIG, BIG], voting=True),
    dict(name="public-coinbase-forks-at-2-3", public=True, coinbase=True, hardfork=[2, 2, 3, 3], voting=False),
    dict(name="public-nocoinbase-latest", public=True, coinbase=False, hardfork=[0, 0, 0, 0], voting=True),
]


def templates():
    """the template pool PoolGen of MC_Ledger.tla, read from the module text (single source of truth)"""
    txt = open(os.path.join(SPEC_DIR, "MC_Ledger.tla")).read()
    out = []
    for m in re.finditer(r'T\("(\w+)",\s*"(\w+)",\s*"(\w+)",\s*"(\w+)",\s*"(\w+)",\s*"(\w+)",\s*(\d+),\s*"(\w*)"\)', txt):
        out.append(dict(tid=m.group(1), kind=m.group(2), **{"from": m.group(3)}, signer=m.group(4), chain=m.group(5),
                        to=m.group(6), amt=int(m.group(7)), ops=m.group(8)))
    return out


def design_checks(c):
    cfgs = [("MC_Ledger.cfg", "Ledger design without coinbase: conservation, trichotomy, authorisation"),
            ("MC_Ledger_cb.cfg", "Ledger design with coinbase")]
    if c.tier == "quick":
        cfgs = [cfgs[c.seed % 2]]        # one of the two per quick run (they differ only in where the fees go)
    else:
        cfgs.append(("MC_Ledger_big.cfg", "Ledger design, 3 transactions per block"))
    # three blocks (register, hand over, use) of name-sender transactions; calls whose code pays the contract's balance out
    cfgs.append(("MC_Ledger_names.cfg", "Ledger design, name senders over three blocks: NameSenderNeedsOwnerKey"))
    cfgs.append(("MC_Ledger_drain.cfg", "Ledger design, calls that drain the called contract (fee payer left without coin)"))
    import concurrent.futures
    def one(x):                          # side by side, each in its own scratch copy of the specification
        return vlib.tlc(SPEC_DIR, "MC_Ledger", x[0], os.path.join(c.work, "design_" + x[0][:-4]), workers=4, timeout=900)
    with concurrent.futures.ThreadPoolExecutor(max_workers=len(cfgs)) as ex:
        results = list(ex.map(one, cfgs))
    for (cfg, what), res in zip(cfgs, results):
        c.require_ok(res, what)


def simulate(c, num, depth, seed):
    """behaviours by TLC simulation of Sim_Ledger.cfg -> lists of steps"""
    pref = os.path.join(c.work, "simbeh")
    os.makedirs(pref, exist_ok=True)
    res = vlib.tlc(SPEC_DIR, "MC_Ledger", "Sim_Ledger.cfg", c.work, workers=1, timeout=900,
                   args=["-simulate", "file=%s/b,num=%d" % (pref, num), "-depth", str(depth), "-seed", str(seed)])
    if "Error:" in res.out and "violated" in res.out:
        raise vlib.Infra("simulation found a design violation:\n" + res.out[-3000:])
    traces = vlib.parse_sim_traces(pref, "b")
    shutil.rmtree(pref, ignore_errors=True)
    behs = []
    for states in traces:
        steps = []
        for st in states[1:]:
            a = st["lastAct"]
            if a["name"] == "Tx":
                steps.append(dict(name="Tx", tid=a["tx"]["tid"], how=a["how"]))
            else:
                steps.append(dict(name=a["name"], tid="", how=""))
        # close an open block
        if any(s["name"] == "BeginBlock" for s in steps):
            opened = False
            for s in steps:
                if s["name"] == "BeginBlock":
                    opened = True
                elif s["name"] == "EndBlock":
                    opened = False
            if opened:
                steps.append(dict(name="EndBlock", tid="", how=""))
            behs.append(steps)
    if len(behs) < max(3, num // 2):
        raise vlib.Infra("simulation produced only %d behaviours\n%s" % (len(behs), res.out[-1500:]))
    c.configs.append(dict(cfg="Sim_Ledger.cfg", what="behaviour generation by simulation", behaviours=len(behs), depth=depth))
    return behs


def handmade():
    """a few fixed behaviours that make sure every template is exercised on the happy path (deploy before call, stake, vault...)"""
    B, E = dict(name="BeginBlock", tid="", how=""), dict(name="EndBlock", tid="", how="")
    def tx(tid, how="next"):
        return dict(name="Tx", tid=tid, how=how)
    h = [
        [B, tx("deploy"), tx("xfer"), tx("stake"), tx("vault"), E, B, tx("callok"), tx("callfail"), tx("name"), tx("xfer3"), tx("vote1"), E,
         B, tx("callfail3"), tx("stake3"), tx("fdok"), tx("fdfail"), tx("fdfail", "replay"), tx("fdfail3"), tx("xfer", "replay"), tx("forged"), tx("foreign"), tx("over"), tx("callsys"), tx("fdsys"), E, B, tx("xfercb"), tx("unstake"), tx("name3"), tx("fdfail", "replay"), tx("callfail", "replay"), tx("fdok", "replay"), E],
        [B, tx("xfer"), tx("xfer", "dup"), tx("xfer", "gap"), tx("stakelow"), tx("xferself"), tx("name3"), E, B, tx("xfer"), tx("xfer", "replay"), tx("forged3"), tx("setownself"), E, B, tx("setownoth"), E],
        [B, tx("vault"), tx("stake"), tx("stake3"), tx("setownoth"), E, B, tx("vote1"), tx("vote3"), tx("vote1"), tx("name"), E, B, tx("setownself"), E, B, tx("deploy"), tx("callfail"), tx("callok"), tx("callok", "replay"), E, B, tx("callfail3"), tx("callfail", "gap"), E],
    ]
    # name senders (the name n1 as the sender ACCOUNT of a transaction).  Block 1: u2 registers the name (using it in the
    # same block is too early); 2: the owner uses it (plain, duplicate/gap nonce, a failing call, bound to another chain,
    # with another account's nonce), strangers sign for it; 3: the name is handed over to u1 and, in the SAME block, the
    # previous owner u2 (still the owner in the state the block starts from), the new holder u1 and a stranger u3 sign for
    # it, with the nonce of either party; 4 (the handover is committed): the same transactions again - now u1 is the owner
    # and u2 the previous owner; 5: u1 hands it back and uses it in the same block; 6: the name itself (signed by its owner
    # u2) sends the v1updateName that gives it to u3, then u2 tries to hand it to u1 as well (that transaction stays in the
    # pool and takes effect once u2 owns the name again); 7, 8, 9: u3 owns it, hands it to u2, the pending handover to u1.
    names = [B, tx("name"), tx("deploy"), tx("nxfer2"), E,
             B, tx("nxfer2"), tx("nxfer2", "dup"), tx("nxfer2", "gap"), tx("ncall2"), tx("nxferfor"), tx("nxfer1"), tx("nxfer3"), tx("nxfer2as1"), tx("nxfer1as2"), tx("nxfer2", "replay"), E,
             B, tx("xfer"), tx("nameupd"), tx("nxfer2"), tx("nxfer1"), tx("nxfer3"), tx("nxfer2as1"), tx("nxfer1as2"), tx("nxfer3as2"), tx("ncall2"), E,
             B, tx("nxfer2"), tx("nxfer1"), tx("nxfer2as1"), tx("nxfer1as2"), tx("nxfer3as2"), tx("nameupd"), tx("nameupdbk", "gap"), tx("nxfer1", "dup"), tx("nxfer2", "replay"), E,
             B, tx("nxfer1"), tx("nameupdbk"), tx("nxfer1"), tx("nxfer2"), tx("nxfer3"), E,
             B, tx("nxfer2"), tx("nameupdn"), tx("nxfer2"), tx("nxfer3"), tx("nameupd"), E,
             B, tx("nxfer3"), tx("nxfer2"), tx("nxfer3as2"), tx("nameupd3"), tx("nxfer3"), tx("nxfer3", "replay"), E,
             B, tx("nxfer2"), tx("nxfer3"), tx("nxfer2as1"), tx("nxfer1"), E,
             B, tx("nxfer1"), tx("nxfer2"), tx("nxfer3"), tx("nxfer1as2"), tx("nxfer2as1"), E]
    # the harness runs behaviour i under regime i mod len(REGIMES): the first scenario (every transaction kind, failures,
    # replays, system failures) goes first, once per regime; then the name-sender scenario and the draining calls, once per regime each
    # calls whose code pays the contract's balance out to the caller: fee-delegated (the contract, which pays the fee, is
    # left with a few aer), plain, carrying an amount, in the block that brought the contract new coin, replayed
    drain = [B, tx("deploy"), E, B, tx("callok"), E, B, tx("fddrain"), E, B, tx("callok"), tx("calldrain"), E, B, tx("fddrain3"), tx("fddrain3", "dup"), E,
             B, tx("callok"), E, B, tx("calldrain2"), tx("fddrain"), E, B, tx("callok"), tx("fddrain3"), tx("fddrain", "replay"), tx("calldrain2", "replay"), E]
    return [h[0]] * len(REGIMES) + [names] * len(REGIMES) + [drain] * len(REGIMES) + h[1:]


def run_ledger(c, pid, behs, nshards=6, validators=2, gomaxprocs=None, timeout=1800, tag="L", blocks_out=False, blocks_in=None):
    inp = dict(templates=templates(), behaviours=behs, regimes=REGIMES, validators=validators)
    inpath = os.path.join(c.work, "ledger_in_%s.json" % tag)
    json.dump(inp, open(inpath, "w"))
    outs = [os.path.join(c.work, "ledger_out_%s_%d.json" % (tag, i)) for i in range(nshards)]
    traces = [os.path.join(c.work, "ledger_trace_%s_%d.ndjson" % (tag, i)) for i in range(nshards)]

    def env(i):
        e = {"VERIF_IN": inpath, "VERIF_OUT": outs[i], "VERIF_TRACE": traces[i], "VERIF_SEED": c.seed, "VERIF_TIER": c.tier}
        if gomaxprocs:
            e["GOMAXPROCS"] = gomaxprocs
        if blocks_out:
            e["VERIF_BLOCKS_OUT"] = os.path.join(c.work, "ledger_blocks_%s_%d.json" % (tag, i))
        if blocks_in:
            e["VERIF_BLOCKS_IN"] = os.path.join(c.work, "ledger_blocks_%s_%d.json" % (blocks_in, i))
        return e
    rs = vlib.go_test_sharded("./internal/verifnode/", "^TestVerifLedger$", nshards, env, timeout=timeout)
    digests = {}
    kinds = KINDS[pid]
    for i, (rc, out) in enumerate(rs):
        if os.path.exists(outs[i]):
            raw = json.load(open(outs[i]))
            digests.update((raw.get("extra") or {}).get("block_digests") or {})
            other = [v for v in raw.get("violations") or [] if v.get("sig", {}).get("kind") not in kinds]
            raw["violations"] = [v for v in raw.get("violations") or [] if v.get("sig", {}).get("kind") in kinds]
            raw["notes"] = (raw.get("notes") or []) + ["(belongs to another property) " + v["text"][:300] for v in other[:5]]
            json.dump(raw, open(outs[i], "w"))
        r = c.absorb_go(outs[i], out)
        if rc != 0 and not r.get("violations"):
            raise vlib.Infra("ledger harness shard %d failed:\n%s" % (i, "\n".join(l for l in out.splitlines() if not l.startswith('{"level'))[-3000:]))
    return digests, [t for t in traces if os.path.exists(t)]


def validate_traces(c, traces, rng):
    """direction B: the recorded per-transaction effect shapes are validated by TLC against LedgerTrace.tla"""
    allp = os.path.join(c.work, "ledger_trace_all.ndjson")
    with open(allp, "w") as f:
        for t in traces:
            f.write(open(t).read())
    lines = [l for l in open(allp) if l.strip()]
    if not lines:
        return
    ok, matched, total, tres = vlib.validate_trace(SPEC_DIR, "LedgerTrace", "LedgerTrace.cfg", c.work, allp, timeout=900)
    c.add_tlc(tres, "trace validation of per-transaction effect shapes (LedgerTrace)")
    if not ok:
        c.violation({"kind": "trace-rejected"}, {"event_index": matched, "event": lines[matched] if matched < len(lines) else None,
                                                 "context": lines[max(0, matched - 4):matched]},
                    "LedgerTrace rejects the recorded execution at event %d of %d: %s" % (matched, total, lines[matched][:400] if matched < len(lines) else ""))
        return
    c.traces_validated += sum(1 for l in lines if '"Reset"' in l)
    # binding self-test: turn one successful transfer into a money-creating one
    idx = [i for i, l in enumerate(lines) if '"class":"success"' in l and '"a":-1' in l]
    if idx:
        i = idx[rng.randrange(len(idx))]
        e = json.loads(lines[i])
        e["shape"] = [s for s in e["shape"] if s["a"] != -1 or s["f"] != 0] or e["shape"][:1]
        for s in e["shape"]:
            if s["a"] == -1:
                s["a"] = 0
        lines2 = list(lines)
        lines2[i] = json.dumps(e) + "\n"
        bad = os.path.join(c.work, "ledger_trace_bad.ndjson")
        open(bad, "w").writelines(lines2)
        ok2, m2, _, _ = vlib.validate_trace(SPEC_DIR, "LedgerTrace", "LedgerTrace.cfg", c.work, bad, timeout=900)
        if ok2:
            raise vlib.Infra("binding self-test failed: a trace with a money-creating transfer was accepted")
        c.notes.append("self-test: corrupted trace rejected at event %d (corrupted event %d)" % (m2, i))
