"""Shared by C04 / C13: behaviours of spec/node/NodePool.tla (chain service + transaction pool + local production)
replayed on a real node with the real pool (harness/internal/verifnode/verif_nodepool_test.go).

    run_nodepool(c, pid)      c: vlib.Check, pid: "C04" or "C13" (selects the violation kinds that belong to the property)
"""
import json, os, random, shutil
import vlib

SPEC_DIR = os.path.join(vlib.SPEC, "node")

# violation kinds raised by the harness, by the property whose statement they contradict; kinds of other properties
# (wrong-best, incoherent, diverges-from-spec: C05/C07) are only noted
KINDS = {
    "C04": {"tx-executed-twice", "nonce-not-sequential", "produced-block-invalid", "production-failed", "own-block-rejected",
            "validator-rejects-main-chain", "main-chain-tx-index", "state-nonce-differs", "produced-block-differs",
            "panic", "node-exit"},
    "C13": {"stale-pooled", "pooled-tx-on-main-chain", "offered-run-wrong", "duplicate-pooled", "pool-counters",
            "returned-tx-missing", "pool-differs-from-spec", "panic", "node-exit"},
}


def _tree_of(out, name):
    """the constants of a TLC run, printed by the ASSUME of MC_NodePool.tla"""
    for line in out.splitlines():
        if line.startswith('"TREE|'):
            v = vlib.parse_value(line[6:-1].replace('\\"', '"').replace("\\\\", "\\"))
            return dict(name=name, blocks=v["blocks"], g="g", parent=v["parent"],
                        txs={b: (x if isinstance(x, list) else []) for b, x in v["btxs"].items()},
                        acc=v["acc"], nonce=v["nonce"], accounts=v["accounts"])
    raise vlib.Infra("TLC did not print the constants of the run:\n" + out[-2000:])


def _rec(x):
    return x if isinstance(x, dict) else {}


def _step(act, st):
    obs = st["obs"]
    return dict(name=act["name"], tx=act.get("tx", ""), blk=act.get("blk", ""), res=act.get("res", ""),
                txs=sorted(act.get("txs", []) or []), returned=sorted(act.get("returned", []) or []), told=sorted(act.get("told", []) or []),
                dst=dict(best=st["best"], no=obs["no"], nonce=_rec(st["nonce"]), pool=sorted(st["pool"]), ready=sorted(obs["ready"]),
                         maintx=_rec(obs["maintx"])))


def design_configs(tier):
    cfgs = [("MC_NodePool.cfg", "NodePool design, tree N1 (two branches of length 3 and 4, shared and conflicting txs), 2 validity assignments, 1 own block")]
    if tier == "thorough":
        cfgs += [("MC_NodePool_big.cfg", "NodePool design, tree N1, 4 validity assignments, 7 submittable txs, 2 own blocks"),
                 ("MC_NodePool_N2.cfg", "NodePool design, tree N2 (three branches), 3 validity assignments")]
    return cfgs


def design_check(c, cfg, what):
    c.require_ok(vlib.tlc(SPEC_DIR, "MC_NodePool", cfg, c.work, timeout=2400), what)


def edge_cover(c, rng, max_paths=None):
    """every transition of the generation model (tree N0) on at least one behaviour"""
    gen = vlib.tlc(SPEC_DIR, "MC_NodePool", "Gen_NodePool.cfg", c.work, workers=4, timeout=1500)   # (PrintT lines stay whole)
    c.require_ok(gen, "NodePool transition enumeration over tree N0")
    trs = []
    for line in gen.out.splitlines():
        if line.startswith('"TR|'):
            v = vlib.parse_value(line[4:-1].replace('\\"', '"').replace("\\\\", "\\"))
            trs.append((v[0], v[1], v[2]))
    if len(trs) < 1000 or abs(gen.generated - len(trs)) > 8:
        raise vlib.Infra("transitions printed: %d, states generated: %d" % (len(trs), gen.generated))
    trs.sort(key=lambda t: json.dumps(t, sort_keys=True))      # several TLC workers: the print order varies, the cover must not
    tree = _tree_of(gen.out, "N0")

    def is_init(s):
        return s["arrived"] == [] and s["prod"] == [] and s["pool"] == [] and s["store"] == ["g"] and not any(_rec(s["subs"]).values())
    g = vlib.graph_from_transitions(trs, is_init)
    paths = vlib.edge_cover_paths(g, rng=rng)
    total = len(paths)
    if max_paths and len(paths) > max_paths:
        # a sample: half of it from the paths on which chain and pool really meet (a reorganisation that hands
        # transactions back, a roll-forward that fails half way, production after a reorganisation), half from the rest
        def meets(p):
            acts = [g.out[s][k][1]["act"] for (s, k) in p]
            for i, a in enumerate(acts):
                if a.get("res") == "reorg" and a.get("returned"):
                    return True
                if a.get("res") == "reorgfail" and a.get("told"):
                    return True
                if a["name"] == "Produce" and any(x.get("res") == "reorg" for x in acts[:i]):
                    return True
            return False
        rng.shuffle(paths)
        hot = [p for p in paths if meets(p)]
        rest = [p for p in paths if not meets(p)]
        paths = hot[:max_paths // 2]
        paths += rest[:max_paths - len(paths)]
    behs = []
    for p in paths:
        steps = []
        for (s, k) in p:
            d, a = g.out[s][k]
            steps.append(_step(a["act"], dict(g.states[d], obs=a["obs"])))
        behs.append(dict(tree=0, valid=g.states[p[0][0]]["valid"], steps=steps))
    return tree, behs, len(trs), len(g.states), total


def simulate(c, cfg, treename, tree_index, num, depth, seed):
    """random behaviours of a larger configuration (TLC -simulate); the invariants are checked on the way"""
    pref = os.path.join(c.work, "npsim_" + treename)
    shutil.rmtree(pref, ignore_errors=True)
    os.makedirs(pref)
    res = vlib.tlc(SPEC_DIR, "MC_NodePool", cfg, c.work, workers=1, timeout=1500,
                   args=["-simulate", "file=%s/b,num=%d" % (pref, num), "-depth", str(depth), "-seed", str(seed)])
    if "Error:" in res.out:
        raise vlib.Infra("simulation of %s did not come out clean:\n%s" % (cfg, res.out[-3000:]))
    traces = vlib.parse_sim_traces(pref, "b")
    shutil.rmtree(pref, ignore_errors=True)
    behs = []
    for states in traces:
        steps = [_step(st["lastAct"], st) for st in states[1:]]
        # a behaviour is worth a node start only if something meets something: a reorganisation or a production
        if any(s["res"] in ("reorg", "reorgfail") or s["name"] == "Produce" for s in steps):
            behs.append(dict(tree=tree_index, valid=states[0]["valid"], steps=steps))
    if len(behs) < max(3, num // 3):
        raise vlib.Infra("simulation produced only %d behaviours\n%s" % (len(behs), res.out[-1500:]))
    c.configs.append(dict(cfg=cfg, what="behaviour generation by simulation over tree %s" % treename, behaviours=len(behs), depth=depth))
    return _tree_of(res.out, treename), behs


def replay(c, pid, trees, behs, nshards=24, timeout=1500, tag="np"):
    kinds = KINDS[pid]
    inpath = os.path.join(c.work, "%s_in.json" % tag)
    json.dump(dict(trees=trees, behaviours=behs), open(inpath, "w"))
    outs = [os.path.join(c.work, "%s_out_%d.json" % (tag, i)) for i in range(nshards)]

    def env(i):
        return {"VERIF_IN": inpath, "VERIF_OUT": outs[i], "VERIF_SEED": c.seed, "VERIF_TIER": c.tier, "GOMAXPROCS": "2"}
    rs = vlib.go_test_sharded("./internal/verifnode/", "^TestVerifNodePool$", nshards, env, timeout=timeout)
    for i, (rc, out) in enumerate(rs):
        if rc != 0 and "does not come to rest" in out and "future: timeout" in out:
            # the node's actors did not answer within their (fixed) timeouts: a machine that is far over-committed while
            # dozens of node processes start at once. Not a verdict either way: that shard runs once more, on its own.
            for ext in ("", ".progress"):
                if os.path.exists(outs[i] + ext):
                    os.remove(outs[i] + ext)
            rc, out = vlib.go_test("./internal/verifnode/", "^TestVerifNodePool$", env=dict(env(i), VERIF_SHARD="%d/%d" % (i, nshards)), timeout=timeout)
            c.notes.append("nodepool shard %d repeated alone after an actor timeout at node start" % i)
        if os.path.exists(outs[i]):
            try:
                raw = json.load(open(outs[i]))
                other = [v for v in raw.get("violations") or [] if v.get("sig", {}).get("kind") not in kinds]
                raw["violations"] = [v for v in raw.get("violations") or [] if v.get("sig", {}).get("kind") in kinds]
                raw["notes"] = (raw.get("notes") or []) + ["(belongs to another property) " + v["text"][:300] for v in other[:5]]
                json.dump(raw, open(outs[i], "w"))
            except ValueError:
                pass
        if rc != 0 and not os.path.exists(outs[i]) and os.path.exists(outs[i] + ".progress"):
            # the harness process died inside the node (a logger.Fatal / a panic in one of its goroutines ends the node):
            # attribute it to the behaviour being replayed and confirm by running exactly that behaviour again
            pr = json.load(open(outs[i] + ".progress"))
            again = os.path.join(c.work, "%s_again_%d.json" % (tag, i))
            e = dict(env(i), VERIF_OUT=again, VERIF_ONLY=pr["behaviour"], VERIF_NP_SALT=i)
            rc2, out2 = vlib.go_test("./internal/verifnode/", "^TestVerifNodePool$", env=e, timeout=300)
            if rc2 != 0 and not os.path.exists(again) and os.path.exists(again + ".progress") and \
                    json.load(open(again + ".progress"))["trail"] == pr["trail"]:
                tail = [l for l in out2.splitlines() if '"level":"fatal"' in l or l.startswith("panic")][-3:]
                c.violation({"kind": "node-exit", "after": pr["trail"].split(",")[-1], "cause": ""},
                            {"tree": trees[behs[pr["behaviour"]]["tree"]], "behaviour": behs[pr["behaviour"]], "died_after": pr["trail"]},
                            "the node process terminates while handling the last step of [%s] (valid=%s): %s" % (
                                pr["trail"], behs[pr["behaviour"]]["valid"], " | ".join(tail)[:600]))
                continue
            raise vlib.Infra("nodepool harness shard %d died and the death did not reproduce:\n%s" % (i, out[-2000:]))
        r = c.absorb_go(outs[i], out)
        if rc != 0 and not r.get("violations"):
            raise vlib.Infra("nodepool harness shard %d failed:\n%s" % (
                i, "\n".join(l for l in out.splitlines() if not l.startswith('{"level'))[-3000:]))
    c.traces_validated += len(behs)


def run_nodepool(c, pid, quick_cover=220, quick_sim=90):
    """TLC design checks of NodePool.tla + replay of its behaviours on the real node; violations of kinds KINDS[pid]
    are reported through c.violation (by absorb_go), everything else is noted.
    quick_cover / quick_sim: number of edge-cover / simulated behaviours replayed in the quick tier (C13 runs fewer: the
    composition is the last part of a check that is already long; C04 uses the defaults)."""
    import time, concurrent.futures
    t0 = time.time()
    rng = random.Random(c.seed * 7919 + 17)
    quick = c.tier == "quick"
    sims = [("Sim_NodePool.cfg", "N1", quick_sim if quick else 700, 16)]
    if not quick:
        sims.append(("Sim_NodePool_N2.cfg", "N2", 500, 17))

    # the TLC runs are independent (each in a work directory of its own): run them side by side
    class Sub:          # a Check-like collector per thread, merged afterwards in a fixed order
        def __init__(self, name):
            self.work, self.tier, self.seed = os.path.join(c.work, name), c.tier, c.seed
            self.configs, self.states, self.transitions, self.notes = [], 0, 0, []
        add_tlc = vlib.Check.add_tlc
        require_ok = vlib.Check.require_ok
    designs = design_configs(c.tier)
    dsubs = [Sub("tlc_design%d" % i) for i in range(len(designs))]
    gsub = Sub("tlc_gen")
    ssubs = [Sub("tlc_sim%d" % i) for i in range(len(sims))]
    subs = dsubs + [gsub] + ssubs
    with concurrent.futures.ThreadPoolExecutor(max_workers=len(subs)) as ex:
        f_designs = [ex.submit(design_check, dsubs[i], cfg, what) for i, (cfg, what) in enumerate(designs)]
        f_gen = ex.submit(edge_cover, gsub, rng, quick_cover if quick else 1600)
        f_sims = [ex.submit(simulate, ssubs[i], cfg, tn, 1 + i, num, depth, c.seed) for i, (cfg, tn, num, depth) in enumerate(sims)]
        for f in f_designs:
            f.result()
        tree0, cover, ntr, nst, total = f_gen.result()
        simres = [f.result() for f in f_sims]
    for s in subs:
        c.configs += s.configs
        c.states += s.states
        c.transitions += s.transitions
    c.notes.append("NodePool tree N0: %d transitions, %d states, edge cover %d behaviours (%d replayed)" % (ntr, nst, total, len(cover)))
    trees, behs = [tree0], list(cover)
    for (cfg, tn, num, depth), (t, b) in zip(sims, simres):
        trees.append(t)
        behs += b
        c.notes.append("NodePool tree %s: %d simulated behaviours" % (tn, len(b)))
    rng.shuffle(behs)          # spread long and short behaviours over the shards
    t2 = time.time()
    replay(c, pid, trees, behs, nshards=24 if quick else 32, timeout=2400)
    c.notes.append("NodePool wall: TLC (design checks, enumeration, simulation side by side) %.0fs, build+replay of %d behaviours %.0fs" % (
        t2 - t0, len(behs), time.time() - t2))
    vlib.log(c.notes[-1])
    return len(behs)
