"""C10 — state trie: content-addressed, history-independent, persistent map.
spec/state/Smt.tla; binding: every transition of the TLC graph replayed on pkg/trie (harness/pkg/trie)."""
import json, os, random
import vlib

LEVEL = "model_checking"
MANIFEST = dict(
    category=LEVEL, design_ref="DESIGN.md §5 C10",
    text="Smt.tla (map semantics, root injectivity over an injective symbolic hash, canonical shape) is model-checked exhaustively for 5-6 keys; "
         "every transition of the complete 4-key/2-value/batch<=3 graph is replayed on the real pkg/trie from two differently built source instances "
         "on families of prefix-colliding 256-bit keys, comparing reads, root (against an independent reference built from the spec), proof-depth shape, "
         "reopened instances and all historical roots; recorded walks on a long-lived instance are validated by TLC against SmtTrace.tla; "
         "a large-batch parallel driver extends beyond the bounds.",
    note="memorydb stands for the disk store; reference root implementation in the harness; sha256 as trie hash (the node uses the same through common.Hasher)",
    technique="TLA+/TLC exhaustive model; replay of every TLC transition into the real trie; TLC trace validation of recorded walks")
SPEC_DIR = os.path.join(vlib.SPEC, "state")


def bits(k):
    return "".join(str(b) for b in k)


def absmap(v):
    if v == []:
        return {}
    return {bits(k): x for k, x in vlib.fun_items(v)}


def families(tier, rng, h):
    fams = [[0, 1, 2], [2, 3, 4], [3, 4, 5], [7, 8, 9], [253, 254, 255], [3, 4, 255]]
    if tier == "thorough":
        fams += [[0, 128, 255], [4, 8, 12], [251, 252, 253], [247, 248, 249]]
        fams += [[1, 2, 3], [5, 6, 7], [6, 7, 8], [11, 12, 13], [248, 252, 255], [15, 16, 17], [126, 127, 128],
                 [0, 4, 8], [3, 7, 11], [4, 5, 255], [100, 101, 102], [252, 253, 254]]
        for _ in range(12):
            fams.append(sorted(rng.sample(range(256), h)))
    else:
        for _ in range(2):
            fams.append(sorted(rng.sample(range(256), h)))
    return fams


def run(c):
    rng = random.Random(c.seed)
    c.rule = ("every transition (map, batch, map') of the exhaustive TLC graph of Smt.tla (Gen_Smt.cfg) is replayed on the real "
              "trie from two differently built instances of the source state, for every key family (bit-position map); "
              "a case is one (family, transition) or one walk step; distinct = distinct (family, transition)/(family, walk, step)")
    c.assumptions = ["in-memory key-value store (aergo-lib memorydb) stands for the disk store",
                     "reference root/depth computed by the harness from Smt.tla's Tree/Depth definitions with sha256",
                     "TLC 1.8.0"]
    # 1. exhaustive design-level check
    mc = "MC_Smt.cfg" if c.tier == "quick" else "MC_Smt_big.cfg"
    res = vlib.tlc(SPEC_DIR, "MC_Smt", mc, c.work, timeout=1500)
    c.require_ok(res, "Smt design: map semantics, root injectivity, canonical shape")
    # 2. generation: all transitions of the 4-key model
    gen = vlib.tlc(SPEC_DIR, "MC_Smt", "Gen_Smt.cfg", c.work, workers=1, timeout=900)
    c.require_ok(gen, "Smt transition enumeration (4 keys, 2 values, batches<=3)")
    trs = vlib.parse_transitions(gen.out)
    if len(trs) < 1000:
        raise vlib.Infra("too few transitions generated: %d" % len(trs))
    T = []
    out = {}
    for (s, a, d) in trs:
        if a.get("name") != "Batch":
            continue
        e = {"src": absmap(s), "upd": absmap(a["upd"]), "dst": absmap(d)}
        sk = json.dumps(e["src"], sort_keys=True)
        out.setdefault(sk, []).append((len(T), json.dumps(e["dst"], sort_keys=True)))
        T.append(e)
    nwalks, wlen = (40, 30) if c.tier == "quick" else (400, 60)
    walks = vlib.random_walks(out, json.dumps({}), nwalks, wlen, rng)
    inp = {"h": 3, "keys": ["000", "001", "010", "100"], "transitions": T, "walks": walks,
           "families": families(c.tier, rng, 3), "background": 3,
           "random_ops": 300 if c.tier == "quick" else 3000}
    inpath = os.path.join(c.work, "smt_in.json")
    json.dump(inp, open(inpath, "w"))
    outpath = os.path.join(c.work, "smt_out.json")
    tracepath = os.path.join(c.work, "smt_trace.ndjson")
    rc, output = vlib.go_test("./pkg/trie/", "^TestVerifSmt$", env={"VERIF_IN": inpath, "VERIF_OUT": outpath,
                              "VERIF_TRACE": tracepath, "VERIF_SEED": c.seed, "VERIF_TIER": c.tier}, timeout=3000)
    if rc != 0 and not os.path.exists(outpath) and vlib.crash_site(output):
        # a panic inside the trie's own goroutines (updateParallel) cannot be recovered by any caller: it ends the process,
        # the harness as it would the node.  Confirm that it happens again at the same site before reporting it.
        site = vlib.crash_site(output)
        rc2, output2 = vlib.go_test("./pkg/trie/", "^TestVerifSmt$", env={"VERIF_IN": inpath, "VERIF_OUT": outpath, "VERIF_TRACE": tracepath,
                                    "VERIF_SEED": c.seed, "VERIF_TIER": c.tier}, timeout=3000)
        site2 = vlib.crash_site(output2) if rc2 != 0 and not os.path.exists(outpath) else None
        if site2 and site2[1] == site[1]:
            c.count(("process-ended", site[1]))
            c.violation({"kind": "panic", "where": "trie-goroutine"}, {"input": inpath, "panic": site[0], "site": site[1]},
                        "an update of legitimate batches ends the process: %s at %s (twice, same site)" % site)
            return
        raise vlib.Infra("harness died and the death did not reproduce:\n" + output[-3000:])
    r = c.absorb_go(outpath, output)
    if rc != 0 and not r.get("violations"):
        raise vlib.Infra("harness failed:\n" + output[-3000:])
    c.exhaustive = True
    c.extra["exhaustive_note"] = ("exhaustive over the abstract model: 4 keys x 2 values, all batches of <=3 keys (%d transitions), "
                                  "each on %d key families; random walks and the large-batch driver are sampled" % (len(T), len(inp["families"])))
    # 3. direction B: the recorded walks (what the real trie returned) validated by TLC against SmtTrace.tla
    if not r.get("violations"):
        ok, matched, total, tres = vlib.validate_trace(SPEC_DIR, "SmtTrace", "SmtTrace.cfg", c.work, tracepath, timeout=1500)
        c.add_tlc(tres, "trace validation of recorded walks (SmtTrace)")
        if not ok:
            lines = [l for l in open(tracepath) if l.strip()]
            c.violation({"kind": "trace-rejected"}, {"event_index": matched, "event": lines[matched] if matched < len(lines) else None,
                                                     "context": lines[max(0, matched - 3):matched]},
                        "SmtTrace rejects the recorded execution at event %d of %d: %s" % (matched, total, lines[matched][:300] if matched < len(lines) else ""))
        else:
            c.traces_validated = len(walks) * len(inp["families"])
            # binding self-test: a trace with one altered root must be rejected
            bad = os.path.join(c.work, "smt_trace_bad.ndjson")
            lines = [l for l in open(tracepath) if l.strip()]
            idx = [i for i, l in enumerate(lines) if '"Batch"' in l]
            i = idx[rng.randrange(len(idx))]
            e = json.loads(lines[i]); e["root"] = "corrupted"
            # re-using this id for different contents later must be refused: give the next batch the same id
            j = next((k for k in idx if k > i and json.loads(lines[k])["reads"] != e["reads"]), None)
            if j is not None:
                e2 = json.loads(lines[j]); e2["root"] = "corrupted"
                lines[i] = json.dumps(e) + "\n"; lines[j] = json.dumps(e2) + "\n"
                open(bad, "w").writelines(lines)
                ok2, m2, t2, _ = vlib.validate_trace(SPEC_DIR, "SmtTrace", "SmtTrace.cfg", c.work, bad, timeout=1500)
                if ok2:
                    raise vlib.Infra("binding self-test failed: corrupted trace accepted")
                c.notes.append("self-test: corrupted trace rejected at event %d" % m2)
