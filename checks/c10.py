"""C10 — state trie: content-addressed, history-independent, persistent map.
spec/state/Smt.tla; binding: every transition of the TLC graph replayed on pkg/trie (harness/pkg/trie)."""
import json, os, random
import vlib

LEVEL = "model_checking"
SPEC_DIR = os.path.join(vlib.SPEC, "state")


def bits(k):
    return "".join(str(b) for b in k)


def absmap(v):
    if v == []:
        return {}
    return {bits(k): x for k, x in vlib.fun_items(v)}


def families(tier, rng, h):
    fams = [[0, 1, 2], [2, 3, 4], [3, 4, 5], [7, 8, 9], [253, 254, 255], [3, 4, 255], [0, 128, 255], [4, 8, 12],
            [251, 252, 253], [247, 248, 249]]
    if tier == "thorough":
        fams += [[1, 2, 3], [5, 6, 7], [6, 7, 8], [11, 12, 13], [248, 252, 255], [15, 16, 17], [126, 127, 128],
                 [0, 4, 8], [3, 7, 11], [4, 5, 255], [100, 101, 102], [252, 253, 254]]
        for _ in range(12):
            fams.append(sorted(rng.sample(range(256), h)))
    else:
        for _ in range(2):
            fams.append(sorted(rng.sample(range(256), h)))
    return fams


def run(c):
    rng = random.Random(c.seed)
    c.rule = ("every transition (map, batch, map') of the exhaustive TLC graph of Smt.tla (Gen_Smt.cfg) is replayed on the real "
              "trie from two differently built instances of the source state, for every key family (bit-position map); "
              "a case is one (family, transition) or one walk step; distinct = distinct (family, transition)/(family, walk, step)")
    c.assumptions = ["in-memory key-value store (aergo-lib memorydb) stands for the disk store",
                     "reference root/depth computed by the harness from Smt.tla's Tree/Depth definitions with sha256",
                     "TLC 1.8.0"]
    # 1. exhaustive design-level check
    mc = "MC_Smt.cfg" if c.tier == "quick" else "MC_Smt_big.cfg"
    res = vlib.tlc(SPEC_DIR, "MC_Smt", mc, c.work, timeout=1500)
    c.require_ok(res, "Smt design: map semantics, root injectivity, canonical shape")
    # 2. generation: all transitions of the 4-key model
    gen = vlib.tlc(SPEC_DIR, "MC_Smt", "Gen_Smt.cfg", c.work, workers=1, timeout=900)
    c.require_ok(gen, "Smt transition enumeration (4 keys, 2 values, batches<=3)")
    trs = vlib.parse_transitions(gen.out)
    if len(trs) < 1000:
        raise vlib.Infra("too few transitions generated: %d" % len(trs))
    T = []
    out = {}
    for (s, a, d) in trs:
        if a.get("name") != "Batch":
            continue
        e = {"src": absmap(s), "upd": absmap(a["upd"]), "dst": absmap(d)}
        sk = json.dumps(e["src"], sort_keys=True)
        out.setdefault(sk, []).append((len(T), json.dumps(e["dst"], sort_keys=True)))
        T.append(e)
    nwalks, wlen = (40, 30) if c.tier == "quick" else (400, 60)
    walks = vlib.random_walks(out, json.dumps({}), nwalks, wlen, rng)
    inp = {"h": 3, "keys": ["000", "001", "010", "100"], "transitions": T, "walks": walks,
           "families": families(c.tier, rng, 3), "background": 3,
           "random_ops": 300 if c.tier == "quick" else 3000}
    inpath = os.path.join(c.work, "smt_in.json")
    json.dump(inp, open(inpath, "w"))
    outpath = os.path.join(c.work, "smt_out.json")
    rc, output = vlib.go_test("./pkg/trie/", "^TestVerifSmt$", env={"VERIF_IN": inpath, "VERIF_OUT": outpath,
                              "VERIF_SEED": c.seed, "VERIF_TIER": c.tier}, timeout=3000)
    r = c.absorb_go(outpath, output)
    if rc != 0 and not r.get("violations"):
        raise vlib.Infra("harness failed:\n" + output[-3000:])
    c.exhaustive = True
    c.extra["exhaustive_note"] = ("exhaustive over the abstract model: 4 keys x 2 values, all batches of <=3 keys (%d transitions), "
                                  "each on %d key families; random walks and the large-batch driver are sampled" % (len(T), len(inp["families"])))
    c.traces_validated = len(walks) * len(inp["families"])
