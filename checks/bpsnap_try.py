#!/usr/bin/env python3
"""Standalone driver of the BpSnapshots check (extension of C09 built on spec/consensus/BpSnapshots.tla):

    VERIF_WORK=/tmp/bps python3 checks/bpsnap_try.py        (VERIF_TIER / VERIF_SEED / VERIF_REPO as for bin/vcheck)

Runs checks/bpsnap_common.run_bpsnap through vlib.run_check under the property id BPS-C09 and removes the evidence file it
wrote, so /verif/evidence is left as it was.  Exit code contract as bin/vcheck."""
import glob, os, sys
ROOT = os.path.dirname(os.path.dirname(os.path.abspath(__file__)))
sys.path.insert(0, os.path.join(ROOT, "tools"))
sys.path.insert(0, ROOT)
import vlib
from checks import bpsnap_common as bps


def main():
    def run(c):
        c.rule = ("a case is one replayed step of a TLC behaviour on the real dpos.Status/bp.Snapshots (or one height of a fresh-node oracle run); "
                  "distinct = distinct (action, chain, model state)")
        c.assumptions = ["TLC 1.8.0"]
        bps.run_bpsnap(c)
    try:
        return vlib.run_check("BPS-C09", "model_checking", run)
    finally:
        for d in (os.path.join(vlib.VERIF, "evidence"), os.path.join(vlib.WORK, "evidence")):
            for f in glob.glob(os.path.join(d, "BPS-*.json")) + glob.glob(os.path.join(d, ".BPS-*.tmp")):
                try:
                    os.remove(f)
                except OSError:
                    pass


if __name__ == "__main__":
    sys.exit(main())
