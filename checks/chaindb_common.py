"""Shared by C05 / C07 / C03: behaviours of ChainDB.tla replayed on a real node (harness/internal/verifnode)."""
import json, os, random
import vlib

SPEC_DIR = os.path.join(vlib.SPEC, "chain")

TREES = {
    "T0": dict(blocks=["g", "a1", "a2", "b1", "b2", "b3"], g="g",
               parent={"a1": "g", "a2": "a1", "b1": "g", "b2": "b1", "b3": "b2"},
               txs={"g": [], "a1": ["t1"], "a2": ["t2"], "b1": ["t1"], "b2": ["t3"], "b3": []}),
    "T1": dict(blocks=["g", "a1", "a2", "a3", "b2", "b3", "b4"], g="g",
               parent={"a1": "g", "a2": "a1", "a3": "a2", "b2": "a1", "b3": "b2", "b4": "b3"},
               txs={"g": [], "a1": ["t1"], "a2": ["t2"], "a3": ["t4"], "b2": ["t2", "t3"], "b3": [], "b4": ["t5"]}),
    "T2": dict(blocks=["g", "a1", "a2", "b1", "b2", "b3", "c2", "c3"], g="g",
               parent={"a1": "g", "a2": "a1", "b1": "g", "b2": "b1", "b3": "b2", "c2": "a1", "c3": "c2"},
               txs={"g": [], "a1": ["t1"], "a2": ["t2"], "b1": ["t1", "t3"], "b2": [], "b3": ["t2"], "c2": ["t3"], "c3": ["t2"]}),
    "T3": dict(blocks=["g", "a1", "a2", "a3", "b1", "b2", "x3", "x4", "c3", "c4"], g="g",
               parent={"a1": "g", "a2": "a1", "a3": "a2", "b1": "g", "b2": "b1", "x3": "b2", "x4": "x3", "c3": "b2", "c4": "c3"},
               txs={"g": [], "a1": ["t1"], "a2": ["t2"], "a3": [], "b1": ["t1"], "b2": ["t3"], "x3": ["t2"], "x4": [], "c3": ["t2"], "c4": ["t4"]}),
}


def gen_cfg(tree, max_arrivals, orphan_cap, libs):
    return """SPECIFICATION Spec
CONSTANTS
  Blocks <- %sBlocks
  G = "g"
  Parent <- %sParent
  ValidChoices <- %sValid
  Txs <- %sTxs
  MaxArrivals = %d
  OrphanCap = %d
  LibChoices = {%s}
VIEW view
ACTION_CONSTRAINT GenLog
CHECK_DEADLOCK FALSE
""" % (tree, tree, tree, tree, max_arrivals, orphan_cap, ", ".join(str(x) for x in libs))


def behaviours(c, tree, max_arrivals=1, orphan_cap=99, libs=(1,), timeout=900, max_paths=None, rng=None):
    """All transitions of the model over `tree` -> edge-covering behaviours from the initial states."""
    cfgname = "GenAuto_%s_%d.cfg" % (tree, max_arrivals)
    sd = os.path.join(c.work, "spec")        # vlib.tlc copies the spec files next to it; nothing is written to /verif/spec
    os.makedirs(sd, exist_ok=True)
    with open(os.path.join(sd, cfgname), "w") as f:
        f.write(gen_cfg(tree, max_arrivals, orphan_cap, libs))
    gen = vlib.tlc(SPEC_DIR, "MC_ChainDB", cfgname, c.work, workers=1, timeout=timeout)
    c.require_ok(gen, "ChainDB transition enumeration over tree %s (arrivals<=%d)" % (tree, max_arrivals))
    trs = vlib.parse_transitions(gen.out)
    if len(trs) < 100:
        raise vlib.Infra("too few transitions: %d" % len(trs))
    g = vlib.graph_from_transitions(trs, lambda s: s["store"] == ["g"] and s["lib"] == 0)
    paths = vlib.edge_cover_paths(g, rng=rng)
    if max_paths and len(paths) > max_paths:
        rng.shuffle(paths)
        paths = paths[:max_paths]
    behs = []
    for p in paths:
        b = vlib.path_to_behaviour(g, p)
        steps = []
        for st in b["steps"]:
            a = st["action"]
            act = a["act"]
            d = st["state"]
            steps.append(dict(name=act["name"], blk=act.get("blk", ""), n=act.get("n", 0), res=act.get("res", ""),
                              returned=a["returned"],
                              dst=dict(valid=d["valid"], store=d["store"], hidx={str(k): v for k, v in d["hidx"].items()},
                                       best=d["best"], txidx=d["txidx"], rcpt=d["rcpt"], sroot=d["sroot"], savail=d["savail"],
                                       bad=d["bad"], lib=d["lib"], orph=d["orph"] if isinstance(d["orph"], dict) else {})))
        behs.append(dict(valid=b["init"]["valid"], steps=steps))
    return behs, len(trs), len(g.states)


C05_KINDS = {"incoherent", "stateroot-not-best", "panic", "node-exit"}
C07_KINDS = {"wrong-best", "diverges-from-spec", "state-differs-from-reference", "reference-rejects-main-chain", "panic", "node-exit"}


def replay(c, tree, behs, kinds, public=False, coinbase=False, reference=False, nshards=8, timeout=1500):
    """kinds: the violation kinds that belong to the calling property; the others are only noted
    (they are reported by the check of the property they belong to)."""
    inp = dict(tree=TREES[tree], behaviours=behs, public=public, coinbase=coinbase, reference=reference)
    inpath = os.path.join(c.work, "cdb_in_%s.json" % tree)
    json.dump(inp, open(inpath, "w"))
    outs = [os.path.join(c.work, "cdb_out_%s_%d.json" % (tree, i)) for i in range(nshards)]
    rs = vlib.go_test_sharded("./internal/verifnode/", "^TestVerifChainDB$", nshards,
                              lambda i: {"VERIF_IN": inpath, "VERIF_OUT": outs[i], "VERIF_SEED": c.seed, "VERIF_TIER": c.tier},
                              timeout=timeout)
    for i, (rc, out) in enumerate(rs):
        if os.path.exists(outs[i]):
            try:
                raw = json.load(open(outs[i]))
                other = [v for v in raw.get("violations") or [] if v.get("sig", {}).get("kind") not in kinds]
                raw["violations"] = [v for v in raw.get("violations") or [] if v.get("sig", {}).get("kind") in kinds]
                raw["notes"] = (raw.get("notes") or []) + ["(belongs to another property) " + v["text"][:300] for v in other[:5]]
                json.dump(raw, open(outs[i], "w"))
            except ValueError:
                pass
        if rc != 0 and not os.path.exists(outs[i]) and os.path.exists(outs[i] + ".progress"):
            # the harness process died inside the chain service (a logger.Fatal exits the node): attribute it to the
            # behaviour being replayed and confirm by running exactly that behaviour again
            pr = json.load(open(outs[i] + ".progress"))
            again = os.path.join(c.work, "cdb_again_%s_%d.json" % (tree, i))
            rc2, out2 = vlib.go_test("./internal/verifnode/", "^TestVerifChainDB$",
                                     env={"VERIF_IN": inpath, "VERIF_OUT": again, "VERIF_SEED": c.seed, "VERIF_ONLY": pr["behaviour"]}, timeout=300)
            if rc2 != 0 and not os.path.exists(again) and os.path.exists(again + ".progress") and \
                    json.load(open(again + ".progress"))["trail"] == pr["trail"]:
                if "node-exit" in kinds:
                    tail = [l for l in out2.splitlines() if '"level":"fatal"' in l or "panic" in l][-3:]
                    c.violation({"kind": "node-exit"}, {"tree": TREES[tree], "behaviour": behs[pr["behaviour"]], "died_after": pr["trail"]},
                                "the node process terminates while handling the last arrival of [%s] (valid=%s): %s" % (
                                    pr["trail"], behs[pr["behaviour"]]["valid"], " | ".join(tail)[:600]))
                continue
            raise vlib.Infra("chaindb harness shard %d died and the death did not reproduce:\n%s" % (i, out[-2000:]))
        r = c.absorb_go(outs[i], out)
        if rc != 0 and not r.get("violations"):
            raise vlib.Infra("chaindb harness shard %d failed:\n%s" % (i, "\n".join(l for l in out.splitlines() if not l.startswith('{"level'))[-3000:]))
