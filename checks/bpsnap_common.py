"""BpSnapshots — extension of C09 (DESIGN §8): which block-producer list is in force at which block height.
spec/consensus/BpSnapshots.tla; binding: TLC behaviours (edge cover of the generation model + simulated deep behaviours)
replayed on the real dpos.Status / bp.Snapshots / bp.Cluster over a real state DB (harness/consensus/impl/dpos/
verif_bpsnap_test.go); history-independence oracle on the code: a fresh node fed only the current main chain.

    run_bpsnap(c)      c is a vlib.Check

Helpers that would belong into vlib (not edited): tla2json (fast TLA+ value -> JSON through regex + json.loads, falls
back to vlib.parse_value), fast readers for LogTransition lines and -simulate trace files."""
import json, os, random, re, threading, time
import vlib

SPEC_DIR = os.path.join(vlib.SPEC, "consensus")
PKG = "./consensus/impl/dpos/"
RUN = "^TestVerifBpSnapshots$"

# the constants of the generation / simulation configurations (must agree with the .cfg files; checked against TLC's output)
GENESIS = [1, 2, 3]
RANK = {"Rank2": [[1, 2, 3, 4], [4, 2, 1, 3]],
        "Rank3": [[1, 2, 3, 4], [4, 2, 1, 3], [5, 1]],
        "Rank4": [[1, 2, 3, 4], [4, 2, 1, 3], [5, 1], [2, 3, 4, 5, 1]]}
DEFAULT_COUNT = 3
NCAND = 5
# Which BPCOUNT rule the code under test implements.  False = the code as it is (finding BPS-F1: the count is the in-memory
# parameter at the moment a list is computed); True = the repaired rule (the count is read from the state of the snapshot
# block): the generation / simulation models are then run with CountFix = TRUE and the expected-counterexample run is skipped.
# To be flipped (here or with VERIF_BPS_COUNTFIX=1) when the repair lands in /repo.
COUNT_FIX = os.environ.get("VERIF_BPS_COUNTFIX", "") == "1"


def offsets(p, period=100):
    """model offset inside a period -> real offset: boundary, boundary+1, (spread), boundary-1"""
    if p == 1:
        return [0]
    if p == 2:
        return [0, 1]
    mid = [1 + (period - 2) * i // (p - 2) for i in range(1, p - 2)]
    return [0, 1] + mid + [period - 1]


# --------------------------------------------------------------------------- fast TLA+ -> JSON

_rx_key = re.compile(r"([A-Za-z_][A-Za-z0-9_]*) \|->")
_rx_dom = re.compile(r"(-?\d+) :>")


def tla2json(s):
    """Values made of integers, strings, booleans, sequences, records and int-keyed functions (no sets)."""
    t = s.replace("[", "{").replace("]", "}").replace("<<", "[").replace(">>", "]").replace("(", "{").replace(")", "}")
    t = t.replace(" @@ ", ", ").replace("TRUE", "true").replace("FALSE", "false")
    t = _rx_dom.sub(r'"\1":', _rx_key.sub(r'"\1":', t))
    try:
        return json.loads(t)
    except ValueError:
        return vlib.parse_value(s)


def read_transitions(out):
    trs = []
    for line in out.splitlines():
        if not line.startswith('"TR|'):
            continue
        body = line[4:-1].replace('\\"', '"').replace("\\\\", "\\")
        v = tla2json(body)
        trs.append((v[0], v[1], v[2]))
    return trs


def read_sim(dirname, prefix):
    """-simulate file=<dir>/<prefix>: list of behaviours, each a list of state dicts"""
    behs = []
    for fn in sorted(os.listdir(dirname)):
        if not fn.startswith(prefix):
            continue
        txt = open(os.path.join(dirname, fn)).read()
        txt = "\n".join(l for l in txt.splitlines() if not l.startswith("\\*"))
        states = []
        for m in re.finditer(r"STATE_\d+ ==\s*\n(.*?)(?=\n\s*\nSTATE_|\n=+|\Z)", txt, re.S):
            st = {}
            for part in re.split(r"(?m)^/\\ ", m.group(1).strip()):
                part = part.strip()
                if part:
                    name, _, val = part.partition(" = ")
                    st[name.strip()] = tla2json(val.strip())
            states.append(st)
        if len(states) > 1:
            behs.append(states)
    return behs


# --------------------------------------------------------------------------- the spec's Ideal (for simulated behaviours)

def snap_ref(h, p):
    return 0 if h < 3 * p else (h // p - 1) * p


def ideal(chain, p, rankings):
    """BpSnapshots!Ideal(chain, Len(chain))"""
    r = snap_ref(len(chain), p)
    if r == 0:
        return list(GENESIS)
    if COUNT_FIX:
        n = chain[r - 1]["count"]
    else:
        n = DEFAULT_COUNT if r == 1 else chain[r - 2]["count"]
    return rankings[chain[r - 1]["rank"] - 1][:n]


# --------------------------------------------------------------------------- behaviours

def mk_step(act, lookups, idl, chain, reorg, snaps, cluster, cur):
    s = {"a": act["name"], "tip": len(chain), "snaps": {} if isinstance(snaps, list) else snaps, "cluster": cluster,
         "cur": cur, "reorg": reorg}
    if act["name"] == "Connect":
        s["rank"], s["count"] = act["c"]["rank"], act["c"]["count"]
    elif act["name"] == "Rollback":
        s["h"] = act["h"]
    if lookups:
        s["lk"] = lookups[0]
    if idl is not None:
        s["ideal"] = idl
    return s


def gen_behaviours(trs, rng, tag, cap=None):
    """edge cover of the transition graph; states are the printed views"""
    g = vlib.Graph()
    def key(v):
        return json.dumps(v, sort_keys=True)
    for (s, a, d) in trs:
        ks, kd = key(s), key(d)
        if ks not in g.states:
            g.states[ks] = s
            if not g.init:
                g.init.append(ks)      # the first transition TLC prints starts in the initial state
        if kd not in g.states:
            g.states[kd] = d
        g.out.setdefault(ks, []).append((kd, a))
    st0 = g.states[g.init[0]]
    if st0[0] != [] or st0[2] is not False:
        raise vlib.Infra("first logged transition does not start in the initial state: %r" % (st0,))
    paths = vlib.edge_cover_paths(g, rng=rng)
    if cap and len(paths) > cap:
        rng.shuffle(paths)
        paths = paths[:cap]
    behs = []
    for i, p in enumerate(paths):
        steps = []
        for (s, k) in p:
            d, a = g.out[s][k]
            v = g.states[d]
            steps.append(mk_step(a[0], a[1], a[2], v[0], v[2], v[3], v[4], v[5]))
        behs.append({"id": "%s%d" % (tag, i), "steps": steps})
    return behs, len(g.states), sum(len(v) for v in g.out.values())


def sim_behaviours(states_list, p, rankings, tag):
    behs = []
    for i, sts in enumerate(states_list):
        steps = []
        for st in sts[1:]:
            steps.append(mk_step(st["lastAct"], st["lookups"], ideal(st["chain"], p, rankings), st["chain"], st["reorg"],
                                 st["snaps"], st["cluster"], st["cur"]))
        behs.append({"id": "%s%d" % (tag, i), "steps": steps})
    return behs


def cfg_const(cfg, name):
    m = re.search(r"^\s*%s\s*(?:=|<-)\s*(\S+)" % name, open(os.path.join(SPEC_DIR, cfg)).read(), re.M)
    if not m:
        raise vlib.Infra("%s: constant %s not found" % (cfg, name))
    return m.group(1)


# --------------------------------------------------------------------------- harness build / sharded run
# (vlib.go_test_sharded split in two, so that the build overlaps with the TLC runs)

def build_harness(c):
    import hashlib, subprocess
    ov = vlib.gen_overlay()
    bindir = os.path.join(vlib.WORK, "gobin")
    os.makedirs(bindir, exist_ok=True)
    exe = os.path.join(bindir, "bps-%s-%d.test" % (hashlib.sha1(vlib.REPO.encode()).hexdigest()[:10], os.getpid()))
    cmd = ["go", "test", "-c", "-tags", "verif", "-overlay", ov, "-vet=off", "-o", exe, PKG]
    try:
        r = subprocess.run(cmd, cwd=vlib.REPO, env=vlib.goenv(), capture_output=True, text=True, timeout=1800)
    except subprocess.TimeoutExpired:
        raise vlib.Infra("go test -c timed out: " + " ".join(cmd))
    if r.returncode != 0 or not os.path.exists(exe):
        raise vlib.Infra("harness does not build (%s):\n%s" % (PKG, (r.stdout + r.stderr)[-4000:]))
    return exe


def run_shards(exe, nshards, env_for, timeout=2400):
    import concurrent.futures, shutil, subprocess
    bindir = os.path.dirname(exe)

    def one(i):
        cwd = os.path.join(bindir, "bps-cwd-%d-%d" % (os.getpid(), i))
        os.makedirs(cwd, exist_ok=True)
        e = dict(env_for(i))
        e["VERIF_SHARD"] = "%d/%d" % (i, nshards)
        e.setdefault("TMPDIR", cwd)
        try:
            p = subprocess.run([exe, "-test.run", RUN, "-test.timeout", "%ds" % timeout, "-test.count", "1"],
                               cwd=cwd, env=vlib.goenv(e), capture_output=True, text=True, timeout=timeout + 60)
            return p.returncode, p.stdout + p.stderr
        except subprocess.TimeoutExpired:
            return 124, "timeout"
        finally:
            shutil.rmtree(cwd, ignore_errors=True)
    try:
        with concurrent.futures.ThreadPoolExecutor(max_workers=nshards) as ex:
            return list(ex.map(one, range(nshards)))
    finally:
        try:
            os.remove(exe)
        except OSError:
            pass


# --------------------------------------------------------------------------- the check

def run_bpsnap(c):
    thorough = c.tier == "thorough"
    rng = random.Random(c.seed)
    c.assumptions += [
        "BpSnapshots: the chain service around dpos.Status is the harness (stub ChainDB maintained as chain.ChainService does: block indexed after "
        "Status.Update, old main chain visible until swapChain, InitSystemParams at start-up and at the end of a reorganisation); blocks carry no producer "
        "(the real LIB stays at 0; the model's LIB only restricts its reorganisations); a block's transactions are abstracted to their effect on the "
        "system-contract state (system.InitVoteResult, updateParam)",
        "BpSnapshots: model period P is mapped to the code's constant period 100 (offsets boundary, boundary+1, ..., boundary-1; all real blocks in between are connected)"]
    box, th = {}, []
    spec_dir = SPEC_DIR
    if COUNT_FIX:
        spec_dir = os.path.join(c.work, "bps_specfix")
        os.makedirs(spec_dir)
        for fn in os.listdir(SPEC_DIR):
            if "BpSnapshots" in fn:
                txt = open(os.path.join(SPEC_DIR, fn)).read()
                if fn.startswith(("Gen_", "Sim_")):
                    txt = txt.replace("CountFix = FALSE", "CountFix = TRUE")
                open(os.path.join(spec_dir, fn), "w").write(txt)
        c.notes.append("BpSnapshots: generation / simulation with CountFix = TRUE (repaired BPCOUNT rule)")

    def bg(key, fn):
        def w():
            try:
                box[key] = fn()
            except Exception as e:      # noqa
                box[key + "_err"] = e
        t = threading.Thread(target=w)
        t.start()
        th.append(t)
        return t

    mc = "MC_BpSnapshots_big.cfg" if thorough else "MC_BpSnapshots.cfg"
    bg("mc", lambda: vlib.tlc(spec_dir, "MC_BpSnapshots", mc, os.path.join(c.work, "bps_mc"), workers=6, timeout=2400))
    fixcfg = "MC_BpSnapshots_fix_big.cfg" if thorough else "MC_BpSnapshots_fix.cfg"
    bg("fix", lambda: vlib.tlc(spec_dir, "MC_BpSnapshots", fixcfg, os.path.join(c.work, "bps_fix"), workers=4, timeout=2400))
    if not COUNT_FIX:
        bg("cnt", lambda: vlib.tlc(spec_dir, "MC_BpSnapshots", "MC_BpSnapshots_count.cfg", os.path.join(c.work, "bps_cnt"), workers=2, timeout=900))
        bg("cnt2", lambda: vlib.tlc(spec_dir, "MC_BpSnapshots", "MC_BpSnapshots_count2.cfg", os.path.join(c.work, "bps_cnt2"), workers=2, timeout=900))
    # simulated deep behaviours of the larger instance
    simcfg = "Sim_BpSnapshots.cfg"
    nsim, dsim = (1500, 60) if thorough else (150, 50)
    simdir = os.path.join(c.work, "bps_sim", "traces")
    os.makedirs(simdir, exist_ok=True)

    def sim():
        r = vlib.tlc(spec_dir, "MC_BpSnapshots", simcfg, os.path.join(c.work, "bps_sim"), workers=1, timeout=1500,
                     args=["-simulate", "file=%s/t,num=%d" % (simdir, nsim), "-depth", str(dsim), "-seed", str(c.seed * 7919 + 11)])
        return r, (read_sim(simdir, "t") if r.ok else None)
    simth = bg("sim", sim)
    gcfg = "Gen_BpSnapshots_big.cfg" if thorough else "Gen_BpSnapshots.cfg"
    genth = bg("gen", lambda: vlib.tlc(spec_dir, "MC_BpSnapshots", gcfg, os.path.join(c.work, "bps_gen"), workers=1, timeout=2400))
    exe = None
    try:
        t0 = time.time()
        exe = build_harness(c)
        c.notes.append("BpSnapshots: harness built in %.0fs" % (time.time() - t0))
        genth.join()
        if "gen_err" in box:
            raise box["gen_err"]
        gen = box["gen"]
        c.require_ok(gen, "BpSnapshots: every transition of the generation model (%s)" % gcfg)
        t0 = time.time()
        trs = read_transitions(gen.out)
        if len(trs) != gen.generated - 1 or len(trs) < 1000:
            raise vlib.Infra("generation incomplete: %d transitions logged, %d states generated" % (len(trs), gen.generated))
        gp = int(cfg_const(gcfg, "P"))
        grank = RANK[cfg_const(gcfg, "Rankings")]
        gbehs, nst, ned = gen_behaviours(trs, rng, "g")
        c.notes.append("BpSnapshots gen: %d states, %d transitions -> %d behaviours (TLC %.0fs, edge cover %.0fs)" % (nst, ned, len(gbehs), gen.wall, time.time() - t0))

        simth.join()
        if "sim_err" in box:
            raise box["sim_err"]
        sres, sstates = box["sim"]
        c.require_ok(sres, "BpSnapshots: simulation of the larger instance (%s, %d behaviours of depth %d)" % (simcfg, nsim, dsim))
        sp = int(cfg_const(simcfg, "P"))
        srank = RANK[cfg_const(simcfg, "Rankings")]
        sbehs = sim_behaviours(sstates, sp, srank, "s")
        if len(sbehs) < nsim // 2:
            raise vlib.Infra("simulation produced %d behaviours, %d requested" % (len(sbehs), nsim))

        nshards = 12 if thorough else 8
        groups = [{"tag": tag, "p": p, "offsets": offsets(p), "genesis": GENESIS, "rankings": rank, "default_count": DEFAULT_COUNT,
                   "ncand": NCAND, "behs": behs} for tag, p, rank, behs in (("gen", gp, grank, gbehs), ("sim", sp, srank, sbehs))]
        inpath = os.path.join(c.work, "bps_in.json")
        json.dump({"groups": groups}, open(inpath, "w"))
        t0 = time.time()
        outs = [os.path.join(c.work, "bps_out%d.json" % i) for i in range(nshards)]
        rs = run_shards(exe, nshards, lambda i: {"VERIF_IN": inpath, "VERIF_OUT": outs[i], "VERIF_SEED": c.seed, "VERIF_TIER": c.tier})
        # one violation per signature over all shards: the one with the shortest list of actions
        best, results = {}, []
        for i, (rc, output) in enumerate(rs):
            if not os.path.exists(outs[i]):
                raise vlib.Infra("BpSnapshots harness (shard %d) wrote no result:\n%s" % (i, output[-3000:]))
            r = json.load(open(outs[i]))
            for v in r.get("violations") or []:
                k = json.dumps(v.get("sig"), sort_keys=True)
                n = len((v.get("replay") or {}).get("actions") or [])
                if k not in best or n < best[k][0]:
                    best[k] = (n, v)
            if rc != 0 and not r.get("violations"):
                raise vlib.Infra("BpSnapshots harness (shard %d) failed:\n%s" % (i, output[-3000:]))
            results.append(r)
        for i, r in enumerate(results):
            r["violations"] = [v for _k, (_n, v) in sorted(best.items())] if i == 0 else []
            json.dump(r, open(outs[i], "w"))
            c.absorb_go(outs[i], "")
        c.notes.append("BpSnapshots: %d + %d behaviours, %d steps replayed in %.0fs (%d processes)" % (
            len(gbehs), len(sbehs), sum(len(b["steps"]) for b in gbehs + sbehs), time.time() - t0, nshards))
        if thorough:
            # end-to-end confirmation on a real node (real chain service, real staking / v1voteDAO transactions changing BPCOUNT):
            # a restarted node and a node that reorganised across a snapshot block must report the reference node's list
            t0 = time.time()
            e2e_out = os.path.join(c.work, "bps_e2e_out.json")
            rc, output = vlib.go_test("./internal/verifnode/", "^TestVerifBpSnapE2E$", env={"VERIF_OUT": e2e_out, "VERIF_SEED": c.seed, "VERIF_TIER": c.tier}, timeout=1800)
            r = c.absorb_go(e2e_out, output)
            if any("E2E INCOMPLETE" in n for n in r.get("notes") or []) or (rc != 0 and not r.get("violations")):
                raise vlib.Infra("BpSnapshots end-to-end scenario did not run to its end:\n%s\n%s" % ("\n".join(r.get("notes") or []), output[-2000:]))
            c.notes.append("BpSnapshots: end-to-end scenario (3 real nodes, 300-block chains) in %.0fs" % (time.time() - t0))
    finally:
        for t in th:
            t.join()
        if exe and os.path.exists(exe):
            os.remove(exe)
    for k in ("mc", "fix", "cnt", "cnt2"):
        if k + "_err" in box:
            raise box[k + "_err"]
    c.require_ok(box["mc"], "BpSnapshots design, BPCOUNT constant: list in force is a function of the chain, cache coherent, changes only at period "
                            "boundaries, gc keeps one period, size = min(BPCOUNT, candidates) (%s)" % mc)
    c.require_ok(box["fix"], "BpSnapshots design, BPCOUNT variable, repaired rule (count read from the snapshot block's state): same properties (%s)" % fixcfg)
    for k, cfg, how in (("cnt", "MC_BpSnapshots_count.cfg", "connects and restarts"), ("cnt2", "MC_BpSnapshots_count2.cfg", "connects and reorganisations")):
        if k not in box:
            continue
        r = box[k]
        c.add_tlc(r, "BpSnapshots design, BPCOUNT variable, the code's rule, %s: expected counterexample to ListInForceIsFunctionOfChain (finding BPS-F1)" % how)
        if r.violation != "ListInForceIsFunctionOfChain":
            raise vlib.Infra("%s was expected to violate ListInForceIsFunctionOfChain, TLC says: %s\n%s" % (cfg, r.violation, r.out[-2000:]))
