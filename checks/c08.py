"""C08 — DPoS finality: the irreversible block is monotone, on-chain and never undone.
spec/consensus/DposLib.tla; binding: TLC behaviours replayed on real nodes running the real DPoS finality code."""
import concurrent.futures, json, os, random, re, shutil, subprocess, time
import vlib

LEVEL = "model_checking"
MANIFEST = dict(
    category=LEVEL, design_ref="DESIGN.md §5 C08",
    text="DposLib.tla transcribes the confirmation arithmetic of consensus/impl/dpos/lib.go literally (addConfirmInfo, getPreLIB with its uint16 "
         "counter and the stop at the first zero, calcLIB's (len-1)/3-th smallest proposal, gc, the rollback window and the reset of proposals above "
         "the rollback target, save/load at restart, the LIB that is only ever raised) together with the chain service's use of it (refusal of blocks at "
         "or below the LIB, veto of reorganisations below it) and the block factory's Confirms = no - lpbNo.  TLC checks LibOnMain, LibMonotone, Final, "
         "NoForkBelowLib, LibQuorum, Agreement and RestoreEqualsRecompute exhaustively for the full protocol with 3 producers (small bounds) and for "
         "scripted block trees (every delivery order to one or two full nodes, restarts at every point), and by simulation for 3-4 producers with an "
         "equivocating producer.  Every transition of the tree instances (edge cover), simulated deep behaviours and TLC's counterexamples of the open "
         "finding (unvalidated Confirms field) are replayed on real nodes whose consensus is the real DPoS object: real signed blocks in slots their "
         "producers own, own blocks built by the real block factory, restarts on the same stores.  After every step the LIB, the proposals, the whole "
         "confirm list, LpbNo and the number the veto sees are compared with the specification, and the property is evaluated on the real node itself "
         "(LIB on the main chain by height index, monotone, nothing at or below a reported LIB replaced or accepted, quorum of distinct confirming "
         "producers, restart keeps the status, agreement of the nodes' LIBs).",
    note="one node per process at a time: the nodes of a behaviour run one after the other over the same pre-built block tree; blocks reach a node "
         "parents first (orphans: C05); all blocks are valid and empty; BP set = genesis list (heights < 300); in-memory verifdb; restarts at step "
         "boundaries (crash points inside a step: C06); the model contains the repairs b495bde5, a4f2be36, c846cf0d (Fixes = AllFixes)",
    technique="TLA+/TLC exhaustive model + simulation; replay of TLC transitions, simulated behaviours and counterexamples into real nodes")
SPEC_DIR = os.path.join(vlib.SPEC, "consensus")
T0 = [0.0]


def _t(msg):
    vlib.log("[c08 %6.1fs] %s" % (time.time() - T0[0], msg))

PKG = "./internal/verifnode/"

# --------------------------------------------------------------------------- TLA+ values -> harness input


def fun_by_int(v):
    """parsed TLA+ function with integer domain -> {int: value}"""
    if isinstance(v, list):
        return {i + 1: x for i, x in enumerate(v)}
    return {int(k): x for k, x in vlib.fun_items(v)}


def conv_node(n, nbp):
    pr = fun_by_int(n["pr"])
    return dict(best=n["best"], known=list(n["known"]), cf=[dict(no=e["no"], id=e["id"], bp=e["bp"], left=e["left"], rng=e["rng"]) for e in n["cf"]],
                pr=[pr[p] for p in range(nbp)], lib=n["lib"], lpb=n["lpb"], bfl=n["bfl"], ld=bool(n["ld"]), sb=n["sb"])


def conv_blk(blk):
    return [dict(parent=b["parent"], no=b["no"], bp=b["bp"], conf=b["conf"], bad=b.get("bad", "ok")) for b in blk]


def lib_alternatives(blk, node):
    """blocks calcLIB may return instead of node.lib: proposals with the same number (unstable sort over a map)"""
    no = lambda b: 0 if b == 0 else blk[b - 1]["no"]
    return sorted({p for p in node["pr"] if p >= 0 and no(p) == no(node["lib"]) and p != node["lib"]})


def behaviour(bid, tag, params, states):
    """states: list of (lastAct, blk, node-function) including the initial one"""
    n = params["n"]
    steps = []
    for (act, blk, nodes) in states[1:]:
        st = dict(name=act["name"], node=act["node"], b=act.get("b", 0), a=act.get("a", 0), res=act.get("res", ""))
        if act["name"] != "ByzProduce":
            st["post"] = conv_node(fun_by_int(nodes)[act["node"]], n)
            st["lib_alt"] = lib_alternatives(conv_blk(blk), st["post"])
        steps.append(st)
    if not steps:
        return None
    final_blk = conv_blk(states[-1][1])
    return dict(id=bid, tag=tag, n=n, byz=params["byz"], nodes=params["nodes"], blk=final_blk, blk0=len(states[0][1]), steps=steps)


def cfg_params(cfgname):
    """N / Byz / Nodes of a configuration (the MC module defines the named sets; see SETS)"""
    txt = open(os.path.join(SPEC_DIR, cfgname)).read()
    n = int(re.search(r"(?m)^\s*N\s*=\s*(\d+)", txt).group(1))
    byz = SETS[re.search(r"(?m)^\s*Byz\s*<-\s*(\w+)", txt).group(1)]
    nodes = SETS[re.search(r"(?m)^\s*Nodes\s*<-\s*(\w+)", txt).group(1)]
    return dict(n=n, byz=byz, nodes=nodes)


# named constant sets of MC_DposLib.tla
SETS = {"NoByz": [], "Byz3": [3], "Byz2": [2], "Nodes3": [0, 1, 2], "Nodes012": [0, 1, 2], "Obs1": [100], "Obs2": [100, 101],
        "Nodes01": [0, 1], "Node0": [0], "Nodes0o": [0, 100], "Nodes02": [0, 2]}


_VAR_RE = re.compile(r"(?m)^/\\ (\w+) = ")


def _state_vars(txt):
    parts = _VAR_RE.split("\n" + txt.strip())
    return {parts[i]: parts[i + 1].strip() for i in range(1, len(parts) - 1, 2)}


def parse_sim_file(path):
    txt = open(path).read()
    states = []
    for m in re.finditer(r"STATE_\d+ ==\s*\n(.*?)(?=\n\s*\n(?:\\\*[^\n]*\n)?STATE_|\n=+|\Z)", txt, re.S):
        d = _state_vars(m.group(1))
        states.append((vlib.parse_value(d["lastAct"]), vlib.parse_value(d["blk"]), vlib.parse_value(d["node"])))
    return states


def behaviour_from_error_trace(res, cfg, tag):
    params = cfg_params(cfg)
    states = []
    for (_, st) in res.error_trace:
        if "_raw" in st:
            raise vlib.Infra("unparseable counterexample state of %s: %s" % (cfg, st["_raw"][:500]))
        states.append((st["lastAct"], st["blk"], st["node"]))
    return behaviour(tag, tag, params, states)


# --------------------------------------------------------------------------- harness
# (own build/run helpers instead of vlib.go_test_sharded: the test binary is built ONCE per check run, while TLC is
#  working, and then used for several batches of behaviours)

def build_harness(c):
    ov = vlib.gen_overlay()
    bindir = os.path.join(vlib.WORK, "gobin")
    os.makedirs(bindir, exist_ok=True)
    exe = os.path.join(bindir, "c08-%d.test" % os.getpid())
    cmd = ["go", "test", "-c", "-tags", "verif", "-overlay", ov, "-vet=off", "-o", exe, PKG]
    try:
        r = subprocess.run(cmd, cwd=vlib.REPO, env=vlib.goenv(), capture_output=True, text=True, timeout=1800)
    except subprocess.TimeoutExpired:
        raise vlib.Infra("go test -c timed out")
    if r.returncode != 0 or not os.path.exists(exe):
        raise vlib.Infra("harness does not build:\n%s" % (r.stdout + r.stderr)[-4000:])
    return exe


def run_shards(exe, nshards, env_for, timeout):
    bindir = os.path.dirname(exe)

    def one(i):
        cwd = os.path.join(bindir, "c08-cwd-%d-%d" % (os.getpid(), i))
        os.makedirs(cwd, exist_ok=True)
        e = dict(env_for(i))
        e["VERIF_SHARD"] = "%d/%d" % (i, nshards)
        e.setdefault("TMPDIR", cwd)
        try:
            p = subprocess.run([exe, "-test.run", "^TestVerifDpos$", "-test.timeout", "%ds" % timeout, "-test.count", "1"],
                               cwd=cwd, env=vlib.goenv(e), capture_output=True, text=True, timeout=timeout + 60)
            return p.returncode, p.stdout + p.stderr
        except subprocess.TimeoutExpired:
            return 124, "timeout"
        finally:
            shutil.rmtree(cwd, ignore_errors=True)
    with concurrent.futures.ThreadPoolExecutor(max_workers=nshards) as ex:
        return list(ex.map(one, range(nshards)))


def replay(c, exe, behs, tag, nshards=8, timeout=2400):
    if not behs:
        return 0, 0
    inpath = os.path.join(c.work, "dpos_in_%s.json" % tag)
    json.dump(dict(behaviours=behs), open(inpath, "w"))
    nshards = max(1, min(nshards, len(behs)))
    outs = [os.path.join(c.work, "dpos_out_%s_%d.json" % (tag, i)) for i in range(nshards)]
    rs = run_shards(exe, nshards, lambda i: {"VERIF_IN": inpath, "VERIF_OUT": outs[i], "VERIF_SEED": c.seed, "VERIF_TIER": c.tier}, timeout)
    nodes = steps = div = 0
    nviol = 0
    for i, (rc, out) in enumerate(rs):
        if rc != 0 and not os.path.exists(outs[i]):
            pr = ""
            if os.path.exists(outs[i] + ".progress"):
                pr = open(outs[i] + ".progress").read()
            raise vlib.Infra("dpos harness shard %d died (last progress %s):\n%s" % (
                i, pr, "\n".join(l for l in out.splitlines() if not l.startswith('{"level'))[-3000:]))
        r = c.absorb_go(outs[i], out)
        nviol += len(r.get("violations") or [])
        nodes += (r.get("extra") or {}).get("nodes_run", 0)
        steps += (r.get("extra") or {}).get("steps_run", 0)
        div += (r.get("extra") or {}).get("divergences", 0)
        if rc != 0 and not r.get("violations"):
            raise vlib.Infra("dpos harness shard %d failed:\n%s" % (i, "\n".join(l for l in out.splitlines() if not l.startswith('{"level'))[-3000:]))
    c.notes.append("%s: %d behaviours replayed, %d node runs, %d node steps, %d node runs left the specification, %d violation reports (each signature at most 3 times per shard)" % (
        tag, len(behs), nodes, steps, div, nviol))
    return nodes, steps


def tlc_batch(c, jobs, par=4):
    """jobs: [(key, cfg, workers, timeout, extra_args)] run concurrently, each in its own scratch dir"""
    def one(j):
        key, cfg, workers, timeout, args = j
        return key, vlib.tlc(SPEC_DIR, "MC_DposLib", cfg, os.path.join(c.work, "tlc_" + key), workers=workers, timeout=timeout, args=args)
    with concurrent.futures.ThreadPoolExecutor(max_workers=par) as ex:
        return dict(ex.map(one, jobs))


def graph_behaviours(res, cfg, tag, rng, max_paths=None, max_len=None):
    trs = vlib.parse_transitions(res.out)
    if len(trs) < 50:
        raise vlib.Infra("too few transitions from %s: %d" % (cfg, len(trs)))
    params = cfg_params(cfg)
    g = vlib.graph_from_transitions(trs, lambda s: s[2] == 0 and all(n["best"] == 0 and not n["known"] for n in fun_by_int(s[1]).values()))
    if not g.init:
        raise vlib.Infra("no initial state among the transitions of " + cfg)
    paths = vlib.edge_cover_paths(g, max_len=max_len, rng=rng)
    total = len(paths)
    if max_paths and len(paths) > max_paths:
        rng.shuffle(paths)
        paths = paths[:max_paths]
    behs = []
    for pi, p in enumerate(paths):
        b = vlib.path_to_behaviour(g, p)
        states = [({"name": "Init"}, b["init"][0], b["init"][1])] + [(s["action"], s["state"][0], s["state"][1]) for s in b["steps"]]
        bh = behaviour("%s-%d" % (tag, pi), tag, params, states)
        if bh:
            behs.append(bh)
    return behs, len(trs), len(g.states), total


def sim_behaviours(c, res, cfg, tag, pre):
    if "Error:" in res.out:
        raise vlib.Infra("simulation %s found an error in the design (or did not run):\n%s" % (cfg, res.out[-3000:]))
    params = cfg_params(cfg)
    behs = []
    for fn in sorted(os.listdir(pre)):
        b = behaviour("%s-%s" % (tag, fn), tag, params, parse_sim_file(os.path.join(pre, fn)))
        if b:
            behs.append(b)
    c.configs.append(dict(cfg=cfg, what="simulation (%s): %d behaviours" % (tag, len(behs)), wall_s=round(res.wall, 1)))
    return behs


# OPEN finding F4 (the Confirms field of a header is not validated): configurations that must fail in the design;
# TLC's counterexamples are replayed on the code, where they reproduce (known finding): (key, cfg, violated property, what)
OPEN = [
    ("byzq", "MC_DposLib_byzq.cfg", "LibQuorum", "F4: one Byzantine producer makes its own block irreversible (free Confirms)"),
    ("byza", "MC_DposLib_byza.cfg", "Agreement", "F4: two nodes hold conflicting irreversible blocks, 1 of 4 producers Byzantine"),
    # finality side of the open finding C07-valid-prefix-not-adopted
    ("prefix", "MC_DposLib_prefix.cfg", "LibOnMain", "F7: the valid prefix of a longer branch makes one of its blocks irreversible, a later block fails, the node stays on its old chain"),
]
# The model of the code BEFORE the repairs (Fixes = {} resp. without persist/onchain): documented counterexamples, run in the
# thorough tier for the record only (a self-test of the Fixes switches); they are not replayed and cannot change the verdict
HISTORIC = [
    ("lazy", "MC_DposLib_lazy.cfg", "Final", "b495bde5: restart, then a longer branch from below the LIB was adopted (status attached lazily)"),
    ("lazy2", "MC_DposLib_lazy2.cfg", "NoForkBelowLib", "b495bde5: restart, then a block numbered below the LIB was accepted"),
    ("stale", "MC_DposLib_stale.cfg", "LibOnMain", "a4f2be36: a proposal of the abandoned branch became the LIB"),
    ("lower", "MC_DposLib_lower.cfg", "LibMonotone", "c846cf0d: the LIB number decreased after a one-block reorganisation at the tip"),
    ("unsaved", "MC_DposLib_unsaved.cfg", "RestoreEqualsRecompute", "4cd694af: an abandoned reorganisation raised the LIB in memory only; a restart brought the older LIB back"),
    ("stale2", "MC_DposLib_stale2.cfg", "ProposalsOnMain", "fb65fdad: the valid prefix of an abandoned reorganisation left a proposal that is not on the main chain"),
]


def run(c):
    T0[0] = time.time()
    rng = random.Random(c.seed)
    quick = c.tier == "quick"
    c.rule = ("a case is one step of one node of one replayed behaviour (state of the real DPoS status compared with the specification and the "
              "property evaluated on the real node) or one pairwise LIB comparison between two nodes; distinct = distinct (behaviour, node, step)")
    c.assumptions = ["blocks reach a node parents first", "all blocks valid and empty; BP set = genesis BP list",
                     "restarts at step boundaries on the in-memory journaling store", "TLC 1.8.0"]
    simdir = {k: os.path.join(c.work, "sim_" + k) for k in ("s3", "s4", "s4i")}
    for d in simdir.values():
        os.makedirs(d, exist_ok=True)
    nsim, dsim = (40, 45) if quick else (300, 60)
    # generation configurations also check all properties: one observer, one restart, every transition
    GENS = [("gen3", "Gen_DposLib.cfg", "gen-T3"), ("gen4", "Gen_DposLib_T4.cfg", "gen-T4"), ("gen4s", "Gen_DposLib_T4s.cfg", "gen-T4s"),
            ("gen4e", "Gen_DposLib_T4e.cfg", "gen-T4e"), ("gen3w", "Gen_DposLib_T3w.cfg", "gen-T3w"), ("gen4i", "Gen_DposLib_T4i.cfg", "gen-T4i"), ("gen4j", "Gen_DposLib_T4j.cfg", "gen-T4j")]
    CLEAN = [
        ("mc", "MC_DposLib.cfg" if quick else "MC_DposLib_big.cfg", "full protocol, 3 correct producers (= nodes), every interleaving of production, delivery and one restart, %s: all properties" % ("3 blocks" if quick else "4 blocks")),
        ("t3", "MC_DposLib_T3.cfg", "tree T3, TWO observers, every delivery order, 1 restart: all properties"),
    ]
    if not quick:
        CLEAN += [("t4", "MC_DposLib_T4.cfg", "tree T4 (a producer cut off builds alone from genesis), 2 restarts: the veto holds at every point, all properties"),
                  ("t4s", "MC_DposLib_T4s.cfg", "tree T4s (reorganisation away from a branch that carried a proposal), 2 restarts: all properties"),
                  ("t4e", "MC_DposLib_T4e.cfg", "tree T4e (fork exactly at the LIB block), 2 restarts: all properties"),
                  ("t3w", "MC_DposLib_T3w.cfg", "tree T3w (chain longer than the rebuild window, fork at the tip), 2 restarts: all properties"),
                  ("t4i", "MC_DposLib_T4i.cfg", "trees T4i (longer branch with a block that fails in execute() at its 1st/2nd/3rd position; in order and children first), 2 restarts: all properties"),
                  ("t4j", "MC_DposLib_T4j.cfg", "tree T4j (valid prefix of an abandoned branch makes a proposal), 2 restarts: all properties")]
    jobs = [(k, cfg, 3 if k == "mc" else 1, 1700, None) for (k, cfg, _) in CLEAN]
    jobs += [(k, cfg, 1, 900, None) for (k, cfg, _) in GENS]
    jobs += [
        ("s3", "Sim_DposLib.cfg", 1, 900, ["-simulate", "file=%s/t,num=%d" % (simdir["s3"], nsim), "-depth", str(dsim), "-seed", str(c.seed * 7919 + 3)]),
        ("s4", "Sim_DposLib4.cfg", 1, 900, ["-simulate", "file=%s/t,num=%d" % (simdir["s4"], nsim), "-depth", str(dsim + 10), "-seed", str(c.seed * 7919 + 4)]),
        ("s4i", "Sim_DposLib4i.cfg", 1, 900, ["-simulate", "file=%s/t,num=%d" % (simdir["s4i"], max(10, nsim // 2)), "-depth", str(dsim + 10), "-seed", str(c.seed * 7919 + 6)]),
    ] + [(k, cfg, 1, 600, None) for (k, cfg, _, _) in OPEN]
    if not quick:
        jobs += [(k, cfg, 1, 600, None) for (k, cfg, _, _) in HISTORIC]
        jobs.append(("genfull", "Gen_DposLib_full.cfg", 1, 1500, None))
        jobs.append(("simint", "Sim_DposLib4i.cfg", 2, 1500, ["-simulate", "num=1000", "-depth", "70", "-seed", str(c.seed * 7919 + 7)]))
        jobs.append(("simdeep", "Sim_DposLib4.cfg", 3, 1500, ["-simulate", "num=3000", "-depth", "70", "-seed", str(c.seed * 7919 + 5)]))
    with concurrent.futures.ThreadPoolExecutor(max_workers=2) as ex:
        fb = ex.submit(build_harness, c)
        ft = ex.submit(tlc_batch, c, jobs, 5)
        R = ft.result()
        exe = fb.result()
    _t("TLC and build done: " + " ".join("%s=%.0fs/%d" % (k, r.wall, r.distinct) for k, r in R.items()))
    try:
        for (k, cfg, what) in CLEAN:
            c.require_ok(R[k], what)
        if not quick:
            r = R["simdeep"]
            c.add_tlc(r, "simulation, 3000 more behaviours: 4 producers, 1 equivocating, 3 correct nodes, 2 restarts: all properties")
            if "Error:" in r.out:
                raise vlib.Infra("simulation (Sim_DposLib4.cfg, 3000 behaviours) found an error in the design:\n" + r.out[-3000:])
            r = R["simint"]
            c.add_tlc(r, "simulation with blocks that fail in execute(), 1000 more behaviours (Sim_DposLib4i.cfg), checked only")
            if "Error:" in r.out:
                raise vlib.Infra("simulation (Sim_DposLib4i.cfg, 1000 behaviours) found an error in the design:\n" + r.out[-3000:])
            for (k, cfg, prop, what) in HISTORIC:
                r = R[k]
                c.add_tlc(r, "model of the code BEFORE the repairs, for the record: counterexample to %s (%s)" % (prop, what))
                c.notes.append("pre-repair model %s: %s" % (cfg, "counterexample to %s found, as documented" % prop if r.violation == prop
                                                            else "NOTE: expected a counterexample to %s, TLC says %s" % (prop, r.violation or "no error")))
        scen = []
        for (k, cfg, prop, what) in OPEN:
            r = R[k]
            c.add_tlc(r, "OPEN finding, expected counterexample to %s: %s" % (prop, what))
            if r.violation != prop or not r.error_trace:
                raise vlib.Infra("the configuration %s was expected to violate %s, TLC says: %s\n%s" % (cfg, prop, r.violation, r.out[-2000:]))
            scen.append(behaviour_from_error_trace(r, cfg, "open-" + k))
        c.notes.append("open findings F4/F7: TLC counterexamples to %s replayed on the real code" % ", ".join("%s (%s)" % (p, k) for (k, _, p, _) in OPEN))
        gen = []
        for (k, cfg, tag) in GENS:
            c.require_ok(R[k], "all properties + transition enumeration, one observer, one restart: " + cfg)
            gb, ntr, nst, tot = graph_behaviours(R[k], cfg, tag, rng, max_paths=(250 if quick and k == "gen4i" else None))
            c.notes.append("%s: %d transitions, %d states, %d covering behaviours (%s replayed)" % (cfg, ntr, nst, tot, "all" if len(gb) == tot else len(gb)))
            gen += gb
        s3 = sim_behaviours(c, R["s3"], "Sim_DposLib.cfg", "sim3", simdir["s3"])
        s4 = sim_behaviours(c, R["s4"], "Sim_DposLib4.cfg", "sim4", simdir["s4"])
        s4 += sim_behaviours(c, R["s4i"], "Sim_DposLib4i.cfg", "sim4i", simdir["s4i"])
        gf = []
        if not quick:
            c.require_ok(R["genfull"], "transition enumeration: full protocol, 3 nodes, 3 blocks, 1 restart")
            gf, ntrf, nstf, totf = graph_behaviours(R["genfull"], "Gen_DposLib_full.cfg", "gen-full", rng, max_paths=2500)
            c.notes.append("Gen_DposLib_full: %d transitions, %d states, %d covering behaviours, %d replayed" % (ntrf, nstf, totf, len(gf)))
        _t("behaviours: %d open-finding scenarios, %d edge cover, %d+%d simulated, %d full-protocol edge cover" % (len(scen), len(gen), len(s3), len(s4), len(gf)))
        replay(c, exe, scen, "open", nshards=max(1, len(scen)))
        _t("open-finding scenarios replayed")
        replay(c, exe, gen + s3 + s4 + gf, "main", nshards=8)
        _t("replayed")
        c.exhaustive = True
        c.extra["exhaustive_note"] = ("exhaustive over the delivery orders and restart points of the scripted trees T3, T4, T4s, T4e, T3w (every transition "
                                      "of their state graphs is replayed on a real node) and, in the model, over the full protocol with 3 producers and 3 (quick) / 4 "
                                      "(thorough) blocks; deeper behaviours of the full protocol (simulation, 3-4 producers, <= 16 blocks) are sampled")
    finally:
        try:
            os.remove(exe)
        except OSError:
            pass
