"""C08 — DPoS finality: the irreversible block is monotone, on-chain and never undone.
spec/consensus/DposLib.tla; binding: TLC behaviours replayed on real nodes running the real DPoS finality code."""
import concurrent.futures, json, os, random, re
import vlib

LEVEL = "model_checking"
MANIFEST = dict(
    category=LEVEL, design_ref="DESIGN.md §5 C08",
    text="DposLib.tla transcribes the confirmation arithmetic of consensus/impl/dpos/lib.go literally (addConfirmInfo, getPreLIB with its uint16 "
         "counter and the stop at the first zero, calcLIB's (len-1)/3-th smallest proposal, gc, the rollback window, save/load at restart, the lazily "
         "attached status) together with the chain service's use of it (refusal of blocks at or below the LIB, veto of reorganisations below it) and the "
         "block factory's Confirms = no - lpbNo.  TLC checks LibOnMain, LibMonotone, Final, NoForkBelowLib, LibQuorum, Agreement and "
         "RestoreEqualsRecompute exhaustively for the full protocol with 3 producers (small bounds) and for scripted block trees (every delivery order to "
         "one or two full nodes, restarts at every point), and by simulation for 3-4 producers with an equivocating producer.  Every transition of a small "
         "instance (edge cover), simulated deep behaviours, the scripted trees and TLC's counterexamples of the as-coded oddities are replayed on real "
         "nodes whose consensus is the real DPoS object: real signed blocks in slots their producers own, own blocks built by the real block factory, "
         "restarts on the same stores.  After every step the LIB, the proposals, the whole confirm list, LpbNo and the number the veto sees are compared "
         "with the specification, and the property is evaluated on the real node itself (LIB on the main chain by height index, monotone, nothing at or "
         "below a reported LIB replaced or accepted, quorum of distinct confirming producers, restart keeps the status, agreement of the nodes' LIBs).",
    note="one node per process at a time: the nodes of a behaviour run one after the other over the same pre-built block tree; blocks reach a node "
         "parents first (orphans: C05); all blocks are valid and empty; BP set = genesis list (heights < 300); in-memory verifdb; restarts at step "
         "boundaries (crash points inside a step: C06)",
    technique="TLA+/TLC exhaustive model + simulation; replay of TLC transitions, simulated behaviours and counterexamples into real nodes")
SPEC_DIR = os.path.join(vlib.SPEC, "consensus")
PKG = "./internal/verifnode/"

# --------------------------------------------------------------------------- TLA+ values -> harness input


def fun_by_int(v):
    """parsed TLA+ function with integer domain -> {int: value}"""
    if isinstance(v, list):
        return {i + 1: x for i, x in enumerate(v)}
    return {int(k): x for k, x in vlib.fun_items(v)}


def conv_node(n, nbp):
    pr = fun_by_int(n["pr"])
    return dict(best=n["best"], known=list(n["known"]), cf=[dict(no=e["no"], id=e["id"], bp=e["bp"], left=e["left"], rng=e["rng"]) for e in n["cf"]],
                pr=[pr[p] for p in range(nbp)], lib=n["lib"], lpb=n["lpb"], bfl=n["bfl"], ld=bool(n["ld"]))


def conv_blk(blk):
    return [dict(parent=b["parent"], no=b["no"], bp=b["bp"], conf=b["conf"]) for b in blk]


def lib_alternatives(blk, node):
    """blocks calcLIB may return instead of node.lib: proposals with the same number (unstable sort over a map)"""
    no = lambda b: 0 if b == 0 else blk[b - 1]["no"]
    return sorted({p for p in node["pr"] if p >= 0 and no(p) == no(node["lib"]) and p != node["lib"]})


def behaviour(bid, tag, params, states):
    """states: list of (lastAct, blk, node-function) including the initial one"""
    n = params["n"]
    steps = []
    for (act, blk, nodes) in states[1:]:
        st = dict(name=act["name"], node=act["node"], b=act.get("b", 0), res=act.get("res", ""))
        if act["name"] != "ByzProduce":
            st["post"] = conv_node(fun_by_int(nodes)[act["node"]], n)
            st["lib_alt"] = lib_alternatives(conv_blk(blk), st["post"])
        steps.append(st)
    if not steps:
        return None
    final_blk = conv_blk(states[-1][1])
    return dict(id=bid, tag=tag, n=n, byz=params["byz"], nodes=params["nodes"], blk=final_blk, blk0=len(states[0][1]), steps=steps)


def cfg_params(cfgname):
    """N / Byz / Nodes of a configuration (the MC module defines the named sets; see SETS)"""
    txt = open(os.path.join(SPEC_DIR, cfgname)).read()
    n = int(re.search(r"(?m)^\s*N\s*=\s*(\d+)", txt).group(1))
    byz = SETS[re.search(r"(?m)^\s*Byz\s*<-\s*(\w+)", txt).group(1)]
    nodes = SETS[re.search(r"(?m)^\s*Nodes\s*<-\s*(\w+)", txt).group(1)]
    return dict(n=n, byz=byz, nodes=nodes)


# named constant sets of MC_DposLib.tla
SETS = {"NoByz": [], "Byz3": [3], "Byz2": [2], "Nodes3": [0, 1, 2], "Nodes012": [0, 1, 2], "Obs1": [100], "Obs2": [100, 101],
        "Nodes01": [0, 1], "Node0": [0], "Nodes0o": [0, 100], "Nodes02": [0, 2]}


def behaviours_from_graph(c, cfg, tag, rng, max_paths=None, max_len=None, timeout=900):
    gen = vlib.tlc(SPEC_DIR, "MC_DposLib", cfg, c.work, workers=1, timeout=timeout)
    c.require_ok(gen, "DposLib transition enumeration (%s)" % cfg)
    trs = vlib.parse_transitions(gen.out)
    if len(trs) < 50:
        raise vlib.Infra("too few transitions from %s: %d" % (cfg, len(trs)))
    params = cfg_params(cfg)
    g = vlib.graph_from_transitions(trs, lambda s: s[2] == 0 and all(n["best"] == 0 for n in fun_by_int(s[1]).values()))
    if not g.init:
        raise vlib.Infra("no initial state among the transitions of " + cfg)
    paths = vlib.edge_cover_paths(g, max_len=max_len, rng=rng)
    total = len(paths)
    if max_paths and len(paths) > max_paths:
        rng.shuffle(paths)
        paths = paths[:max_paths]
    behs = []
    for pi, p in enumerate(paths):
        b = vlib.path_to_behaviour(g, p)
        states = [({"name": "Init"}, b["init"][0], b["init"][1])] + [(s["action"], s["state"][0], s["state"][1]) for s in b["steps"]]
        bh = behaviour("%s-%d" % (tag, pi), tag, params, states)
        if bh:
            behs.append(bh)
    return behs, len(trs), len(g.states), total


_VAR_RE = re.compile(r"(?m)^/\\ (\w+) = ")


def _state_vars(txt):
    parts = _VAR_RE.split("\n" + txt.strip())
    return {parts[i]: parts[i + 1].strip() for i in range(1, len(parts) - 1, 2)}


def parse_sim_file(path):
    txt = open(path).read()
    states = []
    for m in re.finditer(r"STATE_\d+ ==\s*\n(.*?)(?=\n\s*\n(?:\\\*[^\n]*\n)?STATE_|\n=+|\Z)", txt, re.S):
        d = _state_vars(m.group(1))
        states.append((vlib.parse_value(d["lastAct"]), vlib.parse_value(d["blk"]), vlib.parse_value(d["node"])))
    return states


def simulate(c, cfg, num, depth, tag, seed):
    pre = os.path.join(c.work, "sim_" + tag)
    os.makedirs(pre, exist_ok=True)
    res = vlib.tlc(SPEC_DIR, "MC_DposLib", cfg, c.work, workers=2, timeout=1200,
                   args=["-simulate", "file=%s/t,num=%d" % (pre, num), "-depth", str(depth), "-seed", str(seed)])
    if "Error:" in res.out:
        raise vlib.Infra("simulation %s did not run clean:\n%s" % (cfg, res.out[-3000:]))
    params = cfg_params(cfg)
    behs = []
    for fn in sorted(os.listdir(pre)):
        b = behaviour("%s-%s" % (tag, fn), tag, params, parse_sim_file(os.path.join(pre, fn)))
        if b:
            behs.append(b)
    c.configs.append(dict(cfg=cfg, what="simulation (%s): %d behaviours, depth<=%d" % (tag, len(behs), depth), wall_s=round(res.wall, 1)))
    return behs


def behaviour_from_error_trace(res, cfg, tag):
    params = cfg_params(cfg)
    states = []
    for (_, st) in res.error_trace:
        if "_raw" in st:
            raise vlib.Infra("unparseable counterexample state of %s: %s" % (cfg, st["_raw"][:500]))
        states.append((st["lastAct"], st["blk"], st["node"]))
    return behaviour(tag, tag, params, states)


# --------------------------------------------------------------------------- harness

def replay(c, behs, tag, nshards=8, timeout=2400):
    inpath = os.path.join(c.work, "dpos_in_%s.json" % tag)
    json.dump(dict(behaviours=behs), open(inpath, "w"))
    nshards = max(1, min(nshards, len(behs)))
    outs = [os.path.join(c.work, "dpos_out_%s_%d.json" % (tag, i)) for i in range(nshards)]
    rs = vlib.go_test_sharded(PKG, "^TestVerifDpos$", nshards,
                              lambda i: {"VERIF_IN": inpath, "VERIF_OUT": outs[i], "VERIF_SEED": c.seed, "VERIF_TIER": c.tier}, timeout=timeout)
    nodes = steps = 0
    for i, (rc, out) in enumerate(rs):
        if rc != 0 and not os.path.exists(outs[i]):
            pr = ""
            if os.path.exists(outs[i] + ".progress"):
                pr = open(outs[i] + ".progress").read()
            raise vlib.Infra("dpos harness shard %d died (last progress %s):\n%s" % (
                i, pr, "\n".join(l for l in out.splitlines() if not l.startswith('{"level'))[-3000:]))
        r = c.absorb_go(outs[i], out)
        nodes += (r.get("extra") or {}).get("nodes_run", 0)
        steps += (r.get("extra") or {}).get("steps_run", 0)
        if rc != 0 and not r.get("violations"):
            raise vlib.Infra("dpos harness shard %d failed:\n%s" % (i, "\n".join(l for l in out.splitlines() if not l.startswith('{"level'))[-3000:]))
    c.notes.append("%s: %d behaviours replayed, %d node runs, %d node steps" % (tag, len(behs), nodes, steps))
    return nodes, steps


import time
T0 = [0.0]


def _t(msg):
    vlib.log("[c08 %6.1fs] %s" % (time.time() - T0[0], msg))


def run(c):
    T0[0] = time.time()
    rng = random.Random(c.seed)
    quick = c.tier == "quick"
    c.rule = ("a case is one step of one node of one replayed behaviour (state of the real DPoS status compared with the specification and the "
              "property evaluated on the real node) or one pairwise LIB comparison between two nodes; distinct = distinct (behaviour, node, step)")
    c.assumptions = ["blocks reach a node parents first", "all blocks valid and empty; BP set = genesis BP list",
                     "restarts at step boundaries on the in-memory journaling store", "TLC 1.8.0"]
    behs, ntr, nst, total = behaviours_from_graph(c, "Gen_DposLib.cfg", "gen", rng, max_paths=40)
    c.notes.append("Gen_DposLib: %d transitions, %d states, %d covering paths, %d used" % (ntr, nst, total, len(behs)))
    _t("generated")
    replay(c, behs, "gen")
    _t("replayed")
