"""C18 — P2P boundary: bounded framing, same-chain peers only, content-addressed blocks.
spec/p2p/Framing.tla, FrameStream.tla, Handshake.tla, BlockRecv.tla; binding: every finished run / behaviour / transition of
the TLC models is concretised and replayed on the real V030ReadWriter (one pass over a byte stream; a connection carrying a
sequence of frames whose messages the consumer keeps), the real v2.0.0 / v0.3.x handshakers and the real block receive
paths of package p2p (harness/p2p/v030, harness/p2p/v200, harness/p2p).  The chain-service side of part (c)
(chain.addBlock; hand-written families + the sequences of the chain-service component of BlockRecv.tla) runs on real
nodes through run_chain_identity() / checks/c18_chain.py."""
import concurrent.futures, hashlib, json, os, random, re, shutil, subprocess, time
import vlib

LEVEL = "model_checking"
MANIFEST = dict(
    category=LEVEL, design_ref="DESIGN.md §5 C18",
    text="(a) Framing.tla: byte-level model of the 48-byte-header framing (writer calls truthful/lying/oversize, adversarial bytes, truncation; "
         "reader as readToLen steps under every chunking) model-checked for all byte streams within bounds (RoundTrip, BoundedAlloc, Total, "
         "Deterministic = reference parser, CleanFailure); every finished reader run is concretised (length classes -> 0,1,mid,Max,Max+1..2^32-1; "
         "offsets -> inside header / header end / inside payload / end; all sub-protocol ids) and replayed on the real V030ReadWriter under "
         "several chunkings, plus a heap-allocation probe (runtime.MemStats around every ReadMsg) and seeded random byte streams against a "
         "reference parser.  FrameStream.tla: the reader/writer as a stream object - a connection carrying a sequence of frames (payload size "
         "classes 0, 1, small, frame = bufio buffer +-1, payload = bufio buffer +-1, large, Max, Max+1), every interleaving of WriteMsg and "
         "ReadMsg calls the transport allows (reads lag writes arbitrarily), four endings (closed, cut inside header / payload, foreign oversize "
         "header), the consumer keeping every message: ReturnedMessagesImmutable (a message once returned never changes), StreamFidelity (the "
         "k-th message returned is the k-th written, and stays so), OwnBuffer, CleanFailure, Total, Complete model-checked; every finished "
         "behaviour replayed on a real V030ReadWriter pair over an in-memory connection, ALL kept messages deep-compared with independent "
         "copies after every call; the counterexample of the shared-buffer variant of the model is replayed too (must not reproduce).  "
         "(b) Handshake.tla: decision procedure of the status handshake (4 protocol versions, both directions, write "
         "failures, every combination of field classes) model-checked; every finished run replayed on the real V200/V033/V032/V030 "
         "handshakers over the real framing with several concrete representatives per class; the property (same genesis, compatible chain "
         "id, peer id of the connection) is also evaluated on the concrete message independently of the model.  (c) BlockRecv.tla: the p2p "
         "receive paths for blocks (block-produced notice, new-block notice, GetBlocksResponse to the sync manager and to the chunk "
         "receiver) as intended (digest of the header = announced identifier, else discarded without trace) model-checked; every transition, "
         "seeded interleaved walks and TLC's counterexamples of the as-coded variant (forged block first, genuine afterwards) replayed on "
         "the real handlers / syncManager / BlocksChunkReceiver with real blocks whose header is altered in each of the 12 digest fields.  "
         "Chain-service component of BlockRecv.tla (ChainService.addBlock behind those paths): genuine blocks of 1..12 transactions, every "
         "altered copy under the genuine identifier - emptied / shortened / reordered / substituted / extended body, altered header, and "
         "EVERY body with the genuine transaction root by the merkle padding rule (PadVariants, derived from the Expand operator and "
         "cross-checked by brute force against the root function) - in every order of <= 3 arrivals: AcceptBinding, ForgedNeverConnected, "
         "NoPoison, GenuineConnected model-checked; the arrival sequences (copy first, genuine block afterwards; genuine first; two copies) "
         "replayed on fresh real nodes with blocks made by a real producing node, projection (connected under the identifier? with which "
         "body? identifier cached as errored?) compared after every arrival; the counterexample of the variant without the repeated-"
         "transaction guard is replayed too (must not reproduce); plus hand-written header/body alterations on a forking tree in several "
         "arrival orders.",
    note="codec fidelity for arbitrary payload bytes is sampled, not decided (DESIGN §7); the reference wire layout (4 sub-protocol, 4 length, "
         "8 timestamp, 16+16 ids, big endian) is taken from the protocol description; timeouts of the chunk receiver are not modelled; the "
         "libp2p transport and the peer's request table are harness stubs; the legacy wire version 0.3.1 (still accepted) has no genesis "
         "check by design and is reported as an observation",
    technique="TLA+/TLC exhaustive models; replay of every TLC run/transition and of TLC counterexamples into the real code; direct evaluation of the property on concrete inputs")
SPEC_DIR = os.path.join(vlib.SPEC, "p2p")
CHAIN_PKG = "./internal/verifnode/"
MAXP = (8 << 20) + (256 << 10)      # p2pcommon.MaxPayloadLength (the harness uses the real variable; this is only for choosing families)


# --------------------------------------------------------------------------- helpers (kept here: vlib is shared)

T0 = [time.time()]


def _t(msg):
    vlib.log("[c18 %6.1fs] %s" % (time.time() - T0[0], msg))


def _tlc_batch(c, jobs):
    """jobs: [(key, module, cfg, workers, timeout)] run concurrently, each in its own scratch dir."""
    def one(j):
        key, module, cfg, workers, timeout = j
        # short runs: the C1 compiler only (JVM warm-up dominates the small models)
        jo = ["-XX:TieredStopAtLevel=1"] if c.tier == "quick" else None
        r = vlib.tlc(SPEC_DIR, module, cfg, os.path.join(c.work, "tlc-" + key), workers=workers, timeout=timeout, heap="3g", java_opts=jo)
        _t("tlc %s %s: %d states, %.1fs" % (key, cfg, r.distinct, r.wall))
        return key, r
    with concurrent.futures.ThreadPoolExecutor(max_workers=len(jobs)) as ex:
        return dict(ex.map(one, jobs))


def _build_tests(pkgs):
    """go test -c for several packages concurrently through ONE generated overlay (vlib.go_test regenerates it per call)."""
    ov = vlib.gen_overlay()
    bindir = os.path.join(vlib.WORK, "gobin")
    os.makedirs(bindir, exist_ok=True)

    def one(pkg):
        exe = os.path.join(bindir, "c18-%s-%d.test" % (hashlib.sha1((pkg + vlib.REPO).encode()).hexdigest()[:10], os.getpid()))
        cmd = ["go", "test", "-c", "-tags", "verif", "-overlay", ov, "-vet=off", "-o", exe, pkg]
        try:
            r = subprocess.run(cmd, cwd=vlib.REPO, env=vlib.goenv(), capture_output=True, text=True, timeout=2400)
        except subprocess.TimeoutExpired:
            raise vlib.Infra("go test -c timed out: " + pkg)
        if r.returncode != 0 or not os.path.exists(exe):
            raise vlib.Infra("harness does not build (%s):\n%s" % (pkg, (r.stdout + r.stderr)[-4000:]))
        _t("built " + pkg)
        return pkg, exe
    with concurrent.futures.ThreadPoolExecutor(max_workers=len(pkgs)) as ex:
        return dict(ex.map(one, pkgs))


def _run_test(exe, run, env, cwd, timeout):
    os.makedirs(cwd, exist_ok=True)
    e = dict(env)
    e.setdefault("TMPDIR", cwd)
    try:
        t0 = time.time()
        r = subprocess.run([exe, "-test.run", run, "-test.timeout", "%ds" % timeout, "-test.count", "1"], cwd=cwd, env=vlib.goenv(e),
                           capture_output=True, text=True, timeout=timeout + 60)
        _t("ran %s: %.1fs" % (run, time.time() - t0))
        return r.returncode, r.stdout + r.stderr
    except subprocess.TimeoutExpired:
        raise vlib.Infra("harness timed out: %s" % run)


def _runtime_tree(c):
    """The existing tests of p2p and p2p/v200 load ./test/sample/sample.key resp. ../test/sample/sample.key in init():
    give the test binaries a working directory where those relative paths resolve (a copy, /repo is not touched)."""
    rt = os.path.join(c.work, "rt")
    src = os.path.join(vlib.REPO, "p2p", "test", "sample")
    dst = os.path.join(rt, "p2p", "test", "sample")
    os.makedirs(dst, exist_ok=True)
    for fn in os.listdir(src):
        shutil.copy(os.path.join(src, fn), os.path.join(dst, fn))
    for d in ("v030", "v200"):
        os.makedirs(os.path.join(rt, "p2p", d), exist_ok=True)
    return {"./p2p/": os.path.join(rt, "p2p"), "./p2p/v030/": os.path.join(rt, "p2p", "v030"), "./p2p/v200/": os.path.join(rt, "p2p", "v200")}


# --------------------------------------------------------------------------- (a) framing

def framing_cases(trs):
    cases = []
    for (_s, _a, d) in trs:
        cases.append({
            "stream": list(d["stream"]), "pure": bool(d["pure"]), "chopped": d["chopped"],
            "wlog": [{"sub": w["sub"], "plen": len(w["payload"]), "declared": w["declared"], "res": w["res"]} for w in d["wlog"]],
            "out": [{"k": o["k"], "sub": o["sub"], "n": o["n"]} for o in d["out"]]})
    return cases


SMALL_MAX = 70000


def framing_families(tier, rng):
    """scale true: lengths relative to the node's real MaxPayloadLength (8.25 MiB frames, replayed on a sample of the cases);
    scale small: the same code with MaxPayloadLength configured to SMALL_MAX (every case)."""
    fams = [
        dict(scale="true", mid=47, over_add=1, over_abs=0, rest=-1, hdr_cut=4, inter="early", chunker="all", fill="rand"),
        dict(scale="true", mid=4097, over_add=0, over_abs=(1 << 32) - 1, rest=100, hdr_cut=47, inter="late", chunker="rand", fill="frames"),
        dict(scale="small", mid=47, over_add=1, over_abs=0, rest=-1, hdr_cut=4, inter="early", chunker="all", fill="rand"),
        dict(scale="small", mid=4097, over_add=0, over_abs=(1 << 32) - 1, rest=100, hdr_cut=47, inter="late", chunker="rand", fill="frames"),
        dict(scale="small", mid=49, over_add=2, over_abs=0, rest=5000, hdr_cut=8, inter="spread", chunker="split", fill="rand"),
        dict(scale="small", mid=-1, over_add=1, over_abs=0, rest=-1, hdr_cut=16, inter="late", chunker="rand", fill="rand"),     # mid = Max-1
    ]
    mids = [2, 3, 48, 4095, 4096, 65536]
    n = 2 if tier == "quick" else 6
    for _ in range(n):
        add = rng.choice([0, 0, 1, 2, 4096])
        fams.append(dict(scale="small", mid=rng.choice(mids), over_add=add,
                         over_abs=0 if add else rng.choice([SMALL_MAX + 1, 1 << 24, 1 << 28, 1 << 31, (1 << 31) + 1, MAXP, MAXP + 1]),
                         rest=rng.choice([1, 100, 5000, -1]), hdr_cut=rng.randrange(1, 48),
                         inter=rng.choice(["early", "late", "spread"]), chunker=rng.choice(["all", "rand", "split", "one"]),
                         fill=rng.choice(["rand", "frames"])))
    if tier != "quick":
        fams.append(dict(scale="true", mid=-1, over_add=1, over_abs=0, rest=-1, hdr_cut=16, inter="late", chunker="rand", fill="rand"))
        fams.append(dict(scale="true", mid=1 << 20, over_add=4096, over_abs=0, rest=5000, hdr_cut=31, inter="spread", chunker="split", fill="rand"))
    for i, f in enumerate(fams):
        f["salt"] = i + 1
    return fams


# --------------------------------------------------------------------------- (a') framing, the reader/writer as a stream object

_FS_STR = re.compile(r'\\"([^"\\]*)\\"')


def stream_behaviours(out):
    """Lines printed by MC_FrameStream!GenLog: "FS|<<<<steps>>, <<results>>>>" (strings "W cls sub res" | "R" | "E kind" | "= kind sub cls tag")."""
    behs = []
    for line in out.splitlines():
        if not line.startswith('"FS|'):
            continue
        items = _FS_STR.findall(line)
        behs.append({"steps": [x for x in items if x[0] != "="], "ret": [x for x in items if x[0] == "="]})
    return behs


def stream_scenario(name, res):
    """Counterexample of the shared-buffer variant of FrameStream.tla -> the calls made (hist) and what every ReadMsg
    returned when it returned (seen): that is what the design demands the kept messages to show for ever."""
    st = res.error_trace[-1][1] if res.error_trace else {}
    hist, seen = st.get("hist"), st.get("seen")
    if not isinstance(hist, list) or not isinstance(seen, list) or not hist:
        raise vlib.Infra("cannot read the counterexample of %s\n%s" % (name, res.out[-2000:]))
    steps = []
    for a in hist:
        if a["name"] == "Write":
            steps.append("W %s %d %s" % (a["cls"], a["sub"], a["res"]))
        elif a["name"] == "End":
            steps.append("E " + a["kind"])
        else:
            steps.append("R")
    return {"name": name, "steps": steps, "ret": ["= %s %d %s %d" % (x["k"], x["sub"], x["cls"], x["tag"]) for x in seen]}


FS_SMALL = [2, 3, 15, 16, 17, 31, 32, 33, 47, 48, 49, 63, 64, 65, 100, 127, 128, 129, 255, 256, 257, 511, 512, 513, 1000, 1023, 1024, 1025,
            2047, 2048, 2049, 4000]
FS_FEDGE = [4047, 4048, 4049]                 # header + payload = size of the bufio buffers +- 1
FS_PEDGE = [4095, 4096, 4097]                 # payload = size of the bufio buffers +- 1 (first length read / written directly)
FS_LARGE = [4098, 4144, 5000, 8191, 8192, 8193, 12288, 16383, 16384, 16385]
FS_SMALL_MAX = 20000                          # MaxPayloadLength configured for the stream replays (above every class but max / over)


def stream_families(tier, rng):
    def fam(scale, small, fedge, pedge, large, hdr_cut, cut, chunker, fill="rand", over_add=1, over_abs=0, rest=100):
        return dict(scale=scale, lens=dict(small=small, fedge=fedge, pedge=pedge, large=large), hdr_cut=hdr_cut, cut=cut, chunker=chunker,
                    fill=fill, over_add=over_add, over_abs=over_abs, rest=rest)
    fams = [
        fam("small", 47, 4048, 4096, 8192, 4, "zero", "all"),
        fam("small", 256, 4047, 4095, 4098, 47, "last", "rand", over_add=0, over_abs=(1 << 32) - 1),
        fam("small", 257, 4049, 4097, 16385, 8, "half", "split", fill="frames"),
        fam("true", 100, 4048, 4096, 1 << 20, 16, "one", "rand"),
    ]
    for _ in range(1 if tier == "quick" else 4):
        add = rng.choice([0, 1, 2, 4096])
        fams.append(fam("small", rng.choice(FS_SMALL), rng.choice(FS_FEDGE), rng.choice(FS_PEDGE), rng.choice(FS_LARGE), rng.randrange(1, 48),
                        rng.choice(["zero", "one", "half", "last"]), rng.choice(["all", "rand", "split", "one"]), rng.choice(["rand", "frames"]),
                        over_add=add, over_abs=0 if add else rng.choice([1 << 24, 1 << 31, (1 << 32) - 1, MAXP + 1]), rest=rng.choice([0, 1, 100, 5000])))
    if tier != "quick":
        fams.append(fam("true", 255, 4049, 4095, 1 << 20, 31, "last", "split"))
    for i, f in enumerate(fams):
        f["salt"] = 101 + i
    return fams


# --------------------------------------------------------------------------- (b) handshake

def handshake_cases(trs):
    cases = []
    for (_s, _a, d) in trs:
        cases.append({"ver": d["ver"], "dir": d["dir"], "rs": dict(d["rs"]), "wok": bool(d["wok"]), "sentLocal": bool(d["sentLocal"]),
                      "sentGoAway": bool(d["sentGoAway"]), "result": d["result"]})
    return cases


# --------------------------------------------------------------------------- (c) block identity, p2p side

def _item(v):
    return {"ann": v["ann"], "hdr": v["hdr"]}


def _br_state(v):
    return {"cache": list(v.get("cache", [])), "outF": [_item(x) for x in v.get("outF", [])], "outA": list(v.get("outA", [])),
            "req": list(v["req"]), "off": v["off"], "got": [_item(x) for x in v["got"]], "rstat": v["rstat"],
            "rsp": {"k": v["rsp"]["k"], "blocks": [_item(x) for x in v["rsp"]["blocks"]]}}


def _br_act(a):
    d = {"name": a["name"]}
    if "it" in a:
        d["it"] = _item(a["it"])
    if "its" in a:
        d["its"] = [_item(x) for x in a["its"]]
    for k in ("auth", "known", "ok", "hasNext"):
        if k in a:
            d[k] = bool(a[k])
    if "id" in a:
        d["id"] = a["id"]
    if "req" in a:
        d["req"] = list(a["req"])
    return d


def blockrecv_transitions(trs):
    return [{"src": _br_state(s), "act": _br_act(a), "dst": _br_state(d)} for (s, a, d) in trs]


RECV_ACTS = ("StartGet", "Chunk")


def blockrecv_walks(T, n, length, rng):
    """Interleavings of a walk through the notice component (state = cache) and one through the receiver component."""
    def sm_key(s):
        return json.dumps(sorted(s["cache"]))

    def rc_key(s):
        return json.dumps([s["req"], s["off"], s["got"], s["rstat"], s["rsp"]], sort_keys=True)
    sm_out, rc_out = {}, {}
    for i, t in enumerate(T):
        if t["act"]["name"] in RECV_ACTS:
            rc_out.setdefault(rc_key(t["src"]), []).append(i)
        else:
            sm_out.setdefault(sm_key(t["src"]), []).append(i)
    init = {"cache": [], "req": [], "off": 0, "got": [], "rstat": "none", "rsp": {"k": "none", "blocks": []}}
    walks = []
    for _ in range(n):
        sm, rc, w = sm_key(init), rc_key(init), []
        for _ in range(length):
            if rng.random() < 0.5 and sm_out.get(sm):
                # prefer events that do something: forged / genuine notices over ignored ones
                i = rng.choice(sm_out[sm])
                w.append(i)
                sm = sm_key(T[i]["dst"])
            elif rc_out.get(rc):
                i = rng.choice(rc_out[rc])
                w.append(i)
                rc = rc_key(T[i]["dst"])
        walks.append(w)
    return walks


HEADER_FIELDS = ["ChainID", "PrevBlockHash", "BlockNo", "Timestamp", "BlocksRootHash", "TxsRootHash", "ReceiptsRootHash", "Confirms",
                 "PubKey", "CoinbaseAccount", "Sign", "Consensus"]


def blockrecv_families(tier, rng):
    if tier == "quick":
        alts = ["foreign", "TxsRootHash", rng.choice(HEADER_FIELDS)]
    else:
        alts = ["foreign"] + HEADER_FIELDS
    fams = []
    for i, a in enumerate(alts):
        fams.append({"alt": a, "body_alt": i % 3 == 1, "agent": i % 4 == 3, "salt": i + 1})
    fams.append({"alt": "TxsRootHash", "body_alt": False, "agent": True, "salt": len(fams) + 1})
    return fams


def scenario_from_trace(name, res):
    """A TLC counterexample of the as-coded model -> the sequence of actions (lastAct of every state but the first)."""
    acts = []
    for (_n, st) in res.error_trace[1:]:
        la = st.get("lastAct")
        if not isinstance(la, dict):
            raise vlib.Infra("cannot read the counterexample of %s" % name)
        acts.append(_br_act(la))
    if not acts:
        raise vlib.Infra("empty counterexample for %s" % name)
    return {"name": name, "acts": acts}


def run_chain_identity(c, exe=None, bodies=None):
    """The chain-service side of part (c) (chain.addBlock / ChainService.errBlocks): a forged block must not be stored or
    cached as bad under the announced identifier (DESIGN §6-e).  Forged-before-genuine deliveries on a real node:
    checks/c18_chain.py + harness/internal/verifnode/verif_identity_test.go (hand-written families on tree T0) and
    verif_identity_bodies_test.go (the sequences of the chain-service component of BlockRecv.tla)."""
    from checks import c18_chain
    return c18_chain.run_chain_identity(c, exe=exe, bodies=bodies)


# --------------------------------------------------------------------------- the check

def run(c):
    rng = random.Random(c.seed)
    quick = c.tier == "quick"
    T0[0] = time.time()
    c.rule = ("a case is one replay on the real code: (finished reader run of Framing.tla x family of real lengths/offsets x chunking), "
              "(finished run of Handshake.tla x concrete representative of every field class), (transition / walk step / attack scenario of "
              "BlockRecv.tla x family of forged headers), (finished behaviour of FrameStream.tla x family of real lengths x chunking), (arrival "
              "of an arrival sequence of the chain-service component of BlockRecv.tla on a fresh real node); distinct = distinct such tuples")
    c.assumptions = ["reference wire layout of the 48-byte header from the protocol description",
                     "peer request table, actor system and chain accessor are harness stubs; libp2p is not involved",
                     "chunk-receiver timeouts not modelled (ttl 1h in the harness)", "TLC 1.8.0"]
    # developer aid (mutation runs): VERIF_C18_PARTS=a,b restricts the run to some parts; the default is everything
    parts = set(p for p in os.environ.get("VERIF_C18_PARTS", "a,b,c").split(",") if p in ("a", "b", "c")) or {"a", "b", "c"}
    if parts != {"a", "b", "c"}:
        c.notes.append("PARTIAL RUN: parts %s only (VERIF_C18_PARTS)" % sorted(parts))
    part_of = {"fr": "a", "fs": "a", "hs": "b", "br": "c"}
    # ---- 1. TLC: design checks and generation, concurrently
    W = 3
    jobs = [
        ("fr-mc", "MC_Framing", "MC_Framing.cfg" if quick else "MC_Framing_big.cfg", W, 1500),
        ("fr-gen", "MC_Framing", "Gen_Framing.cfg" if quick else "Gen_Framing_big.cfg", 1, 1500),
        ("fs-gen", "MC_FrameStream", "Gen_FrameStream.cfg", 1, 1500),        # design check + generation in one run
        ("fs-sh", "MC_FrameStream", "MC_FrameStream_shared.cfg", 1, 600),
        ("hs-mc", "MC_Handshake", "MC_Handshake.cfg" if quick else "MC_Handshake_big.cfg", 2, 900),
        ("hs-gen", "MC_Handshake", "Gen_Handshake.cfg" if quick else "Gen_Handshake_big.cfg", 1, 900),
        ("br-mc", "MC_BlockRecv", "MC_BlockRecv.cfg" if quick else "MC_BlockRecv_big.cfg", W, 1500),
        ("br-gen", "MC_BlockRecv", "Gen_BlockRecv.cfg" if quick else "Gen_BlockRecv_big.cfg", 1, 1500),
        ("br-ac1", "MC_BlockRecv", "MC_BlockRecv_ascoded.cfg", 1, 600),
        ("br-ac2", "MC_BlockRecv", "MC_BlockRecv_ascoded2.cfg", 1, 600),
        ("br-cs", "MC_BlockRecvCS", "MC_BlockRecvCS.cfg", 1, 900),         # design check + generation in one run
        ("br-cs-ng", "MC_BlockRecvCS", "MC_BlockRecvCS_noguard.cfg", 1, 600),
    ]
    if not quick:
        jobs.append(("br-mc2", "MC_BlockRecv", "MC_BlockRecv_big2.cfg", W, 1500))
        jobs.append(("fs-gen2", "MC_FrameStream", "Gen_FrameStream_big.cfg", 1, 1500))
        jobs.append(("fs-mc", "MC_FrameStream", "MC_FrameStream.cfg", W, 1500))
        jobs.append(("fs-mc2", "MC_FrameStream", "MC_FrameStream_big.cfg", W, 1500))
    jobs = [j for j in jobs if part_of[j[0][:2]] in parts]
    # the Go harnesses are compiled while TLC runs
    pkgs = [p for p, need in (("./p2p/v030/", {"a", "b"}), ("./p2p/v200/", {"b"}), ("./p2p/", {"c"}), (CHAIN_PKG, {"c"})) if need & parts]
    with concurrent.futures.ThreadPoolExecutor(max_workers=2) as ex:
        fb = ex.submit(_build_tests, pkgs)
        ft = ex.submit(_tlc_batch, c, jobs)
        R = ft.result()
        exes = fb.result()
    try:
        cwds = _runtime_tree(c)
        envs, outs, plan = {}, {}, []

        def inp(name, pkg, run_, obj):
            p = os.path.join(c.work, name + "_in.json")
            json.dump(obj, open(p, "w"))
            outs[name] = os.path.join(c.work, name + "_out.json")
            envs[name] = {"VERIF_IN": p, "VERIF_OUT": outs[name], "VERIF_SEED": c.seed, "VERIF_TIER": c.tier}
            plan.append((name, pkg, run_))
        sizes = {}
        if "a" in parts:
            c.require_ok(R["fr-mc"], "Framing design: RoundTrip, BoundedAlloc, AllocAfterCheck, Total, Deterministic, CleanFailure, ConsumedExact")
            c.require_ok(R["fr-gen"], "Framing: enumeration of finished reader runs")
            fr_cases = framing_cases(vlib.parse_transitions(R["fr-gen"].out))
            if len(fr_cases) < 1000:
                raise vlib.Infra("too few generated framing cases: %d" % len(fr_cases))
            fr_fams = framing_families(c.tier, rng)
            sizes["a"] = "framing %d finished reader runs (all byte streams of <= %d abstract bytes over 5 values, all <= 2 writer calls x truncations) x %d families" % (
                len(fr_cases), 4 if quick else 6, len(fr_fams))
            inp("framing", "./p2p/v030/", "^TestVerifFraming$",
                {"hdr_len": 2, "max": 3, "cases": fr_cases, "families": fr_fams, "random_streams": 800 if quick else 8000,
                 "small_max": SMALL_MAX, "true_every": 12 if quick else 6})
            # the reader/writer as a stream object: interleaved writes and reads, the consumer keeps every message
            c.require_ok(R["fs-gen"], "FrameStream design: ReturnedMessagesImmutable, StreamFidelity, OwnBuffer, CleanFailure, Total, Complete, RefusedWritesSilent "
                                      "checked on every behaviour prefix + enumeration of the finished behaviours (<= 3 writes, 8 size classes)")
            fs_behs = stream_behaviours(R["fs-gen"].out)
            if not quick:
                c.require_ok(R["fs-mc"], "FrameStream design, 2 sub-protocols, <= 3 writes")
                c.require_ok(R["fs-mc2"], "FrameStream design, 2 sub-protocols, <= 4 writes")
                c.require_ok(R["fs-gen2"], "FrameStream: enumeration of finished behaviours (<= 4 writes, 6 size classes)")
                fs_behs += stream_behaviours(R["fs-gen2"].out)
            if len(fs_behs) < 10000:
                raise vlib.Infra("too few generated stream behaviours: %d" % len(fs_behs))
            r = R["fs-sh"]
            c.add_tlc(r, "FrameStream with a buffer shared between small messages: expected counterexample to ReturnedMessagesImmutable")
            if r.violation != "ReturnedMessagesImmutable" or not r.error_trace:
                raise vlib.Infra("the shared-buffer variant of FrameStream was expected to violate ReturnedMessagesImmutable, TLC says: %s\n%s" % (r.violation, r.out[-2000:]))
            fs_scen = [stream_scenario("shared-buffer-counterexample", r)]
            c.notes.append("shared-buffer variant of FrameStream.tla: TLC's counterexample %s replayed on the real reader (must not reproduce)" % fs_scen[0]["steps"])
            fs_fams = stream_families(c.tier, rng)
            # at the node's real MaxPayloadLength: a seeded sample of the behaviours that carry two or more big frames
            big = [i for i, b in enumerate(fs_behs) if sum(1 for x in b["steps"] if x.startswith(("W max", "W large"))) >= 2]
            true_idx = sorted(rng.sample(big, min(len(big), 24 if quick else 600)))
            sizes["a2"] = "framing as a stream %d finished behaviours (every interleaving of <= %d WriteMsg calls over the size classes with the ReadMsg calls, 4 endings) x %s %d families of real lengths" % (
                len(fs_behs), 3 if quick else 4, "every second of" if quick else "each of", len(fs_fams))
            inp("stream", "./p2p/v030/", "^TestVerifFrameStream$",
                {"behaviours": fs_behs, "scenarios": fs_scen, "families": fs_fams, "small_max": FS_SMALL_MAX, "true_idx": true_idx, "stride": 2 if quick else 1})
        if "b" in parts:
            c.require_ok(R["hs-mc"], "Handshake design: SameChainOnly, Decision, TwinAccepted, Total, InboundSendsAfterAccept")
            c.require_ok(R["hs-gen"], "Handshake: enumeration of finished runs")
            hs_cases = handshake_cases(vlib.parse_transitions(R["hs-gen"].out))
            if len(hs_cases) < 1000:
                raise vlib.Infra("too few generated handshake cases: %d" % len(hs_cases))
            nv = 3 if quick else 4
            sizes["b"] = "handshake %d finished runs (%s) x %d concrete variants" % (
                len(hs_cases), "<= 2 deviating fields" if quick else "all field combinations", nv)
            inp("hs03x", "./p2p/v030/", "^TestVerifHandshakeV03x$", {"cases": [x for x in hs_cases if x["ver"] != "v200"], "variants": nv})
            inp("hs200", "./p2p/v200/", "^TestVerifHandshakeV200$", {"cases": [x for x in hs_cases if x["ver"] == "v200"], "variants": nv})
        if "c" in parts:
            c.require_ok(R["br-mc"], "BlockRecv intended design: FwdOwnDigest, SyncerOwnDigest, CacheOnlyLegit, ForgedNoTrace, GenuineAccepted, AnnouncementHeard, OneAnswer")
            if not quick:
                c.require_ok(R["br-mc2"], "BlockRecv intended design, 3-block requests, responses of <= 3 blocks")
            c.require_ok(R["br-gen"], "BlockRecv: enumeration of transitions")
            # the as-coded variants must FAIL in the design (that is the suspected defect); their counterexamples become test scenarios
            scenarios = []
            for key, prop, name in (("br-ac1", "GenuineAccepted", "forged-notice-then-genuine-notice"),
                                    ("br-ac2", "AnnouncementHeard", "forged-notice-then-announcement")):
                r = R[key]
                c.add_tlc(r, "BlockRecv AS CODED (no digest check): expected counterexample to " + prop)
                if r.violation != prop or not r.error_trace:
                    raise vlib.Infra("the as-coded model was expected to violate %s, TLC says: %s\n%s" % (prop, r.violation, r.out[-2000:]))
                scenarios.append(scenario_from_trace(name, r))
            c.notes.append("as-coded model (CheckDigest = FALSE): TLC counterexamples replayed on the real code: " +
                           "; ".join("%s = %s" % (s["name"], [a["name"] + json.dumps(a.get("it", a.get("id"))) for a in s["acts"]]) for s in scenarios))
            T = blockrecv_transitions(vlib.parse_transitions(R["br-gen"].out))
            if len(T) < 5000:
                raise vlib.Infra("too few generated block-receive transitions: %d" % len(T))
            # hand-written attack orders next to TLC's: double forgery, through the chunk receiver, through a block response
            fa, ga = {"ann": "a", "hdr": "x"}, {"ann": "a", "hdr": "a"}
            scenarios += [
                {"name": "two-forged-notices-then-genuine", "acts": [
                    {"name": "BPNotice", "it": fa, "auth": True}, {"name": "BPNotice", "it": {"ann": "a", "hdr": "b"}, "auth": True},
                    {"name": "BPNotice", "it": ga, "auth": True}]},
                {"name": "forged-chunk-then-genuine-chunk", "acts": [
                    {"name": "StartGet", "req": ["a"]}, {"name": "Chunk", "its": [fa], "hasNext": False, "ok": True},
                    {"name": "StartGet", "req": ["a"]}, {"name": "Chunk", "its": [ga], "hasNext": False, "ok": True}]},
                {"name": "forged-block-response-then-genuine-notice", "acts": [
                    {"name": "GetBlockRsp", "its": [fa], "ok": True}, {"name": "BPNotice", "it": ga, "auth": True}]},
            ]
            br_fams = blockrecv_families(c.tier, rng)
            sizes["c"] = "block identity %d transitions x %d families of forged headers" % (len(T), len(br_fams))
            inp("blockrecv", "./p2p/", "^TestVerifBlockRecv$",
                {"transitions": T, "walks": blockrecv_walks(T, 60 if quick else 600, 40, rng), "families": br_fams, "scenarios": scenarios})
            # the chain service behind the receive paths: genuine blocks of 1..12 transactions, every altered copy under the
            # genuine identifier (incl. every body with the genuine transaction root by the merkle padding rule), every order
            from checks import c18_chain
            c.require_ok(R["br-cs"], "BlockRecv chain-service component: AcceptBinding, PaddedAreTheCollisions (PadVariants cross-checked by brute force), "
                                     "ForgedNeverConnected, NoPoison, GenuineConnected, ForgedNoTraceCs + enumeration of the transitions")
            r = R["br-cs-ng"]
            c.add_tlc(r, "BlockRecv chain-service component WITHOUT the repeated-transaction guard: expected counterexample to GenuineConnected")
            if r.violation != "GenuineConnected" or not r.error_trace:
                raise vlib.Infra("the chain-service model without the repeated-transaction guard was expected to violate GenuineConnected, TLC says: %s\n%s" % (r.violation, r.out[-2000:]))
            cx = c18_chain.counterexample_items(r)
            cs_seqs, cs_stat = c18_chain.chain_body_sequences(vlib.parse_transitions(R["br-cs"].out), c.tier, rng, cx)
            k = rng.randrange(len(c18_chain.HEADER_FIELDS))
            chain_bodies = {"sequences": cs_seqs, "header_alts": c18_chain.HEADER_FIELDS[k:] + c18_chain.HEADER_FIELDS[:k]}
            c.notes.append("chain-service model without the repeated-transaction guard: TLC's counterexample (block of %d transactions: %s) replayed on the real node (must not reproduce)" % (
                cx[0], [(it["kind"], it["body"]) for it in cx[1]]))
            sizes["c2"] = "chain service %d arrival sequences over %d altered copies (%d of them bodies with the genuine transaction root by the padding rule) of genuine blocks of 1..%d transactions" % (
                len(cs_seqs), cs_stat["items"], cs_stat["padded"], cs_stat["sizes"])
        _t("inputs written: " + "; ".join(sizes.values()))
        # the framing harness (with its heap probe, which measures its own process) and the stream harness run first, side by
        # side; then the others side by side
        results = {}
        with concurrent.futures.ThreadPoolExecutor(max_workers=1) as cex:
            # chain-service side of (c), next to the p2p harnesses (its result is absorbed by that thread; this one only waits meanwhile)
            chain_fut = cex.submit(run_chain_identity, c, exes[CHAIN_PKG], chain_bodies) if "c" in parts else None
            for group in ([x for x in plan if x[0] in ("framing", "stream")], [x for x in plan if x[0] not in ("framing", "stream")]):
                if group:
                    with concurrent.futures.ThreadPoolExecutor(max_workers=len(group)) as ex:
                        futs = {name: ex.submit(_run_test, exes[pkg], run_, envs[name], cwds[pkg], 3000) for (name, pkg, run_) in group}
                        for name, f in futs.items():
                            results[name] = f.result()
            if chain_fut:
                chain_fut.result()
    finally:
        for e in exes.values():
            try:
                os.remove(e)
            except OSError:
                pass
    v031 = False
    for name, _pkg, _run in plan:
        rc, out = results[name]
        r = c.absorb_go(outs[name], out)
        if rc != 0 and not r.get("violations"):
            raise vlib.Infra("harness %s failed:\n%s" % (name, out[-3000:]))
        v031 = v031 or bool((r.get("extra") or {}).get("v031_accepts_other_genesis"))
        if name == "framing":
            c.extra["framing_error_classes"] = (r.get("extra") or {}).get("error_classes")
    if v031:
        c.notes.append("observation (not a verdict): the handshaker of wire version 0.3.1 (V030Handshaker, still in AcceptedInboundVersions) "
                       "accepts a peer with a different genesis hash — that version has no genesis field to compare")
    c.exhaustive = True
    c.extra["exhaustive_note"] = ("exhaustive over the abstract models: " + "; ".join(sizes[k] for k in sorted(sizes)) +
                                  ".  Concrete representatives, walks and random streams are sampled.")
