"""C12 — state snapshots: reverting restores exactly the earlier visible state.
spec/state/StateBuffer.tla (mechanism layer refines a reference layer with an explicit stack of copies);
binding: an edge cover of the complete TLC transition graph of the small model replayed on the real
StateDB/BlockState/ContractState/AccountState (harness/state), plus TLC validation of recorded random runs."""
import json, os, random, time
import vlib

LEVEL = "model_checking"
MANIFEST = dict(
    category=LEVEL, design_ref="DESIGN.md §5 C12",
    text="StateBuffer.tla models the entry logs with per-key index stacks, the account buffer over the account trie, the storage "
         "cache (staged storages, shared/private ContractState handles), BlockState.Snapshot/Rollback, ContractState.Snapshot/Rollback, "
         "Update and Commit, next to a reference layer (plain maps with a stack of copies); TLC checks exhaustively that the mechanism "
         "refines the reference (reads see the last surviving write, reverts restore the snapshot for every account and key at any "
         "nesting, the committed state is the reference). Every transition of the complete graph of a small instance is replayed on "
         "the real code (edge cover); after every step all accounts, all storage keys (fresh handle) and all open handles are read "
         "back, the state root after Update/Commit is compared with an independently computed canonical root of the surviving "
         "contents, and after Commit a second StateDB opened at the committed root is read. Seeded random runs on larger instances "
         "(nesting depth 6) are checked against a Go transcription of the reference and validated by TLC against StateBufferTrace.tla.",
    note="memorydb stands for the disk store; usage protocol P1-P5 of the spec header (handles are transaction scoped, Update/Commit "
         "invalidate snapshots, Commit follows Update) is assumed, as the callers in chain/ and contract/ do; roots are compared with "
         "the canonical sparse-Merkle root of the contents (C10)",
    technique="TLA+/TLC exhaustive refinement check; edge-cover replay of the TLC graph into the real code; TLC trace validation of recorded random runs")
SPEC_DIR = os.path.join(vlib.SPEC, "state")


def parse_gen(out):
    """Lines of MC_StateBuffer!GenState / GenLog:  "ST#key#obs"  and  "TX#key#act#key"."""
    states, edges = {}, []
    cache = {}
    for line in out.splitlines():
        if not line.startswith('"ST#') and not line.startswith('"TX#'):
            continue
        if not line.endswith('"'):
            raise vlib.Infra("broken generation line: " + line[:200])
        body = line[1:-1].replace('\\"', '"').replace("\\\\", "\\")
        parts = body.split("#")
        if len(parts) != (3 if parts[0] == "ST" else 4):
            raise vlib.Infra("broken generation line: " + line[:200])
        if parts[0] == "ST":
            if parts[1] not in states:
                states[parts[1]] = json.loads(parts[2])
        else:
            if parts[2] not in cache:
                cache[parts[2]] = json.loads(parts[2])
            edges.append((parts[1], parts[2], parts[3]))
    return states, edges, cache


def cover_walks(g, eidx, init, max_len, rng):
    """Walks from the initial state such that every transition reachable from it is on one of them.
    Greedy: follow an uncovered transition if the current state has one, otherwise take the shortest
    path (over any transitions) to the nearest state that has one; a walk ends when nothing uncovered
    is within reach or it is max_len long.  (vlib.edge_cover_paths restarts from the initial state
    whenever it is stuck, which gives several times more steps on this graph.)"""
    from collections import deque
    todo = {s: list(range(len(outs))) for s, outs in g.out.items()}
    for s in todo:
        rng.shuffle(todo[s])

    def nearest(src):
        prev = {src: None}
        dq = deque([src])
        while dq and len(prev) < 400:     # bounded search: beyond that a new walk from the initial state is cheaper
            s = dq.popleft()
            if todo.get(s) and s != src:
                path = []
                while prev[s] is not None:
                    ps, k = prev[s]
                    path.append((ps, k))
                    s = ps
                path.reverse()
                return path
            for k, (d, _) in enumerate(g.out.get(s, [])):
                if d not in prev:
                    prev[d] = (s, k)
                    dq.append(d)
        return None

    # shortest path from the initial state to every state (used to start a walk)
    parent, order = {init: None}, [init]
    dq = deque([init])
    while dq:
        s = dq.popleft()
        for k, (d, _) in enumerate(g.out.get(s, [])):
            if d not in parent:
                parent[d] = (s, k)
                order.append(d)
                dq.append(d)
    walks, nxt = [], 0
    while True:
        while nxt < len(order) and not todo.get(order[nxt]):
            nxt += 1
        if nxt == len(order):
            break
        path, s = [], order[nxt]
        while parent[s] is not None:
            path.append(parent[s])
            s = parent[s][0]
        path.reverse()
        w = [eidx[e] for e in path]
        for e in path:                       # transitions on the way count as covered
            if e[1] in todo[e[0]]:
                todo[e[0]].remove(e[1])
        cur = order[nxt]
        while len(w) < max_len:
            if todo.get(cur):
                k = todo[cur].pop()
                w.append(eidx[(cur, k)])
                cur = g.out[cur][k][0]
                continue
            path = nearest(cur)
            if path is None or len(w) + len(path) >= max_len:
                break
            for (s, k) in path:
                w.append(eidx[(s, k)])
            cur = g.out[path[-1][0]][path[-1][1]][0]
        walks.append(w)
    return walks


def obs_json(o):
    return {"acct": o["acct"], "store": o["store"], "hv": o["hv"], "live": o["live"], "depth": o["depth"], "ncommit": o["ncommit"]}


def names_of(cfg_path):
    """Accts/Ctrs/Keys of a generation configuration (so that the harness reads exactly the model's universe)."""
    import re
    txt = open(cfg_path).read()
    out = {}
    for n in ("Accts", "Ctrs", "Keys"):
        m = re.search(r"(?m)^\s*%s\s*=\s*\{([^}]*)\}" % n, txt)
        out[n] = sorted(x.strip().strip('"') for x in m.group(1).split(",") if x.strip())
    return out


def gen_graph(c, gcfg, rng):
    """TLC enumerates the complete graph of a generation configuration; returns the harness input for it."""
    t0 = time.time()
    gen = vlib.tlc(SPEC_DIR, "MC_StateBuffer", gcfg, c.work, timeout=2400, args=["-fp", "1"])
    c.require_ok(gen, "StateBuffer transition enumeration (%s)" % gcfg)
    tparse = time.time()
    states, edges, acttext = parse_gen(gen.out)
    if len(edges) < 1000 or len(states) < 100:
        raise vlib.Infra("too few transitions generated: %d states, %d transitions" % (len(states), len(edges)))
    if len(states) != gen.distinct:
        raise vlib.Infra("state keys are not unique (fingerprint collision?): %d keys for %d distinct states" % (len(states), gen.distinct))
    missing = {d for (_, _, d) in edges if d not in states} | {s for (s, _, _) in edges if s not in states}
    if missing:
        raise vlib.Infra("%d transition endpoints without a state line" % len(missing))
    skeys = sorted(states)
    sid = {k: i for i, k in enumerate(skeys)}
    inits = [k for k in skeys if states[k].get("init")]
    if len(inits) != 1:
        raise vlib.Infra("expected one initial state, got %d" % len(inits))
    acts, aid = [], {}
    E = []
    g = vlib.Graph()
    g.init = [inits[0]]
    eidx = {}
    for (s, ak, d) in sorted(set(edges)):
        if ak not in aid:
            aid[ak] = len(acts)
            acts.append(acttext[ak])
        eidx[(s, len(g.out.setdefault(s, [])))] = len(E)
        g.out[s].append((d, ak))
        E.append([sid[s], aid[ak], sid[d]])
    walks = cover_walks(g, eidx, inits[0], 250, rng)
    covered = {e for w in walks for e in w}
    reachable = set()
    stack = [inits[0]]
    while stack:
        s = stack.pop()
        if s in reachable:
            continue
        reachable.add(s)
        stack.extend(d for d, _ in g.out.get(s, []))
    want = {i for i, e in enumerate(E) if skeys[e[0]] in reachable}
    if covered != want:
        raise vlib.Infra("edge cover incomplete: %d of %d" % (len(covered), len(want)))
    vlib.log("C12: %s: %d states, %d transitions, %d walks, %d steps (TLC %.1fs, parse+plan %.1fs)" % (
        gcfg, len(states), len(E), len(walks), sum(len(w) for w in walks), tparse - t0, time.time() - tparse))
    nm = names_of(os.path.join(SPEC_DIR, gcfg))
    return {"name": gcfg[:-4], "accts": nm["Accts"], "ctrs": nm["Ctrs"], "keys": nm["Keys"],
            "states": [obs_json(states[k]) for k in skeys], "acts": acts, "edges": E, "init": sid[inits[0]], "walks": walks}


def run(c):
    rng = random.Random(c.seed)
    thorough = c.tier == "thorough"
    c.rule = ("one evaluation = one step (a call into the real code followed by reading back every account, every storage key through a "
              "fresh handle and every open handle, compared with the reference layer of the specification's target state; state root "
              "after Update/Commit; a second StateDB at the committed root after Commit/Reopen); distinct = distinct TLC transitions "
              "(graph part) and distinct (walk, step) of the random driver")
    c.assumptions = ["in-memory key-value store (aergo-lib memorydb) stands for the disk store",
                     "usage protocol P1-P5 (StateBuffer.tla header): one live handle per contract, stack discipline of snapshots, "
                     "handles opened after a block snapshot die with a revert to it, Update/Commit invalidate snapshots, Commit follows Update",
                     "roots compared with the canonical sparse Merkle root of the contents (history independence, C10)",
                     "TLC as installed in /opt/veriftools (uses TLCExt!TLCFP and Json!ToJson)"]
    # 1. exhaustive design-level checks (VERIF_C12_FAST=1 skips them: a developer switch used while trying
    #    mutations of the code, the design-level runs do not depend on the code)
    if os.environ.get("VERIF_C12_FAST") == "1":
        c.notes.append("VERIF_C12_FAST=1: design-level TLC runs skipped")
    elif not thorough:
        res = vlib.tlc(SPEC_DIR, "MC_StateBuffer", "MC_StateBuffer.cfg", c.work, timeout=900)
        c.require_ok(res, "StateBuffer design: mechanism refines reference (1 account + 2 contracts, 1 key, 2 values, <=2 log entries, 2 snapshot levels)")
    else:
        for cfg, what in (("MC_StateBuffer_big.cfg", "StateBuffer design, 2 contracts, <=3 log entries, 2 snapshot levels"),
                          ("MC_StateBuffer_big2.cfg", "StateBuffer design, 2 keys per contract"),
                          ("MC_StateBuffer_big3.cfg", "StateBuffer design, 3 snapshot levels"),
                          ("MC_StateBuffer_big4.cfg", "StateBuffer design, two commit cycles on one StateDB")):
            res = vlib.tlc(SPEC_DIR, "MC_StateBuffer", cfg, c.work, timeout=2400)
            c.require_ok(res, what)
    # 2. generation: the complete transition graphs of the small instances
    gcfgs = ["Gen_StateBuffer_big.cfg", "Gen_StateBuffer_nest_big.cfg"] if thorough else ["Gen_StateBuffer.cfg", "Gen_StateBuffer_nest.cfg"]
    graphs = [gen_graph(c, cfg, rng) for cfg in gcfgs]
    rnd = dict(walks=64, ops=200, accts=3, ctrs=3, keys=4, vals=5, maxsnap=6, traced=12)
    if thorough:
        rnd.update(walks=600, ops=300, traced=30)
    inp = {"graphs": graphs, "salts": 1, "random": rnd}
    inpath = os.path.join(c.work, "sb_in.json")
    json.dump(inp, open(inpath, "w"))
    outpath = os.path.join(c.work, "sb_out.json")
    tracepath = os.path.join(c.work, "sb_trace.ndjson")
    tgo = time.time()
    rc, output = vlib.go_test("./state/", "^TestVerifStateBuffer$", env={"VERIF_IN": inpath, "VERIF_OUT": outpath,
                              "VERIF_TRACE": tracepath, "VERIF_SEED": c.seed, "VERIF_TIER": c.tier}, timeout=3000)
    vlib.log("C12: harness %.1fs" % (time.time() - tgo))
    r = c.absorb_go(outpath, output)
    if rc != 0 and not r.get("violations"):
        raise vlib.Infra("harness failed:\n" + output[-3000:])
    # the account value of the model is a record in the code: the model's PutAccount / "reads see the most recent write" at
    # the grain of the fields of types.State (every field x every other field changed x route through the working copy)
    foutpath = os.path.join(c.work, "sb_fields_out.json")
    rcf, outputf = vlib.go_test("./state/", "^TestVerifStateFields$", env={"VERIF_IN": inpath, "VERIF_OUT": foutpath,
                                "VERIF_SEED": c.seed, "VERIF_TIER": c.tier}, timeout=900)
    rf = c.absorb_go(foutpath, outputf)
    if rcf != 0 and not rf.get("violations"):
        raise vlib.Infra("field harness failed:\n" + outputf[-3000:])
    c.exhaustive = True
    c.extra["exhaustive_note"] = ("exhaustive over the abstract models %s: every one of their %d transitions (%d states) is on a replayed walk; "
                                  "the random driver (%d walks x %d calls, %d accounts, %d contracts, %d keys, nesting <= %d) is sampled"
                                  % (", ".join(gcfgs), sum(len(g["edges"]) for g in graphs), sum(len(g["states"]) for g in graphs),
                                     rnd["walks"], rnd["ops"], rnd["accts"], rnd["ctrs"], rnd["keys"], rnd["maxsnap"]))
    # 3. direction B: what the real code returned on the recorded random walks, validated by TLC
    if not r.get("violations"):
        if not os.path.exists(tracepath):
            raise vlib.Infra("harness wrote no trace")
        ok, matched, total, tres = vlib.validate_trace(SPEC_DIR, "StateBufferTrace", "StateBufferTrace.cfg", c.work, tracepath, timeout=2400)
        c.add_tlc(tres, "trace validation of recorded random walks (StateBufferTrace)")
        lines = [l for l in open(tracepath) if l.strip()]
        if not ok:
            c.violation({"kind": "trace-rejected", "act": json.loads(lines[matched]).get("ev") if matched < len(lines) else None},
                        {"event_index": matched, "event": lines[matched] if matched < len(lines) else None,
                         "context": lines[max(0, matched - 5):matched]},
                        "StateBufferTrace rejects the recorded execution at event %d of %d: %s\n%s" % (
                            matched, total, lines[matched][:400] if matched < len(lines) else "", tres.out[-1500:]))
        else:
            c.traces_validated = rnd["traced"]
            # binding self-test: one read value altered => the trace must be rejected at that event
            idx = [i for i, l in enumerate(lines) if '"Reset"' not in l]
            i = idx[rng.randrange(len(idx))]
            e = json.loads(lines[i])
            cn = sorted(e["seen"]["store"])[rng.randrange(len(e["seen"]["store"]))]
            kn = sorted(e["seen"]["store"][cn])[rng.randrange(len(e["seen"]["store"][cn]))]
            e["seen"]["store"][cn][kn] = "v1" if e["seen"]["store"][cn][kn] != "v1" else "none"
            lines[i] = json.dumps(e) + "\n"
            bad = os.path.join(c.work, "sb_trace_bad.ndjson")
            open(bad, "w").writelines(lines[:i + 1])
            ok2, m2, t2, _ = vlib.validate_trace(SPEC_DIR, "StateBufferTrace", "StateBufferTrace.cfg", c.work, bad, timeout=2400)
            if ok2 or m2 != i:
                raise vlib.Infra("binding self-test failed: corrupted trace accepted=%s, stopped at %d, corrupted event %d" % (ok2, m2, i))
            c.notes.append("self-test: trace with one altered read rejected at event %d" % m2)
