"""C15 — governance accounting: stakes, votes, rankings, voting-power rank and names stay consistent.
spec/gov/Governance.tla; binding: an edge cover of the complete TLC state graph replayed on the real
system.ExecuteSystemTx / name.ExecuteNameTx (harness/contract/name), refusals tried in every state, and
TLC trace validation (GovernanceTrace.tla) of seeded random multi-account histories."""
import json, os, random, re, threading
import vlib

LEVEL = "model_checking"
MANIFEST = dict(
    category=LEVEL, design_ref="DESIGN.md §5 C15",
    text="Governance.tla (stake/unstake/voteBP/voteDAO/name create+update/transfer/block boundary with the shared lock timestamp, vote shrinking on unstake, "
         "2/3 threshold for parameter votes effective next block, a failed block discarded with its pending parameter values, proposed value 0 never accepted) is model-checked exhaustively (total = sum of stakes = system balance, tally = sum of votes, "
         "vote <= stake, ranking order, voting power = sum of votes, lock periods, minimum, exact unstake, name ownership and price). Every transition of the complete "
         "graphs of a 2-account/3-candidate(with twins)/1-parameter/1-name model and of a deeper 1-account model are replayed (edge cover) through the real ExecuteSystemTx/ExecuteNameTx on a real BlockState, "
         "comparing staking, votes, tallies, stored ranking, GetRankers, totals, balances, parameters (memory, pending, state), names and the in-memory voting power rank "
         "(powers, buckets, ranking tree, reward lottery) with a reload from state after every transaction and block; in every state every transaction the model refuses "
         "is tried and must be refused without effect. Seeded random histories (6 accounts, 5 candidates with twins, 3 parameter votes, 3 names, real block numbers "
         "around the 86400-block lock) are validated event by event by TLC against GovernanceTrace.tla.",
    note="in-package harness at the ExecuteSystemTx/ExecuteNameTx level (contract/system and contract/name build natively), in-memory state DB; "
         "admission is types.ValidateSystemTx only; a failed block is emulated as chain.executeBlock does it (block state dropped, voting power rank reloaded, CommitParams(false)); GASPRICE votes occur in the random histories only; SetContractOwner, name-to-name updates and contract-owned names are not exercised",
    technique="TLA+/TLC exhaustive model; replay of an edge cover of the TLC graph into the real contracts with refusal probing; TLC trace validation of random histories")
SPEC_DIR = os.path.join(vlib.SPEC, "gov")

# configuration of the random driver: must agree with the T* constants of GovernanceTrace.tla
RCFG = dict(
    accts=["a1", "a2", "a3", "a4", "a5", "a6"],
    cands={"c1": {"key": 1, "id": 1}, "c2": {"key": 2, "id": 2}, "c3": {"key": 2, "id": 3}, "c4": {"key": 3, "id": 4}, "c5": {"key": 3, "id": 5}},
    issues=["BP", "BPCOUNT", "STAKINGMIN", "GASPRICE", "NAMEPRICE"],
    dao_vals={"BPCOUNT": [0, 2, 5, 101], "STAKINGMIN": [0, 5000, 10000, 20000], "GASPRICE": [0, 50, 100], "NAMEPRICE": [0, 2, 3]},
    names=["n1", "n2", "n3"], init_bal=100000, delay=86400,
    defaults={"BPCOUNT": 3, "STAKINGMIN": 10000, "GASPRICE": 50, "NAMEPRICE": 1})


# candidates of the generation configurations (MC_Governance.tla: C3, C3Key, C3Id)
GCANDS = {"c1": {"key": 1, "id": 1}, "c2": {"key": 2, "id": 2}, "c3": {"key": 2, "id": 3}}


def cfg_constants(cfgfile):
    """Read the scalar constants of a .cfg and resolve the `X <- Name` ones through MC_Governance.tla (only the shapes used there)."""
    txt = open(os.path.join(SPEC_DIR, cfgfile)).read()
    mc = open(os.path.join(SPEC_DIR, "MC_Governance.tla")).read()
    scal = {m.group(1): int(m.group(2)) for m in re.finditer(r"(?m)^\s*(\w+)\s*=\s*(\d+)\s*$", txt)}
    sub = {m.group(1): m.group(2) for m in re.finditer(r"(?m)^\s*(\w+)\s*<-\s*(\w+)\s*$", txt)}
    return scal, sub, mc


def unesc(line, prefix):
    return line[len(prefix) + 1:-1].replace('\\"', '"').replace("\\\\", "\\")


def norm_state(s):
    """JSON state printed by MC_Governance!genState -> the harness' mState (candidates of parameter votes as strings)."""
    out = dict(h=s["h"], sys=s["sys"], nb=s["nb"], total=s["total"], param=s["param"], pnext=s["pnext"],
               names=s["names"] if isinstance(s["names"], dict) else {})      # the empty function is printed as []
    out["acct"] = {}
    for a, x in s["acct"].items():
        votes = {i: dict(set=v["set"], amt=v["amt"], cands=sorted(str(c) for c in v["cands"])) for i, v in x["vote"].items()}
        out["acct"][a] = dict(bal=x["bal"], amt=x["amt"], when=x["when"], ever=x["ever"], vpr=x["vpr"], vote=votes)
    out["tally"] = {}
    for i, t in s["tally"].items():
        if isinstance(t, list):      # a function with domain 1..n is printed as a sequence
            t = {str(k + 1): v for k, v in enumerate(t)}
        out["tally"][i] = {str(k): v for k, v in t.items()}
    out["vtotal"] = s["vtotal"] if isinstance(s["vtotal"], dict) else {}
    out["rank"] = {i: [str(c) for c in r] for i, r in s["rank"].items()}
    return out


def norm_op(o):
    op = dict(name=o["name"], a=o.get("a", ""), x=o.get("x", 0), cs=sorted(o.get("cs", [])), i=o.get("i", ""), v=o.get("v", 0),
              n=o.get("n", ""), to=o.get("to", ""), p=o.get("p", 0))
    return op


def build_graph(gen_out, max_ops):
    """Abstract states (the printed state without the exploration counter), transitions between them, refusals."""
    ops, opidx = [], {}
    for line in gen_out.splitlines():
        if line.startswith('"OPS|'):
            for o in json.loads(unesc(line, '"OPS')):
                op = norm_op(o)
                k = json.dumps(op, sort_keys=True)
                if k not in opidx:
                    opidx[k] = len(ops)
                    ops.append(op)
    if not ops:
        raise vlib.Infra("the generation run printed no alphabet")
    states, sidx, cache = [], {}, {}
    edges = {}          # src -> {(op, restart): dst}
    enabled = {}        # src -> set(op index)
    testable = set()    # abstract states seen with budget left: their set of enabled transactions is complete
    ntr = 0

    def sid(raw):
        k = json.dumps(raw, sort_keys=True)
        v = cache.get(k)
        if v is None:
            st = norm_state(raw)
            # a node is the abstract state plus, while a DiscardBlock is still possible, the block-start state it leads back to
            ak = json.dumps([st, raw.get("bs") or None], sort_keys=True)
            if ak not in sidx:
                sidx[ak] = len(states)
                states.append(st)
            v = cache[k] = (sidx[ak], raw["nops"])
        return v

    for line in gen_out.splitlines():
        if not line.startswith('"TR|'):
            continue
        ntr += 1
        src, act, dst = json.loads(unesc(line, '"TR'))
        (s, sn), (d, _) = sid(src), sid(dst)
        if sn < max_ops:
            testable.add(s)
        if act["name"] == "DiscardBlock":
            key = (-2, False)
        elif act["name"] == "NextBlock":
            key = (-1, False)      # with and without restart are the same abstract edge; the harness alternates
        else:
            oi = opidx[json.dumps(norm_op(act), sort_keys=True)]
            key = (oi, False)
            enabled.setdefault(s, set()).add(oi)
        prev = edges.setdefault(s, {}).get(key)
        if prev is not None and prev != d:
            raise vlib.Infra("the model is not deterministic: %r" % (key,))
        edges[s][key] = d
    return ops, states, edges, enabled, testable, ntr


def cover_paths(edges, init, rng):
    g = vlib.Graph()
    g.init = [init]
    for s, m in edges.items():
        g.out[s] = [(d, k) for k, d in sorted(m.items())]
    paths = vlib.edge_cover_paths(g, max_len=60, rng=rng)
    out = []
    for p in paths:
        steps = []
        for (s, k) in p:
            d, (oi, restart) = g.out[s][k]
            steps.append(dict(op=oi, restart=restart, dst=d))
        out.append(steps)
    return out


def run(c):
    rng = random.Random(c.seed)
    quick = c.tier == "quick"
    c.rule = ("a case is one transition of the TLC graph replayed on the real contracts (state compared field by field, memory vs reload), "
              "one refused transaction tried in a state, or one event of a random history; distinct = distinct (state, transaction, account layout) "
              "resp. (history, event)")
    c.assumptions = ["in-memory key-value store stands for the disk store", "governance transactions are executed as chain.executeGovernanceTx does "
                     "(snapshot, ExecuteSystemTx/ExecuteNameTx, stage or roll back), block boundary = ChainStateDB.Apply + system.CommitParams(true)",
                     "graph replay: model heights are mapped onto block numbers by three order-preserving maps that keep the lock predicate (43200 blocks per height, and gaps 86399,1,86399,.. / 1,86399,1,.. which place transactions one block inside and exactly at the end of a lock period); the random histories use real block numbers",
                     "graph replay under two amount scales: 1 model AERGO = 10^18 aer, and = ceil(2^80/20000) aer (consecutive model amounts differ in the byte length of their big-endian encoding); the random histories use 10^18",
                     "TLC 1.8.0"]
    # 1. + 2. design-level check and transition enumeration side by side (both are CPU bound, the machine has 16 cores)
    mc_cfg = "MC_Governance.cfg" if quick else "MC_Governance_big.cfg"
    gen_cfgs = (["Gen_Governance.cfg", "Gen_Governance_one.cfg", "Gen_Governance_disc.cfg"] if quick else
                ["Gen_Governance_big.cfg", "Gen_Governance_one_big.cfg", "Gen_Governance_disc_big.cfg"])
    box = {}

    def job(key, cfg, sub, workers):
        def f():
            try:
                box[key] = vlib.tlc(SPEC_DIR, "MC_Governance", cfg, os.path.join(c.work, sub), workers=workers, timeout=1500 if quick else 3000)
            except Exception as e:      # noqa
                box[key] = e
        t = threading.Thread(target=f)
        t.start()
        return t
    th = job("mc", mc_cfg, "mc", 8)
    gth = [job(g, g, "gen%d" % gi, 3) for gi, g in enumerate(gen_cfgs)]
    graphs, notes = [], []
    for gi, gen_cfg in enumerate(gen_cfgs):
        gth[gi].join()
        gen = box.pop(gen_cfg)
        if isinstance(gen, Exception):
            raise vlib.Infra("TLC (%s) failed to run: %s" % (gen_cfg, gen))
        c.require_ok(gen, "Governance transition enumeration (%s)" % gen_cfg)
        scal, _, _ = cfg_constants(gen_cfg)
        ops, states, edges, enabled, testable, ntr = build_graph(gen.out, scal["MaxOps"])
        gen.out = ""
        if ntr != gen.generated - 1 or ntr < 1000:
            raise vlib.Infra("transition log of %s incomplete: %d lines for %d generated states" % (gen_cfg, ntr, gen.generated))
        init = 0
        paths = cover_paths(edges, init, rng)
        # refusals: in every state whose set of enabled transactions is completely known, every other transaction of the
        # alphabet must be refused; each such state is probed once, on the first path step that leaves it
        nrefuse, probed = 0, set()
        for p in paths:
            cur = init
            for st in p:
                if cur in testable and cur not in probed:
                    probed.add(cur)
                    en = enabled.get(cur, set())
                    st["refuse"] = [i for i in range(len(ops)) if i not in en]
                    nrefuse += len(st["refuse"])
                cur = st["dst"]
        nedges = sum(len(m) for m in edges.values())
        gcfg = dict(accts=sorted(states[0]["acct"]), cands={k: v for k, v in GCANDS.items() if k in states[0]["tally"]["BP"]},
                    issues=["BP"] + sorted(i for i in states[0]["tally"] if i != "BP"),
                    dao_vals={i: sorted(int(k) for k in t) for i, t in states[0]["tally"].items() if i != "BP"},
                    names=sorted(states[0]["names"]), init_bal=scal["InitBal"], delay=scal["StakingDelay"], defaults=states[0]["param"])
        if sorted(gcfg["cands"]) != sorted(states[0]["tally"]["BP"]):
            raise vlib.Infra("candidate table of checks/c15.py does not match %s" % gen_cfg)
        graphs.append(dict(name=gen_cfg[:-4], cfg=gcfg, ops=ops, states=states, init=init, max_h=max(st["h"] for st in states), paths=paths))
        notes.append("%s: %d abstract states, %d transitions (edge cover by %d paths, %d steps), %d refusals (the rest of the %d-transaction alphabet) tried in %d states"
                     % (gen_cfg, len(states), nedges, len(paths), sum(len(p) for p in paths), nrefuse, len(ops), len(probed)))
    th.join()
    if isinstance(box["mc"], Exception):
        raise vlib.Infra("TLC (design check) failed to run: %s" % box["mc"])
    c.require_ok(box["mc"], "Governance design: accounting invariants, lock periods, minimum, exact unstake, name ownership (%s)" % mc_cfg)
    if not quick:
        deep = vlib.tlc(SPEC_DIR, "MC_Governance", "MC_Governance_deep.cfg", os.path.join(c.work, "mc"), workers=8, timeout=3000)
        c.require_ok(deep, "Governance design, deeper histories of the 2-account model (MC_Governance_deep.cfg)")
    inp = dict(graphs=graphs, rcfg=RCFG, random=dict(histories=16 if quick else 96, length=120 if quick else 160), shards=12)
    inpath = os.path.join(c.work, "gov_in.json")
    json.dump(inp, open(inpath, "w"))
    outpath = os.path.join(c.work, "gov_out.json")
    tracepath = os.path.join(c.work, "gov_trace.ndjson")
    rc, output = vlib.go_test("./contract/name/", "^TestVerifGovernance$", env={"VERIF_IN": inpath, "VERIF_OUT": outpath, "VERIF_TRACE": tracepath,
                              "VERIF_SEED": c.seed, "VERIF_TIER": c.tier}, timeout=3000)
    r = c.absorb_go(outpath, output)
    if rc != 0 and not r.get("violations"):
        raise vlib.Infra("harness failed:\n" + output[-3000:])
    c.exhaustive = True
    c.extra["exhaustive_note"] = "exhaustive over the abstract models " + "; ".join(notes) + "; the random histories are sampled"
    # 3. direction B: what the real contracts did in the random histories, validated by TLC
    if not os.path.exists(tracepath) or os.path.getsize(tracepath) == 0:
        raise vlib.Infra("the harness recorded no trace")
    lines = [l for l in open(tracepath) if l.strip()]
    ok, matched, total, tres = vlib.validate_trace(SPEC_DIR, "GovernanceTrace", "GovernanceTrace.cfg", os.path.join(c.work, "trace"), tracepath, timeout=2400)
    c.add_tlc(tres, "trace validation of the random histories (GovernanceTrace)")
    if tres.violation and tres.violation != "postcondition":
        # an invariant of the specification false on a state reconstructed from the real observations
        idx = max(len(tres.error_trace) - 2, 0)
        ev = json.loads(lines[idx]) if idx < len(lines) else {}
        c.violation({"kind": "trace-invariant", "invariant": tres.violation, "op": (ev.get("op") or {}).get("name", ev.get("ev"))},
                    {"event_index": idx, "event": ev, "context": lines[max(0, idx - 6):idx]},
                    "invariant %s of Governance.tla is false in the state the real contracts reached at event %d" % (tres.violation, idx))
    elif not ok:
        ev = json.loads(lines[matched]) if matched < len(lines) else {}
        start = max(i for i in range(matched + 1) if '"ev":"Reset"' in lines[i]) if matched < len(lines) else 0
        c.violation({"kind": "trace-rejected", "ev": ev.get("ev"), "op": (ev.get("op") or {}).get("name"), "ok": ev.get("ok")},
                    {"event_index": matched, "event": ev, "history": [json.loads(x).get("op") or json.loads(x).get("ev") for x in lines[start:matched]]},
                    "GovernanceTrace rejects the recorded execution at event %d of %d: the real contracts %s %s and reached a state the specification does not allow; event: %s"
                    % (matched, total, "accepted" if ev.get("ok") else "refused/handled", json.dumps(ev.get("op") or ev.get("ev")), lines[matched][:600] if matched < len(lines) else ""))
    else:
        c.traces_validated = sum(1 for l in lines if '"ev":"Reset"' in l)
        # binding self-test: corrupted traces must be rejected
        def corrupt(mut, what):
            bad = os.path.join(c.work, "gov_trace_bad.ndjson")
            ls = list(lines)
            idx = [i for i, l in enumerate(ls) if mut(json.loads(l)) is not None]
            if not idx:
                return
            i = idx[rng.randrange(len(idx))]
            ls[i] = json.dumps(mut(json.loads(ls[i]))) + "\n"
            open(bad, "w").writelines(ls)
            ok2, m2, _, _ = vlib.validate_trace(SPEC_DIR, "GovernanceTrace", "GovernanceTrace.cfg", os.path.join(c.work, "trace"), bad, timeout=2400)
            if ok2 or m2 > i:
                raise vlib.Infra("binding self-test failed: trace with %s at event %d accepted up to event %d" % (what, i, m2))
            c.notes.append("self-test: trace with %s at event %d rejected there" % (what, i))

        def flip_ok(e):
            if e.get("ev") == "Tx" and e["op"]["name"] in ("Stake", "Unstake", "VoteBP"):
                e["ok"] = not e["ok"]
                return e
            return None

        def bump_total(e):
            if e.get("ev") == "Tx" and e.get("ok"):
                e["obs"]["total"] += 1
                return e
            return None
        corrupt(flip_ok, "a flipped accept/refuse verdict")
        if not quick:
            corrupt(bump_total, "an altered staking total")
