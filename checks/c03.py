import random
import vlib
from checks import ledger_common as lc

PID = "C03"
LEVEL = "model_checking"
RULE = 'a case is one executed/offered transaction (ledger part) or one delivered step (block part); distinct as in C01/C05'
MANIFEST = dict(category=LEVEL, design_ref='DESIGN.md §5 C03',
    text="Ledger.tla's action property Trichotomy (a transaction is applied fully, or as fee+nonce only with an ERROR receipt, or not at all) is checked exhaustively by TLC; ChainDB.tla's FailedArrivalNoResidue covers blocks failing validation. On the real code every transaction of every generated block, and every offered transaction that was left out, is executed with the real executor on a parallel block state and the complete account trie (all keys, storage through storage roots, code hashes, nonces) is diffed before/after: rejected => empty diff; runtime error => only the sender, minus the fee, nonce = tx nonce, storage untouched; success => balanced effects of the transaction's kind. Block-level residue (bad tx, wrong state/receipts/tx root at any position incl. inside reorganisations) is replayed from ChainDB.tla behaviours.",
    note="VM stub for contract execution; in-memory verifdb store; stub consensus; fees are read from receipts, never predicted",
    technique='TLA+/TLC trichotomy model + per-transaction whole-trie diffs on the real executor + TLC trace validation + ChainDB.tla block-failure replays')


def run(c):
    rng = random.Random(c.seed)
    c.rule = RULE
    c.assumptions = ["VM stub interprets contract payloads (contract/contract.go Execute is the real code)", "in-memory store", "stub consensus", "TLC 1.8.0"]
    lc.design_checks(c)
    n, depth = (36, 18) if c.tier == "quick" else (400, 26)
    behs = lc.handmade() + lc.simulate(c, n, depth, c.seed)
    digests, traces = lc.run_ledger(c, PID, behs, nshards=6, validators=1 if c.tier == "quick" else 2)
    lc.validate_traces(c, traces, rng)
