"""C05 — chain database consistency after any history of block arrivals (spec/chain/ChainDB.tla)."""
import os, random
import vlib
from checks import chaindb_common as cc

LEVEL = "model_checking"
MANIFEST = dict(
    category=LEVEL, design_ref="DESIGN.md §5 C05",
    text="ChainDB.tla (arrival of blocks in any order over constant block trees with 2-3 branches, shared/conflicting txs, one invalid block "
         "at several positions, orphans, duplicates, LIB raises) is model-checked exhaustively for the coherence invariants; every transition of the "
         "generation model is replayed (edge cover) on a real node (real ChainService over an in-memory store, blocks produced by the real "
         "block-production path and really executed); after every arrival the Go transcription of `Coherent` is evaluated through the public lookup "
         "surface and best/height index/tx index/state root are compared with the specification state.",
    note="VM stub for contract execution (not used by these blocks); stub consensus with harness-controlled LIB; verifdb in-memory store; "
         "blocks contain plain transfers only",
    technique="TLA+/TLC exhaustive model of block arrival/reorganisation + replay of an edge cover of the TLC graph on the real chain service")


def run(c):
    rng = random.Random(c.seed)
    c.rule = ("behaviours = edge cover of the complete TLC transition graph of ChainDB.tla over a block tree (every transition on >=1 path); "
              "a case is one delivered step; distinct = distinct (validity assignment, invalidation kind, arrival prefix)")
    c.assumptions = ["stub consensus (LIB set by the harness), in-memory store, transfers only", "TLC 1.8.0"]
    for cfg, what in (("MC_ChainDB.cfg", "T1: 2 branches forking at height 1, shared tx, 5 validity assignments"),
                      ("MC_ChainDB_dup.cfg", "T0 with duplicates (each block may arrive twice)")):
        c.require_ok(vlib.tlc(cc.SPEC_DIR, "MC_ChainDB", cfg, c.work, timeout=900), what)
    if c.tier == "thorough":
        c.require_ok(vlib.tlc(cc.SPEC_DIR, "MC_ChainDB", "MC_ChainDB_T2.cfg", c.work, timeout=1500), "T2: three branches")
    trees = [("T0", 1, None)] if c.tier == "quick" else [("T0", 2, 1500), ("T1", 1, None), ("T2", 1, 1500)]
    for tree, arr, maxp in trees:
        behs, ntr, nst = cc.behaviours(c, tree, max_arrivals=arr, libs=(1,) if tree == "T0" else (1, 2), rng=rng, max_paths=maxp, timeout=1500)
        c.notes.append("tree %s: %d transitions, %d states, %d behaviours" % (tree, ntr, nst, len(behs)))
        cc.replay(c, tree, behs, cc.C05_KINDS, nshards=8)
        c.traces_validated += len(behs)
    c.exhaustive = True
