"""C20 — contract queries and view functions cannot change state.
The VM cannot be built here (no LuaJIT), so the binding is model extraction: tools/vmguards (go/ast + a small C
scanner) rebuilds VmGuards.tla from the CURRENT contract/*.go and contract/*.c on every run; TLC checks
ReadOnlyNoMutation / ViewImpliesReadOnly / NestingBalanced of spec/vm/ViewNesting.tla on it."""
import json, os, random, re, shutil, subprocess
import vlib

LEVEL = "model_checking"
MANIFEST = dict(
    category=LEVEL, design_ref="DESIGN.md §5 C20",
    text="tools/vmguards extracts from the current source text (vm_callback.go, vm.go, vm_state.go and the helpers they call; vm.c, system_module.c, "
         "contract_module.c, db_module.c, state_module.c) one control-flow graph per exported Go host callback, per Lua-visible C function, for (*executor).call "
         "and for the four entry points (Call, Create, Query, CheckFeeDelegation): read-only guards (isQuery / nestedView / amount sign / hardfork / SQL handle "
         "tests with their real boolean structure), mutating primitives (storage, balance, code, nonce, account, event, governance, SQL step), flag writes, defers, "
         "nested executions.  ViewNesting.tla interprets these graphs under completely nondeterministic contract code: call chains of Lua frames mixing view and "
         "non-view functions, queries, fee-delegation checks, transactions; TLC checks that no mutating primitive runs while the context is read-only, that every "
         "frame that has to be read-only runs with the flags set, that the view depth never drops below its entry value and the flags are never reset.  "
         "A TLC counterexample is a path through named source lines of the current tree and is the verdict.",
    note="model extraction, not execution: the extractor and its classification tables (tools/vmguards/classify.go) are in the trusted base; LuaJIT internals, sqlite "
         "and what happens below 'this function calls that primitive under these tests' are out of scope; traces_validated_against_impl = 0",
    technique="TLA+/TLC exhaustive model over control-flow graphs extracted from the current source; non-vacuity by node coverage; binding self-test by built-in source mutations")
SPEC_DIR = os.path.join(vlib.SPEC, "vm")
TOOL_DIR = os.path.join(vlib.VERIF, "tools", "vmguards")
PROPS = ("ReadOnlyNoMutation", "ViewImpliesReadOnly", "NestingBalanced")

# built-in source mutations for the binding self-test: (name, file, regex, replacement)
SELF_MUTATIONS = [
    ("setdb-guard-removed", "vm_callback.go",
     r'\tif ctx\.isQuery == true \|\| ctx\.nestedView > 0 \{\n\t\treturn C\.CString\("\[System\.LuaSetDB\][^\n]*\n\t\}\n', ""),
    ("deldb-guard-and", "vm_callback.go",
     r'(if ctx\.isQuery == true) \|\| (ctx\.nestedView > 0 \{\n\t\treturn C\.CString\("\[System\.LuaDelDB\])', r"\1 && \2"),
    ("send-guard-ignores-view", "vm_callback.go",
     r'if \(ctx\.isQuery == true \|\| ctx\.nestedView > 0\) && amountBig\.Cmp\(zeroBig\) > 0 \{', "if ctx.isQuery == true && amountBig.Cmp(zeroBig) > 0 {"),
    ("dbexec-view-check-removed", "db_module.c",
     r'\tif \(luaCheckView\(getLuaExecContext\(L\)\)> 0\) \{\n\t\tluaL_error\(L, "not permitted in view function"\);\n\t\}\n', ""),
    ("call-view-depth-not-raised", "vm.go", r'\t\tce\.ctx\.nestedView\+\+\n', ""),
    ("query-context-not-query", "vm.go", r'\t\tisQuery:     true,\n', ""),
    ("viewend-double-decrement", "vm_callback.go", r'\tctx\.nestedView--\n\}', "\tctx.nestedView -= 2\n}"),
    ("sql-handle-always-writable", "vm_callback.go",
     r'\tif ctx\.isQuery == true \{\n\t\ttx, err = beginReadOnly\(aid\.String\(\), curContract\.rp\)\n\t\} else \{\n(\t\ttx, err = beginTx\(aid\.String\(\), curContract\.rp\)\n)\t\}', r"\1"),
]


def build_extractor(c):
    exe = os.path.join(c.work, "vmguards")
    r = subprocess.run(["go", "build", "-o", exe, "."], cwd=TOOL_DIR, env=vlib.goenv(), capture_output=True, text=True, timeout=900)
    if r.returncode != 0 or not os.path.exists(exe):
        raise vlib.Infra("extractor does not build:\n" + (r.stdout + r.stderr)[-3000:])
    return exe


def extract(exe, repo, outdir):
    """Returns (rc, text, model dict or None).  rc 0 = complete model, 3 = unknown helper / unsupported construct."""
    os.makedirs(outdir, exist_ok=True)
    r = subprocess.run([exe, "-repo", repo, "-out", outdir], capture_output=True, text=True, timeout=600)
    model = None
    jp = os.path.join(outdir, "vmguards.json")
    if os.path.exists(jp):
        model = json.load(open(jp))
    return r.returncode, r.stdout + r.stderr, model


def node_of(model, proc, pc):
    for p in model["procs"]:
        if p["name"] == proc and 1 <= pc <= len(p["nodes"]):
            return p["nodes"][pc - 1]
    return None


def replay_of(res, model):
    """TLC counterexample -> list of steps with source lines (the replay)."""
    steps = []
    viol = None
    for _act, st in res.error_trace:
        la = st.get("lastAct") or {}
        viol = st.get("viol") or viol
        e = {"step": la.get("name"), "proc": la.get("proc"), "isQuery": st.get("isQuery"), "nestedView": st.get("nestedView"), "depth": st.get("depth")}
        if la.get("name") == "Step":
            n = node_of(model, la.get("proc"), la.get("pc", 0)) or {}
            if n.get("k") in ("nd",) and not n.get("src"):
                continue                     # merged uninterpreted branches carry no source position
            e.update(node=n.get("k"), arg=n.get("a"), src=n.get("src"), text=n.get("txt", ""))
        elif la.get("name") == "LuaInvoke":
            e.update(amount_sign=la.get("pc"), stmt=la.get("k"))
        steps.append(e)
    return steps, viol


def tlc_verdict(c, res, model, what):
    """Clean -> True.  Property violated on the extracted model -> registers the violation, returns False."""
    c.add_tlc(res, what)
    if res.ok:
        return True
    if res.violation in PROPS and res.error_trace:
        steps, viol = replay_of(res, model)
        viol = viol or {}
        sig = {"kind": viol.get("kind"), "proc": viol.get("proc"), "class": viol.get("what"), "property": res.violation}
        path = " -> ".join("%s@%s" % (s.get("proc"), s["src"]) for s in steps if s.get("src") and s.get("node") in
                           ("test", "mut", "flag", "sqlopen", "sqlstep", "exec", "cb", "run", "mkrs"))
        last = steps[-1] if steps else {}
        last_src = next((s_.get("src") for s_ in reversed(steps) if s_.get("src")), None)
        text = ("%s violated on the model extracted from %s: %s in %s at %s (%s) with isQuery=%s nestedView=%s; path: %s" % (
            res.violation, vlib.REPO, viol.get("kind"), viol.get("proc"), viol.get("src") or ("after " + str(last_src)), viol.get("what"),
            last.get("isQuery"), last.get("nestedView"), path[-900:]))
        c.violation(sig, {"property": res.violation, "violation": viol, "cfg": res.cfg, "steps": steps}, text)
        return False
    raise vlib.Infra("TLC run '%s' (%s) gave no verdict: %s\n%s" % (what, res.cfg, res.violation, res.out[-3000:]))


def coverage(c, gen, model):
    """Non-vacuity: every guard was evaluated both ways, every mutating primitive was executed (outside read-only contexts)."""
    seen = {}
    n = 0
    for (s, a, d) in vlib.parse_transitions(gen.out):
        if a.get("name") != "Step":
            if a.get("name") == "LuaInvoke":
                c.count(("invoke", a.get("proc"), a.get("pc"), a.get("k")))
            continue
        n += 1
        key = (a["proc"], a["pc"])
        seen.setdefault(key, set()).add(d)
        c.count(("node", a["proc"], a["pc"], d, s[0], 1 if s[1] > 0 else 0))
    relevant = set(model["go_callbacks"]) | set(model["c_api"]) | {"executor.call", "lj_view_wrapper"}
    # per source position (a guard inlined into several processes is one guard).  Only "front" guards count: tests
    # of a flag that are not preceded by another test of the same flag (a test after the guard sees one value only).
    gsrc, msrc = {}, {}
    for p in model["procs"]:
        if p["name"] not in relevant:
            continue
        nodes = p["nodes"]
        front = set()
        for atom in ("isQuery", "nestedView"):
            seen_n, todo = set(), [p["entry"]]
            while todo:
                i = todo.pop()
                if i <= 0 or i in seen_n:
                    continue
                seen_n.add(i)
                nd = nodes[i - 1]
                if nd["k"] == "test" and nd["a"] == atom:
                    front.add(i)
                    continue
                todo += [nd["t"], nd["f"]]
        for i, nd in enumerate(nodes, 1):
            outs = seen.get((p["name"], i), set())
            if i in front:
                g = gsrc.setdefault(nd["src"] + " " + nd["a"], set())
                if nd["t"] in outs:
                    g.add(True)
                if nd["f"] in outs:
                    g.add(False)
            if nd["k"] in ("mut", "sqlstep"):
                msrc[nd["src"]] = msrc.get(nd["src"], False) or (p["name"], i) in seen
    missing = ["guard %s evaluated only to %s" % (k, sorted(v)) for k, v in sorted(gsrc.items()) if v != {True, False}]
    missing += ["mutating primitive at %s never executed" % k for k, v in sorted(msrc.items()) if not v]
    guards, muts = len(gsrc), len(msrc)
    c.extra["guards_covered_both_ways"] = guards - len([m for m in missing if m.startswith("guard")])
    c.extra["mutating_primitives_executed"] = muts - len([m for m in missing if m.startswith("mut")])
    return n, missing


def self_test_plan(c, rng, k):
    """Binding self-test: k built-in mutations (chosen by the seed) that apply to this tree."""
    src = os.path.join(vlib.REPO, "contract")
    order = list(SELF_MUTATIONS)
    rng.shuffle(order)
    plan = []
    for name, fn, pat, rep in order:
        if len(plan) >= k:
            break
        p = os.path.join(src, fn)
        if not os.path.exists(p):
            continue
        new, cnt = re.subn(pat, rep, open(p, encoding="utf-8", errors="replace").read(), count=1)
        if cnt != 1:
            c.notes.append("self-test mutation %s does not apply to this tree (skipped)" % name)
            continue
        plan.append((name, fn, new))
    if not plan:
        raise vlib.Infra("binding self-test: no built-in mutation applies to this tree")
    return plan


def self_test_one(c, exe, name, fn, new):
    """A mutated scratch copy of contract/ must be rejected by the same pipeline (extractor + TLC)."""
    src = os.path.join(vlib.REPO, "contract")
    root = os.path.join(c.work, "st-" + name)
    cdir = os.path.join(root, "contract")
    os.makedirs(cdir)
    for f in os.listdir(src):
        if f.endswith((".go", ".c")) and not f.endswith("_test.go") and os.path.isfile(os.path.join(src, f)):
            shutil.copy(os.path.join(src, f), os.path.join(cdir, f))
    open(os.path.join(cdir, fn), "w").write(new)
    rc, out, model = extract(exe, root, os.path.join(root, "gen"))
    if rc not in (0, 3) or model is None:
        raise vlib.Infra("self-test %s: extractor failed:\n%s" % (name, out[-2000:]))
    res = vlib.tlc(SPEC_DIR, "MC_ViewNesting", "ST_ViewNesting.cfg", os.path.join(root, "tlc"), workers=3, timeout=900,
                   files={"VmGuards.tla": os.path.join(root, "gen", "VmGuards.tla")})
    if res.violation not in PROPS:
        raise vlib.Infra("binding self-test failed: source mutation '%s' was not rejected (%s)\n%s" % (name, res.violation, res.out[-1500:]))
    shutil.rmtree(root, ignore_errors=True)
    return "self-test: source mutation '%s' rejected (%s)" % (name, res.violation)


def run(c):
    rng = random.Random(c.seed)
    thorough = c.tier == "thorough"
    c.rule = ("a case is one executed node of an extracted control-flow graph in one context (read-only flags, successor) in the coverage run, or one host-API "
              "invocation shape (function, amount sign, statement kind); distinct = distinct (process, node, successor, isQuery, view depth > 0)")
    c.assumptions = ["the extractor tools/vmguards and its classification tables are trusted (model extraction: the VM cannot be built without LuaJIT)",
                     "hardfork version 5 (current); amounts of any sign; call chains of <= %d Lua frames" % (4 if thorough else 2),
                     "restoring a recovery point / dropping events back to a count taken inside the read-only section is the identity when nothing was written in between",
                     "sqlite refuses writes on a read-only connection; LuaJIT brackets every view function with lj_internal_view_start/_end, also on errors",
                     "getLuaExecContext does not fail while a contract function runs", "TLC 1.8.0"]
    if os.environ.get("VERIF_REPLAY"):
        c.notes.append("replay %s: a C20 replay is a path through source lines; re-checking it = re-extracting the model from the "
                       "current tree and re-running TLC, which is what this run does" % os.environ["VERIF_REPLAY"])
    exe = build_extractor(c)
    gen_dir = os.path.join(c.work, "gen")
    rc, out, model = extract(exe, vlib.REPO, gen_dir)
    vlib.log(out.strip()[-1500:])
    if rc == 3:
        raise vlib.Infra("the model cannot be extracted completely from this tree (update tools/vmguards/classify.go):\n" + out[-3000:])
    if rc != 0 or model is None:
        raise vlib.Infra("extractor failed (rc=%d):\n%s" % (rc, out[-3000:]))
    files = {"VmGuards.tla": os.path.join(gen_dir, "VmGuards.tla")}
    c.extra["extracted"] = dict(processes=len(model["procs"]), go_callbacks=len(model["go_callbacks"]), c_api=len(model["c_api"]),
                                nodes=sum(len(p["nodes"]) for p in model["procs"]), flag_writes=model.get("flag_writes") or [], facts=model["facts"],
                                unknown_after_mutation=[u for u in (model.get("unknowns") or []) if not u["before_mut"]])
    # all TLC runs are independent: start them together (few workers each, the machine is shared)
    import concurrent.futures
    cfg = "MC_ViewNesting_big.cfg" if thorough else "MC_ViewNesting.cfg"
    plan = self_test_plan(c, rng, 5 if thorough else 2)
    with concurrent.futures.ThreadPoolExecutor(max_workers=4) as ex:
        f_mc = ex.submit(vlib.tlc, SPEC_DIR, "MC_ViewNesting", cfg, os.path.join(c.work, "mc"), workers=6, timeout=3000, files=files)
        f_gen = ex.submit(vlib.tlc, SPEC_DIR, "MC_ViewNesting", "Gen_ViewNesting.cfg", os.path.join(c.work, "cov"), workers=1, timeout=1500, files=files)
        f_st = [ex.submit(self_test_one, c, exe, *pl) for pl in plan]
        f_obs = ex.submit(vlib.tlc, SPEC_DIR, "MC_ViewNesting", "Obs_ViewNesting.cfg", os.path.join(c.work, "obs"), workers=3,
                          timeout=1500, files=files) if thorough else None
        # 1. exhaustive check of the extracted model
        res = f_mc.result()
        if not tlc_verdict(c, res, model, "read-only contexts never reach a mutating primitive; view nesting balanced (extracted model)"):
            return
        c.exhaustive = True
        c.extra["exhaustive_note"] = ("exhaustive over the extracted control-flow graphs (every path of every exported callback / Lua-visible C function), all "
                                      "context kinds, amount signs {-1,0,1}, call chains of <= %d Lua frames; contract code fully nondeterministic" % (4 if thorough else 2))
        # 2. coverage / non-vacuity
        gen = f_gen.result()
        c.require_ok(gen, "node coverage of the extracted graphs (call chains of 1 frame)")
        n, missing = coverage(c, gen, model)
        if n < 500:
            raise vlib.Infra("coverage run printed too few transitions: %d" % n)
        if missing:
            raise vlib.Infra("the extracted model is (partly) vacuous:\n" + "\n".join(missing[:20]))
        for p in model["procs"]:
            if p["kind"] == "gocb" and len(p["nodes"]) > 1:
                c.sample({"process": p["name"], "nodes": len(p["nodes"]),
                          "guards": [n_["src"] for n_ in p["nodes"] if n_["k"] == "test" and n_["a"] in ("isQuery", "nestedView")][:4],
                          "mutations": [n_["src"] + " " + n_["a"] for n_ in p["nodes"] if n_["k"] == "mut"][:4]})
        # 3. binding self-test
        for f in f_st:
            c.notes.append(f.result())
        # 4. observation (no verdict): the frozen hardfork-4 behaviour
        if f_obs is not None:
            obs = f_obs.result()
            c.add_tlc(obs, "observation: hardfork 4 with negative amounts (no verdict)")
            if obs.violation in PROPS:
                steps, viol = replay_of(obs, model)
                c.notes.append("observation (hardfork 4 only, not a verdict): %s in %s at %s -- a negative decimal amount passes transformAmount and "
                               "sendBalance before hardfork 5" % ((viol or {}).get("kind"), (viol or {}).get("proc"), (viol or {}).get("src")))
            elif obs.ok:
                c.notes.append("observation: hardfork 4 with negative amounts is clean")
